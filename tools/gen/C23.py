#!/usr/bin/env python3
"""C23: inventory of nondeterminism call sites in /repo/src -> lean/MvModel/Gen/C23.lean.

Every occurrence of a source of run-to-run variation outside `#[cfg(test)]` code is recorded as
(file, enclosing item, kind, count):
  clock    wall clock reads            SystemTime::now, Utc::now, OffsetDateTime::now_utc
  mono     monotonic clock reads       Instant::now
  rng      random numbers              Uuid::new_v4, OsRng, thread_rng, rand::random, from_entropy
  tmp      temporary names             TempDir::new, tempdir(), NamedTempFile, tempfile::Builder, temp_dir()
  thread   concurrency                 thread::spawn, thread::scope, Builder::new().spawn, rayon par_iter,
                                       tantivy Index::writer (multi-threaded indexer)
  hashser  HashMap/HashSet typed field of a struct/enum that derives Serialize (iteration order is
           serialised)
  env      process environment reads   env::var, env::var_os, env::vars, process::id
The model (MvModel/Determinism.lean) must declare an oracle for every entry, site by site (theorem
`Mv.Det.inventory_covered`, by `decide`): a new call site changes this file and breaks that proof."""
import os, re
from common import *

PATTERNS = [
    ("clock", r"SystemTime::now\s*\(|Utc::now\s*\(|Local::now\s*\(|OffsetDateTime::now_utc\s*\(|OffsetDateTime::now_local\s*\("),
    ("mono", r"Instant::now\s*\("),
    ("rng", r"Uuid::new_v4\s*\(|\bOsRng\b\s*\.|thread_rng\s*\(|rand::random\b|from_entropy\s*\(|getrandom::"),
    ("tmp", r"TempDir::new\s*\(|tempfile::tempdir\s*\(|\btempdir\s*\(\)|NamedTempFile::new|tempfile::Builder|env::temp_dir\s*\(|tempfile::tempfile\s*\("),
    ("thread", r"thread::spawn\s*\(|thread::scope\s*\(|thread::Builder::new\s*\(|\.par_iter\s*\(|\.into_par_iter\s*\(|\.par_chunks\s*\(|\.writer\s*\(\s*\d"),
    ("env", r"env::var\s*\(|env::var_os\s*\(|env::vars\s*\(|process::id\s*\("),
]


def blank_comments_and_strings(src):
    """same length text with comments and string literal contents replaced by spaces (newlines kept)"""
    out, i, n = [], 0, len(src)
    def blank(seg):
        return "".join("\n" if c == "\n" else " " for c in seg)
    while i < n:
        c = src[i]
        if src.startswith("//", i):
            j = src.find("\n", i); j = n if j < 0 else j
            out.append(blank(src[i:j])); i = j
        elif src.startswith("/*", i):
            depth, j = 1, i + 2
            while j < n and depth:
                if src.startswith("/*", j): depth += 1; j += 2
                elif src.startswith("*/", j): depth -= 1; j += 2
                else: j += 1
            out.append(blank(src[i:j])); i = j
        elif c == '"':
            j = i + 1
            while j < n and src[j] != '"':
                j += 2 if src[j] == "\\" else 1
            out.append('"' + blank(src[i + 1:j]) + '"'); i = j + 1
        elif c == "r" and re.match(r'r#*"', src[i:i + 8]) and (i == 0 or not (src[i - 1].isalnum() or src[i - 1] == "_")):
            m = re.match(r'r(#*)"', src[i:])
            close = '"' + m.group(1)
            j = src.find(close, i + len(m.group(0)))
            j = n if j < 0 else j + len(close)
            out.append(blank(src[i:j])); i = j
        elif c == "'" and re.match(r"'(\\.[^']*|[^'\\])'", src[i:i + 12]):
            m = re.match(r"'(\\.[^']*|[^'\\])'", src[i:i + 12])
            out.append(blank(m.group(0))); i += len(m.group(0))
        else:
            out.append(c); i += 1
    return "".join(out)


def match_brace(txt, i):
    depth = 0
    for j in range(i, len(txt)):
        if txt[j] == "{": depth += 1
        elif txt[j] == "}":
            depth -= 1
            if depth == 0: return j
    return len(txt) - 1


def strip_test_modules(txt):
    """blank out `#[cfg(test)] mod x { ... }` and `#[cfg(test)] fn`/impl items"""
    out = txt
    for m in list(re.finditer(r"#\[cfg\((?:all\()?test\b[^\]]*\]\s*(?:#\[[^\]]*\]\s*)*(?:pub(?:\([a-z]+\))?\s+)?(?:mod|fn|impl)\b[^{;]*\{", txt)):
        s, e = m.start(), match_brace(txt, m.end() - 1)
        out = out[:s] + "".join("\n" if c == "\n" else " " for c in txt[s:e + 1]) + out[e + 1:]
    return out


def items(txt):
    """(start, end, name) of every fn body and every struct/enum body, innermost last"""
    res = []
    for m in re.finditer(r"\bfn\s+([A-Za-z_]\w*)[^;{]*\{", txt):
        res.append((m.start(), match_brace(txt, m.end() - 1), "fn " + m.group(1)))
    for m in re.finditer(r"\b(struct|enum)\s+([A-Za-z_]\w*)[^;{(]*\{", txt):
        res.append((m.start(), match_brace(txt, m.end() - 1), m.group(1) + " " + m.group(2)))
    return res


def enclosing(its, pos):
    best = None
    for s, e, name in its:
        if s <= pos <= e and (best is None or s > best[0]):
            best = (s, e, name)
    return best[2] if best else "<top>"


def serialised_hash_fields(txt):
    """HashMap/HashSet fields of structs/enums whose derive list contains Serialize"""
    found = []
    for m in re.finditer(r"#\[derive\(([^\]]*)\)\]\s*(?:#\[[^\]]*\]\s*)*(?:pub(?:\([a-z]+\))?\s+)?(struct|enum)\s+([A-Za-z_]\w*)[^;{(]*\{", txt):
        if "Serialize" not in m.group(1):
            continue
        s, e = m.end() - 1, match_brace(txt, m.end() - 1)
        body = txt[s:e]
        # fields marked #[serde(skip)] / skip_serializing are not serialised
        for f in re.finditer(r"((?:#\[[^\]]*\]\s*)*)(?:pub(?:\([a-z]+\))?\s+)?([A-Za-z_]\w*)\s*:\s*([^,\n]*\b(?:HashMap|HashSet)\s*<)", body):
            attrs = f.group(1)
            if re.search(r"serde\([^)]*\bskip\b", attrs) or "skip_serializing)" in attrs:
                continue
            found.append((m.group(2) + " " + m.group(3), f.group(2)))
    return found


def run():
    root = os.path.join(REPO, "src")
    if not os.path.isdir(root):
        raise TranslateError("no src/ directory")
    sites = {}
    nfiles = 0
    for dp, dns, fns in os.walk(root):
        dns.sort()
        for fn in sorted(fns):
            if not fn.endswith(".rs"):
                continue
            rel = os.path.relpath(os.path.join(dp, fn), REPO)
            if rel.endswith("verif_hooks.rs") or "/tests/" in rel or rel.endswith("_tests.rs") or rel.endswith("/tests.rs"):
                continue
            nfiles += 1
            txt = strip_test_modules(blank_comments_and_strings(read(rel)))
            its = items(txt)
            for kind, pat in PATTERNS:
                for m in re.finditer(pat, txt):
                    key = (rel, enclosing(its, m.start()), kind)
                    sites[key] = sites.get(key, 0) + 1
            for owner, field in serialised_hash_fields(txt):
                key = (rel, owner + "." + field, "hashser")
                sites[key] = sites.get(key, 0) + 1
    if nfiles < 50:
        raise TranslateError(f"only {nfiles} source files found under src/")
    must = [("src/memvid/mutation.rs", "fn delete_frame", "clock"), ("src/search/tantivy/engine.rs", "fn create", "tmp"),
            ("src/types/memories_track.rs", "struct SlotIndex.entries", "hashser"), ("src/types/memory_card.rs", "fn build", "clock")]
    for k in must:
        if k not in sites:
            raise TranslateError(f"expected nondeterminism site not found (source shape changed?): {k}")
    lines = ["structure Site where", "  file : String", "  item : String", "  kind : String", "  count : Nat", "  deriving DecidableEq, Repr", "",
             "def sites : List Site := ["]
    ents = sorted(sites.items())
    for i, ((rel, item, kind), c) in enumerate(ents):
        lines.append(f'  ⟨"{rel}", "{item}", "{kind}", {c}⟩' + ("," if i + 1 < len(ents) else ""))
    lines.append("]")
    lines.append("")
    lines.append(f"def siteCount : Nat := {len(ents)}")
    return emit("C23", "\n".join(lines))

main(run)
