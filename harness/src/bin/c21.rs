//! C21 — doctor preserves committed data, heals, and is idempotent.
//! impl: Memvid::doctor on real .mv2 files (built, leaked with pending WAL records, and damaged in one
//! repairable structure located through the header/TOC), every option combination, in child processes;
//! model: drv_c21 (MvModel/Doctor.lean: probe -> plan -> execute over the abstract file condition);
//! oracle: active frames + payload hashes after doctor = what the builder was acknowledged, file opens,
//! verify(deep) = Passed, second run Clean (default options) / no-op for the same options, dry-run leaves
//! the bytes untouched.
use memvid_core::io::header::HeaderCodec;
use memvid_core::types::{DoctorOptions, FrameStatus, Toc};
use memvid_core::{Memvid, PutOptions};
use mvh::*;
use std::collections::BTreeMap;
use std::io::Read;
use std::path::{Path, PathBuf};
use std::process::{Command, Stdio};
use std::sync::atomic::{AtomicUsize, Ordering};
use std::sync::{Arc, Mutex};
use std::time::{Duration, Instant};

const HEADER_SIZE: usize = 4096;
const FOOTER_SIZE: usize = 56;

// =======================================================================================
// file builder (real API, runs in a child so that a leaked handle's lock dies with the process)
#[derive(Clone, Debug, PartialEq)]
struct Shape {
    seed: u64,
    /// puts before the first commit
    n1: usize,
    /// puts between first and second commit (0 = one commit only)
    n2: usize,
    /// committed frames deleted (tombstoned) before the last commit
    ndel: usize,
    /// acknowledged puts after the last commit, never committed (handle leaked)
    npend: usize,
    /// a delete acknowledged after the last commit, never committed
    pend_del: bool,
    lex: bool,
    vec: bool,
}

impl Shape {
    fn to_json(&self) -> Value {
        json!({"seed": self.seed, "n1": self.n1, "n2": self.n2, "ndel": self.ndel, "npend": self.npend,
               "pend_del": self.pend_del, "lex": self.lex, "vec": self.vec})
    }
    fn from_json(v: &Value) -> Shape {
        Shape {
            seed: v["seed"].as_u64().unwrap_or(1), n1: v["n1"].as_u64().unwrap_or(2) as usize,
            n2: v["n2"].as_u64().unwrap_or(0) as usize, ndel: v["ndel"].as_u64().unwrap_or(0) as usize,
            npend: v["npend"].as_u64().unwrap_or(0) as usize, pend_del: v["pend_del"].as_bool().unwrap_or(false),
            lex: v["lex"].as_bool().unwrap_or(true), vec: v["vec"].as_bool().unwrap_or(false),
        }
    }
    fn key(&self) -> String { self.to_json().to_string() }
}

fn words(rng: &mut Rng, n: usize) -> String {
    const W: &[&str] = &["quantum", "ledger", "harbor", "violet", "granite", "meadow", "signal", "copper", "lantern",
        "orbit", "thistle", "marble", "cinder", "willow", "anchor", "breeze", "cobalt", "ember", "fjord", "glacier"];
    let mut s = String::new();
    for i in 0..n {
        if i > 0 { s.push(' '); }
        s.push_str(*rng.pick::<&str>(W));
    }
    s
}

fn put_opts(ts: i64, uri: &str) -> PutOptions {
    let mut o = PutOptions::default();
    o.timestamp = Some(ts);
    o.uri = Some(uri.to_string());
    o.title = Some(format!("title of {uri}"));
    o.extract_triplets = false;
    o.extract_dates = false;
    o
}

/// builds the file; returns the acknowledged view: uri -> payload digest of every frame that must be active
fn build_file(path: &Path, sh: &Shape) -> Result<BTreeMap<String, String>, String> {
    let mut rng = Rng::new(sh.seed ^ 0xC21);
    let mut expect: BTreeMap<String, String> = BTreeMap::new();
    let mut mem = Memvid::create(path).map_err(|e| format!("create: {e}"))?;
    if sh.lex { mem.enable_lex().map_err(|e| format!("enable_lex: {e}"))?; }
    if sh.vec { mem.enable_vec().map_err(|e| format!("enable_vec: {e}"))?; }
    let mut k = 0usize;
    let mut put = |mem: &mut Memvid, rng: &mut Rng, expect: &mut BTreeMap<String, String>| -> Result<(), String> {
        let uri = format!("mv2://c21/{k}");
        let ts = 1_700_000_000 + (rng.below(5000) as i64);
        let payload: Vec<u8> = if k % 3 == 2 {
            let n = rng.usize(1, 600); let mut b = rng.bytes(n); b[0] = 0xFF; b
        } else {
            let n = rng.usize(3, 60);
            format!("note {k} {}", words(rng, n)).into_bytes()
        };
        if sh.vec && k % 2 == 0 {
            let e: Vec<f32> = (0..4).map(|i| (rng.below(200) as f32) / 8.0 - (i as f32)).collect();
            mem.put_with_embedding_and_options(&payload, e, put_opts(ts, &uri)).map_err(|e| format!("put emb {k}: {e}"))?;
        } else {
            mem.put_bytes_with_options(&payload, put_opts(ts, &uri)).map_err(|e| format!("put {k}: {e}"))?;
        }
        expect.insert(uri, b3short(&payload));
        k += 1;
        Ok(())
    };
    for _ in 0..sh.n1 { put(&mut mem, &mut rng, &mut expect)?; }
    mem.commit().map_err(|e| format!("commit 1: {e}"))?;
    for _ in 0..sh.n2 { put(&mut mem, &mut rng, &mut expect)?; }
    for d in 0..sh.ndel.min(sh.n1) {
        mem.delete_frame(d as u64).map_err(|e| format!("delete {d}: {e}"))?;
        expect.remove(&format!("mv2://c21/{d}"));
    }
    if sh.n2 > 0 || sh.ndel > 0 { mem.commit().map_err(|e| format!("commit 2: {e}"))?; }
    for _ in 0..sh.npend { put(&mut mem, &mut rng, &mut expect)?; }
    if sh.pend_del {
        let victim = (sh.n1 - 1) as u64;
        if (victim as usize) >= sh.ndel.min(sh.n1) {
            mem.delete_frame(victim).map_err(|e| format!("pending delete {victim}: {e}"))?;
            expect.remove(&format!("mv2://c21/{victim}"));
        }
    }
    if sh.npend > 0 || sh.pend_del {
        // crash: the handle is never dropped (Drop would commit); the process exits right after
        std::mem::forget(mem);
    } else {
        drop(mem);
    }
    Ok(expect)
}

// =======================================================================================
// child side
fn errkind(e: &memvid_core::MemvidError) -> String {
    let d = format!("{e:?}");
    let k: String = d.chars().take_while(|c| c.is_ascii_alphanumeric()).collect();
    format!("err:{k}")
}

fn opts_of(bits: u32) -> DoctorOptions {
    DoctorOptions {
        rebuild_time_index: bits & 1 != 0, rebuild_lex_index: bits & 2 != 0, rebuild_vec_index: bits & 4 != 0,
        vacuum: bits & 8 != 0, dry_run: bits & 16 != 0, quiet: true,
    }
}

fn snake<T: serde::Serialize>(x: &T) -> String { serde_json::to_value(x).ok().and_then(|v| v.as_str().map(|s| s.to_string())).unwrap_or_else(|| "?".into()) }

fn doctor_obs(path: &Path, bits: u32) -> Value {
    let p = path.to_path_buf();
    let r = std::panic::catch_unwind(move || Memvid::doctor(&p, opts_of(bits)));
    match r {
        Err(e) => {
            let msg = if let Some(s) = e.downcast_ref::<&str>() { (*s).to_string() } else if let Some(s) = e.downcast_ref::<String>() { s.clone() } else { "panic".into() };
            json!({"status": "panic", "msg": msg})
        }
        Ok(Err(e)) => json!({"status": errkind(&e), "msg": e.to_string()}),
        Ok(Ok(rep)) => {
            let phases: Vec<String> = rep.plan.phases.iter().map(|p| {
                format!("{}[{}]", snake(&p.phase), p.actions.iter().map(|a| snake(&a.action)).collect::<Vec<_>>().join("+"))
            }).collect();
            let mut codes: Vec<String> = rep.plan.findings.iter().map(|f| snake(&f.code)).collect();
            codes.sort(); codes.dedup();
            let mut extra: Vec<String> = rep.findings.iter().map(|f| format!("{}:{}", snake(&f.code), f.message)).collect();
            extra.sort(); extra.dedup();
            let ran: Vec<String> = rep.phases.iter().map(|p| format!("{}={}", snake(&p.phase), snake(&p.status))).collect();
            json!({"status": snake(&rep.status), "noop": rep.plan.is_noop(), "plan": phases.join(" "), "codes": codes.join(","),
                   "extra": extra, "ran": ran.join(" "),
                   "verification": rep.verification.as_ref().map(|v| snake(&v.overall_status))})
        }
    }
}

/// verify(deep) + open + active frames, all on private copies (the file under doctor stays as doctor left it)
fn observe(path: &Path, tag: &str) -> Value {
    let vf = path.with_extension(format!("{tag}.vf.mv2"));
    let _ = std::fs::copy(path, &vf);
    let vfc = vf.clone();
    let verify = match std::panic::catch_unwind(move || Memvid::verify(&vfc, true)) {
        Ok(Ok(rep)) => {
            let failed: Vec<String> = rep.checks.iter().filter(|c| snake(&c.status) == "failed").map(|c| c.name.clone()).collect();
            if failed.is_empty() { snake(&rep.overall_status) } else { format!("{}:{}", snake(&rep.overall_status), failed.join("+")) }
        }
        Ok(Err(e)) => errkind(&e),
        Err(_) => "panic".into(),
    };
    let _ = std::fs::remove_file(&vf);
    let cp = path.with_extension(format!("{tag}.rw.mv2"));
    let _ = std::fs::copy(path, &cp);
    let cpc = cp.clone();
    let opened = std::panic::catch_unwind(move || -> Result<Value, String> {
        let mut mem = Memvid::open(&cpc).map_err(|e| errkind(&e))?;
        let frames = memvid_core::verif_hooks::verif_frames(&mem);
        let mut active: BTreeMap<String, String> = BTreeMap::new();
        let mut nactive = 0usize;
        for f in &frames {
            if f.status != FrameStatus::Active { continue; }
            nactive += 1;
            let key = f.uri.clone().unwrap_or_else(|| format!("#{}", f.id));
            let dig = match mem.frame_canonical_payload(f.id) { Ok(b) => b3short(&b), Err(e) => errkind(&e) };
            active.insert(key, dig);
        }
        let st = memvid_core::verif_hooks::verif_state(&mem);
        let ix = memvid_core::verif_hooks::verif_index_state(&mem);
        Ok(json!({"active": active, "nactive": nactive, "total": frames.len(), "time_index": st.time_index_present,
                  "lex_docs": ix.lex_num_docs, "vec": st.vec_entries.len(), "lex_enabled": st.lex_enabled, "vec_enabled": st.vec_enabled}))
    });
    let _ = std::fs::remove_file(&cp);
    let open = match opened { Ok(Ok(v)) => v, Ok(Err(e)) => json!({"error": e}), Err(_) => json!({"error": "panic"}) };
    json!({"verify": verify, "open": open})
}

fn child_main(argv: &[String]) -> ! {
    std::panic::set_hook(Box::new(|_| {}));
    match argv[2].as_str() {
        "build" => {
            let path = PathBuf::from(&argv[3]);
            let sh = Shape::from_json(&serde_json::from_str(&argv[4]).expect("shape json"));
            match build_file(&path, &sh) {
                Ok(expect) => println!("OBS {}", json!({"expect": expect})),
                Err(e) => println!("OBS {}", json!({"error": e})),
            }
        }
        "run" => {
            let path = PathBuf::from(&argv[3]);
            let bits: u32 = argv[4].parse().expect("bits");
            let before = std::fs::read(&path).map(|b| b3short(&b)).unwrap_or_default();
            let d1 = doctor_obs(&path, bits);
            let after = std::fs::read(&path).map(|b| b3short(&b)).unwrap_or_default();
            let o1 = observe(&path, "o1");
            // second run: the same options on the file itself, the default options on a copy
            let cp = path.with_extension("again.mv2");
            let _ = std::fs::copy(&path, &cp);
            let d2 = doctor_obs(&path, bits);
            let o2 = observe(&path, "o2");
            let d2d = doctor_obs(&cp, bits & 16);
            let _ = std::fs::remove_file(&cp);
            println!("OBS {}", json!({"d1": d1, "unchanged": before == after, "o1": o1, "d2": d2, "o2": o2, "d2d": d2d}));
        }
        "observe" => {
            let path = PathBuf::from(&argv[3]);
            println!("OBS {}", observe(&path, "o0"));
        }
        _ => {}
    }
    std::process::exit(0);
}

fn run_child(args: &[String]) -> Result<Value, String> {
    let exe = std::env::current_exe().map_err(|e| e.to_string())?;
    let mut ch = Command::new(exe).arg("child").args(args).stdin(Stdio::null()).stdout(Stdio::piped()).stderr(Stdio::null())
        .spawn().map_err(|e| e.to_string())?;
    let so = ch.stdout.take();
    let reader = std::thread::spawn(move || { let mut out = String::new(); if let Some(mut so) = so { let _ = so.read_to_string(&mut out); } out });
    let t0 = Instant::now();
    loop {
        match ch.try_wait() {
            Ok(Some(_)) => break,
            Ok(None) => {
                if t0.elapsed() > Duration::from_secs(120) { let _ = ch.kill(); let _ = ch.wait(); return Err("hang".into()); }
                std::thread::sleep(Duration::from_millis(3));
            }
            Err(e) => return Err(e.to_string()),
        }
    }
    let out = reader.join().unwrap_or_default();
    for line in out.lines() {
        if let Some(j) = line.strip_prefix("OBS ") {
            return serde_json::from_str(j).map_err(|e| e.to_string());
        }
    }
    Err("died".into())
}

// =======================================================================================
// damage, located through the header and the TOC of the intact file
#[derive(Clone, Debug, PartialEq)]
enum Damage {
    None,
    /// header.footer_offset replaced: 0 = one byte early, 1 = one byte late, 2 = zero, 3 = beyond the file,
    /// 4 = the header's own end (4096), 5 = points at the commit footer
    HdrPtr(u8),
    /// byte `i` of header.toc_checksum flipped
    HdrTocSum(u8),
    /// byte of the TOC's own trailing checksum flipped (also invalidates the footer hash over the TOC)
    TocSum(u8),
    /// commit footer: 0 = magic, 1 = toc_len, 2 = toc_hash, 3 = generation
    Footer(u8),
    /// index segment: 0 = time, 1 = lex (Tantivy segment), 2 = vec; byte at fraction num/8 of the segment flipped
    Index(u8, u8),
}

impl Damage {
    fn to_json(&self) -> Value {
        match *self {
            Damage::None => json!({"k": "none"}),
            Damage::HdrPtr(v) => json!({"k": "hdr-ptr", "v": v}),
            Damage::HdrTocSum(i) => json!({"k": "hdr-tocsum", "v": i}),
            Damage::TocSum(i) => json!({"k": "toc-sum", "v": i}),
            Damage::Footer(p) => json!({"k": "footer", "v": p}),
            Damage::Index(w, n) => json!({"k": "index", "v": w, "n": n}),
        }
    }
    fn from_json(v: &Value) -> Damage {
        let x = v["v"].as_u64().unwrap_or(0) as u8;
        match v["k"].as_str().unwrap_or("none") {
            "hdr-ptr" => Damage::HdrPtr(x), "hdr-tocsum" => Damage::HdrTocSum(x), "toc-sum" => Damage::TocSum(x),
            "footer" => Damage::Footer(x), "index" => Damage::Index(x, v["n"].as_u64().unwrap_or(4) as u8), _ => Damage::None,
        }
    }
    fn name(&self) -> String {
        match *self {
            Damage::None => "none".into(), Damage::HdrPtr(v) => format!("hdr-ptr-{v}"), Damage::HdrTocSum(_) => "hdr-tocsum".into(),
            Damage::TocSum(_) => "toc-sum".into(), Damage::Footer(p) => format!("footer-{}", ["magic", "len", "hash", "gen"][(p % 4) as usize]),
            Damage::Index(w, _) => format!("index-{}", ["time", "lex", "vec"][(w % 3) as usize]),
        }
    }
}

struct Layout { len: usize, toc_off: usize, toc: Toc }

fn layout(bytes: &[u8]) -> Result<Layout, String> {
    let hb: &[u8; HEADER_SIZE] = bytes.get(..HEADER_SIZE).ok_or("short file")?.try_into().map_err(|_| "short file")?;
    let hdr = HeaderCodec::decode(hb).map_err(|e| format!("header: {e}"))?;
    let len = bytes.len();
    let toc_off = hdr.footer_offset as usize;
    if toc_off + FOOTER_SIZE > len { return Err("footer offset beyond file".into()); }
    let toc = Toc::decode(&bytes[toc_off..len - FOOTER_SIZE]).map_err(|e| format!("toc: {e}"))?;
    Ok(Layout { len, toc_off, toc })
}

/// None = the structure does not exist in this file
fn apply_damage(bytes: &mut Vec<u8>, lay: &Layout, d: &Damage) -> Option<String> {
    let fo = lay.len - FOOTER_SIZE;
    match *d {
        Damage::None => Some("nothing".into()),
        Damage::HdrPtr(v) => {
            let t = lay.toc_off as u64;
            let nv: u64 = match v % 6 { 0 => t - 1, 1 => t + 1, 2 => 0, 3 => lay.len as u64 + 1000, 4 => 4096, _ => fo as u64 };
            bytes[8..16].copy_from_slice(&nv.to_le_bytes());
            Some(format!("header.footer_offset {t} -> {nv}"))
        }
        Damage::HdrTocSum(i) => { let o = 48 + (i % 32) as usize; bytes[o] ^= 0x5A; Some(format!("header byte {o} flipped")) }
        Damage::TocSum(i) => { let o = fo - 32 + (i % 32) as usize; bytes[o] ^= 0x5A; Some(format!("toc checksum byte {o} flipped")) }
        Damage::Footer(p) => {
            let o = match p % 4 { 0 => fo + 3, 1 => fo + 9, 2 => fo + 20, _ => fo + 50 };
            bytes[o] ^= 0x5A;
            Some(format!("footer byte {o} flipped"))
        }
        Damage::Index(w, n) => {
            let (off, l) = match w % 3 {
                0 => lay.toc.time_index.as_ref().map(|m| (m.bytes_offset, m.bytes_length))?,
                1 => lay.toc.segment_catalog.tantivy_segments.first().map(|s| (s.common.bytes_offset, s.common.bytes_length))
                        .or_else(|| lay.toc.indexes.lex_segments.first().map(|s| (s.bytes_offset, s.bytes_length)))
                        .or_else(|| lay.toc.indexes.lex.as_ref().map(|m| (m.bytes_offset, m.bytes_length)))?,
                _ => lay.toc.indexes.vec.as_ref().map(|m| (m.bytes_offset, m.bytes_length))
                        .or_else(|| lay.toc.segment_catalog.vec_segments.first().map(|s| (s.common.bytes_offset, s.common.bytes_length)))?,
            };
            if l == 0 { return None; }
            let o = (off + (l * (n % 8) as u64) / 8) as usize;
            if o >= bytes.len() { return None; }
            bytes[o] ^= 0x5A;
            Some(format!("index {} byte {o} flipped (segment {off}+{l})", ["time", "lex", "vec"][(w % 3) as usize]))
        }
    }
}

fn scratch() -> PathBuf {
    static N: AtomicUsize = AtomicUsize::new(0);
    let base = std::env::temp_dir().join(format!("c21-{}-{}", std::process::id(), N.fetch_add(1, Ordering::SeqCst)));
    let _ = std::fs::create_dir_all(&base);
    base
}

fn main() {
    let argv: Vec<String> = std::env::args().collect();
    if argv.get(1).map(|s| s.as_str()) == Some("child") { child_main(&argv); }
    if argv.get(1).map(|s| s.as_str()) == Some("probe") {
        // exploration: one shape, every damage, a few option sets
        let sh = Shape::from_json(&serde_json::from_str(argv.get(2).map(|s| s.as_str()).unwrap_or("{}")).unwrap());
        let bitsets: Vec<u32> = argv.get(3).map(|s| s.split(',').map(|x| x.parse().unwrap()).collect()).unwrap_or(vec![0]);
        let dir = scratch();
        let base = dir.join("base.mv2");
        let b = run_child(&["build".into(), base.to_string_lossy().to_string(), sh.to_json().to_string()]);
        println!("build: {b:?}");
        let orig = std::fs::read(&base).unwrap();
        let lay = match layout(&orig) { Ok(l) => l, Err(e) => { println!("layout: {e}"); return; } };
        println!("len={} toc_off={} frames={} time={:?} lexsegs={} tantivy={} vec={:?} vecsegs={}", lay.len, lay.toc_off, lay.toc.frames.len(),
            lay.toc.time_index.as_ref().map(|m| (m.bytes_offset, m.bytes_length)), lay.toc.indexes.lex_segments.len(),
            lay.toc.segment_catalog.tantivy_segments.len(), lay.toc.indexes.vec.as_ref().map(|m| (m.bytes_offset, m.bytes_length)),
            lay.toc.segment_catalog.vec_segments.len());
        let expect: BTreeMap<String, String> = b.as_ref().ok().and_then(|v| serde_json::from_value(v["expect"].clone()).ok()).unwrap_or_default();
        let mut dmg = vec![Damage::None];
        for v in 0..6 { dmg.push(Damage::HdrPtr(v)); }
        dmg.push(Damage::HdrTocSum(3)); dmg.push(Damage::TocSum(5));
        for p in 0..4 { dmg.push(Damage::Footer(p)); }
        for w in 0..3 { for n in 0..8 { dmg.push(Damage::Index(w, n)); } }
        let only: Option<String> = argv.get(4).cloned();
        for d in &dmg {
            if let Some(o) = &only { if !d.name().starts_with(o.as_str()) { continue; } }
            for &bits in &bitsets {
                let mut by = orig.clone();
                let Some(what) = apply_damage(&mut by, &lay, d) else { println!("{}: n/a", d.name()); continue; };
                let f = dir.join("case.mv2");
                std::fs::write(&f, &by).unwrap();
                let t0 = Instant::now();
                let r = run_child(&["run".into(), f.to_string_lossy().to_string(), bits.to_string()]);
                println!("--- {} opts={bits} ({what}) {:?}", d.name(), t0.elapsed());
                match r {
                    Ok(v) => {
                        let fr = |o: &Value| -> String {
                            if let Some(e) = o["open"]["error"].as_str() { return format!("open-{e}"); }
                            let act: BTreeMap<String, String> = serde_json::from_value(o["open"]["active"].clone()).unwrap_or_default();
                            let same = act == expect;
                            format!("open-ok frames={} lex={} vec={} time={}", if same { "same".to_string() } else { format!("DIFF {:?}", act.keys().collect::<Vec<_>>()) }, o["open"]["lex_docs"], o["open"]["vec"], o["open"]["time_index"])
                        };
                        let ab = |x: &Value| -> String { x.as_str().unwrap_or("?").replace("header_healing", "HH").replace("wal_replay", "WR").replace("index_rebuild", "IR").replace("finalize", "FZ").replace("verify", "VF").replace("vacuum", "VA").replace("executed", "x").replace("skipped", "s").replace("failed", "F") };
                        println!("   d1={} ran[{}] codes[{}] extra{} msg={} | unch={} v1={} {} | d2={} ran[{}] d2d={} | v2={} {}",
                            v["d1"]["status"], ab(&v["d1"]["ran"]), v["d1"]["codes"].as_str().unwrap_or("?"), v["d1"]["extra"], v["d1"]["msg"].as_str().unwrap_or("-"),
                            v["unchanged"], v["o1"]["verify"], fr(&v["o1"]), v["d2"]["status"], ab(&v["d2"]["ran"]), v["d2d"]["status"], v["o2"]["verify"], fr(&v["o2"]));
                    }
                    Err(e) => println!("   child: {e}"),
                }
            }
        }
        let _ = std::fs::remove_dir_all(&dir);
        return;
    }
    let _ = (Arc::new(Mutex::new(0)), parse_args as fn() -> Args);
}
