/-
  Model of the snippet-slice code of `/repo/src/lex.rs`:
    compute_snippet_slices, sentence_start_before, sentence_end_after,
    prev_char_boundary, next_char_boundary, advance_boundary.

  Text = the UTF-8 bytes of the `&str` (`Bytes = List UInt8`); all indices are byte indices, as in
  the Rust.  `usize` arithmetic and `&content[a..b]` slicing are panic-explicit: every function
  that can panic in Rust returns `Option _` with `none` = panic.

  Byte level vs char level.  The Rust iterates `char_indices()` and matches the ASCII chars
  '.', '!', '?', '\n'.  In valid UTF-8 every byte < 0x80 is a whole char and `char_indices` yields
  exactly the positions whose byte is not a continuation byte (0x80..0xBF), so the loops are
  modelled over bytes.  `MvModel/SnippetChars.lean` has the literal char-level version (decoding
  chars the way `str::Chars` does) and `MvModel/SnippetCharsLemmas.lean` (`computeC_eq`) proves that it
  equals this model on every valid UTF-8 text.

  `fx : Bool` selects the code variant:  `false` = the code as found (commit 397799f),
  `true` = with /verif/fixes/C35.diff (saturating add, `max_snippets == 0` gives no slices,
  an empty fallback slice is not emitted).
-/
import MvModel.Bytes
import MvModel.Gen.C35
namespace Mv.Snippet

/-- `usize::MAX` on the 64-bit targets memvid builds for -/
def USIZE_MAX : Nat := 2 ^ 64 - 1

def WINDOW_DIV : Nat := Mv.Gen.C35.WINDOW_DIV
def MERGE_GAP : Nat := Mv.Gen.C35.MERGE_GAP
theorem WINDOW_DIV_eq : WINDOW_DIV = 2 := by decide
theorem MERGE_GAP_eq : MERGE_GAP = 20 := by decide

/-- UTF-8 continuation byte `10xxxxxx` (Rust: `(b as i8) < -0x40`) -/
def isCont (b : UInt8) : Bool := 0x80 ≤ b && b < 0xC0

/-- `str::is_char_boundary` -/
def isCharBoundary (c : Bytes) (i : Nat) : Bool :=
  if i = 0 then true
  else match c[i]? with
    | none => i == c.length
    | some b => !isCont b

/-- `u8::is_ascii_whitespace`: space, \t, \n, \x0C, \r -/
def isAsciiWs (b : UInt8) : Bool := b == 0x20 || b == 0x09 || b == 0x0A || b == 0x0C || b == 0x0D

/-- `matches!(ch, '.' | '!' | '?' | '\n')` in sentence_start_before (set taken from the source) -/
def isStartBreak (b : UInt8) : Bool := Mv.Gen.C35.START_BREAKS.contains b
/-- `matches!(ch, '.' | '!' | '?')` in sentence_end_after -/
def isEndBreak (b : UInt8) : Bool := Mv.Gen.C35.END_BREAKS.contains b
/-- `ch == '\n'` in sentence_end_after -/
def isEndStop (b : UInt8) : Bool := b == Mv.Gen.C35.END_STOP

/-- every char the two scans look for is ASCII (what the byte-level scan relies on); fails to
    elaborate if the source's char sets change to something non-ASCII -/
theorem breaks_ascii :
    (Mv.Gen.C35.START_BREAKS.all (· < 0x80)) ∧ (Mv.Gen.C35.END_BREAKS.all (· < 0x80)) ∧
    Mv.Gen.C35.END_STOP < 0x80 := by decide

/-- `&content[a..b]` does not panic -/
def sliceOk (c : Bytes) (a b : Nat) : Bool :=
  decide (a ≤ b) && decide (b ≤ c.length) && isCharBoundary c a && isCharBoundary c b

/-- the `while idx > 0 && !is_char_boundary(idx) { idx -= 1 }` loop -/
def prevLoop (c : Bytes) : Nat → Nat
  | 0 => 0
  | i + 1 => if isCharBoundary c (i + 1) then i + 1 else prevLoop c i

/-- `prev_char_boundary` -/
def prevCharBoundary (c : Bytes) (idx : Nat) : Nat :=
  prevLoop c (if idx > c.length then c.length else idx)

/-- the `while idx < len && !is_char_boundary(idx) { idx += 1 }` loop; fuel = `len - idx` is exact -/
def nextLoop (c : Bytes) : Nat → Nat → Nat
  | 0, idx => idx
  | f + 1, idx => if idx < c.length ∧ isCharBoundary c idx = false then nextLoop c f (idx + 1) else idx

/-- `next_char_boundary` -/
def nextCharBoundary (c : Bytes) (idx : Nat) : Nat :=
  let idx := if idx > c.length then c.length else idx
  nextLoop c (c.length - idx) idx

/-- the `for (pos, ch) in content[..idx].char_indices()` loop of sentence_start_before:
    `candidate = Some(pos + 1)` at every break char -/
def lastBreak : Bytes → Nat → Option Nat → Option Nat
  | [], _, cand => cand
  | b :: rest, pos, cand => lastBreak rest (pos + 1) (if isStartBreak b then some (pos + 1) else cand)

/-- `while pos < len && bytes[pos].is_ascii_whitespace() { pos += 1 }` (first arg = `bytes[pos..]`) -/
def skipWs : Bytes → Nat → Nat
  | [], pos => pos
  | b :: rest, pos => if isAsciiWs b then skipWs rest (pos + 1) else pos

/-- `sentence_start_before`; outer `none` = panic (the `&content[..idx]` slice) -/
def sentenceStartBefore (c : Bytes) (idx : Nat) : Option (Option Nat) :=
  if idx = 0 then some (some 0)
  else
    let idx := prevCharBoundary c (min idx c.length)
    if sliceOk c 0 idx = false then none
    else match lastBreak (c.take idx) 0 none with
      | none => some none
      | some pos =>
        let pos := nextCharBoundary c pos
        let pos := skipWs (c.drop pos) pos
        some (some (prevCharBoundary c pos))

/-- the `for (offset, ch) in content[idx..].char_indices()` loop of sentence_end_after;
    second arg = remaining bytes, third = `global` -/
def scanEnd (c : Bytes) : Bytes → Nat → Option Nat
  | [], _ => none
  | b :: rest, g =>
    if isEndBreak b then some (nextCharBoundary c (g + 1))
    else if isEndStop b then some g
    else scanEnd c rest (g + 1)

/-- `sentence_end_after`; outer `none` = panic (the `&content[idx..]` slice) -/
def sentenceEndAfter (c : Bytes) (idx : Nat) : Option (Option Nat) :=
  if idx ≥ c.length then some (some c.length)
  else
    let idx := prevCharBoundary c idx
    if sliceOk c idx c.length = false then none
    else some (scanEnd c (c.drop idx) idx)

/-- the `for (offset, _) in content[start..].char_indices()` loop of advance_boundary:
    a char starts at every non-continuation byte -/
def advLoop (len : Nat) : Bytes → Nat → Nat → Nat → Nat
  | [], _, _, last => max len last
  | b :: rest, pos, w, last =>
    if isCont b then advLoop len rest (pos + 1) w last
    else match w with
      | 0 => pos
      | w' + 1 => advLoop len rest (pos + 1) w' pos

/-- `advance_boundary`; `none` = panic (the `&content[start..]` slice) -/
def advanceBoundary (c : Bytes) (start window : Nat) : Option Nat :=
  if start ≥ c.length then some c.length
  else if sliceOk c start c.length = false then none
  else some (advLoop c.length (c.drop start) start window c.length)

/-- `end + window / 2` (found: overflow-checked add, panics) / `end.saturating_add(window / 2)` (fixed) -/
def addUsize (fx : Bool) (a b : Nat) : Option Nat :=
  if fx then some (min (a + b) USIZE_MAX)
  else if a + b > USIZE_MAX then none else some (a + b)

/-- `last.1 + 20` (overflow-checked) -/
def addChecked (a b : Nat) : Option Nat := if a + b > USIZE_MAX then none else some (a + b)

/-- the per-occurrence window: `(snippet_start, snippet_end)` after sentence and char-boundary
    adjustment (before the emptiness test) -/
def windowOf (fx : Bool) (c : Bytes) (window : Nat) (s e : Nat) : Option (Nat × Nat) := do
  let ss0 := s - window / WINDOW_DIV                       -- saturating_sub
  let sum ← addUsize fx e (window / WINDOW_DIV)
  let se0 := min sum c.length
  let ss1 := match (← sentenceStartBefore c ss0) with | some a => a | none => ss0
  let se1 := match (← sentenceEndAfter c se0) with | some a => a | none => se0
  some (prevCharBoundary c ss1, nextCharBoundary c se1)

/-- what one non-empty window `(ss, se)` does to `merged` (`acc` is `merged` REVERSED, head =
    `merged.last()`): merge into the last slice when `ss <= last.1 + 20`, else push.
    `some (acc', pushed)`; `none` = panic (`last.1 + 20` overflow) -/
def place (c : Bytes) (acc : List (Nat × Nat)) (ss se : Nat) : Option (List (Nat × Nat) × Bool) :=
  match acc with
  | [] => some ([(min ss c.length, min se c.length)], true)
  | (ls, le) :: accRest =>
    match addChecked le MERGE_GAP with
    | none => none
    | some lim =>
      if ss ≤ lim then some ((ls, max le se) :: accRest, false)
      else some ((min ss c.length, min se c.length) :: acc, true)

/-- the `for &(start, end) in occurrences` loop; `acc` is `merged` reversed.
    Returning without consuming the rest = `break`. -/
def loop (fx : Bool) (c : Bytes) (window maxS : Nat) :
    List (Nat × Nat) → List (Nat × Nat) → Option (List (Nat × Nat))
  | [], acc => some acc
  | (s, e) :: rest, acc =>
    match windowOf fx c window s e with
    | none => none
    | some (ss, se) =>
      if se ≤ ss then loop fx c window maxS rest acc          -- `continue`
      else match place c acc ss se with
        | none => none
        | some (acc', pushed) =>
          if pushed && decide (acc'.length ≥ maxS) then some acc'   -- `break`
          else loop fx c window maxS rest acc'

/-- the two fallback sites: `(0, advance_boundary(content, 0, window))` -/
def fallback (fx : Bool) (c : Bytes) (window : Nat) : Option (List (Nat × Nat)) :=
  match advanceBoundary c 0 window with
  | none => none
  | some e => if fx && e == 0 then some [] else some [(0, e)]

/-- `compute_snippet_slices`; `none` = panic -/
def compute (fx : Bool) (c : Bytes) (occ : List (Nat × Nat)) (window maxS : Nat) :
    Option (List (Nat × Nat)) :=
  if c.isEmpty || (fx && maxS == 0) then some []
  else if occ.isEmpty then fallback fx c window
  else match loop fx c window maxS occ [] with
    | none => none
    | some acc => if acc.isEmpty then fallback fx c window else some acc.reverse

end Mv.Snippet
