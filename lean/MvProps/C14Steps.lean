/-
  C14Steps — the vector-index invariant `VInv` (MvProps/C14Lemmas.lean) through drop / open / crash
  recovery / vacuum / finalize / doctor / batch / ticket, one step of `Core.step`, whole histories.
-/
import MvProps.C14Lemmas
namespace Mv.Core

/-! ## G. drop / open / crash / vacuum / finalize / doctor -/

theorem commit_clean (m : Mem) (ft : Nat) (hi : Inv m) : (m.commit ft).1.dirty = false := by
  rcases commit_dirty m ft hi with h | ⟨h1, h2⟩
  · exact h
  · rw [h1]; exact h2

theorem dropHandle_vinv (m : Mem) (E : List (Option Emb)) (hv : VInv m E) (ft : Nat) :
    VInv (m.dropHandle ft) E ∧ (m.dropHandle ft).dirty = false := by
  unfold Mem.dropHandle
  split
  · exact ⟨commit_vinv m E hv ft, commit_clean m ft hv.inv⟩
  · rename_i h
    exact ⟨hv, by revert h; cases m.dirty <;> simp⟩

/-- what holds right after the first half of `open_locked` -/
structure VOpen (m0 : Mem) (E : List (Option Emb)) : Prop extends VBase m0 E where
  pi0 : m0.pendingInserts = 0
  pv : m0.pVec.getD [] = vecL m0
  /-- (only needed when nothing but `Lex` records is replayed; the repaired recovery switches vectors on before the manifest exists) -/
  g : OnlyLex m0.pending → m0.vecEnabled = m0.vecManifest
  lex : m0.lexEnabled = true
  b : vecL m0 ≠ [] → m0.vecEnabled = true
  b' : vecL m0 ≠ [] → m0.pVecMan = true
  clean : m0.dirty = false

theorem openLoad_vopen (m : Mem) (E : List (Option Emb)) (hv : VInv m E) : VOpen m.openLoad E := by
  have hvl : vecL m.openLoad = vecL m := by
    show (if m.pVecMan = true then m.pVec else none).getD [] = vecL m
    by_cases h : m.pVecMan = true
    · simp only [h, if_true]; exact hv.pv
    · simp only [h]
      cases hx : vecL m with
      | nil => rfl
      | cons a as => exact absurd (hv.b' (by simp [hx])) h
  exact {
    ok := hv.ok, lenE := hv.lenE, pend := hv.pend
    mem := fun e => by rw [hvl]; exact hv.mem e
    nodup := by rw [hvl]; exact hv.nodup
    pi0 := rfl
    pv := by rw [hvl]; exact hv.pv
    g := fun _ => rfl
    lex := rfl
    b := fun h => by rw [hvl] at h; exact hv.b' h
    b' := fun h => by rw [hvl] at h; exact hv.b' h
    clean := rfl }

theorem VOpen.quiet {m0 : Mem} {E : List (Option Emb)} (h : VOpen m0 E) (hq : OnlyLex m0.pending) : VInv m0 E :=
  { toVBase := h.toVBase
    pi := by rw [h.pi0, countInserts_onlyLex _ hq]
    pv := h.pv, g := h.g hq, lex := h.lex, d := fun _ => hq, b := h.b, b' := h.b'
    a := by rw [pendEmbs_onlyLex _ hq]; rintro ⟨x, hx, _⟩; cases hx }

theorem enableVecForEmbs_fields (ma : Mem) (embs : List VecEnt) :
    (ma.enableVecForEmbs embs).frames = ma.frames ∧ (ma.enableVecForEmbs embs).vec = ma.vec ∧
    (ma.enableVecForEmbs embs).lexEnabled = ma.lexEnabled ∧
    (embs ≠ [] → (ma.enableVecForEmbs embs).vecEnabled = true) ∧
    (ma.vecEnabled = true → (ma.enableVecForEmbs embs).vecEnabled = true) ∧
    (embs = [] → ma.enableVecForEmbs embs = ma) := by
  unfold Mem.enableVecForEmbs
  split
  · exact ⟨rfl, rfl, rfl, fun _ => rfl, fun _ => rfl, fun h => by rename_i hc; simp [h] at hc⟩
  · rename_i hc
    refine ⟨rfl, rfl, rfl, fun h => ?_, fun h => h, fun _ => rfl⟩
    cases hve : ma.vecEnabled with
    | true => rfl
    | false =>
      exfalso; apply hc
      have : embs.isEmpty = false := by
        cases hx : embs with
        | nil => exact absurd hx h
        | cons _ _ => rfl
      simp [this, hve]

/-- `recover_wal` (with repair 5c6fd4b): all pending records applied, index rebuilt, checkpoint -/
theorem recoverWal_vinv (m0 : Mem) (E : List (Option Emb)) (ho : VOpen m0 E) (ft : Nat) :
    VInv (m0.recoverWal ft) E := by
  unfold Mem.recoverWal
  split
  · rename_i he
    have hp : m0.pending = [] := by simpa using he
    have hq : OnlyLex m0.pending := by rw [hp]; intro r hr; cases hr
    exact (flushTantivy_vle m0 ft).vinv (ho.quiet hq)
  · obtain ⟨ma, δ, h1, _, _, _⟩ := applyRecords_view m0 m0.pending true ho.ok
    have ha := applied_spec m0 E ho.toVBase true ma δ h1
    obtain ⟨_, _, _, hne, hp, _, _, hve, _, _, _, hlex⟩ := applyRecords_vec m0 m0.pending true ma δ h1 ho.ok
    obtain ⟨ef, ev, el, e1, e2, e3⟩ := enableVecForEmbs_fields ma δ.embs
    simp only [h1]
    by_cases hd : δ.nonEmpty = true
    · simp only [hd, if_true]
      have hr := rebuilt_vinv m0 E ma δ ha (ma.enableVecForEmbs δ.embs) ef ev (el.trans (hlex.trans ho.lex)) (by
        rintro (h | h)
        · exact e1 h
        · apply e2
          rw [hve]; apply ho.b
          intro h0
          have := ha.sub
          rw [h0] at this
          exact h (List.eq_nil_of_sublist_nil this)) δ.inserted ft
      -- whatever follows the rebuild (sketch track, footer) touches nothing the invariant looks at
      generalize (ma.enableVecForEmbs δ.embs).rebuildIndexes δ.embs δ.inserted ft = A at hr ⊢
      exact hr.congr rfl rfl rfl rfl rfl rfl rfl rfl rfl (Or.inl rfl)
    · have hd' : δ.nonEmpty = false := by simpa using hd
      simp only [hd', Bool.false_eq_true, if_false]
      have hq : OnlyLex m0.pending := hne hd'
      have hembs : δ.embs = [] := by
        cases hx : δ.embs with
        | nil => rfl
        | cons a as =>
          obtain ⟨x, hx', _⟩ := ha.embsSome (by simp [hx])
          rw [pendEmbs_onlyLex _ hq] at hx'; cases hx'
      rw [e3 hembs]
      have h1v : VLe ma m0 := applied_onlyLex_vle m0 true ma δ h1 ho.ok hq
      have hq1 : OnlyLex (ma.flushTantivy ft).pending := by
        obtain ⟨l, hl, hpl⟩ := (flushTantivy_skel ma ft).pending
        rw [hpl, hp]
        intro r hr
        rcases List.mem_append.mp hr with hr | hr
        · exact hq r hr
        · exact hl r hr
      have hvi : VInv (ma.flushTantivy ft).checkpoint E :=
        (checkpoint_vle _ hq1).vinv ((VLe.trans (flushTantivy_vle ma ft) h1v).vinv (ho.quiet hq))
      generalize ma.flushTantivy ft = A at hvi ⊢
      exact hvi.congr rfl rfl rfl rfl rfl rfl rfl rfl rfl (Or.inl rfl)

theorem recoverWal_clean (m0 : Mem) (ft : Nat) (hc : m0.dirty = false) (hok : AllOk m0.frames.length m0.pending) :
    (m0.recoverWal ft).dirty = false := by
  unfold Mem.recoverWal
  split
  · unfold Mem.flushTantivy
    split
    · exact hc
    · split <;> exact hc
  · obtain ⟨ma, δ, h1, _, _, _⟩ := applyRecords_view m0 m0.pending true hok
    simp only [h1]
    rfl

theorem loadTracks_vopen (m0 : Mem) (E : List (Option Emb)) (ho : VOpen m0 E) : VOpen m0.loadTracks E :=
  { ok := ho.ok, lenE := ho.lenE, pend := ho.pend, mem := ho.mem, nodup := ho.nodup, pi0 := ho.pi0, pv := ho.pv, g := ho.g,
    lex := ho.lex, b := ho.b, b' := ho.b', clean := ho.clean }

/-- `open_locked`: whatever was pending is replayed, embeddings included -/
theorem openFrom_vinv (m : Mem) (E : List (Option Emb)) (hv : VInv m E) (ft : Nat) :
    VInv (m.openFrom ft) E ∧ (m.openFrom ft).dirty = false := by
  have ho := loadTracks_vopen _ E (openLoad_vopen m E hv)
  exact ⟨recoverWal_vinv m.openLoad.loadTracks E ho ft, recoverWal_clean m.openLoad.loadTracks ft rfl ho.ok⟩

theorem reopen_vinv (m : Mem) (E : List (Option Emb)) (hv : VInv m E) (a b : Nat) : VInv (m.reopen a b).1 E := by
  obtain ⟨h1, _⟩ := dropHandle_vinv m E hv a
  exact (openFrom_vinv _ E h1 b).1

theorem crash_vinv (m : Mem) (E : List (Option Emb)) (hv : VInv m E) (ft : Nat) : VInv (m.crash ft).1 E := by
  have h0 : VInv ({ m with queue := m.pQueue } : Mem) E := hv.congr rfl rfl rfl rfl rfl rfl rfl rfl rfl (Or.inl rfl)
  exact (openFrom_vinv _ E h0 ft).1

/-- `rebuild_indexes(&[], &[])` (finalize, vacuum, doctor) keeps the index as it is -/
theorem rebuildNil_vinv (m : Mem) (E : List (Option Emb)) (hv : VInv m E) (ft : Nat) : VInv (m.rebuildIndexes [] [] ft) E := by
  obtain ⟨rf, ⟨l, hl, rp⟩, rpi, rd, rlex, rve, rpvm, rT, rF⟩ := rebuildIndexes_vec m [] [] ft hv.lex
  have hents : ents m [] = vecL m := by
    unfold ents
    rw [List.append_nil, List.filter_eq_self]
    intro e he
    exact ((hv.mem e).mp he).1
  have hfacts : vecL (m.rebuildIndexes [] [] ft) = vecL m ∧ (m.rebuildIndexes [] [] ft).pVec.getD [] = m.pVec.getD [] ∧
      (m.rebuildIndexes [] [] ft).vecManifest = m.vecManifest := by
    by_cases hve : m.vecEnabled = true
    · obtain ⟨r1, r2, r3⟩ := rT hve
      refine ⟨?_, ?_, ?_⟩
      · unfold vecL; rw [r1]; exact hents
      · rw [r2, hv.pv]; exact hents
      · rw [r3, ← hv.g, hve]
    · have hve' : m.vecEnabled = false := by simpa using hve
      obtain ⟨r1, r2, r3⟩ := rF hve'
      have h0 : vecL m = [] := by
        cases hx : vecL m with
        | nil => rfl
        | cons a as => exact absurd (hv.b (by simp [hx])) hve
      refine ⟨?_, ?_, ?_⟩
      · unfold vecL; rw [r1]; exact h0.symm
      · rw [r2, hv.pv, h0]; rfl
      · rw [r3, ← hv.g, hve']
  have hle : VLe (m.rebuildIndexes [] [] ft) m := by
    refine ⟨by rw [rf], ?_, ?_, ?_, ?_, rve, hfacts.2.2, hfacts.1, hfacts.2.1, by rw [rlex, hv.lex], Or.inr (by rw [rpvm, hfacts.2.2])⟩
    · intro hok r hr
      rw [rp] at hr
      rcases List.mem_append.mp hr with hr | hr
      · exact hok r hr
      · rw [hl r hr]; trivial
    · rw [rp, pendEmbs_append, pendEmbs_onlyLex l hl, List.append_nil]
    · intro h; rw [rpi, rp, countInserts_append, countInserts_onlyLex l hl, h]; rfl
    · intro h hd'
      rw [rd] at hd'
      rw [rp]
      intro r hr
      rcases List.mem_append.mp hr with hr | hr
      · exact h hd' r hr
      · exact hl r hr
  exact hle.vinv hv

theorem rebuildNil_dirty (m : Mem) (ft : Nat) (hlex : m.lexEnabled = true) : (m.rebuildIndexes [] [] ft).dirty = m.dirty :=
  (rebuildIndexes_vec m [] [] ft hlex).2.2.2.1

theorem vacuum_vinv (m : Mem) (E : List (Option Emb)) (hv : VInv m E) (a b : Nat) :
    VInv (m.vacuum a b).1 E ∧ (m.vacuum a b).1.dirty = false := by
  have hc := commit_vinv m E hv a
  have hcd := commit_clean m a hv.inv
  unfold Mem.vacuum
  split
  · have h1 := (compactFrames_vle (m.commit a).1).vinv hc
    have h2 := rebuildNil_vinv _ E h1 b
    have h2d : ((m.commit a).1.compactFrames.rebuildIndexes [] [] b).dirty = false := by
      rw [rebuildNil_dirty _ b h1.lex]; exact hcd
    have hq := h2.d h2d
    have h3 : VInv ((m.commit a).1.compactFrames.rebuildIndexes [] [] b).checkpoint E := (checkpoint_vle _ hq).vinv h2
    refine ⟨?_, rfl⟩
    generalize (m.commit a).1.compactFrames.rebuildIndexes [] [] b = A at h3 ⊢
    exact h3.congr rfl rfl rfl rfl rfl rfl rfl rfl rfl (Or.inl rfl)
  · exact ⟨hc, hcd⟩

theorem resetWal_vinv (m : Mem) (E : List (Option Emb)) (hv : VInv m E) (hd : m.dirty = false) : VInv m.resetWal E :=
  (VLe.of_settle (m' := m.resetWal) (hv.d hd) rfl rfl (by
    show m.pendingInserts = 0
    rw [hv.pi, countInserts_onlyLex _ (hv.d hd)]) rfl rfl rfl rfl rfl (Or.inl rfl)).vinv hv

/-- `rebuild_indexes(&[], &[])` on a handle that differs from `m` only in having vectors switched on
    (and possibly its index loaded from the file): the doctor's requested vector rebuild -/
theorem rebuildNil_forced (m : Mem) (E : List (Option Emb)) (hv : VInv m E) (m' : Mem) (hf : m'.frames = m.frames)
    (hp : m'.pending = m.pending) (hpi : m'.pendingInserts = m.pendingInserts) (hd : m'.dirty = m.dirty)
    (hlex : m'.lexEnabled = true) (hvl : vecL m' = vecL m) (hve : m'.vecEnabled = true) (ft : Nat) :
    VInv (m'.rebuildIndexes [] [] ft) E ∧ (m'.rebuildIndexes [] [] ft).dirty = m.dirty := by
  obtain ⟨rf, ⟨l, hl, rp⟩, rpi, rd, rlex, rve, rpvm, rT, _⟩ := rebuildIndexes_vec m' [] [] ft hlex
  obtain ⟨r1, r2, r3⟩ := rT hve
  have hents : ents m' [] = vecL m := by
    unfold ents
    rw [List.append_nil, hvl, hf, List.filter_eq_self]
    intro e he
    exact ((hv.mem e).mp he).1
  have hvr : vecL (m'.rebuildIndexes [] [] ft) = vecL m := by unfold vecL; rw [r1]; exact hents
  have hpe : pendEmbs (m'.rebuildIndexes [] [] ft).pending = pendEmbs m.pending := by
    rw [rp, hp, pendEmbs_append, pendEmbs_onlyLex l hl, List.append_nil]
  refine ⟨?_, by rw [rd, hd]⟩
  exact {
    ok := by
      rw [rf, hf, rp, hp]
      intro r hr
      rcases List.mem_append.mp hr with hr | hr
      · exact hv.ok r hr
      · rw [hl r hr]; trivial
    lenE := by rw [rf, hf]; exact hv.lenE
    pend := by rw [rf, hf, hpe]; exact hv.pend
    mem := fun e => by rw [hvr, rf, hf]; exact hv.mem e
    nodup := by rw [hvr]; exact hv.nodup
    pi := by rw [rpi, hpi, rp, hp, countInserts_append, countInserts_onlyLex l hl, hv.pi]; rfl
    pv := by rw [r2, hvr]; exact hents
    g := by rw [rve, r3, hve]
    lex := rlex
    d := fun h => by
      rw [rd, hd] at h
      rw [rp, hp]
      intro r hr
      rcases List.mem_append.mp hr with hr | hr
      · exact hv.d h r hr
      · exact hl r hr
    b := fun _ => by rw [rve, hve]
    b' := fun _ => by rw [rpvm, r3]
    a := fun _ => by rw [rve, hve] }

theorem doctorRebuild_vinv (m : Mem) (E : List (Option Emb)) (hv : VInv m E) (hd : m.dirty = false) (rv : Bool) (ft : Nat) :
    VInv (m.doctorRebuild rv ft) E := by
  unfold Mem.doctorRebuild
  cases rv with
  | true =>
    simp only [if_true]
    have hvl : vecL ({ m with vecEnabled := true, vecManifest := false, vec := if (m.vec.isNone && m.vecManifest) = true then m.pVec else m.vec } : Mem) = vecL m := by
      show (if (m.vec.isNone && m.vecManifest) = true then m.pVec else m.vec).getD [] = vecL m
      split
      · exact hv.pv
      · rfl
    obtain ⟨h1, h2⟩ := rebuildNil_forced m E hv ({ m with vecEnabled := true, vecManifest := false, vec := if (m.vec.isNone && m.vecManifest) = true then m.pVec else m.vec } : Mem) rfl rfl rfl rfl hv.lex hvl rfl ft
    exact resetWal_vinv _ E h1 (by rw [h2]; exact hd)
  | false =>
    simp only [Bool.false_eq_true, if_false]
    have hpre : VInv (if (m.vecEnabled && m.vec.isNone && m.vecManifest) = true then { m with vec := m.pVec } else m) E ∧
        (if (m.vecEnabled && m.vec.isNone && m.vecManifest) = true then ({ m with vec := m.pVec } : Mem) else m).dirty = false := by
      split
      · exact ⟨(VLe.vinv (m := m) ⟨rfl, id, rfl, id, id, rfl, rfl, hv.pv, rfl, rfl, Or.inl rfl⟩ hv), hd⟩
      · exact ⟨hv, hd⟩
    have hr := rebuildNil_vinv _ E hpre.1 ft
    exact resetWal_vinv _ E hr (by rw [rebuildNil_dirty _ ft hpre.1.lex]; exact hpre.2)

theorem doctor_vinv (m : Mem) (E : List (Option Emb)) (hv : VInv m E) (vac rt rl rv : Bool) (a b c d : Nat) :
    VInv (m.doctor vac rt rl rv a b c d).1 E := by
  obtain ⟨h1, _⟩ := dropHandle_vinv m E hv a
  have h2 := openFrom_vinv _ E h1 b
  have h3 : VInv (m.doctorStage1 vac a b c) E ∧ (m.doctorStage1 vac a b c).dirty = false := by
    unfold Mem.doctorStage1
    split
    · exact vacuum_vinv _ E h2.1 b c
    · exact h2
  have h4 : VInv ((m.doctorStage1 vac a b c).doctorStage2 (rt || rl || rv) rv c) E ∧
      ((m.doctorStage1 vac a b c).doctorStage2 (rt || rl || rv) rv c).dirty = false := by
    unfold Mem.doctorStage2
    split
    · exact ⟨doctorRebuild_vinv _ E h3.1 h3.2 rv c, rfl⟩
    · exact h3
  have h4r := resetWal_vinv _ E h4.1 h4.2
  obtain ⟨h5, _⟩ := dropHandle_vinv _ E h4r c
  exact (openFrom_vinv _ E h5 d).1

theorem create_vinv : VInv Mem.create [] :=
  { ok := fun r hr => by cases hr
    lenE := Nat.le_refl _
    pend := rfl
    mem := fun e => by
      constructor
      · intro h; cases h
      · rintro ⟨h, _⟩; simp [isActive, Mem.create] at h
    nodup := List.nodup_nil
    pi := rfl, pv := rfl, g := rfl, lex := rfl
    d := fun _ r hr => by cases hr
    b := fun h => absurd rfl h
    b' := fun h => absurd rfl h
    a := by rintro ⟨x, hx, _⟩; cases hx }

/-! ## H. one step, whole histories -/

/-- the embeddings the acknowledged calls hand out, by frame id: a put gives the document its
    embedding and every chunk the chunk embedding passed for it; an update gives the new version the
    explicit embedding, else the one of the version it replaces -/
def embStep (E : List (Option Emb)) : Op → List (Option Emb)
  | .create => []
  | .put a _ => E ++ embsOf a
  | .update id u _ => E ++ carriedSpec E id u.emb :: (updChunks u).map (·.emb)
  | _ => E

def embRun (E : List (Option Emb)) : List (Op × Out) → List (Option Emb)
  | [] => E
  | (op, out) :: rest => embRun (if out.isAck then embStep E op else E) rest

/-- what C14 assumes about one call: a put that passes embeddings passes at least one non-empty
    vector (and lists the chunk dimensions it passed), an update passes a non-empty embedding or none
    and no chunk embeddings, no `commit_skip_indexes` (it clears the persisted index until
    `finalize_indexes` runs: membership across that window is property C40) -/
def OpOk : Op → Prop
  | .put a _ => (∃ x ∈ embsOf a, x.isSome = true) → embDims a ≠ []
  | .update _ u _ => UpdOk u
  | .commitSkipIndexes => False
  | _ => True

theorem ite_self' {α : Type} (c : Prop) [Decidable c] (a : α) : (if c then a else a) = a := by split <;> rfl

theorem step_vinv (m : Mem) (E : List (Option Emb)) (op : Op) (hv : VInv m E) (hok : OpOk op) :
    VInv (step m op).1 (if (step m op).2.isAck then embStep E op else E) := by
  cases op with
  | create => exact create_vinv
  | put a t => exact put_vinv m E hv a t hok
  | update id u t => exact update_vinv m E hv id u t hok
  | delete id t =>
    show VInv (m.delete id t).1 (if (m.delete id t).2.isAck then E else E)
    rw [ite_self']; exact delete_vinv m E hv id t
  | commit ft =>
    show VInv (m.commit ft).1 (if (m.commit ft).2.isAck then E else E)
    rw [ite_self']; exact commit_vinv m E hv ft
  | reopen a b => exact reopen_vinv m E hv a b
  | crash ft => exact crash_vinv m E hv ft
  | beginBatch d ws => exact (beginBatch_vle m d ws).vinv hv
  | endBatch => exact (endBatch_vle m).vinv hv
  | commitSkipIndexes => exact absurd hok id
  | finalizeIndexes ft =>
    exact (rebuildNil_vinv m E hv ft).congr rfl rfl rfl rfl rfl rfl rfl rfl rfl (Or.inl rfl)
  | vacuum a b =>
    show VInv (m.vacuum a b).1 (if (m.vacuum a b).2.isAck then E else E)
    rw [ite_self']; exact (vacuum_vinv m E hv a b).1
  | doctor v rt rl rv a b c d =>
    show VInv (m.doctor v rt rl rv a b c d).1 (if (m.doctor v rt rl rv a b c d).2.isAck then E else E)
    rw [ite_self']; exact doctor_vinv m E hv v rt rl rv a b c d
  | ticket s c b f =>
    show VInv (m.applyTicket s c b f).1 (if (m.applyTicket s c b f).2.isAck then E else E)
    rw [ite_self']; exact (applyTicket_vle m s c b f).vinv hv

theorem run_vinv (m : Mem) (E : List (Option Emb)) (ops : List Op) (hv : VInv m E) (hok : ∀ op ∈ ops, OpOk op) :
    VInv (run m ops) (embRun E (trace m ops)) := by
  induction ops generalizing m E with
  | nil => exact hv
  | cons op ops ih =>
    exact ih _ _ (step_vinv m E op hv (hok op (by simp))) (fun o ho => hok o (by simp [ho]))

end Mv.Core
