#!/usr/bin/env python3
"""C05: WAL record header size and checkpoint thresholds."""
from common import *

def run():
    wal = read("src/io/wal.rs")
    consts = read("src/constants.rs")
    ehs = const_int(wal, "ENTRY_HEADER_SIZE")
    num, den = const_float_ratio(consts, "WAL_CHECKPOINT_THRESHOLD")
    period = const_int(consts, "WAL_CHECKPOINT_PERIOD")
    body = (f"def ENTRY_HEADER_SIZE : Nat := {ehs}\n"
            f"def THRESHOLD_NUM : Nat := {num}\ndef THRESHOLD_DEN : Nat := {den}\n"
            f"def CHECKPOINT_PERIOD : Nat := {period}\n")
    return emit("C05", body)

main(run)
