/-
  Part D of the C32 lemmas: the nesting limit.
  * `limit_sound`   the only effect of a limit is to turn some inputs into `tooDeep`;
  * `limit_inert`   inputs with at most `L` tokens `(`/`NOT` never hit the limit `L`;
  * `deep_paren`, `deep_not`  nests of depth `k` need exactly depth `k`.
-/
import MvModel.QueryLemmas
namespace Mv.Query
open Mv.Gen.C32

theorem tooDeep_none (dep : Nat) : tooDeep none dep = false := rfl

/-- `x` (limited parser) is `tooDeep` or equals `y` (unlimited parser) -/
def DeepOr (x y : PRes) : Prop := x = .error .tooDeep ∨ x = y

theorem DeepOr.bind {x y : PRes} {k k' : Expr → List Token → PRes} (h : DeepOr x y)
    (hk : ∀ e r, y = .ok (e, r) → DeepOr (k e r) (k' e r)) : DeepOr (bindP x k) (bindP y k') := by
  rcases h with h | h
  · left; rw [h]; rfl
  · subst h
    cases x with
    | error e => right; rfl
    | ok p => obtain ⟨e, r⟩ := p; exact hk e r rfl

theorem DeepOr.rfl' (x : PRes) : DeepOr x x := Or.inr rfl

/-- the limited parser rejects with `tooDeep` or agrees with the unlimited one -/
theorem limit_sound (T : Tables) (L : Nat) : ∀ n,
    (∀ dep ts, DeepOr (parseOr T (some L) n dep ts) (parseOr T none n dep ts)) ∧
    (∀ dep acc ts, DeepOr (orLoop T (some L) n dep acc ts) (orLoop T none n dep acc ts)) ∧
    (∀ dep ts, DeepOr (parseAnd T (some L) n dep ts) (parseAnd T none n dep ts)) ∧
    (∀ dep acc ts, DeepOr (andLoop T (some L) n dep acc ts) (andLoop T none n dep acc ts)) ∧
    (∀ dep ts, DeepOr (parseNot T (some L) n dep ts) (parseNot T none n dep ts)) ∧
    (∀ dep ts, DeepOr (parsePrimary T (some L) n dep ts) (parsePrimary T none n dep ts)) := by
  intro n
  induction n with
  | zero =>
    refine ⟨?_, ?_, ?_, ?_, ?_, ?_⟩ <;> intros <;>
      simp only [parseOr, orLoop, parseAnd, andLoop, parseNot, parsePrimary] <;> exact .rfl' _
  | succ n ih =>
    obtain ⟨i1, i2, i3, i4, i5, i6⟩ := ih
    refine ⟨?_, ?_, ?_, ?_, ?_, ?_⟩
    · intro dep ts
      rw [parseOr, parseOr]
      exact (i3 dep ts).bind (fun e r _ => i2 dep e r)
    · intro dep acc ts
      by_cases hts : ∃ r, ts = Token.or :: r
      · obtain ⟨r, rfl⟩ := hts
        rw [orLoop.eq_2, orLoop.eq_2]
        exact (i3 dep r).bind (fun e r' _ => i2 dep _ r')
      · have hne : ∀ r, ts = Token.or :: r → False := fun r hr => hts ⟨r, hr⟩
        rw [orLoop.eq_3 _ _ _ _ _ _ hne, orLoop.eq_3 _ _ _ _ _ _ hne]
        exact .rfl' _
    · intro dep ts
      rw [parseAnd, parseAnd]
      exact (i5 dep ts).bind (fun e r _ => i4 dep e r)
    · intro dep acc ts
      rcases ts with _ | ⟨t, r⟩
      · simp only [andLoop]; exact .rfl' _
      · cases t <;> simp only [andLoop] <;>
          first
            | exact .rfl' _
            | exact (i5 dep _).bind (fun e r' _ => i4 dep _ r')
    · intro dep ts
      by_cases hts : ∃ r, ts = Token.not :: r
      · obtain ⟨r, rfl⟩ := hts
        rw [parseNot.eq_2, parseNot.eq_2]
        by_cases htd : tooDeep (some L) dep = true
        · left; simp only [htd, if_true]
        · simp only [htd, tooDeep_none, Bool.false_eq_true, if_false]
          exact (i5 (dep+1) r).bind (fun e r' _ => .rfl' _)
      · have hne : ∀ r, ts = Token.not :: r → False := fun r hr => hts ⟨r, hr⟩
        rw [parseNot.eq_3 _ _ _ _ _ hne, parseNot.eq_3 _ _ _ _ _ hne]
        exact i6 dep ts
    · intro dep ts
      by_cases hts : ∃ r, ts = Token.lparen :: r
      · obtain ⟨r, rfl⟩ := hts
        rw [parsePrimary.eq_2, parsePrimary.eq_2]
        by_cases htd : tooDeep (some L) dep = true
        · left; simp only [htd, if_true]
        · simp only [htd, tooDeep_none, Bool.false_eq_true, if_false]
          exact (i1 (dep+1) r).bind (fun e r' _ => .rfl' _)
      · have hne : ∀ r, ts = Token.lparen :: r → False := fun r hr => hts ⟨r, hr⟩
        rw [parsePrimary.eq_3 _ _ _ _ _ hne, parsePrimary.eq_3 _ _ _ _ _ hne]
        exact .rfl' _

/-- number of tokens that open a nesting level: `(` and `NOT` -/
def nestCount (ts : List Token) : Nat := ts.countP (fun t => t == .lparen || t == .not)

theorem nestCount_le_of_consumed {k : Nat} {ts r : List Token} (h : Consumed k ts r) : nestCount r ≤ nestCount ts :=
  h.1.sublist.countP_le

theorem bindP_eq_of {x y : PRes} {k k' : Expr → List Token → PRes} (h : x = y)
    (hk : ∀ e r, y = .ok (e, r) → k e r = k' e r) : bindP x k = bindP y k' := by
  subst h; exact bindP_congr hk

/-- inputs with few enough `(`/`NOT` tokens never reach the limit -/
theorem limit_inert (T : Tables) (L : Nat) : ∀ n,
    (∀ dep ts, dep + nestCount ts ≤ L → parseOr T (some L) n dep ts = parseOr T none n dep ts) ∧
    (∀ dep acc ts, dep + nestCount ts ≤ L → orLoop T (some L) n dep acc ts = orLoop T none n dep acc ts) ∧
    (∀ dep ts, dep + nestCount ts ≤ L → parseAnd T (some L) n dep ts = parseAnd T none n dep ts) ∧
    (∀ dep acc ts, dep + nestCount ts ≤ L → andLoop T (some L) n dep acc ts = andLoop T none n dep acc ts) ∧
    (∀ dep ts, dep + nestCount ts ≤ L → parseNot T (some L) n dep ts = parseNot T none n dep ts) ∧
    (∀ dep ts, dep + nestCount ts ≤ L → parsePrimary T (some L) n dep ts = parsePrimary T none n dep ts) := by
  intro n
  induction n with
  | zero =>
    refine ⟨?_, ?_, ?_, ?_, ?_, ?_⟩ <;> intros <;>
      simp only [parseOr, orLoop, parseAnd, andLoop, parseNot, parsePrimary]
  | succ n ih =>
    obtain ⟨i1, i2, i3, i4, i5, i6⟩ := ih
    have sh := shrink T none n
    refine ⟨?_, ?_, ?_, ?_, ?_, ?_⟩
    · intro dep ts h
      rw [parseOr, parseOr]
      refine bindP_eq_of (i3 dep ts h) (fun e r hr => i2 dep e r ?_)
      have := nestCount_le_of_consumed (sh.and _ _ _ _ hr); omega
    · intro dep acc ts h
      by_cases hts : ∃ r, ts = Token.or :: r
      · obtain ⟨r, rfl⟩ := hts
        have h' : dep + nestCount r ≤ L := by simpa [nestCount] using h
        rw [orLoop.eq_2, orLoop.eq_2]
        refine bindP_eq_of (i3 dep r h') (fun e r' hr => i2 dep _ r' ?_)
        have := nestCount_le_of_consumed (sh.and _ _ _ _ hr); omega
      · have hne : ∀ r, ts = Token.or :: r → False := fun r hr => hts ⟨r, hr⟩
        rw [orLoop.eq_3 _ _ _ _ _ _ hne, orLoop.eq_3 _ _ _ _ _ _ hne]
    · intro dep ts h
      rw [parseAnd, parseAnd]
      refine bindP_eq_of (i5 dep ts h) (fun e r hr => i4 dep e r ?_)
      have := nestCount_le_of_consumed (sh.not _ _ _ _ hr); omega
    · intro dep acc ts h
      rcases ts with _ | ⟨t, r⟩
      · simp only [andLoop]
      · have hr0 : dep + nestCount r ≤ L := by
          have : nestCount r ≤ nestCount (t :: r) := by
            simp only [nestCount, List.countP_cons]; omega
          omega
        cases t <;> simp only [andLoop] <;>
          first
            | rfl
            | (refine bindP_eq_of (i5 dep _ (by first | exact h | exact hr0)) (fun e r' hr => i4 dep _ r' ?_)
               have := nestCount_le_of_consumed (sh.not _ _ _ _ hr)
               omega)
    · intro dep ts h
      by_cases hts : ∃ r, ts = Token.not :: r
      · obtain ⟨r, rfl⟩ := hts
        have h' : dep + 1 + nestCount r ≤ L := by
          have : nestCount (Token.not :: r) = nestCount r + 1 := by simp [nestCount]
          omega
        rw [parseNot.eq_2, parseNot.eq_2]
        have htd : tooDeep (some L) dep = false := by
          simp only [tooDeep, decide_eq_false_iff_not]; omega
        simp only [htd, tooDeep_none, Bool.false_eq_true, if_false]
        exact bindP_eq_of (i5 (dep+1) r h') (fun e r' _ => rfl)
      · have hne : ∀ r, ts = Token.not :: r → False := fun r hr => hts ⟨r, hr⟩
        rw [parseNot.eq_3 _ _ _ _ _ hne, parseNot.eq_3 _ _ _ _ _ hne]
        exact i6 dep ts h
    · intro dep ts h
      by_cases hts : ∃ r, ts = Token.lparen :: r
      · obtain ⟨r, rfl⟩ := hts
        have h' : dep + 1 + nestCount r ≤ L := by
          have : nestCount (Token.lparen :: r) = nestCount r + 1 := by simp [nestCount]
          omega
        rw [parsePrimary.eq_2, parsePrimary.eq_2]
        have htd : tooDeep (some L) dep = false := by
          simp only [tooDeep, decide_eq_false_iff_not]; omega
        simp only [htd, tooDeep_none, Bool.false_eq_true, if_false]
        exact bindP_eq_of (i1 (dep+1) r h') (fun e r' _ => rfl)
      · have hne : ∀ r, ts = Token.lparen :: r → False := fun r hr => hts ⟨r, hr⟩
        rw [parsePrimary.eq_3 _ _ _ _ _ hne, parsePrimary.eq_3 _ _ _ _ _ hne]

/-! ### nests that need exactly their depth -/

theorem tooDeep_iff_not_fits (lim : Option Nat) (dep : Nat) : tooDeep lim dep = true ↔ ¬ Fits lim (dep + 1) := by
  cases lim with
  | none => simp [tooDeep, Fits]
  | some l => simp only [tooDeep, decide_eq_true_eq, Fits]; omega

theorem fits_mono {lim : Option Nat} {k k' : Nat} (h : k ≤ k') (hf : Fits lim k') : Fits lim k := by
  cases lim with
  | none => trivial
  | some l => exact Nat.le_trans h hf

theorem pOr_of_pNot_stop (T : Tables) (lim : Option Nat) (dep : Nat) (ts : List Token) (e : Expr) (r : List Token)
    (h : pNot T lim dep ts = .ok (e, r)) (hs : StopAnd r) (ho : ∀ r', r = Token.or :: r' → False) :
    pOr T lim dep ts = .ok (e, r) := by
  rw [pOr_eq, pAnd_eq, h]
  simp only [bindP_ok]
  rw [pAndLoop_stop _ _ _ _ _ hs]
  simp only [bindP_ok]
  rw [pOrLoop_stop _ _ _ _ _ ho]

theorem pOr_of_pNot_error (T : Tables) (lim : Option Nat) (dep : Nat) (ts : List Token) (err : Err)
    (h : pNot T lim dep ts = .error err) : pOr T lim dep ts = .error err := by
  rw [pOr_eq, pAnd_eq, h]; rfl

/-- `k` opening parentheses, a word, `k` closing parentheses, read at an admissible depth `dep`:
    parsed iff the limit admits depth `dep + k`, rejected as too deep otherwise -/
theorem deep_paren (T : Tables) (lim : Option Nat) (w : Str) : ∀ (k dep : Nat) (rest : List Token),
    Fits lim dep →
    (Fits lim (dep + k) →
      pPrimary T lim dep (List.replicate k .lparen ++ .word w :: (List.replicate k .rparen ++ rest))
        = .ok (.term (fromWord T w), rest)) ∧
    (¬ Fits lim (dep + k) →
      pPrimary T lim dep (List.replicate k .lparen ++ .word w :: (List.replicate k .rparen ++ rest))
        = .error .tooDeep) := by
  intro k
  induction k with
  | zero =>
    intro dep rest hdep
    refine ⟨fun _ => ?_, fun h => absurd hdep h⟩
    simp only [List.replicate_zero, List.nil_append]
    rw [pPrimary_other _ _ _ _ (by intro r h; cases h)]; rfl
  | succ k ih =>
    intro dep rest hdep
    have hrep : List.replicate (k+1) Token.rparen ++ rest = List.replicate k Token.rparen ++ (Token.rparen :: rest) := by
      rw [List.replicate_succ', List.append_assoc]; rfl
    have hnot : ∀ r, (List.replicate k Token.lparen ++ Token.word w :: (List.replicate k Token.rparen ++ (Token.rparen :: rest))) = Token.not :: r → False := by
      intro r h
      cases k with
      | zero => simp at h
      | succ k => simp [List.replicate_succ] at h
    have hl : List.replicate (k+1) Token.lparen ++ Token.word w :: (List.replicate (k+1) Token.rparen ++ rest)
        = Token.lparen :: (List.replicate k Token.lparen ++ Token.word w :: (List.replicate k Token.rparen ++ (Token.rparen :: rest))) := by
      rw [hrep]; rfl
    rw [hl, pPrimary_lparen]
    have hadd : dep + 1 + k = dep + (k + 1) := by omega
    refine ⟨fun hf => ?_, fun hf => ?_⟩
    · have hf1 : Fits lim (dep + 1) := fits_mono (by omega) hf
      have htd : tooDeep lim dep = false := by
        cases htd : tooDeep lim dep with
        | false => rfl
        | true => exact absurd hf1 ((tooDeep_iff_not_fits lim dep).mp htd)
      simp only [htd, Bool.false_eq_true, if_false]
      have h1 := (ih (dep + 1) (Token.rparen :: rest) hf1).1 (hadd ▸ hf)
      rw [← pNot_other _ _ _ _ hnot] at h1
      rw [pOr_of_pNot_stop T lim (dep+1) _ _ _ h1 (Or.inr (Or.inr ⟨rest, rfl⟩)) (by intro r h; cases h)]
      rfl
    · cases htd : tooDeep lim dep with
      | true => simp only [if_true]
      | false =>
        simp only [Bool.false_eq_true, if_false]
        have hf1 : Fits lim (dep + 1) := by
          apply Classical.byContradiction
          intro hn
          have := (tooDeep_iff_not_fits lim dep).mpr hn
          rw [htd] at this; cases this
        have h1 := (ih (dep + 1) (Token.rparen :: rest) hf1).2 (hadd ▸ hf)
        rw [← pNot_other _ _ _ _ hnot] at h1
        rw [pOr_of_pNot_error T lim (dep+1) _ _ h1]
        rfl

/-- `k` nested negations -/
def notIter : Nat → Expr → Expr
  | 0, e => e
  | k + 1, e => .not (notIter k e)

/-- `k` NOTs and a word: parsed iff the limit admits depth `dep + k` -/
theorem deep_not (T : Tables) (lim : Option Nat) (w : Str) : ∀ (k dep : Nat) (rest : List Token),
    Fits lim dep →
    (Fits lim (dep + k) →
      pNot T lim dep (List.replicate k .not ++ .word w :: rest) = .ok (notIter k (.term (fromWord T w)), rest)) ∧
    (¬ Fits lim (dep + k) →
      pNot T lim dep (List.replicate k .not ++ .word w :: rest) = .error .tooDeep) := by
  intro k
  induction k with
  | zero =>
    intro dep rest hdep
    refine ⟨fun _ => ?_, fun h => absurd hdep h⟩
    simp only [List.replicate_zero, List.nil_append]
    rw [pNot_other _ _ _ _ (by intro r h; cases h), pPrimary_other _ _ _ _ (by intro r h; cases h)]; rfl
  | succ k ih =>
    intro dep rest hdep
    have hl : List.replicate (k+1) Token.not ++ Token.word w :: rest
        = Token.not :: (List.replicate k Token.not ++ Token.word w :: rest) := rfl
    rw [hl, pNot_not]
    have hadd : dep + 1 + k = dep + (k + 1) := by omega
    refine ⟨fun hf => ?_, fun hf => ?_⟩
    · have hf1 : Fits lim (dep + 1) := fits_mono (by omega) hf
      have htd : tooDeep lim dep = false := by
        cases htd : tooDeep lim dep with
        | false => rfl
        | true => exact absurd hf1 ((tooDeep_iff_not_fits lim dep).mp htd)
      simp only [htd, Bool.false_eq_true, if_false]
      rw [(ih (dep + 1) rest hf1).1 (hadd ▸ hf)]
      rfl
    · cases htd : tooDeep lim dep with
      | true => simp only [if_true]
      | false =>
        simp only [Bool.false_eq_true, if_false]
        have hf1 : Fits lim (dep + 1) := by
          apply Classical.byContradiction
          intro hn
          have := (tooDeep_iff_not_fits lim dep).mpr hn
          rw [htd] at this; cases this
        rw [(ih (dep + 1) rest hf1).2 (hadd ▸ hf)]
        rfl

end Mv.Query
