/-
  C11 — Time-travel search never returns frames from the future.

  "A search with as_of_frame = n returns only frames with id <= n, and a search with
   as_of_ts = t returns only frames with timestamp <= t.  Adding either filter never adds a hit
   that the unfiltered search did not return."

  Model: MvModel/Filter.lean (mirror of Memvid::search's candidate-filter computation,
  get_replay_frame_ids, try_tantivy_search's doc_limit / engine hand-off and the fall-backs).

  Results
  * the tree as it is (`Rule.current`): the first clause is FALSE — `C11_counterexample_unfixed`
    (two frames, sketch candidates {1}, as_of_frame = 0 → the filter handed to the engine is {1}).
  * with fixes/C11.diff (`Rule.repaired`): the candidate filter is exactly the intersection of the
    stages present (`C11_filter_is_intersection`), hence `C11_bound`, `C11_bound_frame`,
    `C11_bound_ts`, `C11_mono_filter`; end to end, for every engine that honours the frame filter
    (E1) and every paging that only selects (P1, P2): `C11_e2e_frame`, `C11_e2e_ts`.
  * second clause end to end: read per page (same top_k / cursor) it is FALSE for every top-k
    engine — `C11_mono_page_counterexample`; it holds whenever the unfiltered page is not
    truncated — `C11_mono_untruncated` — and always at the level of candidate sets.
-/
import MvModel.Filter
namespace Mv.Filter

/-! ### sets as lists -/

theorem mem_toSet (a : Nat) (l : List Nat) : a ∈ toSet l ↔ a ∈ l := by
  induction l with
  | nil => simp [toSet]
  | cons x xs ih =>
    unfold toSet
    by_cases h : xs.contains x = true
    · simp only [h, if_true, ih, List.mem_cons]
      constructor
      · exact Or.inr
      · rintro (rfl | h')
        · simpa using h
        · exact h'
    · have h' : x ∉ xs := by simpa using h
      simp [h', ih]

theorem mem_inter (a : Nat) (x y : List Nat) : a ∈ inter x y ↔ a ∈ x ∧ a ∈ y := by
  simp [inter, List.mem_filter]

theorem passes_iff (c : Option (List Nat)) (a : Nat) :
    passes c a = true ↔ ∀ f, c = some f → a ∈ f := by
  cases c with
  | none => simp [passes]
  | some f => simp [passes]

theorem isEmpty_false_of_mem {a : Nat} {l : List Nat} (h : a ∈ l) : l.isEmpty = false := by
  cases l with
  | nil => cases h
  | cons _ _ => rfl

/-! ### `get_replay_frame_ids` -/

/-- what the replay stage is supposed to guarantee for frame id `a` -/
def InBound (frames : List Frame) (asOfFrame : Option Nat) (asOfTs : Option Int) (a : Nat) : Prop :=
  ∃ f ∈ frames, f.id = a ∧ f.active = true ∧
    (∀ n, asOfFrame = some n → f.id ≤ n) ∧ (∀ t, asOfTs = some t → f.ts ≤ t)

def inBoundB (n : Option Nat) (t : Option Int) (f : Frame) : Bool :=
  f.active && (match n with | some n => decide (f.id ≤ n) | none => true)
    && (match t with | some t => decide (f.ts ≤ t) | none => true)

theorem replayIds_eq (n : Option Nat) (t : Option Int) (frames : List Frame) :
    replayIds n t frames = (frames.filter (inBoundB n t)).map (·.id) := by
  induction frames with
  | nil => rfl
  | cons f rest ih =>
    obtain ⟨fid, fts, fact⟩ := f
    unfold replayIds
    rw [ih]
    simp only [List.filter_cons, inBoundB]
    cases fact <;> cases n <;> cases t <;> simp
    all_goals (repeat' split)
    all_goals (try simp_all)
    all_goals (try omega)

theorem mem_replayIds (n : Option Nat) (t : Option Int) (frames : List Frame) (a : Nat) :
    a ∈ replayIds n t frames ↔ InBound frames n t a := by
  rw [replayIds_eq]
  simp only [List.mem_map, List.mem_filter, InBound, inBoundB]
  constructor
  · rintro ⟨f, ⟨hf, hb⟩, rfl⟩
    refine ⟨f, hf, rfl, ?_⟩
    cases n <;> cases t <;> simp_all
  · rintro ⟨f, hf, rfl, hact, hn, ht⟩
    refine ⟨f, ⟨hf, ?_⟩, rfl⟩
    cases n <;> cases t <;> simp_all

/-! ### each stage of the repaired computation is an intersection -/

theorem allows_narrow (c : Option (List Nat)) (new : List Nat) (a : Nat) :
    allows (narrow c new) a = true ↔ passes c a = true ∧ a ∈ new := by
  cases c with
  | none => simp [narrow, allows, passes]
  | some existing =>
    simp only [narrow]
    by_cases he : (inter existing new).isEmpty = true
    · simp only [he, if_true, allows, passes]
      constructor
      · intro h; cases h
      · rintro ⟨h1, h2⟩
        have : a ∈ inter existing new := (mem_inter _ _ _).2 ⟨by simpa using h1, h2⟩
        rw [isEmpty_false_of_mem this] at he
        cases he
    · simp only [he, allows, passes]
      simp [mem_inter]

def dateOk : DateIn → Nat → Prop
  | .absent, _ => True
  | .present rangeEmpty ids, a => rangeEmpty = false ∧ ∀ l, ids = some l → a ∈ l

theorem allows_dateStage (d : DateIn) (a : Nat) : allows (dateStage d) a = true ↔ dateOk d a := by
  cases d with
  | absent => simp [dateStage, allows, dateOk]
  | present re ids =>
    cases re with
    | true => simp [dateStage, allows, dateOk]
    | false =>
      cases ids with
      | none => simp [dateStage, allows, dateOk]
      | some l =>
        by_cases hl : l.isEmpty = true
        · have : l = [] := by simpa using hl
          subst this
          simp [dateStage, allows, dateOk]
        · simp [dateStage, allows, dateOk, hl, mem_toSet]

def temporalOk : Option (Option (List Nat)) → Nat → Prop
  | some (some l), a => a ∈ l
  | _, _ => True

theorem allows_temporalStage (c : Option (List Nat)) (t : Option (Option (List Nat))) (a : Nat) :
    allows (temporalStage c t) a = true ↔ passes c a = true ∧ temporalOk t a := by
  match t with
  | none => simp [temporalStage, allows, temporalOk]; cases c <;> simp [passes]
  | some none => simp [temporalStage, allows, temporalOk]; cases c <;> simp [passes]
  | some (some l) =>
    by_cases hl : l.isEmpty = true
    · have : l = [] := by simpa using hl
      subst this
      simp [temporalStage, allows, temporalOk]
    · simp only [temporalStage, hl, Bool.false_eq_true, ↓reduceIte, temporalOk]
      rw [allows_narrow, mem_toSet]

def replayOk : Option (List Nat) → Nat → Prop
  | some l, a => a ∈ l
  | none, _ => True

theorem allows_some (c : Option (List Nat)) (a : Nat) : allows (some c) a = passes c a := by
  cases c <;> rfl

theorem allows_replayStage (c : Option (List Nat)) (r : Option (List Nat)) (a : Nat) :
    allows (replayStage c r) a = true ↔ passes c a = true ∧ replayOk r a := by
  match r with
  | none => simp [replayStage, replayOk, allows_some]
  | some l =>
    by_cases hl : l.isEmpty = true
    · have : l = [] := by simpa using hl
      subst this
      simp [replayStage, allows, replayOk]
    · simp only [replayStage, hl, Bool.false_eq_true, ↓reduceIte, replayOk]
      rw [allows_narrow, mem_toSet]

/-- an empty candidate list means "the sketch track has nothing to say": the stage is skipped -/
def sketchOk : Option (List Nat) → Nat → Prop
  | some l, a => l = [] ∨ a ∈ l
  | none, _ => True

theorem allows_sketchStage_repaired (c : Option (List Nat)) (s : Option (List Nat)) (a : Nat) :
    allows (sketchStage .repaired c s) a = true ↔ passes c a = true ∧ sketchOk s a := by
  match s with
  | none => simp [sketchStage, sketchOk, allows_some]
  | some l =>
    by_cases hl : l.isEmpty = true
    · have : l = [] := by simpa using hl
      subst this
      simp [sketchStage, sketchOk, allows_some]
    · have hne : l ≠ [] := by intro h; subst h; simp at hl
      simp only [sketchStage, hl, sketchOk]
      cases c with
      | none => simp [allows, passes, mem_toSet, hne]
      | some existing =>
        simp only []
        by_cases he : (inter existing (toSet l)).isEmpty = true
        · simp only [he, if_true, allows, passes]
          constructor
          · intro h; cases h
          · rintro ⟨h1, h2⟩
            have h2' : a ∈ l := h2.resolve_left hne
            have : a ∈ inter existing (toSet l) :=
              (mem_inter _ _ _).2 ⟨by simpa using h1, (mem_toSet _ _).2 h2'⟩
            rw [isEmpty_false_of_mem this] at he
            cases he
        · simp only [he, allows, passes]
          simp [mem_inter, mem_toSet, hne]

theorem allows_bind (s : Stage) (f : Option (List Nat) → Stage) (a : Nat) :
    allows (s.bind f) a = true ↔ ∃ c, s = some c ∧ allows (f c) a = true := by
  cases s with
  | none => simp [allows]
  | some c => simp

/-- **The repaired candidate filter is the plain intersection of the stages that are present.** -/
theorem C11_filter_is_intersection (date : DateIn) (temporal : Option (Option (List Nat)))
    (replay sketch : Option (List Nat)) (a : Nat) :
    allows (combine .repaired date temporal replay sketch) a = true ↔
      dateOk date a ∧ temporalOk temporal a ∧ replayOk replay a ∧ sketchOk sketch a := by
  unfold combine
  constructor
  · intro h
    obtain ⟨c1, h1, h⟩ := (allows_bind _ _ _).1 h
    obtain ⟨c2, h2, h⟩ := (allows_bind _ _ _).1 h
    obtain ⟨c3, h3, h⟩ := (allows_bind _ _ _).1 h
    obtain ⟨p3, hs⟩ := (allows_sketchStage_repaired _ _ _).1 h
    have a3 : allows (replayStage c2 replay) a = true := by rw [h3, allows_some]; exact p3
    obtain ⟨p2, hr⟩ := (allows_replayStage _ _ _).1 a3
    have a2 : allows (temporalStage c1 temporal) a = true := by rw [h2, allows_some]; exact p2
    obtain ⟨p1, ht⟩ := (allows_temporalStage _ _ _).1 a2
    have a1 : allows (dateStage date) a = true := by rw [h1, allows_some]; exact p1
    exact ⟨(allows_dateStage _ _).1 a1, ht, hr, hs⟩
  · rintro ⟨hd, ht, hr, hs⟩
    have a1 := (allows_dateStage _ _).2 hd
    cases h1 : dateStage date with
    | none => rw [h1] at a1; cases a1
    | some c1 =>
      rw [h1, allows_some] at a1
      have a2 := (allows_temporalStage c1 temporal a).2 ⟨a1, ht⟩
      cases h2 : temporalStage c1 temporal with
      | none => rw [h2] at a2; cases a2
      | some c2 =>
        rw [h2, allows_some] at a2
        have a3 := (allows_replayStage c2 replay a).2 ⟨a2, hr⟩
        cases h3 : replayStage c2 replay with
        | none => rw [h3] at a3; cases a3
        | some c3 =>
          rw [h3, allows_some] at a3
          simpa [h2, h3] using (allows_sketchStage_repaired c3 sketch a).2 ⟨a3, hs⟩

/-! ### first clause, filter level -/

/-- **C11, first clause (repaired rule), for every frame list, date stage, temporal stage and
    sketch candidate set:** when a time-travel bound is given, every frame id the candidate filter
    lets through is the id of an active frame inside the bound(s) — and the filter is never "all". -/
theorem C11_bound (frames : List Frame) (q : Req) (a : Nat)
    (hq : q.asOfFrame.isSome = true ∨ q.asOfTs.isSome = true)
    (h : allows (candidateFilter .repaired frames q) a = true) :
    InBound frames q.asOfFrame q.asOfTs a := by
  unfold candidateFilter at h
  have hr := ((C11_filter_is_intersection _ _ _ _ _).1 h).2.2.1
  have : replayIn frames q = some (replayIds q.asOfFrame q.asOfTs frames) := by
    unfold replayIn
    rcases hq with hq | hq <;> simp [hq]
  rw [this] at hr
  exact (mem_replayIds _ _ _ _).1 hr

theorem C11_bound_frame (frames : List Frame) (q : Req) (n a : Nat) (hn : q.asOfFrame = some n)
    (h : allows (candidateFilter .repaired frames q) a = true) : a ≤ n := by
  obtain ⟨f, _, hid, _, hf, _⟩ := C11_bound frames q a (Or.inl (by simp [hn])) h
  have := hf n hn
  omega

/-- ids are positions in `toc.frames`, hence unique: stated as a hypothesis on the frame list -/
def UniqueIds (frames : List Frame) : Prop :=
  ∀ f ∈ frames, ∀ g ∈ frames, f.id = g.id → f = g

theorem C11_bound_ts (frames : List Frame) (q : Req) (t : Int) (a : Nat) (ht : q.asOfTs = some t)
    (hu : UniqueIds frames)
    (h : allows (candidateFilter .repaired frames q) a = true) :
    ∀ f ∈ frames, f.id = a → f.ts ≤ t ∧ f.active = true := by
  obtain ⟨g, hg, hid, hact, _, hts⟩ := C11_bound frames q a (Or.inr (by simp [ht])) h
  intro f hf hfa
  have : f = g := hu f hf g hg (by rw [hfa, hid])
  subst this
  exact ⟨hts t ht, hact⟩

/-- the filter is never the unrestricted `None` once a bound is given -/
theorem C11_bound_never_all (frames : List Frame) (q : Req)
    (hq : q.asOfFrame.isSome = true ∨ q.asOfTs.isSome = true) :
    candidateFilter .repaired frames q ≠ some none := by
  intro h
  -- an id that is no frame's id would be let through
  let big := (frames.map (·.id)).foldr max 0 + 1
  have hall : allows (candidateFilter .repaired frames q) big = true := by rw [h]; rfl
  obtain ⟨f, hf, hid, _⟩ := C11_bound frames q big hq hall
  have : ∀ (l : List Frame), ∀ g ∈ l, g.id ≤ (l.map (·.id)).foldr max 0 := by
    intro l
    induction l with
    | nil => intro g hg; cases hg
    | cons x xs ih =>
      intro g hg
      simp only [List.map_cons, List.foldr_cons]
      rcases List.mem_cons.1 hg with rfl | hg
      · omega
      · have := ih g hg; omega
  have := this frames f hf
  omega

/-! ### the tree as it is: the sketch fall-back drops the bound -/

def C11_bound_current : Prop :=
  ∀ (frames : List Frame) (q : Req) (n a : Nat), q.asOfFrame = some n →
    allows (candidateFilter .current frames q) a = true → a ≤ n

/-- witness: frames 0 and 1, `as_of_frame = 0`, sketch candidates `{1}` (the query word occurs
    only in frame 1): replay set `{0}` ∩ `{1}` is empty, the code hands `{1}` to the engine. -/
theorem C11_counterexample_unfixed : ¬ C11_bound_current := by
  intro h
  have := h [⟨0, 100, true⟩, ⟨1, 200, true⟩] { asOfFrame := some 0, sketch := some [1] } 0 1 rfl (by decide)
  omega

/-- the same witness end to end, with the reference engine (the only matching document is frame 1) -/
theorem C11_counterexample_unfixed_e2e :
    idealSearch .current [1] [⟨0, 100, true⟩, ⟨1, 200, true⟩] { asOfFrame := some 0, sketch := some [1] } = [1]
    ∧ idealSearch .repaired [1] [⟨0, 100, true⟩, ⟨1, 200, true⟩] { asOfFrame := some 0, sketch := some [1] } = []
    ∧ idealSearch .current [1] [⟨0, 100, true⟩, ⟨1, 200, true⟩] { asOfFrame := some 0, sketch := none } = [] := by
  decide

/-- the `as_of_ts` form of the witness -/
theorem C11_counterexample_unfixed_ts :
    allows (candidateFilter .current [⟨0, 100, true⟩, ⟨1, 200, true⟩] { asOfTs := some 100, sketch := some [1] }) 1 = true := by
  decide

/-! ### second clause, filter level -/

theorem replayIn_unfiltered (frames : List Frame) (q : Req) : replayIn frames q.unfiltered = none := by
  simp [replayIn, Req.unfiltered]

/-- **C11, second clause at the level of candidate sets (repaired rule):** whatever the candidate
    filter lets through with `as_of_*` it also lets through without. -/
theorem C11_mono_filter (frames : List Frame) (q : Req) (a : Nat)
    (h : allows (candidateFilter .repaired frames q) a = true) :
    allows (candidateFilter .repaired frames q.unfiltered) a = true := by
  unfold candidateFilter at *
  rw [replayIn_unfiltered]
  obtain ⟨hd, ht, _, hs⟩ := (C11_filter_is_intersection _ _ _ _ _).1 h
  exact (C11_filter_is_intersection _ _ _ _ _).2 ⟨hd, ht, trivial, hs⟩

/-- the current rule is not monotone either (same fall-back): date set {0,1}, sketch {1,2};
    with as_of_frame = 0 the filter becomes {1,2}, without it is {1}. -/
theorem C11_mono_filter_fails_current :
    let frames : List Frame := [⟨0, 100, true⟩, ⟨1, 200, true⟩, ⟨2, 300, true⟩]
    let q : Req := { date := .present false (some [0, 1]), asOfFrame := some 0, sketch := some [1, 2] }
    allows (candidateFilter .current frames q) 2 = true ∧
    allows (candidateFilter .current frames q.unfiltered) 2 = false := by
  decide

/-! ### end to end: engine and paging as parameters -/

/-- E1: when a frame filter is given, the engine returns only documents of frames inside it -/
def E1 (E : Engine) : Prop :=
  ∀ (F : List Nat) (lim : Nat) (hits : List Nat), E.tantivy (some F) lim = some hits → ∀ a ∈ hits, a ∈ F

/-- P1/P2: the post-processing only selects and reorders -/
def Selects (P : Post) : Prop :=
  (∀ l a, a ∈ P.page l → a ∈ l) ∧ (∀ l a, a ∈ P.order l → a ∈ l)

theorem mem_lexFallback {E : Engine} {P : Post} (hP : Selects P) {filter : Option (List Nat)} {a : Nat}
    (h : a ∈ lexFallback E P filter) : a ∈ E.lexMatches ∧ passes filter a = true ∧ P.keep a = true := by
  have := hP.1 _ _ h
  simp only [List.mem_filter] at this
  exact ⟨this.1.1, this.1.2, this.2⟩

theorem mem_filtersOnly {P : Post} (hP : Selects P) {frames : List Frame} {filter : Option (List Nat)} {a : Nat}
    (h : a ∈ filtersOnly P frames filter) : passes filter a = true ∧ P.keep a = true := by
  have := hP.1 _ _ h
  simp only [List.mem_filter] at this
  exact ⟨this.1.2, this.2⟩

/-- every hit passed the candidate filter that was computed (any rule) -/
theorem search_within_filter (rule : Rule) (E : Engine) (P : Post) (hE : E1 E) (hP : Selects P)
    (frames : List Frame) (q : Req) (a : Nat) (h : a ∈ search rule E P frames q) :
    allows (candidateFilter rule frames q) a = true := by
  unfold search at h
  cases hc : candidateFilter rule frames q with
  | none => rw [hc] at h; cases h
  | some filter =>
    rw [hc] at h
    rw [allows_some]
    simp only at h
    cases ht : tryTantivy E P filter q.topK q.offset with
    | none =>
      rw [ht] at h
      simp only at h
      by_cases htt : q.hasTextTerms = true
      · simp only [htt, if_true] at h; exact (mem_lexFallback hP h).2.1
      · simp only [htt] at h; exact (mem_filtersOnly hP h).1
    | some hits =>
      rw [ht] at h
      simp only at h
      unfold tryTantivy at ht
      cases he : E.tantivy filter (docLimit q.topK q.offset filter) with
      | none => rw [he] at ht; cases ht
      | some eh =>
        rw [he] at ht
        simp only at ht
        by_cases h0 : eh.isEmpty = true
        · simp only [h0, if_true] at ht
          by_cases hl : E.hasLex = true
          · simp only [hl, if_true, Option.some.injEq] at ht
            subst ht; exact (mem_lexFallback hP h).2.1
          · simp only [hl, Bool.false_eq_true, ↓reduceIte, Option.some.injEq] at ht
            subst ht; cases h
        · simp only [h0, Bool.false_eq_true, ↓reduceIte] at ht
          by_cases h1 : (P.order (eh.filter P.keep)).isEmpty = true
          · simp only [h1, if_true, Option.some.injEq] at ht
            subst ht; exact (mem_lexFallback hP h).2.1
          · simp only [h1, Bool.false_eq_true, ↓reduceIte, Option.some.injEq] at ht
            subst ht
            have h2 := hP.2 _ _ (hP.1 _ _ h)
            have h3 : a ∈ eh := (List.mem_filter.1 h2).1
            cases filter with
            | none => rfl
            | some F => simpa [passes] using hE F _ eh he a h3

/-- **C11 end to end, `as_of_frame`:** for every engine satisfying E1 and every selecting
    post-processing, every hit of the (repaired) search has id ≤ n. -/
theorem C11_e2e_frame (E : Engine) (P : Post) (hE : E1 E) (hP : Selects P)
    (frames : List Frame) (q : Req) (n : Nat) (hn : q.asOfFrame = some n) :
    ∀ a ∈ search .repaired E P frames q, a ≤ n :=
  fun a h => C11_bound_frame frames q n a hn (search_within_filter _ E P hE hP frames q a h)

/-- **C11 end to end, `as_of_ts`:** every hit is an active frame with timestamp ≤ t. -/
theorem C11_e2e_ts (E : Engine) (P : Post) (hE : E1 E) (hP : Selects P)
    (frames : List Frame) (hu : UniqueIds frames) (q : Req) (t : Int) (ht : q.asOfTs = some t) :
    ∀ a ∈ search .repaired E P frames q, ∀ f ∈ frames, f.id = a → f.ts ≤ t ∧ f.active = true :=
  fun a h => C11_bound_ts frames q t a ht hu (search_within_filter _ E P hE hP frames q a h)

/-- the reference engine satisfies E1, the reference paging selects (the hypotheses are satisfiable) -/
theorem idealEngine_E1 (rank : List Nat) : E1 (idealEngine rank) := by
  intro F lim hits h a ha
  simp only [idealEngine, Option.some.injEq] at h
  subst h
  have := (List.mem_filter.1 (List.mem_of_mem_take ha)).2
  simpa [passes] using this

theorem idealPost_selects (k o : Nat) : Selects (idealPost k o) := by
  constructor
  · intro l a h
    exact List.mem_of_mem_drop (List.mem_of_mem_take h)
  · intro l a h; exact h

/-! ### second clause end to end -/

/-- literal, per-page reading: same `top_k` / cursor with and without the bound -/
def C11_mono_page_full : Prop :=
  ∀ (rank : List Nat) (frames : List Frame) (q : Req) (a : Nat),
    a ∈ idealSearch .repaired rank frames q → a ∈ idealSearch .repaired rank frames q.unfiltered

/-- FALSE for any top-k engine: frames 0 and 1 both match, frame 1 ranks first, `top_k = 1`.
    Without the bound the page is `[1]`, with `as_of_frame = 0` it is `[0]`. -/
theorem C11_mono_page_counterexample : ¬ C11_mono_page_full := by
  intro h
  have := h [1, 0] [⟨0, 100, true⟩, ⟨1, 200, true⟩] { asOfFrame := some 0, topK := 1 } 0 (by decide)
  revert this
  decide

/-- the `doc_limit` form: 21 matching frames ranked 0,1,…,20, `top_k = 1` (doc_limit = 20), paging
    that shows the newest evaluated document (recency re-sort): the unfiltered page shows frame 19
    (frame 20, the newest match, is cut by doc_limit before the re-sort); with `as_of_frame = 3`
    the page shows frame 3, which the unfiltered page did not show.  Observed on the real code
    with 30 such frames (harness fixed corpus, file 2). -/
theorem C11_mono_page_counterexample_doc_limit :
    let frames : List Frame := (List.range 21).map fun i => ⟨i, 100 + i, true⟩
    let rank := List.range 21
    let P : Post := { keep := fun _ => true, order := List.reverse, page := fun l => l.take 1 }
    search .repaired (idealEngine rank) P frames { asOfFrame := some 3, topK := 1 } = [3] ∧
    search .repaired (idealEngine rank) P frames { topK := 1 } = [19] := by
  decide

/-- hypotheses under which the per-page reading holds: `M` = "document matches the query" -/
structure Untruncated (E : Engine) (P : Post) (M : Nat → Bool) (frames : List Frame)
    (f0 : Option (List Nat)) (lim0 : Nat) (cap : Nat) : Prop where
  /-- the engine is up for every call or for none -/
  uniform : ∀ f l f' l', (E.tantivy f l).isSome = (E.tantivy f' l').isSome
  /-- engine hits match the query and pass the frame filter -/
  sound : ∀ f l hits, E.tantivy f l = some hits → ∀ a ∈ hits, M a = true ∧ passes f a = true
  /-- the unfiltered engine call is not cut by doc_limit -/
  complete : ∀ hits, E.tantivy f0 lim0 = some hits → ∀ a, M a = true → passes f0 a = true → a ∈ hits
  /-- legacy lex matches match the query -/
  lexSound : ∀ a ∈ E.lexMatches, M a = true
  /-- the page holds every list of at most `cap` entries (top_k ≥ cap, no cursor) … -/
  pageFull : ∀ l a, l.length ≤ cap → a ∈ l → a ∈ P.page l
  pageSel : ∀ l a, a ∈ P.page l → a ∈ l
  /-- … and nothing longer reaches it -/
  engineLen : ∀ hits, E.tantivy f0 lim0 = some hits → hits.length ≤ cap
  lexLen : E.lexMatches.length ≤ cap
  framesLen : frames.length ≤ cap
  /-- the re-sort is a rearrangement -/
  orderPerm : ∀ l a, a ∈ P.order l ↔ a ∈ l
  orderLen : ∀ l, (P.order l).length ≤ l.length

theorem mem_tryTantivy_some {E : Engine} {P : Post} {M : Nat → Bool} {frames : List Frame}
    {f0 : Option (List Nat)} {lim0 cap : Nat} (hU : Untruncated E P M frames f0 lim0 cap) {f : Option (List Nat)} {k o : Nat} {hits : List Nat} {a : Nat}
    (ht : tryTantivy E P f k o = some hits) (h : a ∈ hits) :
    passes f a = true ∧ P.keep a = true ∧ M a = true := by
  have hP : Selects P := ⟨hU.pageSel, fun l a h => (hU.orderPerm l a).1 h⟩
  unfold tryTantivy at ht
  cases he : E.tantivy f (docLimit k o f) with
  | none => rw [he] at ht; cases ht
  | some eh =>
    rw [he] at ht
    simp only at ht
    by_cases h0 : eh.isEmpty = true
    · simp only [h0, if_true] at ht
      by_cases hl : E.hasLex = true
      · simp only [hl, if_true, Option.some.injEq] at ht
        subst ht
        have := mem_lexFallback hP h
        exact ⟨this.2.1, this.2.2, hU.lexSound a this.1⟩
      · simp only [hl, Bool.false_eq_true, ↓reduceIte, Option.some.injEq] at ht
        subst ht; cases h
    · simp only [h0, Bool.false_eq_true, ↓reduceIte] at ht
      by_cases h1 : (P.order (eh.filter P.keep)).isEmpty = true
      · simp only [h1, if_true, Option.some.injEq] at ht
        subst ht
        have := mem_lexFallback hP h
        exact ⟨this.2.1, this.2.2, hU.lexSound a this.1⟩
      · simp only [h1, Bool.false_eq_true, ↓reduceIte, Option.some.injEq] at ht
        subst ht
        have h2 := hP.2 _ _ (hP.1 _ _ h)
        obtain ⟨h3, h4⟩ := List.mem_filter.1 h2
        have := hU.sound f _ eh he a h3
        exact ⟨this.2, h4, this.1⟩

/-- **C11, second clause per page, when the unfiltered page is not truncated:** every hit of the
    search with `as_of_*` is a hit of the same search without it. -/
theorem C11_mono_untruncated (E : Engine) (P : Post) (M : Nat → Bool) (frames : List Frame) (q : Req)
    (f0 : Option (List Nat)) (hf0 : candidateFilter .repaired frames q.unfiltered = some f0)
    (cap : Nat) (hU : Untruncated E P M frames f0 (docLimit q.topK q.offset f0) cap) (a : Nat)
    (h : a ∈ search .repaired E P frames q) : a ∈ search .repaired E P frames q.unfiltered := by
  have hP : Selects P := ⟨hU.pageSel, fun l a h => (hU.orderPerm l a).1 h⟩
  -- facts about the filtered hit
  unfold search at h
  cases hc : candidateFilter .repaired frames q with
  | none => rw [hc] at h; cases h
  | some f =>
    rw [hc] at h
    simp only at h
    have hmono : ∀ b, passes f b = true → passes f0 b = true := by
      intro b hb
      have := C11_mono_filter frames q b (by rw [hc, allows_some]; exact hb)
      rwa [hf0, allows_some] at this
    unfold search
    rw [hf0]
    simp only [Req.unfiltered]
    cases ht : tryTantivy E P f q.topK q.offset with
    | none =>
      rw [ht] at h
      simp only at h
      -- the engine is down for the unfiltered call as well
      have hdown : tryTantivy E P f0 q.topK q.offset = none := by
        unfold tryTantivy at ht ⊢
        cases he : E.tantivy f (docLimit q.topK q.offset f) with
        | some eh =>
          rw [he] at ht
          simp only at ht
          split at ht
          · split at ht <;> cases ht
          · split at ht <;> cases ht
        | none =>
          have := hU.uniform f (docLimit q.topK q.offset f) f0 (docLimit q.topK q.offset f0)
          rw [he] at this
          cases he0 : E.tantivy f0 (docLimit q.topK q.offset f0) with
          | none => rfl
          | some _ => rw [he0] at this; cases this
      rw [hdown]
      simp only
      by_cases htt : q.hasTextTerms = true
      · simp only [htt, if_true] at h ⊢
        obtain ⟨h1, h2, h3⟩ := mem_lexFallback hP h
        refine hU.pageFull _ _ ?_ (List.mem_filter.2 ⟨List.mem_filter.2 ⟨h1, hmono a h2⟩, h3⟩)
        exact Nat.le_trans (List.length_filter_le _ _) (Nat.le_trans (List.length_filter_le _ _) hU.lexLen)
      · simp only [htt] at h ⊢
        have hsel := hP.1 _ _ h
        simp only [List.mem_filter] at hsel
        refine hU.pageFull _ _ ?_ (List.mem_filter.2 ⟨List.mem_filter.2 ⟨hsel.1.1, hmono a hsel.1.2⟩, hsel.2⟩)
        refine Nat.le_trans (List.length_filter_le _ _) (Nat.le_trans (List.length_filter_le _ _) ?_)
        simpa using hU.framesLen
    | some hits =>
      rw [ht] at h
      simp only at h
      obtain ⟨hp, hk, hm⟩ := mem_tryTantivy_some hU ht h
      have hp0 := hmono a hp
      -- the engine is up for the unfiltered call; it returns `a`
      have hup : ∃ eh0, E.tantivy f0 (docLimit q.topK q.offset f0) = some eh0 := by
        have hsome : (E.tantivy f (docLimit q.topK q.offset f)).isSome = true := by
          unfold tryTantivy at ht
          cases he : E.tantivy f (docLimit q.topK q.offset f) with
          | none => rw [he] at ht; cases ht
          | some _ => rfl
        have := hU.uniform f (docLimit q.topK q.offset f) f0 (docLimit q.topK q.offset f0)
        rw [hsome] at this
        cases he0 : E.tantivy f0 (docLimit q.topK q.offset f0) with
        | none => rw [he0] at this; cases this
        | some eh0 => exact ⟨eh0, rfl⟩
      obtain ⟨eh0, he0⟩ := hup
      have ha0 : a ∈ eh0 := hU.complete eh0 he0 a hm hp0
      have hne : eh0.isEmpty = false := isEmpty_false_of_mem ha0
      have hev : a ∈ P.order (eh0.filter P.keep) := (hU.orderPerm _ _).2 (List.mem_filter.2 ⟨ha0, hk⟩)
      have hne2 : (P.order (eh0.filter P.keep)).isEmpty = false := isEmpty_false_of_mem hev
      have : tryTantivy E P f0 q.topK q.offset = some (P.page (P.order (eh0.filter P.keep))) := by
        unfold tryTantivy
        rw [he0]
        simp [hne, hne2]
      rw [this]
      refine hU.pageFull _ _ ?_ hev
      exact Nat.le_trans (hU.orderLen _) (Nat.le_trans (List.length_filter_le _ _) (hU.engineLen eh0 he0))

/-! ### non-vacuity: concrete instances of the hypotheses and of the statements -/

/-- a three-frame corpus with a tie on the timestamp and an inactive frame -/
def exFrames : List Frame := [⟨0, 100, true⟩, ⟨1, 100, true⟩, ⟨2, 50, false⟩, ⟨3, 300, true⟩]

example : UniqueIds exFrames := by unfold UniqueIds; decide

-- the bound is given, the filter is a real set, and something passes it
example : candidateFilter .repaired exFrames { asOfFrame := some 2, sketch := some [1, 3] } = some (some [1]) := by decide
example : candidateFilter .repaired exFrames { asOfTs := some 100, date := .present false (some [0, 3]) } = some (some [0]) := by decide
example : allows (candidateFilter .repaired exFrames { asOfFrame := some 2, sketch := some [1, 3] }) 1 = true := by decide
-- end to end with the reference engine: E1 and Selects hold, the search returns a hit inside the bound
example : search .repaired (idealEngine [3, 1, 0]) (idealPost 10 0) exFrames { asOfFrame := some 2 } = [1, 0] := by decide
example : E1 (idealEngine [3, 1, 0]) ∧ Selects (idealPost 10 0) := ⟨idealEngine_E1 _, idealPost_selects _ _⟩

/-- `Untruncated` is satisfiable: reference engine, every matching document fits -/
example : Untruncated (idealEngine [3, 1, 0]) (idealPost 10 0) (fun a => [3, 1, 0].contains a) exFrames none
    (docLimit 10 0 none) 10 where
  uniform := by intros; rfl
  sound := by
    intro f l hits h a ha
    simp only [idealEngine, Option.some.injEq] at h
    subst h
    have := List.mem_filter.1 (List.mem_of_mem_take ha)
    exact ⟨by simpa using this.1, this.2⟩
  complete := by
    intro hits h a hm _
    simp only [idealEngine, Option.some.injEq] at h
    subst h
    have : a = 3 ∨ a = 1 ∨ a = 0 := by simpa using hm
    rcases this with rfl | rfl | rfl <;> decide
  lexSound := by intro a h; cases h
  pageFull := by
    intro l a hl h
    simp only [idealPost, List.drop_zero]
    rw [List.take_of_length_le (by omega)]
    exact h
  pageSel := (idealPost_selects 10 0).1
  engineLen := by
    intro hits h
    simp only [idealEngine, Option.some.injEq] at h
    subst h
    decide
  lexLen := by decide
  framesLen := by decide
  orderPerm := by intro l a; rfl
  orderLen := by intro l; exact Nat.le_refl _

end Mv.Filter
