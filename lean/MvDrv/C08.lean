/- Driver for C08: the Core model's line protocol (see MvModel/CoreDrv.lean for the requests) plus the
   read-path requests of MvModel/ReadPaths.lean:
     lex                 → the lexical engine's frame ids (`lexDocs`), sorted (`-` when empty)
     timeline            → frame ids of the unbounded timeline, in (timestamp, id) order
     hits <id,id,…|->    → the ids of that engine answer a lexical search path can report
     vhits <id,id,…|->   → the ids of that vector-index answer `vec_search_with_embedding` can report
     inactive            → ids of the frames the committed table marks Superseded / Deleted
     replay f=<n|-> ts=<int|->  → the candidate ids of a time-travel search (`get_replay_frame_ids`)
   (`hits` / `vhits` / `timeline` use the variant the current source tree has: Gen/C08.lean flags);
   every other request goes to `Mv.Core.drvStep` unchanged. -/
import MvModel.CoreDrv
import MvModel.ReadPaths
open Mv.Core

def parseIds (s : String) : List Nat :=
  if s == "-" then [] else (s.splitOn ",").filterMap (·.toNat?)

def c08Step (m : Mem) (ws : List String) : Mem × String :=
  match ws with
  | ["lex"] => (m, showNats (m.lexDocs.mergeSort natLe))
  | ["timeline"] => (m, showNats (codeTimelineIds m))
  | ["hits", ans] => (m, showNats (codeSearchHits m.frames (parseIds ans)))
  | ["vhits", ans] => (m, showNats (codeVecHits m.frames (parseIds ans)))
  | ["inactive"] => (m, showNats (inactiveIds m.frames))
  | "replay" :: rest =>
    let kv := kvs rest
    (m, showNats (replayIds m.frames ((getS kv "f").bind (·.toNat?)) (getI kv "ts")))
  | _ => drvStep m ws

def main : IO Unit := Mv.runDriver Mem.create c08Step
