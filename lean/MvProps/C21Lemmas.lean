/-
  C21 — finite case analysis of the doctor's control model.

  `Cond` × `Opts` is finite (5184 × 32).  The facts below are checked by kernel evaluation of the model on every
  condition (`allCond`), one declaration per option combination where the whole space is needed; the lifting to
  files (arbitrary frame lists / pending operations) is done structurally in `MvProps/C21.lean`.
-/
import MvModel.Doctor
namespace Mv.Doctor

/-! ### exhaustive enumeration -/

def allB (f : Bool → Bool) : Bool := f false && f true
def allFoot (f : Foot → Bool) : Bool := f .ok && f .magic && f .body
def allIdx (f : Idx → Bool) : Bool := f .ok && f .missing && f .corrupt

def allCond (p : Cond → Bool) : Bool :=
  allB fun a => allB fun b => allB fun c => allFoot fun ft => allIdx fun t => allIdx fun l => allIdx fun v =>
  allB fun w => allB fun hp => allB fun hf => p ⟨a, b, c, ft, t, l, v, w, hp, hf⟩

theorem allB_spec {f : Bool → Bool} (h : allB f = true) (b : Bool) : f b = true := by
  unfold allB at h
  cases b <;> simp_all

theorem allFoot_spec {f : Foot → Bool} (h : allFoot f = true) (x : Foot) : f x = true := by
  unfold allFoot at h
  cases x <;> simp_all

theorem allIdx_spec {f : Idx → Bool} (h : allIdx f = true) (x : Idx) : f x = true := by
  unfold allIdx at h
  cases x <;> simp_all

theorem allCond_spec {p : Cond → Bool} (h : allCond p = true) (c : Cond) : p c = true := by
  obtain ⟨a, b, c3, ft, t, l, v, w, hp, hf⟩ := c
  unfold allCond at h
  have h := allB_spec h a
  have h := allB_spec h b
  have h := allB_spec h c3
  have h := allFoot_spec h ft
  have h := allIdx_spec h t
  have h := allIdx_spec h l
  have h := allIdx_spec h v
  have h := allB_spec h w
  have h := allB_spec h hp
  exact allB_spec h hf

/-! ### the predicates of the property on conditions -/

/-- the doctor can open the file: the TOC can be located (pointer or footer intact) and either its checksum
    field is intact or WAL replay will rewrite it; the WAL region scans -/
def Healable (c : Cond) : Bool := (c.hdrPtr || c.foot == .ok) && (c.tocSum || c.hasPending) && c.walOk

/-- nothing left to repair -/
def Good (c : Cond) : Bool :=
  match c with
  | ⟨hp, hs, ts, ft, t, _, v, w, pe, fr⟩ =>
    hp && hs && ts && ft == .ok && t != .corrupt && !(t == .missing && fr) && v != .corrupt && w && !pe

def okStatus : Outcome → Bool
  | .report .clean .none _ => true
  | .report .healed .none _ => true
  | _ => false

def statusOf : Outcome → Option Status
  | .report s _ _ => some s
  | _ => none

/-- one pass over the result of a run on a healable condition -/
def healChk (o : Opts) (c : Cond) : Bool :=
  !Healable c ||
  match doctorC false o c with
  | ⟨out, c', act⟩ =>
    okStatus out && Good c' &&
    (if c.hasPending then act == .replayed && c'.time == .ok else act == .keep && c'.hasFrames == c.hasFrames) &&
    -- embeddings of a decodable vec index survive every option combination
    (c.vec != .ok || c'.vec == .ok)

set_option maxRecDepth 100000

theorem heal_0000 : allCond (healChk ⟨false, false, false, false, false⟩) = true := by decide +kernel
theorem heal_1000 : allCond (healChk ⟨true, false, false, false, false⟩) = true := by decide +kernel
theorem heal_0100 : allCond (healChk ⟨false, true, false, false, false⟩) = true := by decide +kernel
theorem heal_1100 : allCond (healChk ⟨true, true, false, false, false⟩) = true := by decide +kernel
theorem heal_0010 : allCond (healChk ⟨false, false, true, false, false⟩) = true := by decide +kernel
theorem heal_1010 : allCond (healChk ⟨true, false, true, false, false⟩) = true := by decide +kernel
theorem heal_0110 : allCond (healChk ⟨false, true, true, false, false⟩) = true := by decide +kernel
theorem heal_1110 : allCond (healChk ⟨true, true, true, false, false⟩) = true := by decide +kernel
theorem heal_0001 : allCond (healChk ⟨false, false, false, true, false⟩) = true := by decide +kernel
theorem heal_1001 : allCond (healChk ⟨true, false, false, true, false⟩) = true := by decide +kernel
theorem heal_0101 : allCond (healChk ⟨false, true, false, true, false⟩) = true := by decide +kernel
theorem heal_1101 : allCond (healChk ⟨true, true, false, true, false⟩) = true := by decide +kernel
theorem heal_0011 : allCond (healChk ⟨false, false, true, true, false⟩) = true := by decide +kernel
theorem heal_1011 : allCond (healChk ⟨true, false, true, true, false⟩) = true := by decide +kernel
theorem heal_0111 : allCond (healChk ⟨false, true, true, true, false⟩) = true := by decide +kernel
theorem heal_1111 : allCond (healChk ⟨true, true, true, true, false⟩) = true := by decide +kernel

theorem heal_all (o : Opts) (h : o.dryRun = false) : allCond (healChk o) = true := by
  obtain ⟨a, b, c, d, e⟩ := o
  simp only at h
  subst h
  cases a <;> cases b <;> cases c <;> cases d
  · exact heal_0000
  · exact heal_0001
  · exact heal_0010
  · exact heal_0011
  · exact heal_0100
  · exact heal_0101
  · exact heal_0110
  · exact heal_0111
  · exact heal_1000
  · exact heal_1001
  · exact heal_1010
  · exact heal_1011
  · exact heal_1100
  · exact heal_1101
  · exact heal_1110
  · exact heal_1111

/-- a run on a condition with nothing to repair: Clean (Healed when work is forced), same condition up to a rebuilt
    lex index, data untouched -/
def goodChk (o : Opts) (c : Cond) : Bool :=
  !Good c ||
  match doctorC false o c with
  | ⟨out, c', act⟩ =>
    (statusOf out == some (if o.forced then .healed else .clean)) && okStatus out && Good c' && act == .keep &&
    (c' == { c with lex := c'.lex }) && (o.forced || c' == c) && (c.vec != .ok || c'.vec == .ok)

def allOptsWet (p : Opts → Bool) : Bool :=
  allB fun a => allB fun b => allB fun c => allB fun d => p ⟨a, b, c, d, false⟩

theorem allOptsWet_spec {p : Opts → Bool} (h : allOptsWet p = true) (o : Opts) (hd : o.dryRun = false) : p o = true := by
  obtain ⟨a, b, c, d, e⟩ := o
  simp only at hd
  subst hd
  unfold allOptsWet at h
  have h := allB_spec h a
  have h := allB_spec h b
  have h := allB_spec h c
  exact allB_spec h d

theorem good_all : allOptsWet (fun o => allCond (goodChk o)) = true := by decide +kernel

/-- the exact report of a default-options run on a good condition -/
theorem good_default_report : allCond (fun c => !Good c ||
    (doctorC false Opts.default c).out == .report .clean .none [(.verify, .executed)]) = true := by decide +kernel

/-- a condition with nothing to repair opens and verifies -/
theorem good_opens_verifies : allCond (fun c => !Good c || (opens c && verifyPassed c)) = true := by decide +kernel

/-- outside `Healable` (WAL intact) the doctor reports Failed and touches no data -/
def failChk (o : Opts) (c : Cond) : Bool :=
  (Healable c || !c.walOk) ||
  match doctorC false o c with
  | ⟨out, c', act⟩ => statusOf out == some .failed && act == .keep && !opens c' && c'.hasPending == c.hasPending

theorem fail_all : allOptsWet (fun o => allCond (failChk o)) = true := by decide +kernel

end Mv.Doctor
