//! C01 — acknowledged operations are never lost (crash-free histories).
//! impl: real `Memvid` on a tempdir file; model: drv_c01 (Lean Core model); oracle: the independent
//! Rust reference model of `mvh::hist` (frames predicted from the acknowledged calls).
use mvh::hist::*;

fn main() {
    let args = mvh::parse_args();
    let mut prof = GenProfile::standard(args.thorough);
    prof.corpus = corpus();
    let cfg = FamilyConfig {
        property: "C01",
        rule: "operation histories (put / put_with_embedding / put_with_chunk_embeddings / update_frame with and without \
               payload / delete_frame / commit / drop+open / crash+open (WAL replay) / read-only open / batch / \
               commit_skip_indexes / finalize_indexes / vacuum / doctor / apply_ticket) on a real .mv2 file and on the Lean Core \
               model, full observation compared after every op; short mixed histories plus long put-heavy ones that fill the \
               64 KiB WAL, cross automatic checkpoints and force grow_wal_region; non-trivial = at least two acknowledged \
               mutations and a commit point (explicit, automatic, drop or replay); distinct = op/answer trace",
        expect_branches: vec!["auto-commit", "wal-grow", "chunked-put", "update-reuse", "update-payload", "wal-replay-on-open",
                              "drop-commit", "op-vacuum", "op-doctor", "op-skip", "reject-inactive", "reject-not-found"],
    };
    let mut oracle = |v: &mut StepView| oracle_c01(v);
    run_family(cfg, prof, &mut oracle);
}

fn corpus() -> Vec<(String, Vec<Op>)> {
    let put = |kind, len, seed, ts| Op::Put(PutSpec::simple(PayloadSpec::new(kind, len, seed), ts));
    vec![
        ("put-commit-reopen".into(), vec![put(PayloadKind::Ascii, 40, 1, 100), put(PayloadKind::Bin, 3, 2, 101), Op::Commit, Op::Reopen]),
        ("chunked-drop".into(), vec![put(PayloadKind::Ascii, 5000, 3, 100), Op::Reopen, put(PayloadKind::Ascii, 2400, 4, 101), Op::Crash]),
        ("update-delete-pending".into(), vec![
            put(PayloadKind::Ascii, 30, 5, 100), put(PayloadKind::Ascii, 31, 6, 101), Op::Commit, Op::Delete { id: 0 },
            Op::Update(UpdSpec { id: 0, tags: vec!["x".into()], ..Default::default() }),
            Op::Update(UpdSpec { id: 1, payload: Some(PayloadSpec::new(PayloadKind::Utf8, 50, 7)), ..Default::default() }),
            Op::Crash, Op::Vacuum, Op::Reopen]),
        ("tiny-binary".into(), (0..12).map(|i| put(PayloadKind::Bin, 1 + i % 16, 100 + i as u64, 200 + i as i64)).chain([Op::Commit, Op::Reopen]).collect()),
        ("presize-then-payloadless-commit".into(), vec![put(PayloadKind::Bin, 2000, 11, 100), put(PayloadKind::Ascii, 50, 12, 101), Op::Commit,
            Op::BeginBatch { disable_auto_checkpoint: true, skip_sync: false, compression_level: 3, presize: 200_000 },
            Op::Delete { id: 1 }, Op::Commit, Op::EndBatch, Op::Reopen]),
        // known finding: payload-less update of a chunked document reads back empty
        ("kf-payloadless-update-of-chunked".into(), vec![put(PayloadKind::Ascii, 5000, 21, 100), Op::Commit,
            Op::Update(UpdSpec { id: 0, tags: vec!["x".into()], ..Default::default() }), Op::Commit, Op::Reopen]),
        ("empty-payloads".into(), vec![put(PayloadKind::Empty, 0, 1, 5), put(PayloadKind::Empty, 0, 2, 6), Op::Commit, put(PayloadKind::Zero, 100, 3, 7), Op::Reopen]),
    ]
}
