/- Driver for C09 (lexical recall: sketch pre-filter decision + candidate filter + engine hand-off + assembly).
   entries   = <frameId>:<simhash>:<filter hex>;…  or  -        (the sketch track in `iter()` order)
   evaluated = <frame>:<chunkStart>:<chunkLen>:<s-e,s-e>;… or -  (documents matching the query in the engine's
               ranking order, with the snippet slices of this request; a frame absent here is culled)
   requests:
     consts                                             → <hamming> <cand mult> <cand floor> <strict 0|1> <bits>
     qsk <variant> <query hex>                          → <simhash>:<filter hex>:<top terms>:<token count> | err non-ascii
     ham <a> <b>                                        → <hamming distance>
     search <variant> <query hex> <noSketch 0|1> <topK> <entries> <evaluated>
        → q=<simhash> cands=<ids|off> dropterm=<ids> dropham=<ids> trunc=<0|1> filter=<all|empty|ids> limit=<n>
          hits=<sorted distinct frame ids> n=<number of hits> det=<0|1> crowded=<ids> | err non-ascii
        (track order stands for the score order: `trunc=1` says the order mattered; the ideal engine returns the
         first `limit` documents of the ranking that the filter allows: `det=0` says more than `limit` qualified) -/
import MvModel.Recall
import MvModel.Blake3
import MvModel.DrvUtil
open Mv Mv.Sketch Mv.Recall Mv.Gen.C09

def hashToken (t : Bytes) : Nat := leVal ((Blake3.hash t).take 8)

def parseVariant : String → Option Variant
  | "small" => some .small | "medium" => some .medium | "large" => some .large | _ => none

def parseEntry (s : String) : Option Entry :=
  match s.splitOn ":" with
  | [id, sh, f] => do
    pure { frameId := (← id.toNat?), simhash := (← sh.toNat?), termFilter := (← ofHex f), topTerms := [],
           termWeightSum := 0, flags := 0, lengthHint := 0 }
  | _ => none

def parseEntries (s : String) : Option (List Entry) :=
  if s == "-" then some [] else (s.splitOn ";").mapM parseEntry

def parseSlice (s : String) : Option (Nat × Nat) :=
  match s.splitOn "-" with
  | [a, b] => do pure ((← a.toNat?), (← b.toNat?))
  | _ => none

def parseDoc (s : String) : Option Page.Doc :=
  match s.splitOn ":" with
  | [f, cs, cl, sl] => do
    let slices ← if sl.isEmpty then some [] else (sl.splitOn ",").mapM parseSlice
    pure { frame := (← f.toNat?), chunkStart := (← cs.toNat?), chunkLen := (← cl.toNat?), slices := slices }
  | _ => none

def parseDocs (s : String) : Option (List Page.Doc) :=
  if s == "-" then some [] else (s.splitOn ";").mapM parseDoc

/-- insertion sort + dedup, for canonical output -/
def insSorted (x : Nat) : List Nat → List Nat
  | [] => [x]
  | y :: ys => if x < y then x :: y :: ys else if x = y then y :: ys else y :: insSorted x ys
def sortDedup (l : List Nat) : List Nat := l.foldr insSorted []

def showStage : Filter.Stage → String
  | none => "empty"
  | some none => "all"
  | some (some f) => showNats (sortDedup f)

def lookupDoc (ev : List Page.Doc) (f : Nat) : Option Page.Doc := ev.find? (·.frame == f)

def doSearch (v : Variant) (qtext : Bytes) (noSketch : Bool) (topK : Nat) (es : List Entry) (ev : List Page.Doc) : String :=
  let tokens := tokenizeAscii qtext
  let q := QSketch.ofTokens hashToken tokens v
  let t : Track := ⟨v, es⟩
  let rank := ev.map (·.frame)
  let W : World := { engine := Filter.idealEngine rank, docs := lookupDoc ev, reorder := id, frames := [] }
  let r : Request := { topK := topK, noSketch := noSketch }
  let stageOn := !es.isEmpty && !noSketch
  let vs := es.map fun e => (e.frameId, verdict q SKETCH_HAMMING e)
  let ids := fun (w : Verdict) => (vs.filter (·.2 == w)).map (·.1)
  let trunc := stageOn && decide ((ids .pass).length > maxCandidates topK)
  let stage := filterOf SKETCH_HAMMING id q t r
  let hits := hitFrames W id q t r
  let allowed := rank.filter (Filter.allows stage)
  let limit := match stage with
    | some f => Filter.docLimit topK 0 f
    | none => 0
  let det := decide (allowed.length ≤ limit) || stage.isNone
  let crowded := allowed.filter fun f => !hits.contains f
  let cands := if stageOn then showNats (sortDedup (ids .pass)) else "off"
  s!"q={q.simhash} cands={cands} dropterm={showNats (if stageOn then ids .noOverlap else [])} " ++
  s!"dropham={showNats (if stageOn then ids .tooFar else [])} trunc={if trunc then 1 else 0} filter={showStage stage} " ++
  s!"limit={limit} hits={showNats (sortDedup hits)} n={hits.length} det={if det then 1 else 0} crowded={showNats crowded}"

def step (_ : Unit) (ws : List String) : Unit × String :=
  let bad := ((), "bad-op")
  match ws with
  | ["consts"] =>
    ((), s!"{SKETCH_HAMMING} {SKETCH_CAND_MULT} {SKETCH_CAND_FLOOR} {if HAMMING_CUT_STRICT then 1 else 0} {SIMHASH_BITS}")
  | ["qsk", v, qt] => match parseVariant v, ofHex qt with
      | some v, some qt =>
        if isAscii qt then
          let q := QSketch.ofTokens hashToken (tokenizeAscii qt) v
          ((), s!"{q.simhash}:{toHexW q.termFilter}:{showNats q.topTerms}:{q.tokenCount}")
        else ((), "err non-ascii")
      | _, _ => bad
  | ["ham", a, b] => match a.toNat?, b.toNat? with
      | some a, some b => ((), toString (hamming a b))
      | _, _ => bad
  | ["search", v, qt, ns, k, es, ev] =>
    match parseVariant v, ofHex qt, ns.toNat?, k.toNat?, parseEntries es, parseDocs ev with
      | some v, some qt, some ns, some k, some es, some ev =>
        if isAscii qt then ((), doSearch v qt (ns != 0) k es ev) else ((), "err non-ascii")
      | _, _, _, _, _, _ => bad
  | _ => bad

def main : IO Unit := runDriver () step
