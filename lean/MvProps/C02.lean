/-
  C02 — process-crash atomicity: protocol theorems.

  Part 1 (this section): the copy-and-rename protocol of `commit` is atomic under process crash for
  ANY list of writes to the temp file and EVERY prefix of the syscall list.
-/
import MvModel.Disk
import MvModel.Emit
namespace Mv.Crash
open Mv.Disk Mv.Emit

variable {β : Type}

/-- running content-only syscalls of inode `i`: directory and other inodes untouched, the content of
    `i` is the fold of `contentStep` -/
theorem run_onIno (z : β) (i : Nat) :
    ∀ (ws : List (Sys β)) (d : Disk β), (∀ s ∈ ws, OnIno i s) →
      (run z d ws).dir = d.dir ∧ (∀ j, j ≠ i → (run z d ws).ino j = d.ino j) ∧
      ((run z d ws).ino i).vol z = ws.foldl (contentStep z) ((d.ino i).vol z)
  | [], d, _ => by simp [run]
  | s :: ws, d, h => by
    have hs := step_onIno z d i s (h s (by simp))
    have ih := run_onIno z i ws (step z d s) (fun x hx => h x (by simp [hx]))
    refine ⟨?_, ?_, ?_⟩
    · simpa [run, hs.1] using ih.1
    · intro j hj
      have := ih.2.1 j hj
      simpa [run, hs.2.1 j hj] using this
    · have := ih.2.2
      simpa [run, hs.2.2] using this

/-- the invariant of the staging phase: the path still names the old inode, whose content nobody
    touches, and the temp name names the staging inode -/
def StagingInv (d0 : Disk β) (tmp p : String) (i j : Nat) (d : Disk β) : Prop :=
  d.dir p = some j ∧ d.ino j = d0.ino j ∧ d.dir tmp = some i

theorem stagingInv_step (z : β) (d0 : Disk β) (tmp p : String) (i j : Nat) (hij : i ≠ j)
    (d : Disk β) (s : Sys β) (hs : OnIno i s) (h : StagingInv d0 tmp p i j d) :
    StagingInv d0 tmp p i j (step z d s) := by
  have hst := step_onIno z d i s hs
  refine ⟨by rw [hst.1]; exact h.1, ?_, by rw [hst.1]; exact h.2.2⟩
  rw [hst.2.1 j (Ne.symm hij)]; exact h.2.1

/-- the path's survivor is exactly the old or exactly the new image -/
def OldOrNew (z : β) (old new : List β) (p : String) (d : Disk β) : Prop :=
  crashProcess z d p = some old ∨ crashProcess z d p = some new

theorem oldOrNew_of_staging (z : β) (d0 : Disk β) (tmp p : String) (i j : Nat) (new : List β)
    (d : Disk β) (h : StagingInv d0 tmp p i j d) : OldOrNew z ((d0.ino j).vol z) new p d := by
  left
  simp [crashProcess, h.1, h.2.1]

/-- the closing syscalls `fsync tmp; rename tmp p; fsync dir` -/
theorem staged_tail (z : β) (d0 : Disk β) (tmp p : String) (i j : Nat) (hij : i ≠ j) (new : List β)
    (d2 : Disk β) (hd2 : StagingInv d0 tmp p i j d2) (hvol2 : (d2.ino i).vol z = new) :
    AllPre z (OldOrNew z ((d0.ino j).vol z) new p) d2 [.fsync i, .rename tmp p, .fsyncDir] := by
  have hd3 : StagingInv d0 tmp p i j (step z d2 (.fsync i)) :=
    stagingInv_step z d0 tmp p i j hij d2 (.fsync i) rfl hd2
  have hvol3 : ((step z d2 (.fsync i)).ino i).vol z = new := by
    rw [(step_onIno z d2 i (.fsync i) rfl).2.2]; simpa [contentStep] using hvol2
  refine ⟨oldOrNew_of_staging z d0 tmp p i j new d2 hd2,
          oldOrNew_of_staging z d0 tmp p i j new _ hd3, ?_, ?_⟩
  · right
    generalize step z d2 (.fsync i) = d3 at hd3 hvol3
    simp [crashProcess, step, DirOp.apply, hd3.2.2, hvol3]
  · right
    generalize step z d2 (.fsync i) = d3 at hd3 hvol3
    simp [crashProcess, step, DirOp.apply, hd3.2.2, hvol3]

/-- **C02, staged commit** — for the copy-and-rename protocol with ANY list `ws` of writes,
    truncates and fsyncs of the temp file, after EVERY prefix `k` of the syscall list the path's
    content (process-crash survivor) is exactly the old image or exactly the complete new image
    `imageOf ws` — never a mixture, never a partial temp file. -/
theorem C02_staged_commit (z : β) (d : Disk β) (tmp p : String) (i j : Nat) (ws : List (Sys β))
    (hp : d.dir p = some j) (hij : i ≠ j) (htp : tmp ≠ p) (hws : ∀ s ∈ ws, OnIno i s) (k : Nat) :
    crashProcess z (run z d ((stagedProto tmp p i ws).take k)) p = some ((d.ino j).vol z) ∨
    crashProcess z (run z d ((stagedProto tmp p i ws).take k)) p = some (imageOf z ws) := by
  suffices h : AllPre z (OldOrNew z ((d.ino j).vol z) (imageOf z ws) p) d (stagedProto tmp p i ws) from
    allPre_take z _ _ d h k
  have hd1 : StagingInv d tmp p i j (step z d (.create tmp i)) := by
    refine ⟨?_, ?_, ?_⟩
    · simp [step, DirOp.apply, Ne.symm htp, hp]
    · simp [step, setIno_other _ _ _ _ (Ne.symm hij)]
    · simp [step, DirOp.apply]
  have hvol1 : ((step z d (.create tmp i)).ino i).vol z = [] := by
    simp [step, Inode.empty, Inode.vol]
  have hinv := allPre_of_inv z (StagingInv d tmp p i j) (OnIno i)
    (fun d' s hs h => stagingInv_step z d tmp p i j hij d' s hs h) ws _ hws hd1
  have hrun := run_onIno z i ws (step z d (.create tmp i)) hws
  have hvol2 : ((run z (step z d (.create tmp i)) ws).ino i).vol z = imageOf z ws := by
    rw [hrun.2.2, hvol1]; rfl
  show AllPre z _ d (.create tmp i :: (ws ++ [.fsync i, .rename tmp p, .fsyncDir]))
  refine ⟨Or.inl (by simp [crashProcess, hp]), ?_⟩
  apply allPre_append
  · exact allPre_mono z _ _ (oldOrNew_of_staging z d tmp p i j (imageOf z ws)) ws _ hinv.1
  · exact staged_tail z d tmp p i j hij (imageOf z ws) _ hinv.2 hvol2

/-- non-vacuity: a two-write staging over a one-byte old file; prefix 3 still shows the old image,
    prefix 5 (after the rename) the complete new one -/
def demoDisk : Disk Nat :=
  { ino := fun x => if x = 0 then { durable := [7], pend := [] } else Inode.empty,
    dir := fun a => if a = "m" then some 0 else none,
    ddir := fun a => if a = "m" then some 0 else none, dpend := [] }

def demoWs : List (Sys Nat) := [.pwrite 1 0 [1, 2, 3], .pwrite 1 1 [9]]

example : crashProcess 0 (run 0 demoDisk ((stagedProto "t" "m" 1 demoWs).take 3)) "m" = some [7] := by decide
example : crashProcess 0 (run 0 demoDisk ((stagedProto "t" "m" 1 demoWs).take 5)) "m" = some [1, 9, 3] := by decide
example : imageOf 0 demoWs = [1, 9, 3] := by decide

end Mv.Crash
