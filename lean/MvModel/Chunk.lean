/-
  Model of the naive chunk planner of `/repo/src/memvid/chunks.rs` over `List Char`
  (the Rust code works in character indices): `plan_text_chunks` (threshold + dispatch),
  `plan_naive_chunks`, `build_chunk_manifest`, `choose_chunk_boundary`, `slice_text_range`,
  `is_sentence_terminal`.  The structural chunker (`src/structure/*`) is a black box: it appears
  only as the parameter `structural` of `planText`.

  Constants come from the source on every run (tools/gen/C34.py → MvModel/Gen/C34.lean).
-/
import MvModel.Gen.C34
namespace Mv.Chunk

def DEFAULT_CHUNK_CHARS : Nat := Mv.Gen.C34.DEFAULT_CHUNK_CHARS
def CHUNK_MIN_CHARS : Nat := Mv.Gen.C34.CHUNK_MIN_CHARS
def SLACK_DIV : Nat := Mv.Gen.C34.SLACK_DIV
def SLACK_MIN : Nat := Mv.Gen.C34.SLACK_MIN

theorem DEFAULT_CHUNK_CHARS_eq : DEFAULT_CHUNK_CHARS = 1200 := by decide
theorem CHUNK_MIN_CHARS_eq : CHUNK_MIN_CHARS = 2400 := by decide
theorem SLACK_DIV_eq : SLACK_DIV = 5 := by decide
theorem SLACK_MIN_eq : SLACK_MIN = 32 := by decide

/-- `TextChunkRange { start, end }` (character indices, end exclusive) -/
structure Range where
  start : Nat
  stop : Nat
deriving Repr, DecidableEq

/-- `DocumentChunkPlan`: manifest ranges + chunk texts -/
structure Plan where
  ranges : List Range
  chunks : List (List Char)
deriving Repr, DecidableEq

/-- `is_sentence_terminal`: `matches!(ch, '.' | '!' | '?')` (set regenerated from the source) -/
def isSentenceTerminal (c : Char) : Bool := Mv.Gen.C34.SENTENCE_TERMINALS.contains c.toNat

/-- Code points with the Unicode `White_Space` property — what Rust's `char::is_whitespace`
    tests.  The harness compares this table with `char::is_whitespace` over all of Unicode on
    every run; no theorem depends on its contents. -/
def WHITE_SPACE : List Nat :=
  [0x09, 0x0A, 0x0B, 0x0C, 0x0D, 0x20, 0x85, 0xA0, 0x1680,
   0x2000, 0x2001, 0x2002, 0x2003, 0x2004, 0x2005, 0x2006, 0x2007, 0x2008, 0x2009, 0x200A,
   0x2028, 0x2029, 0x202F, 0x205F, 0x3000]

/-- `char::is_whitespace` -/
def isWhitespace (c : Char) : Bool := WHITE_SPACE.contains c.toNat

/-- `chars[lo..hi]` as a list (the characters the loops `for idx in lo..hi` visit, in order) -/
def window (text : List Char) (lo hi : Nat) : List Char := (text.drop lo).take (hi - lo)

/-- First loop of `choose_chunk_boundary`:
    `for idx in target..forward_limit { '\n' → return idx+1; terminal → candidates.push(idx+1) }`.
    `w` = characters still to visit, `idx` = index of the head of `w`.
    Result: (early return value, candidates so far). -/
def fwdSentence : List Char → Nat → List Nat → Option Nat × List Nat
  | [], _, cands => (none, cands)
  | ch :: rest, idx, cands =>
    if ch = '\n' then (some (idx + 1), cands)
    else if isSentenceTerminal ch then fwdSentence rest (idx + 1) (cands ++ [idx + 1])
    else fwdSentence rest (idx + 1) cands

/-- Second loop: `for idx in (start..target).rev() { '\n' → return idx+1; terminal → push; break }`.
    `w` = characters still to visit (nearest to `target` first), `n` = `idx + 1` for the head. -/
def bwdSentence : List Char → Nat → List Nat → Option Nat × List Nat
  | [], _, cands => (none, cands)
  | ch :: rest, n, cands =>
    if ch = '\n' then (some n, cands)
    else if isSentenceTerminal ch then (none, cands ++ [n])
    else bwdSentence rest (n - 1) cands

/-- `Iterator::min_by_key`: the FIRST element whose key is minimal -/
def minByKey (key : Nat → Nat) : List Nat → Option Nat
  | [] => none
  | x :: xs => some (xs.foldl (fun best y => if key y < key best then y else best) x)

/-- Third loop: `for idx in target..forward_limit { if is_whitespace → return idx+1 }` -/
def fwdWhitespace : List Char → Nat → Option Nat
  | [], _ => none
  | ch :: rest, idx => if isWhitespace ch then some (idx + 1) else fwdWhitespace rest (idx + 1)

/-- Fourth loop: `for idx in (start..target).rev() { if is_whitespace → return idx+1 }` -/
def bwdWhitespace : List Char → Nat → Option Nat
  | [], _ => none
  | ch :: rest, n => if isWhitespace ch then some n else bwdWhitespace rest (n - 1)

/-- `choose_chunk_boundary(chars, start, target, total, slack)`; `pos.saturating_sub(target)` is
    `Nat` subtraction. -/
def chooseBoundary (text : List Char) (start target total slack : Nat) : Nat :=
  if target ≥ total then total
  else
    let forwardLimit := min (target + slack) total
    let fw := window text target forwardLimit
    let bw := (window text start target).reverse
    match fwdSentence fw target [] with
    | (some r, _) => r
    | (none, c1) =>
      match bwdSentence bw target c1 with
      | (some r, _) => r
      | (none, c2) =>
        match minByKey (fun pos => pos - target) c2 with
        | some choice => choice
        | none =>
          match fwdWhitespace fw target with
          | some r => r
          | none =>
            match bwdWhitespace bw target with
            | some r => r
            | none => target

/-- The `while start < total_chars` loop of `build_chunk_manifest`, including the progress
    fallback.  Structural recursion on `fuel`; `none` = fuel exhausted (proved impossible for
    `fuel > total - start`, see `loop_isSome`). -/
def loop (text : List Char) (chunkChars total slack : Nat) : Nat → Nat → Option (List Range)
  | 0, start => if start < total then none else some []
  | fuel + 1, start =>
    if start < total then
      let target := min (start + chunkChars) total
      let e := chooseBoundary text start target total slack
      if e ≤ start then
        let fallbackEnd := min (start + chunkChars) total
        (loop text chunkChars total slack fuel fallbackEnd).map (⟨start, fallbackEnd⟩ :: ·)
      else
        (loop text chunkChars total slack fuel e).map (⟨start, e⟩ :: ·)
    else some []

/-- `(chunk_chars / 5).max(32)` -/
def slackOf (chunkChars : Nat) : Nat := max (chunkChars / SLACK_DIV) SLACK_MIN

/-- `build_chunk_manifest(text, chunk_chars)` (ranges only; `chunk_chars` is echoed by the caller) -/
def buildManifest (text : List Char) (chunkChars : Nat) : Option (List Range) :=
  if chunkChars = 0 then none
  else
    let total := text.length
    if total ≤ chunkChars then none
    else loop text chunkChars total (slackOf chunkChars) (total + 1) 0

/-- `slice_text_range`: `text.chars().skip(start).take(end - start)`, empty when `start >= end` -/
def sliceRange (text : List Char) (r : Range) : List Char :=
  if r.start ≥ r.stop then [] else (text.drop r.start).take (r.stop - r.start)

/-- `plan_naive_chunks` -/
def planNaive (text : List Char) : Option Plan :=
  match buildManifest text DEFAULT_CHUNK_CHARS with
  | none => none
  | some rs =>
    if rs.length ≤ 1 then none
    else some { ranges := rs, chunks := rs.map (sliceRange text) }

/-- `plan_text_chunks` after `normalize_text` (C33): `normalized` is the normalized text,
    `hasStructure` the verdict of `detect_structure(..).has_structure()`, `structural` the result
    of `plan_structural_chunks` (all three are black boxes here). -/
def planText (normalized : List Char) (hasStructure : Bool) (structural : Option Plan) : Option Plan :=
  if normalized.length < CHUNK_MIN_CHARS then none
  else if hasStructure then structural
  else planNaive normalized

/-! ### The structural clause as an executable predicate (evaluated on the implementation's
    output by the driver; validation only — the structural chunker is not modelled) -/

def isBlank (l : List Char) : Bool := l.all isWhitespace

/-- split on `'\n'` -/
def splitLines : List Char → List (List Char)
  | [] => [[]]
  | c :: rest =>
    match splitLines rest with
    | [] => [[]]
    | l :: ls => if c = '\n' then [] :: l :: ls else (c :: l) :: ls

def trimWs (l : List Char) : List Char :=
  ((l.dropWhile isWhitespace).reverse.dropWhile isWhitespace).reverse

def isInfix (needle hay : List Char) : Bool :=
  match hay with
  | [] => needle.isEmpty
  | _ :: t => needle.isPrefixOf hay || isInfix needle t

/-- index of the first non-blank line of `text` (trimmed) that is in no chunk -/
def firstMissingLine (text : List Char) (chunks : List (List Char)) : Option Nat :=
  let ls := (splitLines text).map trimWs
  (List.range ls.length).find? (fun i =>
    match ls[i]? with
    | some l => !l.isEmpty && !(chunks.any (isInfix l))
    | none => false)

/-- index of the first empty chunk -/
def firstEmptyChunk (chunks : List (List Char)) : Option Nat :=
  (List.range chunks.length).find? (fun i => match chunks[i]? with | some c => c.isEmpty | none => false)

end Mv.Chunk
