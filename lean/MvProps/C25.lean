/-
  C25 — Tickets: strictly increasing sequence, authentic signatures only.

  "A ticket is accepted only if its sequence number is greater than that of every ticket accepted
   before on this memory, including across reopen.  A signed ticket is accepted only if its Ed25519
   signature over the canonical payload verifies with the embedded key and names the bound memory,
   and a rejected ticket changes nothing."

  Model: MvModel/Ticket.lean (mirror of src/memvid/ticket.rs, src/signature.rs and the binding /
  reopen parts of src/memvid/lifecycle.rs).  Black boxes are parameters of every theorem
  (`Params`): the parsed verifying key, the canonical payload `msg` (no injectivity needed) and
  Ed25519 `verify_strict` as `sigVerify`.  Histories = any list of apply_ticket,
  apply_signed_ticket, bind_memory, set_memory_binding_only, commit and drop+open.
  `unbind_memory` resets `seq_no` to 1 and is deliberately NOT part of the histories (see
  `unbind_resets_sequence` at the end).

  The "rejected ticket" clause includes: the call returns an error value.  The error path computes
  `expected = current_seq + 1`; with overflow checks (debug/test profile) that panics when the
  current sequence number is i64::MAX (`C25_checked_arith_panics`).  The theorems about returning
  an error are therefore stated for the arithmetic the source uses (`codeArith`, regenerated from
  src/memvid/ticket.rs on every run); `C25_code_uses_saturating` fails to elaborate while the
  source still has the unchecked `+ 1`.
-/
import MvModel.Ticket
namespace Mv.Ticket

/-! ### single calls -/

theorem seqReject_wrote (a : Arith) (cur actual : Int) : (seqReject a cur actual).wrote = false := by
  unfold seqReject; split <;> rfl

theorem seqReject_not_ok (a : Arith) (cur actual : Int) : (seqReject a cur actual).res ≠ .ok := by
  unfold seqReject; split <;> simp

theorem seqGate_ok_iff (a : Arith) (s : Mem) (seq : Int) (acc : Mem) :
    (seqGate a s seq acc).2.res = .ok ↔ s.ticket.seqNo < seq := by
  unfold seqGate
  by_cases h : seq ≤ s.ticket.seqNo
  · rw [if_pos h]; constructor
    · intro h'; exact absurd h' (seqReject_not_ok _ _ _)
    · intro h'; omega
  · rw [if_neg h]; constructor
    · intro _; omega
    · intro _; rfl

theorem seqGate_reject (a : Arith) (s : Mem) (seq : Int) (acc : Mem)
    (h : (seqGate a s seq acc).2.res ≠ .ok) :
    (seqGate a s seq acc).1 = s ∧ (seqGate a s seq acc).2.wrote = false := by
  unfold seqGate at h ⊢
  by_cases hc : seq ≤ s.ticket.seqNo
  · rw [if_pos hc]; exact ⟨rfl, seqReject_wrote _ _ _⟩
  · rw [if_neg hc] at h; exact absurd rfl h

theorem seqGate_accept (a : Arith) (s : Mem) (seq : Int) (acc : Mem)
    (h : (seqGate a s seq acc).2.res = .ok) :
    (seqGate a s seq acc).1 = acc ∧ (seqGate a s seq acc).2.wrote = true := by
  have hlt := (seqGate_ok_iff a s seq acc).1 h
  have hc : ¬ seq ≤ s.ticket.seqNo := by omega
  unfold seqGate
  rw [if_neg hc]; exact ⟨rfl, rfl⟩

/-- `apply_ticket` accepts exactly the tickets above the current sequence number -/
theorem applyTicket_ok_iff (a : Arith) (s : Mem) (t : Ticket) :
    (applyTicket a s t).2.res = .ok ↔ s.ticket.seqNo < t.seqNo := seqGate_ok_iff _ _ _ _

theorem applyTicket_reject (a : Arith) (s : Mem) (t : Ticket) (h : (applyTicket a s t).2.res ≠ .ok) :
    (applyTicket a s t).1 = s ∧ (applyTicket a s t).2.wrote = false := seqGate_reject _ _ _ _ h

theorem applyTicket_accept (a : Arith) (s : Mem) (t : Ticket) (h : (applyTicket a s t).2.res = .ok) :
    (applyTicket a s t).1 = accept s t.issuer t.seqNo t.expires t.capacity false ∧
    (applyTicket a s t).2.wrote = true := seqGate_accept _ _ _ _ h

/-- everything `apply_signed_ticket` established before accepting -/
structure SignedOk {Key : Type} (P : Params Key) (s : Mem) (t : SignedTicket) : Prop where
  key : ∃ pk, P.key = some pk ∧
        P.sigVerify pk (P.msg t.memoryId t.issuer t.seqNo t.expires t.capacity) t.signature = true
  bound : s.binding = some t.memoryId
  sigLen : t.signature.length = 64
  seq : s.ticket.seqNo < t.seqNo

/-- the four checks before the sequence gate all pass iff key, binding, length and signature are right -/
theorem signedCheck_none_iff {Key : Type} (P : Params Key) (s : Mem) (t : SignedTicket) :
    signedCheck P s t = none ↔
      (∃ pk, P.key = some pk ∧
        P.sigVerify pk (P.msg t.memoryId t.issuer t.seqNo t.expires t.capacity) t.signature = true) ∧
      s.binding = some t.memoryId ∧ t.signature.length = 64 := by
  unfold signedCheck
  cases hk : P.key with
  | none =>
    constructor
    · intro h; cases h
    · intro h; obtain ⟨⟨pk, hpk, _⟩, _⟩ := h; cases hpk
  | some pk =>
    cases hb : s.binding with
    | none =>
      constructor
      · intro h; cases h
      · intro h; cases h.2.1
    | some id =>
      show (if t.memoryId ≠ id then some SigReason.memoryId
            else if t.signature.length ≠ Mv.Gen.C25.SIGNATURE_LEN then some SigReason.sigLength
            else if P.sigVerify pk (P.msg t.memoryId t.issuer t.seqNo t.expires t.capacity) t.signature = false
              then some SigReason.mismatch
            else none) = none ↔ _
      by_cases h1 : t.memoryId ≠ id
      · rw [if_pos h1]; constructor
        · intro h; cases h
        · intro h; have := h.2.1; injection this with this; exact absurd this.symm h1
      · rw [if_neg h1]
        have h1' : t.memoryId = id := Classical.not_not.mp h1
        by_cases h2 : t.signature.length ≠ Mv.Gen.C25.SIGNATURE_LEN
        · rw [if_pos h2]; constructor
          · intro h; cases h
          · intro h; exact absurd h.2.2 h2
        · rw [if_neg h2]
          have h2' : t.signature.length = 64 := Classical.not_not.mp h2
          by_cases h3 : P.sigVerify pk (P.msg t.memoryId t.issuer t.seqNo t.expires t.capacity) t.signature = false
          · rw [if_pos h3]; constructor
            · intro h; cases h
            · intro h; obtain ⟨⟨pk', hpk', hv⟩, _⟩ := h
              injection hpk' with hpk'; subst hpk'; rw [h3] at hv; cases hv
          · rw [if_neg h3]; constructor
            · intro _
              refine ⟨⟨pk, rfl, ?_⟩, by rw [h1'], h2'⟩
              cases hh : P.sigVerify pk (P.msg t.memoryId t.issuer t.seqNo t.expires t.capacity) t.signature
              · exact absurd hh h3
              · rfl
            · intro _; rfl

theorem applySigned_ok_iff {Key : Type} (P : Params Key) (a : Arith) (s : Mem) (t : SignedTicket) :
    (applySignedTicket P a s t).2.res = .ok ↔ SignedOk P s t := by
  unfold applySignedTicket
  cases hc : signedCheck P s t with
  | some r =>
    constructor
    · intro h; cases h
    · intro h
      have : signedCheck P s t = none := (signedCheck_none_iff P s t).2 ⟨h.key, h.bound, h.sigLen⟩
      rw [hc] at this; cases this
  | none =>
    have hn := (signedCheck_none_iff P s t).1 hc
    show (seqGate a s t.seqNo _).2.res = .ok ↔ _
    rw [seqGate_ok_iff]
    constructor
    · intro h; exact ⟨hn.1, hn.2.1, hn.2.2, h⟩
    · intro h; exact h.seq

theorem applySigned_reject {Key : Type} (P : Params Key) (a : Arith) (s : Mem) (t : SignedTicket)
    (h : (applySignedTicket P a s t).2.res ≠ .ok) :
    (applySignedTicket P a s t).1 = s ∧ (applySignedTicket P a s t).2.wrote = false := by
  unfold applySignedTicket at h ⊢
  cases hc : signedCheck P s t with
  | some r => exact ⟨rfl, rfl⟩
  | none => rw [hc] at h; exact seqGate_reject _ _ _ _ h

theorem applySigned_accept {Key : Type} (P : Params Key) (a : Arith) (s : Mem) (t : SignedTicket)
    (h : (applySignedTicket P a s t).2.res = .ok) :
    (applySignedTicket P a s t).1 = accept s t.issuer t.seqNo t.expires t.capacity true ∧
    (applySignedTicket P a s t).2.wrote = true := by
  unfold applySignedTicket at h ⊢
  cases hc : signedCheck P s t with
  | some r => rw [hc] at h; cases h
  | none => rw [hc] at h; exact seqGate_accept _ _ _ _ h

/-- `bind_memory` unfolded: refused because bound elsewhere, or `apply_ticket` then the binding -/
theorem bindMemory_cases (a : Arith) (s : Mem) (id : Bytes) (t : Ticket) :
    (bindMemory a s id t = (s, { res := .err .alreadyBound, wrote := false })) ∨
    ((applyTicket a s t).2.res = .ok ∧
      bindMemory a s id t = ({ (applyTicket a s t).1 with binding := some id, dirty := true }, (applyTicket a s t).2)) ∨
    ((applyTicket a s t).2.res ≠ .ok ∧ bindMemory a s id t = applyTicket a s t) := by
  have go : ∀ (x : Mem × Out),
      x = (if (applyTicket a s t).2.res = .ok
            then ({ (applyTicket a s t).1 with binding := some id, dirty := true }, (applyTicket a s t).2)
            else applyTicket a s t) →
      ((applyTicket a s t).2.res = .ok ∧
        x = ({ (applyTicket a s t).1 with binding := some id, dirty := true }, (applyTicket a s t).2)) ∨
      ((applyTicket a s t).2.res ≠ .ok ∧ x = applyTicket a s t) := by
    intro x hx
    by_cases hok : (applyTicket a s t).2.res = .ok
    · rw [if_pos hok] at hx; exact Or.inl ⟨hok, hx⟩
    · rw [if_neg hok] at hx; exact Or.inr ⟨hok, hx⟩
  unfold bindMemory
  cases hb : s.binding with
  | none => exact Or.inr (go _ rfl)
  | some e =>
    by_cases he : e ≠ id
    · left; show (if e ≠ id then _ else _) = _; rw [if_pos he]
    · right; show (_ ∧ (if e ≠ id then _ else _) = _) ∨ (_ ∧ (if e ≠ id then _ else _) = _)
      rw [if_neg he]; exact go _ rfl

theorem bindMemory_reject (a : Arith) (s : Mem) (id : Bytes) (t : Ticket)
    (h : (bindMemory a s id t).2.res ≠ .ok) :
    (bindMemory a s id t).1 = s ∧ (bindMemory a s id t).2.wrote = false := by
  rcases bindMemory_cases a s id t with e | ⟨hok, e⟩ | ⟨hne, e⟩
  · rw [e]; exact ⟨rfl, rfl⟩
  · rw [e] at h; exact absurd hok h
  · rw [e]; exact applyTicket_reject a s t hne

theorem bindMemory_ok (a : Arith) (s : Mem) (id : Bytes) (t : Ticket)
    (h : (bindMemory a s id t).2.res = .ok) :
    s.ticket.seqNo < t.seqNo ∧
    (bindMemory a s id t).1 =
      { accept s t.issuer t.seqNo t.expires t.capacity false with binding := some id, dirty := true } := by
  rcases bindMemory_cases a s id t with e | ⟨hok, e⟩ | ⟨hne, e⟩
  · rw [e] at h; cases h
  · refine ⟨(applyTicket_ok_iff a s t).1 hok, ?_⟩
    rw [e, (applyTicket_accept a s t hok).1]
  · rw [e] at h; exact absurd h hne

/-! ### C25_reject_noop, C25_authentic -/

/-- **C25, third sentence.**  A rejected ticket — through `apply_ticket`, `apply_signed_ticket` or
    `bind_memory`, whatever the reason, whatever the arithmetic — leaves the whole state (in-memory
    ticket, binding, dirty flag, file contents) as it was and emits no write. -/
theorem C25_reject_noop {Key : Type} (P : Params Key) (a : Arith) (s : Mem) (op : Op)
    (hticket : op.ticketSeq ≠ none) (hrej : (step P a s op).2.res ≠ .ok) :
    (step P a s op).1 = s ∧ (step P a s op).2.wrote = false := by
  cases op with
  | apply t => exact applyTicket_reject a s t hrej
  | signed t => exact applySigned_reject P a s t hrej
  | bindTicket id t => exact bindMemory_reject a s id t hrej
  | bindOnly id => exact absurd rfl hticket
  | commit => exact absurd rfl hticket
  | reopen => exact absurd rfl hticket

/-- **C25, second sentence.**  An accepted signed ticket: the embedded key parsed, the signature is
    64 bytes and verifies under that key over the canonical payload of exactly the ticket's fields,
    the ticket names the memory this file is bound to, and its number is above the current one. -/
theorem C25_authentic {Key : Type} (P : Params Key) (a : Arith) (s : Mem) (t : SignedTicket)
    (hacc : (applySignedTicket P a s t).2.res = .ok) :
    (∃ pk, P.key = some pk ∧
       P.sigVerify pk (P.msg t.memoryId t.issuer t.seqNo t.expires t.capacity) t.signature = true) ∧
    s.binding = some t.memoryId ∧ t.signature.length = 64 ∧ s.ticket.seqNo < t.seqNo := by
  have ok := (applySigned_ok_iff P a s t).1 hacc
  exact ⟨ok.key, ok.bound, ok.sigLen, ok.seq⟩

/-- what acceptance does: the TicketRef takes the ticket's fields (`verified` only for a signed
    ticket) and the same TicketRef is in the file -/
theorem C25_accept_effect {Key : Type} (P : Params Key) (a : Arith) (s : Mem) (t : SignedTicket)
    (hacc : (applySignedTicket P a s t).2.res = .ok) :
    let s' := (applySignedTicket P a s t).1
    s'.ticket = { issuer := t.issuer, seqNo := t.seqNo, expires := t.expires,
                  capacity := t.capacity.getD 0, verified := true } ∧
    s'.disk.ticket = s'.ticket ∧ s'.binding = s.binding ∧ (applySignedTicket P a s t).2.wrote = true := by
  have h := applySigned_accept P a s t hacc
  simp only [h.1, h.2, accept, and_self]

/-! ### histories: C25_mono -/

theorem reopen_ticket (s : Mem) (h : Inv s) : (reopen s).ticket = s.ticket := by
  unfold reopen commit
  by_cases hd : s.dirty = true
  · simp [hd]
  · simp only [hd]; exact h.1

theorem reopen_binding (s : Mem) (h : Inv s) : (reopen s).binding = s.binding := by
  unfold reopen commit
  cases hd : s.dirty with
  | true => simp
  | false => simp only [Bool.false_eq_true, if_false]; exact h.2 hd

theorem Inv_accept (s : Mem) (i : Bytes) (q : Int) (e : Nat) (c : Option Nat) (v : Bool) :
    Inv (accept s i q e c v) := by
  unfold Inv accept; exact ⟨rfl, fun _ => rfl⟩

/-- every operation keeps `Inv`, never lowers the stored sequence number, and an accepted ticket
    had a number above the stored one and becomes the stored one -/
theorem step_facts {Key : Type} (P : Params Key) (a : Arith) (s : Mem) (op : Op) (h : Inv s) :
    Inv (step P a s op).1 ∧ s.ticket.seqNo ≤ (step P a s op).1.ticket.seqNo ∧
    (∀ n, acceptedSeq op (step P a s op).2 = some n →
        s.ticket.seqNo < n ∧ (step P a s op).1.ticket.seqNo = n) := by
  cases op with
  | apply t =>
    simp only [step]
    by_cases hok : (applyTicket a s t).2.res = .ok
    · have hlt := (applyTicket_ok_iff a s t).1 hok
      have he := (applyTicket_accept a s t hok).1
      refine ⟨by rw [he]; exact Inv_accept _ _ _ _ _ _, by rw [he]; simp only [accept]; omega, ?_⟩
      intro n hn
      simp only [acceptedSeq, hok, Op.ticketSeq] at hn
      injection hn with hn; subst hn
      exact ⟨hlt, by rw [he]; rfl⟩
    · have he := (applyTicket_reject a s t hok).1
      refine ⟨by rw [he]; exact h, by rw [he]; omega, ?_⟩
      intro n hn
      unfold acceptedSeq at hn
      split at hn
      · rename_i hh; exact absurd hh hok
      · cases hn
  | signed t =>
    simp only [step]
    by_cases hok : (applySignedTicket P a s t).2.res = .ok
    · have hlt := ((applySigned_ok_iff P a s t).1 hok).seq
      have he := (applySigned_accept P a s t hok).1
      refine ⟨by rw [he]; exact Inv_accept _ _ _ _ _ _, by rw [he]; simp only [accept]; omega, ?_⟩
      intro n hn
      simp only [acceptedSeq, hok, Op.ticketSeq] at hn
      injection hn with hn; subst hn
      exact ⟨hlt, by rw [he]; rfl⟩
    · have he := (applySigned_reject P a s t hok).1
      refine ⟨by rw [he]; exact h, by rw [he]; omega, ?_⟩
      intro n hn
      unfold acceptedSeq at hn
      split at hn
      · rename_i hh; exact absurd hh hok
      · cases hn
  | bindTicket id t =>
    simp only [step]
    by_cases hok : (bindMemory a s id t).2.res = .ok
    · obtain ⟨hlt, he⟩ := bindMemory_ok a s id t hok
      refine ⟨?_, by rw [he]; simp only [accept]; omega, ?_⟩
      · rw [he]; unfold Inv accept; exact ⟨rfl, fun hd => by cases hd⟩
      · intro n hn
        simp only [acceptedSeq, hok, Op.ticketSeq] at hn
        injection hn with hn; subst hn
        exact ⟨hlt, by rw [he]; rfl⟩
    · have he := (bindMemory_reject a s id t hok).1
      refine ⟨by rw [he]; exact h, by rw [he]; omega, ?_⟩
      intro n hn
      unfold acceptedSeq at hn
      split at hn
      · rename_i hh; exact absurd hh hok
      · cases hn
  | bindOnly id =>
    refine ⟨?_, ?_, ?_⟩
    · simp only [step, setBindingOnly]
      split
      · split
        · exact h
        · exact ⟨h.1, fun hd => by cases hd⟩
      · exact ⟨h.1, fun hd => by cases hd⟩
    · simp only [step, setBindingOnly]
      split
      · split <;> simp
      · simp
    · intro n hn
      unfold acceptedSeq at hn
      split at hn
      · cases hn
      · cases hn
  | commit =>
    refine ⟨⟨rfl, fun _ => rfl⟩, by simp [step, commit], ?_⟩
    intro n hn; simp [acceptedSeq, step, Op.ticketSeq] at hn
  | reopen =>
    refine ⟨⟨rfl, fun _ => rfl⟩, ?_, ?_⟩
    · simp only [step]; rw [reopen_ticket s h]; omega
    · intro n hn; simp [acceptedSeq, step, Op.ticketSeq] at hn

/-- every accepted number of a history is above the number stored when the history started -/
theorem accepted_above {Key : Type} (P : Params Key) (a : Arith) (ops : List Op) :
    ∀ (s : Mem), Inv s → ∀ n ∈ acceptedSeqs P a s ops, s.ticket.seqNo < n := by
  induction ops with
  | nil => intro s _ n hn; cases hn
  | cons op rest ih =>
    intro s h n hn
    obtain ⟨hinv, hle, hacc⟩ := step_facts P a s op h
    unfold acceptedSeqs at hn
    cases hA : acceptedSeq op (step P a s op).2 with
    | none =>
      simp only [hA] at hn
      have := ih _ hinv n hn
      omega
    | some m =>
      simp only [hA, List.mem_cons] at hn
      obtain ⟨hlt, heq⟩ := hacc m hA
      cases hn with
      | inl e => omega
      | inr hin => have := ih _ hinv n hin; omega

/-- **C25, first sentence.**  Along any history of apply_ticket / apply_signed_ticket /
    bind_memory / set_memory_binding_only / commit / drop+open from a state whose file holds the
    in-memory ticket, the sequence numbers of the accepted tickets are strictly increasing — each
    is greater than every one accepted before — and all exceed the number the history started with. -/
theorem C25_mono {Key : Type} (P : Params Key) (a : Arith) (ops : List Op) :
    ∀ (s : Mem), Inv s → List.Pairwise (· < ·) (s.ticket.seqNo :: acceptedSeqs P a s ops) := by
  induction ops with
  | nil => intro s _; simp [acceptedSeqs]
  | cons op rest ih =>
    intro s h
    obtain ⟨hinv, hle, hacc⟩ := step_facts P a s op h
    have habove := accepted_above P a (op :: rest) s h
    rw [List.pairwise_cons]
    refine ⟨habove, ?_⟩
    unfold acceptedSeqs
    cases hA : acceptedSeq op (step P a s op).2 with
    | none =>
      simp only [hA]
      exact (List.pairwise_cons.1 (ih _ hinv)).2
    | some m =>
      simp only [hA]
      obtain ⟨_, heq⟩ := hacc m hA
      have := ih _ hinv
      rw [heq] at this
      exact this

/-- the state a created file starts from satisfies the invariant -/
theorem Inv_created : Inv created := ⟨rfl, fun _ => rfl⟩

/-- `Inv` holds after any history -/
theorem Inv_run {Key : Type} (P : Params Key) (a : Arith) (ops : List Op) :
    ∀ s, Inv s → Inv (run P a s ops) := by
  induction ops with
  | nil => intro s h; exact h
  | cons op rest ih => intro s h; exact ih _ (step_facts P a s op h).1

/-- across reopen: dropping the handle and opening the file again restores exactly the ticket and
    the binding, after any history (so the next ticket is compared with the same number) -/
theorem C25_reopen_restores {Key : Type} (P : Params Key) (a : Arith) (ops : List Op) (s : Mem) (h : Inv s) :
    (reopen (run P a s ops)).ticket = (run P a s ops).ticket ∧
    (reopen (run P a s ops)).binding = (run P a s ops).binding :=
  ⟨reopen_ticket _ (Inv_run P a ops s h), reopen_binding _ (Inv_run P a ops s h)⟩

/-! ### the error value: no panic -/

theorem satSucc_inI64 (x : Int) (h : inI64 x) : inI64 (satSucc x) := by
  unfold satSucc inI64 I64_MAX I64_MIN at *
  split <;> omega

theorem satSucc_eq (x : Int) (h : x < I64_MAX) : satSucc x = x + 1 := by
  unfold satSucc I64_MAX at *; split <;> omega

/-- with `saturating_add` a rejected ticket always yields an error value: no call panics, and the
    reported `expected` is an i64 -/
theorem C25_no_panic {Key : Type} (P : Params Key) (s : Mem) (op : Op) :
    (step P .saturating s op).2.res ≠ .panic := by
  have hsr : ∀ c x, (seqReject .saturating c x).res ≠ .panic := by
    intro c x; simp [seqReject, expectedSeq]
  have hgate : ∀ seq acc, (seqGate .saturating s seq acc).2.res ≠ .panic := by
    intro seq acc; unfold seqGate; split
    · exact hsr _ _
    · simp
  have hap : ∀ t, (applyTicket .saturating s t).2.res ≠ .panic := fun t => hgate _ _
  cases op with
  | apply t => exact hap t
  | signed t =>
    simp only [step]; unfold applySignedTicket
    split
    · simp
    · exact hgate _ _
  | bindTicket id t =>
    simp only [step]
    rcases bindMemory_cases .saturating s id t with e | ⟨_, e⟩ | ⟨_, e⟩
    · rw [e]; simp
    · rw [e]; exact hap t
    · rw [e]; exact hap t
  | bindOnly id => simp only [step, setBindingOnly]; split <;> (try split) <;> simp
  | commit => simp [step]
  | reopen => simp [step]

theorem C25_expected_in_range (cur : Int) (h : inI64 cur) :
    ∃ e, expectedSeq .saturating cur = some e ∧ inI64 e ∧ (cur < I64_MAX → e = cur + 1) :=
  ⟨satSucc cur, rfl, satSucc_inI64 cur h, satSucc_eq cur⟩

/-- the unchecked `current_seq + 1` of a build with overflow checks: once a ticket with sequence
    number i64::MAX has been accepted, every later ticket makes the call panic instead of returning
    `TicketSequence` (witness replayed on the real code by the harness corpus) -/
theorem C25_checked_arith_panics :
    let s1 := (applyTicket .checked created { issuer := [], seqNo := I64_MAX, expires := 0, capacity := none }).1
    (applyTicket .checked created { issuer := [], seqNo := I64_MAX, expires := 0, capacity := none }).2.res = .ok ∧
    (applyTicket .checked s1 { issuer := [], seqNo := 5, expires := 0, capacity := none }).2.res = .panic := by
  decide

/-- the source computes the successor with `saturating_add` (regenerated from
    src/memvid/ticket.rs; this theorem does not elaborate while the code has `current_seq + 1`) -/
theorem C25_code_uses_saturating : codeArith = .saturating := by decide

/-- no ticket call of the code as it is panics -/
theorem C25_no_panic_code {Key : Type} (P : Params Key) (s : Mem) (op : Op) :
    (step P codeArith s op).2.res ≠ .panic := by
  rw [C25_code_uses_saturating]; exact C25_no_panic P s op

/-! ### non-vacuity: a concrete history exercising every clause -/

section Examples

/-- toy black boxes: key `7`; a signature verifies iff it is 64 copies of the payload's length byte -/
def exParams : Params Nat :=
  { key := some 7,
    msg := fun id iss seq exp cap => id ++ iss ++ [UInt8.ofNat seq.toNat, UInt8.ofNat exp, UInt8.ofNat (cap.getD 255)],
    sigVerify := fun pk m sg => pk == 7 && sg == List.replicate 64 (UInt8.ofNat m.length) }

def exId : Bytes := [1, 2, 3, 4]
def exSigned (seq : Int) (good : Bool) : SignedTicket :=
  { issuer := [0x61], seqNo := seq, expires := 60, capacity := some 9, memoryId := exId,
    signature := List.replicate 64 (if good then 8 else 9) }

def exHistory : List Op :=
  [ .signed (exSigned 2 true),                                        -- unbound: rejected
    .bindOnly exId,
    .signed (exSigned 2 false),                                       -- bad signature: rejected
    .signed (exSigned 2 true),                                        -- accepted (2)
    .reopen,
    .signed (exSigned 2 true),                                        -- replay after reopen: rejected
    .apply { issuer := [], seqNo := 1, expires := 0, capacity := none },   -- below: rejected
    .apply { issuer := [], seqNo := 5, expires := 0, capacity := some 100 }, -- accepted (5)
    .commit, .reopen,
    .signed (exSigned 5 true),                                        -- equal: rejected
    .signed (exSigned 6 true) ]                                       -- accepted (6)

example : acceptedSeqs exParams .saturating created exHistory = [2, 5, 6] := by decide
example : (run exParams .saturating created exHistory).ticket.verified = true := by decide
example : (applySignedTicket exParams .saturating (setBindingOnly created exId).1 (exSigned 2 true)).2.res = .ok := by
  decide
example : (applySignedTicket exParams .saturating (setBindingOnly created exId).1 (exSigned 2 false)).2
    = { res := .err (.signature .mismatch), wrote := false } := by decide
example : (applyTicket .saturating
      (applyTicket .saturating created { issuer := [], seqNo := I64_MAX, expires := 0, capacity := none }).1
      { issuer := [], seqNo := 5, expires := 0, capacity := none }).2.res = .err (.sequence I64_MAX 5) := by decide

/-- `unbind_memory` is outside the histories of C25: it resets the stored number, after which an
    already accepted sequence number is accepted again -/
theorem unbind_resets_sequence :
    let s5 := (applyTicket .saturating created { issuer := [], seqNo := 5, expires := 0, capacity := none }).1
    (applyTicket .saturating s5 { issuer := [], seqNo := 5, expires := 0, capacity := none }).2.res ≠ .ok ∧
    (applyTicket .saturating (unbind s5) { issuer := [], seqNo := 5, expires := 0, capacity := none }).2.res = .ok := by
  decide

end Examples

end Mv.Ticket
