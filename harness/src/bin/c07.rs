//! C07 — content fidelity: reads return exactly what was stored.
//!
//! Part A (byte level, this file's own cases): short histories of puts with the payload kinds and the
//! option combinations that decide HOW a payload is stored (whole / chunked, plain / zstd, any batch
//! compression level, with and without search text and mime) across commit, drop+open and crash+open.
//!   impl  : real `Memvid` on a temp file; after every op every frame is read through
//!           `frame_canonical_payload`, `blob_reader` (to the end) and its checksum is looked at;
//!           the pending WAL records are decoded through `verif_hooks::verif_pending_inserts`
//!   model : drv_c07, requests `c7…` = the Lean byte-level store (MvModel/Content.lean): records of a put,
//!           apply_records, the read paths; zstd enters as a table (level, plain) ↦ stored bytes
//!   oracle: independent of the model — for every acknowledged put of P: commit and open succeed; when P
//!           is stored whole, canonical payload == P, blob reader == P, checksum == blake3(the bytes in
//!           the file at the frame's range); when P is UTF-8 text that was split, canonical(document) ==
//!           concatenation of its active chunk frames in (chunk_index, id) order (== normalize_text(P)
//!           for text without tables / code), chunk count == manifest count.
//! Part B (operation histories of the Core family, shared runner): the generator of `mvh::hist`
//!   (put / update / delete / commit / reopen / crash / batch / vacuum / doctor …) on the real handle and
//!   on the Lean Core model (content tokens), with this file's content oracle: every active frame made by
//!   a put or a payload update reads back what the independent reference expects, its blob reader
//!   agrees, its checksum is the blake3 of the stored bytes.
use memvid_core::verif_hooks::{self, VerifPendingInsert};
use memvid_core::{DocMetadata, Frame, FrameRole, Memvid, MemvidError, PutManyOpts, PutOptions};
use mvh::hist::{self, PayloadKind, PayloadSpec, Source, StepView};
use mvh::*;
use serde::{Deserialize, Serialize};
use std::io::{Read, Seek, SeekFrom};
use std::path::PathBuf;

// ---------------------------------------------------------------------------------------
// Part A: cases

#[derive(Clone, Debug, PartialEq, Eq, Serialize, Deserialize)]
enum Pay {
    /// one of the payload kinds of the shared generator
    Spec(PayloadSpec),
    /// control bytes 1..=8: valid UTF-8, "binary content" for the budgeted extractor
    Ctl { len: usize, seed: u64 },
    /// `unit` repeated: highly compressible text
    Repeat { unit: String, times: usize },
    /// random bytes with few control characters (lossy text for the budgeted extractor)
    HighBin { len: usize, seed: u64 },
    Hex(String),
}

impl Pay {
    fn bytes(&self) -> Vec<u8> {
        match self {
            Pay::Spec(s) => s.bytes(),
            Pay::Ctl { len, seed } => { let mut r = Rng::new(*seed ^ 0xc71); (0..*len).map(|_| 1 + r.below(8) as u8).collect() }
            Pay::Repeat { unit, times } => unit.repeat(*times).into_bytes(),
            Pay::HighBin { len, seed } => {
                let mut r = Rng::new(*seed ^ 0x41b);
                let mut v: Vec<u8> = (0..*len).map(|_| 0x20 + r.below(0xd0) as u8).collect();
                if let Some(b) = v.first_mut() { *b = 0xff; }
                v
            }
            Pay::Hex(h) => unhexw(h).unwrap_or_default(),
        }
    }
    fn label(&self) -> String {
        match self {
            Pay::Spec(s) => format!("{:?}{}", s.kind, s.len),
            Pay::Ctl { len, .. } => format!("Ctl{len}"),
            Pay::Repeat { unit, times } => format!("Rep{}x{}", unit.len(), times),
            Pay::HighBin { len, .. } => format!("HighBin{len}"),
            Pay::Hex(h) => format!("Hex{}", h.len() / 2),
        }
    }
    /// text without tables / code blocks: the chunker's naive path, where C34 proves the partition
    fn unstructured(&self) -> bool {
        matches!(self, Pay::Spec(PayloadSpec { kind: PayloadKind::Ascii | PayloadKind::Utf8, .. }) | Pay::Repeat { .. })
    }
}

#[derive(Clone, Debug, PartialEq, Eq, Serialize, Deserialize)]
struct CPut {
    payload: Pay,
    /// None = PutOptions::default() for these four
    instant_index: Option<bool>,
    budget_ms: Option<u64>,
    auto_tag: Option<bool>,
    uri: Option<String>,
    search_text: Option<String>,
    /// `options.metadata = Some(DocMetadata { mime, .. })`
    mime: Option<String>,
    tags: Vec<String>,
}

impl CPut {
    fn new(payload: Pay) -> Self {
        CPut { payload, instant_index: None, budget_ms: None, auto_tag: None, uri: None, search_text: None, mime: None, tags: vec![] }
    }
    /// the options of the shared history runner: full extraction, nothing automatic
    fn plain(payload: Pay) -> Self {
        CPut { instant_index: Some(false), budget_ms: Some(0), auto_tag: Some(false), ..CPut::new(payload) }
    }
    /// library defaults except `auto_tag(false)`
    fn no_auto_tag(payload: Pay) -> Self { CPut { auto_tag: Some(false), ..CPut::new(payload) } }
    fn options(&self, ts: i64) -> PutOptions {
        let mut o = PutOptions::default();
        o.timestamp = Some(ts);
        if let Some(b) = self.instant_index { o.instant_index = b; }
        if let Some(b) = self.budget_ms { o.extraction_budget_ms = b; }
        if let Some(b) = self.auto_tag { o.auto_tag = b; o.extract_dates = b; }
        o.extract_triplets = false;
        o.uri = self.uri.clone();
        o.search_text = self.search_text.clone();
        o.tags = self.tags.clone();
        if let Some(m) = &self.mime { let mut d = DocMetadata::default(); d.mime = Some(m.clone()); o.metadata = Some(d); }
        o
    }
}

#[derive(Clone, Debug, PartialEq, Eq, Serialize, Deserialize)]
enum COp {
    Put(CPut),
    Commit,
    Reopen,
    Crash,
    /// `begin_batch` with automatic checkpoints disabled and this compression level
    Batch { level: i32 },
    EndBatch,
}

fn err_kind(e: &MemvidError) -> String {
    match e {
        MemvidError::InvalidFrame { reason, .. } => match *reason {
            "payload length exceeds maximum" => "too-large".into(),
            "payload extends past data region" => "past-data".into(),
            "payload extends past file length" => "past-file".into(),
            "failed to decode canonical payload" => "decode".into(),
            "canonical length mismatch" | "chunk canonical length mismatch" => "canon-len".into(),
            "document chunk manifest missing children" => "no-children".into(),
            "chunk manifest length mismatch" => "manifest-len".into(),
            other => format!("invalid-frame:{}", other.replace(' ', "_")),
        },
        MemvidError::ChecksumMismatch { .. } => "checksum".into(),
        other => format!("other:{}", other.to_string().replace(' ', "_").chars().take(60).collect::<String>()),
    }
}

/// independent copy of frame.rs `mime_is_text`
fn mime_is_text(mime: &str) -> bool {
    let n = mime.split(';').next().unwrap_or(mime).trim().to_ascii_lowercase();
    n.starts_with("text/") || matches!(n.as_str(), "application/json" | "application/xml" | "application/javascript"
        | "application/xhtml+xml" | "application/rss+xml" | "application/rtf" | "application/toml" | "application/yaml"
        | "application/x-yaml" | "application/x-toml")
}

fn tri_search(s: &Option<String>) -> &'static str { match s { None => "n", Some(t) if t.is_empty() => "e", Some(_) => "t" } }
fn tri_mime(m: &Option<String>) -> &'static str { match m { None => "n", Some(t) if mime_is_text(t) => "t", Some(_) => "b" } }
fn optn<T: std::fmt::Display>(o: &Option<T>) -> String { match o { Some(x) => x.to_string(), None => "-".into() } }
fn tokl(b: &[u8]) -> String { format!("ok:{}:{}", b.len(), if b.is_empty() { "E".to_string() } else { b3short(b) }) }
fn hexw0(b: &[u8]) -> String { if b.is_empty() { "-".into() } else { hexw(b) } }

struct CWorld {
    _dir: tempfile::TempDir,
    path: PathBuf,
    mem: Option<Memvid>,
    level: i32,
    ts: i64,
}

/// what the oracle expects of one acknowledged put
#[derive(Clone, Debug)]
struct Expect {
    doc_id: u64,
    payload: Vec<u8>,
    /// UTF-8 text that the planner split (raw plan)
    split: bool,
    unstructured: bool,
    n_frames: u64,
    label: String,
}

struct FrameRead {
    frame: Frame,
    canon: Result<Vec<u8>, String>,
    blob: Result<Vec<u8>, String>,
    /// the bytes in the file at the frame's range, read through an independent descriptor
    raw: Vec<u8>,
}

impl CWorld {
    fn create() -> CWorld {
        let dir = tempfile::Builder::new().prefix("mvh-c07-").tempdir().expect("tempdir");
        let path = dir.path().join("m.mv2");
        let mem = Memvid::create(&path).expect("create");
        CWorld { _dir: dir, path, mem: Some(mem), level: 3, ts: 1_700_000_000 }
    }
    fn header_footer_rel(&self) -> u64 {
        let mut buf = [0u8; 4096];
        let ok = std::fs::File::open(&self.path).and_then(|mut f| f.read_exact(&mut buf)).is_ok();
        if !ok { return 0; }
        match memvid_core::io::header::HeaderCodec::decode(&buf) { Ok(h) => h.footer_offset.saturating_sub(h.wal_offset + h.wal_size), Err(_) => 0 }
    }
    fn reads(&mut self) -> Vec<FrameRead> {
        let frames = verif_hooks::verif_frames(self.mem.as_ref().unwrap());
        let mut out = vec![];
        for f in frames {
            let mem = self.mem.as_mut().unwrap();
            let canon = mem.frame_canonical_payload(f.id).map_err(|e| err_kind(&e));
            let blob = match mem.blob_reader(f.id) {
                Ok(mut r) => { let mut v = vec![]; match r.read_to_end(&mut v) { Ok(_) => Ok(v), Err(_) => Err("io".to_string()) } }
                Err(e) => Err(err_kind(&e)),
            };
            let mut raw = vec![0u8; f.payload_length as usize];
            let got = std::fs::File::open(&self.path).and_then(|mut fh| { fh.seek(SeekFrom::Start(f.payload_offset))?; fh.read_exact(&mut raw) });
            if got.is_err() { raw.clear(); }
            out.push(FrameRead { frame: f, canon, blob, raw });
        }
        out
    }
    /// same format as the model's `showObs`
    fn obs_line(&mut self, reads: &[FrameRead]) -> String {
        let st = verif_hooks::verif_state(self.mem.as_ref().unwrap());
        let base = st.hdr_wal_offset + st.hdr_wal_size;
        let show = |r: &Result<Vec<u8>, String>| match r { Ok(b) => tokl(b), Err(k) => format!("err:{k}") };
        let frames: Vec<String> = reads.iter().map(|r| {
            let f = &r.frame;
            [f.id.to_string(), (if f.payload_length == 0 { 0 } else { f.payload_offset.saturating_sub(base) }).to_string(),
             f.payload_length.to_string(), (if f.canonical_encoding == memvid_core::CanonicalEncoding::Zstd { "z" } else { "p" }).to_string(),
             f.canonical_length.map(|x| x.to_string()).unwrap_or_else(|| "none".into()), hex::encode(&f.checksum[..8]),
             (match f.role { FrameRole::Document => "d", FrameRole::DocumentChunk => "c", FrameRole::ExtractedImage => "i" }).to_string(),
             optn(&f.parent_id), optn(&f.chunk_index), optn(&f.chunk_manifest.as_ref().map(|m| m.chunks.len())),
             tri_search(&f.search_text).to_string(), tri_mime(&f.metadata.as_ref().and_then(|m| m.mime.clone())).to_string(),
             show(&r.canon), show(&r.blob)].join(",")
        }).collect();
        format!("pe={} de={} | {}", st.cached_payload_end.saturating_sub(base), st.data_end.saturating_sub(base),
            if frames.is_empty() { "-".to_string() } else { frames.join(";") })
    }
}

/// same format as the model's `showPending`
fn pending_line(p: &[VerifPendingInsert]) -> String {
    if p.is_empty() { return "-".into(); }
    p.iter().enumerate().map(|(i, e)| {
        let ppos = match e.parent_sequence { None => "-".to_string(), Some(q) => p.iter().position(|x| x.sequence == q).map(|x| x.to_string()).unwrap_or_else(|| "?".into()) };
        [i.to_string(), e.payload.len().to_string(), if e.payload.is_empty() { "E".to_string() } else { b3short(&e.payload) },
         (if e.zstd { "z" } else { "p" }).to_string(), e.canonical_length.map(|x| x.to_string()).unwrap_or_else(|| "none".into()),
         (match e.role { 1 => "c", 2 => "i", _ => "d" }).to_string(), optn(&e.manifest_chunks), ppos, optn(&e.chunk_index),
         tri_search(&e.search_text).to_string(), tri_mime(&e.mime).to_string()].join(",")
    }).collect::<Vec<_>>().join(";")
}

#[derive(Default)]
struct COutcome {
    trace: Vec<String>,
    branches: Vec<String>,
    /// (signature, what, model predicted the same answers/observations up to here)
    oracle: Option<(String, String, bool)>,
    disagree: Option<(String, String, String)>,
    puts: usize,
    commits: usize,
}

/// the content oracle on a quiescent handle
fn content_oracle(reads: &[FrameRead], expects: &[Expect], branches: &mut Vec<String>) -> Option<(String, String)> {
    let total: u64 = expects.iter().map(|e| e.n_frames).sum();
    if reads.len() as u64 != total {
        return Some(("acknowledged-put-lost".into(), format!("{} frames after everything was committed, the acknowledged puts account for {total}", reads.len())));
    }
    for e in expects {
        let Some(doc) = reads.get(e.doc_id as usize) else { continue };
        let f = &doc.frame;
        let mut kids: Vec<&FrameRead> = reads.iter().filter(|r| r.frame.role == FrameRole::DocumentChunk && r.frame.parent_id == Some(e.doc_id)
            && r.frame.status == memvid_core::FrameStatus::Active).collect();
        kids.sort_by_key(|r| (r.frame.chunk_index.unwrap_or(u32::MAX), r.frame.id));
        if e.split {
            branches.push("oracle-chunked".into());
            let Ok(canon) = &doc.canon else {
                return Some(("chunked-document-unreadable".into(), format!("put {} ({}): frame_canonical_payload({}) fails: {}", e.doc_id, e.label, e.doc_id, doc.canon.as_ref().err().unwrap())));
            };
            let mut cat = vec![];
            for k in &kids {
                match &k.canon { Ok(b) => cat.extend_from_slice(b), Err(x) => return Some(("chunk-unreadable".into(), format!("chunk frame {} of document {} fails to read: {x}", k.frame.id, e.doc_id))) }
                if k.frame.checksum != *blake3::hash(&k.raw).as_bytes() {
                    return Some(("checksum-not-hash-of-stored-bytes".into(), format!("chunk frame {}: checksum differs from blake3 of the {} bytes stored at its range", k.frame.id, k.raw.len())));
                }
            }
            if *canon != cat {
                return Some(("document-not-concatenation-of-chunks".into(), format!("document {} ({}): canonical payload ({} bytes) differs from the concatenation of its {} active chunk frames ({} bytes)", e.doc_id, e.label, canon.len(), kids.len(), cat.len())));
            }
            if f.chunk_manifest.as_ref().map(|m| m.chunks.len()) != Some(kids.len()) {
                return Some(("manifest-count-differs-from-chunk-frames".into(), format!("document {}: manifest lists {:?} chunks, {} chunk frames", e.doc_id, f.chunk_manifest.as_ref().map(|m| m.chunks.len()), kids.len())));
            }
            if e.unstructured {
                branches.push("oracle-normalized".into());
                let text = String::from_utf8_lossy(&e.payload).into_owned();
                let norm = memvid_core::normalize_text(&text, usize::MAX).map(|n| n.text).unwrap_or_default();
                if *canon != norm.as_bytes() {
                    return Some(("chunked-text-differs-from-normalized-text".into(), format!("document {} ({}): canonical payload ({} bytes) is not normalize_text(P) ({} bytes): text lost or duplicated", e.doc_id, e.label, canon.len(), norm.len())));
                }
            }
        } else {
            branches.push("oracle-whole".into());
            let what = |which: &str, got: &Result<Vec<u8>, String>| match got {
                Ok(b) => format!("put {} ({}, {} bytes): {which} returns {} bytes that differ from the payload", e.doc_id, e.label, e.payload.len(), b.len()),
                Err(k) => format!("put {} ({}, {} bytes): {which} fails: {k}", e.doc_id, e.label, e.payload.len()),
            };
            if doc.canon.as_ref().ok() != Some(&e.payload) {
                if f.chunk_manifest.is_some() && std::str::from_utf8(&e.payload).is_err() {
                    return Some(("binary-payload-with-extracted-text-chunks-reads-as-text".into(), format!(
                        "put {} ({}, {} bytes, not UTF-8) got a chunk manifest from its extracted text; frame_canonical_payload returns the concatenated chunk text ({}), not the payload", e.doc_id, e.label, e.payload.len(),
                        match &doc.canon { Ok(b) => format!("{} bytes", b.len()), Err(k) => format!("error {k}") })));
                }
                return Some(("canonical-payload-differs-from-put".into(), what("frame_canonical_payload", &doc.canon)));
            }
            if doc.blob.as_ref().ok() != Some(&e.payload) {
                return Some(("blob-reader-differs-from-put".into(), what("blob_reader", &doc.blob)));
            }
            if f.checksum != *blake3::hash(&doc.raw).as_bytes() {
                return Some(("checksum-not-hash-of-stored-bytes".into(), format!("frame {}: checksum differs from blake3 of the {} bytes stored at its range", f.id, doc.raw.len())));
            }
            // the stored bytes decode to the payload (A-zstd observed on this input)
            let dec = if f.canonical_encoding == memvid_core::CanonicalEncoding::Zstd { memvid_core::verif_decode_zstd_payload(&doc.raw) } else { Some(doc.raw.clone()) };
            if dec.as_ref() != Some(&e.payload) {
                return Some(("stored-bytes-do-not-decode-to-payload".into(), format!("frame {}: the {} bytes at its range do not decode to the payload", f.id, doc.raw.len())));
            }
        }
    }
    None
}

fn run_case(ops: &[COp], drv: &mut Option<Driver>, verbose: bool) -> COutcome {
    let mut out = COutcome::default();
    let mut w = CWorld::create();
    let mut expects: Vec<Expect> = vec![];
    let mut next_id: u64 = 0;
    let mut model_same = true;
    let ask = |drv: &mut Option<Driver>, line: &str| -> Option<String> { drv.as_mut().map(|d| d.ask(line)) };
    if let Some(a) = ask(drv, "c7new") { if a != "ok" { out.disagree = Some(("c7new".into(), a, "ok".into())); return out; } }
    for (i, op) in ops.iter().enumerate() {
        let mut impl_ack = "ok".to_string();
        let mut dead = false;
        let request: String;
        match op {
            COp::Batch { level } => {
                let mut o = PutManyOpts::default();
                o.disable_auto_checkpoint = true;
                o.compression_level = *level;
                let _ = w.mem.as_mut().unwrap().begin_batch(o);
                w.level = *level;
                out.trace.push(format!("batch {level}"));
                out.branches.push(format!("level-{level}"));
                continue;
            }
            COp::EndBatch => { let _ = w.mem.as_mut().unwrap().end_batch(); w.level = 3; out.trace.push("endbatch".into()); continue; }
            COp::Put(p) => {
                let bytes = p.payload.bytes();
                w.ts += 10;
                let opts = p.options(w.ts);
                let mem = w.mem.as_mut().unwrap();
                let before = verif_hooks::verif_pending_inserts(mem).unwrap_or_default();
                let raw_plan = mem.preview_chunks(&bytes).is_some();
                let r = mem.put_bytes_with_options(&bytes, opts);
                let after = verif_hooks::verif_pending_inserts(mem).unwrap_or_default();
                match &r {
                    Err(e) => { impl_ack = format!("err {}", err_kind(e)); request = format!("c7put-rejected {}", p.payload.label()); }
                    Ok(_) => {
                        if after.len() <= before.len() {
                            // the automatic checkpoint fired inside the put: the records are gone, the trace inputs
                            // can not be observed; cases are sized so that this does not happen
                            out.branches.push("auto-checkpoint-inside-put".into());
                            out.trace.push("put -> auto checkpoint (case abandoned)".into());
                            return out;
                        }
                        out.puts += 1;
                        let new = &after[before.len()..];
                        let parent = &new[0];
                        let chunks = &new[1..];
                        let mut codec = vec![];
                        let mut reg = |plain: &[u8], level: i32| {
                            if let Ok((stored, z, _)) = verif_hooks::prepare_canonical_payload_bytes(plain, level) {
                                if z { codec.push(format!("c7codec lvl={level} p={} s={}", hexw0(plain), hexw0(&stored))); }
                            }
                        };
                        reg(&bytes, w.level);
                        let texts: Vec<Vec<u8>> = chunks.iter().map(|c| if c.zstd { memvid_core::verif_decode_zstd_payload(&c.payload).unwrap_or_default() } else { c.payload.clone() }).collect();
                        for t in &texts { reg(t, 3); }
                        for line in codec { let _ = ask(drv, &line); }
                        let plan = if parent.manifest_chunks.is_some() || !chunks.is_empty() {
                            texts.iter().map(|t| if t.is_empty() { "E".to_string() } else { hexw(t) }).collect::<Vec<_>>().join(",")
                        } else { "-".into() };
                        let csearch = if chunks.is_empty() { "-".to_string() } else { chunks.iter().map(|c| tri_search(&c.search_text)).collect::<Vec<_>>().join(",") };
                        request = format!("c7put p={} lvl={} plan={} raw={} role=d search={} mime={} csearch={} ac=0",
                            hexw0(&bytes), w.level, plan, raw_plan as u8, tri_search(&parent.search_text), tri_mime(&parent.mime), csearch);
                        let split = raw_plan && std::str::from_utf8(&bytes).is_ok();
                        expects.push(Expect { doc_id: next_id, payload: bytes.clone(), split, unstructured: p.payload.unstructured(), n_frames: new.len() as u64, label: p.payload.label() });
                        next_id += new.len() as u64;
                        out.branches.push(if split { "put-chunked".into() } else if parent.zstd { "put-whole-zstd".into() } else { "put-whole-plain".into() });
                        if parent.manifest_chunks.is_some() && !split { out.branches.push("put-extracted-plan".into()); }
                        if parent.search_text.is_none() { out.branches.push("put-without-search-text".into()); }
                        if parent.search_text.is_none() && parent.mime.is_none() && !parent.payload.is_empty() { out.branches.push("apply-reads-fresh-payload".into()); }
                        if bytes.is_empty() { out.branches.push("put-empty".into()); }
                        if (2395..=2405).contains(&String::from_utf8_lossy(&bytes).chars().count()) { out.branches.push("put-near-threshold".into()); }
                    }
                }
            }
            COp::Commit => {
                let r = w.mem.as_mut().unwrap().commit();
                if let Err(e) = &r { impl_ack = format!("err {}", err_kind(e)); }
                out.commits += 1;
                request = "c7commit".into();
            }
            COp::Reopen | COp::Crash => {
                let crash = matches!(op, COp::Crash);
                let mem = w.mem.take().unwrap();
                if crash {
                    let (_fd, fd_lock) = verif_hooks::verif_fds(&mem);
                    std::mem::forget(mem);
                    unsafe { libc::flock(fd_lock, libc::LOCK_UN); }
                } else { drop(mem); }
                let ft = w.header_footer_rel();
                match Memvid::open(&w.path) {
                    Ok(m) => { w.mem = Some(m); w.level = 3; }
                    Err(e) => { impl_ack = format!("err {}", err_kind(&e)); dead = true; }
                }
                out.commits += 1;
                out.branches.push(if crash { "op-crash".into() } else { "op-reopen".into() });
                request = format!("{} ft={ft}", if crash { "c7crash" } else { "c7reopen" });
            }
        }
        out.trace.push(format!("{} -> {impl_ack}", request.chars().take(90).collect::<String>()));
        // model
        let model_ack = if request.starts_with("c7put-rejected") { None } else { ask(drv, &request) };
        if verbose { println!("--- op {i}: {}\n    impl : {impl_ack}\n    model: {}", request.chars().take(160).collect::<String>(), model_ack.clone().unwrap_or_else(|| "-".into())); }
        if let Some(a) = &model_ack {
            if *a != impl_ack {
                model_same = false;
                if out.disagree.is_none() { out.disagree = Some((format!("op {i} answer"), a.clone(), impl_ack.clone())); }
            }
        }
        // oracle: commit totality
        if impl_ack != "ok" {
            let sig = match op {
                COp::Commit => "commit-fails-on-own-put-records",
                COp::Reopen | COp::Crash => "open-fails-replaying-own-put-records",
                COp::Put(_) => "put-rejected",
                _ => "op-failed",
            };
            out.oracle = Some((sig.into(), format!("op {i} ({}) after {} acknowledged puts: {impl_ack}", request.split(' ').next().unwrap_or(""), out.puts), model_same));
            if verbose { println!("    ORACLE {:?}", out.oracle); }
            return out;
        }
        if dead { return out; }
        // observations
        let reads = w.reads();
        let impl_obs = w.obs_line(&reads);
        let impl_pend = pending_line(&verif_hooks::verif_pending_inserts(w.mem.as_mut().unwrap()).unwrap_or_default());
        if let (Some(mo), Some(mp)) = (ask(drv, "c7obs"), ask(drv, "c7pend")) {
            if verbose { println!("    impl obs : {}\n    model obs: {}\n    impl pend : {}\n    model pend: {}", impl_obs, mo, impl_pend, mp); }
            if mp != impl_pend { model_same = false; if out.disagree.is_none() { out.disagree = Some((format!("op {i} pending records"), mp, impl_pend.clone())); } }
            else if mo != impl_obs { model_same = false; if out.disagree.is_none() { out.disagree = Some((format!("op {i} observation"), mo, impl_obs.clone())); } }
        }
        let quiescent = impl_pend == "-";
        if quiescent && !matches!(op, COp::Put(_)) {
            if let Some((sig, what)) = content_oracle(&reads, &expects, &mut out.branches) {
                if verbose { println!("    ORACLE {sig}: {what}"); }
                out.oracle = Some((sig, format!("op {i}: {what}"), model_same));
                return out;
            }
        }
        // a disagreement does not end the case: the implementation keeps running under the oracle (the first
        // disagreement is the one reported; later model answers are no longer meaningful)
    }
    out
}

// ---------------------------------------------------------------------------------------
// Part A: corpus and generator

fn spec(kind: PayloadKind, len: usize, seed: u64) -> Pay { Pay::Spec(PayloadSpec::new(kind, len, seed)) }

fn corpus_a() -> Vec<(String, Vec<COp>)> {
    use PayloadKind::*;
    let put = |p: CPut| COp::Put(p);
    let mut v: Vec<(String, Vec<COp>)> = vec![
        // the defect of fixes/C07.diff: library defaults with auto_tag(false), a payload the budgeted extractor
        // calls binary → no search text, no mime → apply_records reads the fresh payload against the old data_end
        ("tiny-binary-no-search-text".into(), vec![put(CPut::no_auto_tag(Pay::Hex("010203".into()))), COp::Commit, COp::Reopen]),
        ("zero-filled-no-search-text-crash".into(), vec![put(CPut::plain(spec(Ascii, 40, 1))), COp::Commit,
            put(CPut::no_auto_tag(spec(Zero, 50, 2))), COp::Crash]),
        ("control-text-above-threshold-no-search-text".into(), vec![put(CPut::no_auto_tag(Pay::Ctl { len: 3000, seed: 3 })), COp::Commit]),
        // known finding: non-UTF-8 payload whose lossy text is long enough for a chunk plan
        ("random-binary-default-options".into(), vec![put(CPut::new(Pay::HighBin { len: 4000, seed: 4 })), COp::Commit, COp::Reopen]),
    ];
    // every payload kind, through the plain options and through the library defaults, across commit and reopen
    let kinds: Vec<Pay> = vec![
        spec(Empty, 0, 10), spec(Bin, 1, 11), spec(Bin, 16, 12), spec(Zero, 700, 13), spec(Rand, 1500, 14), spec(Zero, 70_000, 15),
        Pay::Repeat { unit: "all work and no play ".into(), times: 60 }, Pay::Repeat { unit: "compress me. ".into(), times: 400 },
        spec(Ascii, 2399, 16), spec(Ascii, 2400, 17), spec(Ascii, 2401, 18), spec(Utf8, 2399, 19), spec(Utf8, 2400, 20), spec(Utf8, 5000, 21),
        spec(Table, 1500, 22), spec(Table, 4000, 23), Pay::Ctl { len: 12, seed: 24 }, Pay::HighBin { len: 300, seed: 25 },
    ];
    for (k, chunk) in kinds.chunks(9).enumerate() {
        let mut ops = vec![];
        for p in chunk { ops.push(put(CPut::plain(p.clone()))); }
        ops.push(COp::Commit);
        for p in chunk { if p.bytes().len() < 10_000 { ops.push(put(CPut::new(p.clone()))); } }
        ops.push(COp::Reopen);
        ops.push(put(CPut::plain(spec(Ascii, 30, 99))));
        ops.push(COp::Crash);
        v.push((format!("kinds-{k}"), ops));
    }
    v.push(("batch-levels".into(), vec![COp::Batch { level: 0 }, put(CPut::plain(spec(Ascii, 500, 30))), put(CPut::plain(spec(Ascii, 3000, 31))), COp::Commit, COp::EndBatch,
        COp::Batch { level: 9 }, put(CPut::plain(spec(Utf8, 900, 32))), COp::EndBatch, COp::Commit, COp::Batch { level: 1 }, put(CPut::plain(Pay::Repeat { unit: "abc ".into(), times: 500 })), COp::Reopen]));
    v.push(("explicit-search-text-and-mime".into(), vec![
        put(CPut { search_text: Some("hand written index text".into()), mime: Some("application/octet-stream".into()), ..CPut::no_auto_tag(spec(Zero, 64, 40)) }),
        put(CPut { mime: Some("text/plain".into()), ..CPut::no_auto_tag(spec(Bin, 9, 41)) }),
        put(CPut { uri: Some("mv2://bin/blob.bin".into()), ..CPut::no_auto_tag(Pay::Ctl { len: 20, seed: 42 }) }), COp::Commit, COp::Reopen]));
    v
}

fn gen_case(rng: &mut Rng) -> Vec<COp> {
    use PayloadKind::*;
    let mut ops = vec![];
    let n = rng.usize(2, 6);
    let mut in_batch = false;
    for _ in 0..n {
        if !in_batch && rng.chance(12, 100) { ops.push(COp::Batch { level: *rng.pick(&[0, 1, 3, 9, 19]) }); in_batch = true; }
        let seed = rng.u64();
        let pay = match rng.below(100) {
            0..=4 => spec(Empty, 0, seed),
            5..=16 => spec(Bin, rng.usize(1, 16), seed),
            17..=22 => spec(Zero, rng.usize(1, 3000), seed),
            23..=32 => spec(Rand, rng.usize(17, 2300), seed),
            33..=36 => Pay::HighBin { len: rng.usize(100, 5000), seed },
            37..=44 => Pay::Ctl { len: *rng.pick(&[1usize, 3, 16, 200, 2399, 2400, 2600]), seed },
            45..=56 => spec(Ascii, rng.usize(1, 600), seed),
            57..=66 => spec(Ascii, *rng.pick(&[2398usize, 2399, 2400, 2401, 2402]), seed),
            67..=72 => spec(Ascii, rng.usize(2400, 8000), seed),
            73..=80 => spec(Utf8, rng.usize(1, 500), seed),
            81..=86 => spec(Utf8, rng.usize(2380, 2420), seed),
            87..=90 => spec(Utf8, rng.usize(2400, 6000), seed),
            91..=95 => spec(Table, rng.usize(300, 5000), seed),
            96..=97 => Pay::Repeat { unit: (*rng.pick(&["lorem ipsum dolor. ", "a", "é ", "row | col |\n"])).to_string(), times: rng.usize(1, 3000) },
            _ => spec(Rand, rng.usize(20_000, 40_000), seed),
        };
        let mut p = match rng.below(10) { 0..=3 => CPut::plain(pay), 4..=6 => CPut::no_auto_tag(pay), 7 => CPut::new(pay),
            _ => CPut { instant_index: Some(rng.bool()), budget_ms: Some(*rng.pick(&[0u64, 350])), auto_tag: Some(rng.bool()), ..CPut::new(pay) } };
        if rng.chance(25, 100) { p.uri = Some(format!("mv2://c07/{}.{}", rng.below(1000), rng.pick(&["txt", "bin", "md"]))); }
        if rng.chance(10, 100) { p.search_text = Some((*rng.pick(&["explicit index text", " ", "x"])).to_string()); }
        if rng.chance(12, 100) { p.mime = Some((*rng.pick(&["text/plain", "application/octet-stream", "application/json", "image/png"])).to_string()); }
        if rng.chance(10, 100) { p.tags = vec!["tag".into()]; }
        ops.push(COp::Put(p));
        match rng.below(10) { 0..=2 => ops.push(COp::Commit), 3 => ops.push(COp::Reopen), 4 => ops.push(COp::Crash), _ => {} }
        if in_batch && rng.chance(40, 100) { ops.push(COp::EndBatch); in_batch = false; }
    }
    ops.push(COp::Commit);
    ops.push(COp::Reopen);
    ops
}

// ---------------------------------------------------------------------------------------
// Part B: the content oracle over the shared history runner

fn history_oracle(v: &mut StepView) -> Option<(String, String)> {
    let obs = v.after;
    let quiescent = obs.pending_inserts == 0 && !obs.dirty;
    if !quiescent || v.index % 3 != 0 && !matches!(v.op, hist::Op::Commit | hist::Op::Reopen | hist::Op::Crash | hist::Op::Vacuum | hist::Op::Doctor { .. }) { return None; }
    let base = obs.state.hdr_wal_offset + obs.state.hdr_wal_size;
    let frames = verif_hooks::verif_frames(v.world.mem());
    for (f, r) in obs.frames.iter().zip(v.reference.frames.iter()) {
        if !f.active() || r.note == "reuse-of-chunked" { continue; }
        let Some(exp) = v.reference.expected_read(f.id) else { continue };
        if f.canon_raw != exp {
            if r.note == "extracted-plan" {
                return Some(("binary-payload-with-extracted-text-chunks-reads-as-text".into(), format!("frame {}: non-UTF-8 payload with a chunk manifest from its extracted text reads back as {} instead of {}", f.id, f.canon_raw, exp)));
            }
            if r.role != 'd' && r.n_chunks > 0 { continue; } // generator precondition of the family (CORE_READY.md)
            return Some(("canonical-payload-differs-from-put".into(), format!("frame {} (made at step {}): frame_canonical_payload token {} expected {}", f.id, r.born_at, f.canon_raw, exp)));
        }
        if f.manifest.is_none() {
            v.world.branches.push("hist-whole-frame".into());
            let blob = match v.world.mem().blob_reader(f.id) { Ok(mut rd) => { let mut b = vec![]; rd.read_to_end(&mut b).map(|_| hist::tok(&b)).unwrap_or_else(|_| "err".into()) } Err(_) => "err".into() };
            if blob != exp {
                return Some(("blob-reader-differs-from-put".into(), format!("frame {}: blob_reader token {} expected {}", f.id, blob, exp)));
            }
        } else { v.world.branches.push("hist-chunked-document".into()); }
        if let Some(fr) = frames.get(f.id as usize) {
            if fr.payload_length > 0 {
                let mut raw = vec![0u8; fr.payload_length as usize];
                let ok = std::fs::File::open(&v.world.path).and_then(|mut fh| { fh.seek(SeekFrom::Start(base + f.off))?; fh.read_exact(&mut raw) }).is_ok();
                if ok && fr.checksum != *blake3::hash(&raw).as_bytes() {
                    return Some(("checksum-not-hash-of-stored-bytes".into(), format!("frame {}: checksum differs from blake3 of the {} stored bytes", f.id, raw.len())));
                }
            }
        }
    }
    None
}

// ---------------------------------------------------------------------------------------

fn record_a(sum: &mut Summary, known: &[String], drv: &mut Option<Driver>, label: &str, ops: &[COp], out: COutcome) {
    for b in &out.branches { sum.branch(b); }
    let canon = out.trace.join(";");
    sum.case(&canon, out.puts >= 1 && out.commits >= 1, || json!({"label": label, "part": "content", "ops": ops.len(), "puts": out.puts, "trace_tail": out.trace.iter().rev().take(2).collect::<Vec<_>>()}));
    if out.oracle.is_none() && out.disagree.is_none() { return; }
    if let Some((sig, what, true)) = &out.oracle {
        if out.disagree.is_none() && known.iter().any(|k| k == sig) {
            // a recorded finding that the model predicts: classified as it is, not minimised again
            sum.known_finding(sig, what, json!({"kind": "content", "label": label, "ops": serde_json::to_value(ops).unwrap()}));
            return;
        }
    }
    // shrink (same failure class)
    let want: Option<String> = out.oracle.as_ref().map(|o| o.0.clone());
    let t0 = std::time::Instant::now();
    let mut fails = |cand: &[COp]| -> bool {
        if t0.elapsed().as_secs() > 20 { return false; }
        let o = run_case(cand, drv, false);
        match &want { Some(s) => o.oracle.as_ref().map(|x| &x.0) == Some(s), None => o.disagree.is_some() && o.oracle.is_none() }
    };
    let small = shrink_list(ops, &mut fails);
    let o2 = run_case(&small, drv, false);
    let (oracle, disagree) = if o2.oracle.is_some() || o2.disagree.is_some() { (o2.oracle, o2.disagree) } else { (out.oracle, out.disagree) };
    let case = json!({"kind": "content", "label": label, "ops": serde_json::to_value(&small).unwrap()});
    if let Some((sig, what, model_same)) = oracle {
        if model_same && known.iter().any(|k| *k == sig) { sum.known_finding(&sig, &what, case.clone()); } else { sum.oracle_violation(&sig, &what, case.clone()); }
    }
    if let Some((what, m, i)) = disagree {
        let cut = |s: &str| s.chars().take(1500).collect::<String>();
        sum.disagreement(&what, case, &cut(&m), &cut(&i));
    }
}

fn record_b(sum: &mut Summary, known: &[String], drv: &mut Option<Driver>, label: &str, out: hist::Outcome) {
    for b in &out.branches { sum.branch(b); }
    let canon = out.trace.join(";");
    let nontrivial = out.acked_mutations >= 2 && out.branches.iter().any(|b| matches!(b.as_str(), "auto-commit" | "op-commit" | "op-reopen" | "op-crash" | "drop-commit"));
    sum.case(&canon, nontrivial, || json!({"label": label, "part": "history", "ops": out.ops.len(), "acked_mutations": out.acked_mutations, "frames": out.final_frames}));
    if let Some(d) = &out.dead {
        // the handle panicked or the file no longer opens in a history of the shared generator (batch pre-sizing,
        // skip-index commits, vacuum, doctor …): "acknowledged operations are never lost" is C01's verdict, not a
        // statement about content fidelity of a readable memory.  Logged with a replay file, not counted here;
        // Part A does count a failing commit / open over C07's own operations.
        sum.branch("hist-world-died-logged");
        let case = json!({"kind": "history", "label": label, "ops": serde_json::to_value(&out.ops).unwrap()});
        let path = sum.replay_dir.join(format!("C07-observed-world-died-{}.json", &b3short(case.to_string().as_bytes())[..8]));
        let _ = std::fs::create_dir_all(&sum.replay_dir);
        let _ = std::fs::write(&path, serde_json::to_string_pretty(&json!({"property": "C07", "kind": "observed-outside-c07", "detail": d, "case": {"input": case}})).unwrap());
        sum.notes.push(format!("history `{label}` died (outside C07, see C01): {d}; replay {}", path.display()));
        return;
    }
    if out.oracle.is_none() && out.disagree.is_none() { return; }
    let want: Option<String> = out.oracle.as_ref().map(|o| o.0.clone());
    let t0 = std::time::Instant::now();
    let mut oracle = |v: &mut StepView| history_oracle(v);
    let mut fails = |cand: &[hist::Op]| -> bool {
        if t0.elapsed().as_secs() > 40 { return false; }
        let o = hist::run_history(Source::Fixed(cand), drv.as_mut(), &mut oracle, false);
        match &want { Some(s) => o.oracle.as_ref().map(|x| &x.0) == Some(s), None => o.disagree.is_some() && o.oracle.is_none() }
    };
    let small = shrink_list(&out.ops, &mut fails);
    let mut oracle2 = |v: &mut StepView| history_oracle(v);
    let o2 = hist::run_history(Source::Fixed(&small), drv.as_mut(), &mut oracle2, false);
    let case = json!({"kind": "history", "label": label, "ops": serde_json::to_value(&small).unwrap()});
    let (oracle_res, disagree_res) = if o2.oracle.is_some() || o2.disagree.is_some() { (o2.oracle, o2.disagree) } else { (out.oracle, out.disagree) };
    if let Some((sig, what, _, model_same)) = oracle_res {
        if model_same && known.iter().any(|k| *k == sig) { sum.known_finding(&sig, &what, case); } else { sum.oracle_violation(&sig, &what, case); }
    } else if let Some((what, m, i)) = disagree_res {
        let cut = |s: &str| s.chars().take(1500).collect::<String>();
        sum.disagreement(&what, case, &cut(&m), &cut(&i));
    }
}

// ---------------------------------------------------------------------------------------
// Part C: streaming readers (`blob_reader` read in pieces / seeks, several live readers, other reads of
// the handle in between).  model: requests `c7b…` = MvModel/BlobReader.lean (one shared file offset);
// oracle: every read returns exactly payload[pos .. pos + k) of the frame's put, k = min(n, len - pos),
// with pos tracked by the harness alone; seeks answer like a bounded cursor.

#[derive(Clone, Debug, PartialEq, Eq, Serialize, Deserialize)]
enum SOp {
    Open { frame: usize },
    Read { h: usize, n: usize },
    /// w: 0 = Start, 1 = Current, 2 = End
    Seek { h: usize, w: u8, d: i64 },
    /// another read through the handle (`frame_canonical_payload`, `frame_by_id`, `search`)
    Touch { frame: usize, how: u8 },
}

#[derive(Clone, Debug, PartialEq, Eq, Serialize, Deserialize)]
struct SCase {
    /// (binary?, length, seed) of each put; binary payloads are stored Plain (file reader), text Zstd (memory reader)
    payloads: Vec<(bool, usize, u64)>,
    reopen: bool,
    ops: Vec<SOp>,
}

fn stream_payload(binary: bool, len: usize, seed: u64) -> Vec<u8> {
    let mut r = Rng::new(seed ^ 0x57ea);
    if binary {
        let mut v = r.bytes(len);
        if let Some(b) = v.first_mut() { *b = 0xff; }   // not UTF-8
        if len > 1 { v[1] = 0xfe; }
        v
    } else {
        let words = ["granite", "harbor", "quantum", "ledger", "meadow", "orbit", "signal", "velvet"];
        let mut t = String::new();
        while t.len() < len { t.push_str(words[r.below(words.len() as u64) as usize]); t.push(' '); }
        t.truncate(len);
        t.into_bytes()
    }
}

#[derive(Default)]
struct SOutcome { trace: Vec<String>, oracle: Option<(String, String)>, disagree: Option<(String, String, String)>, branches: Vec<String>, reads: usize }

fn run_stream_case(c: &SCase, drv: &mut Option<Driver>, verbose: bool) -> SOutcome {
    let mut out = SOutcome::default();
    let mut w = CWorld::create();
    let mut payloads: Vec<Vec<u8>> = vec![];
    for (i, (binary, len, seed)) in c.payloads.iter().enumerate() {
        let bytes = stream_payload(*binary, *len, *seed);
        w.ts += 10;
        let opts = CPut::plain(Pay::Hex(String::new())).options(w.ts);
        if w.mem.as_mut().unwrap().put_bytes_with_options(&bytes, opts).is_err() { out.trace.push(format!("put {i} refused")); return out; }
        payloads.push(bytes);
    }
    if w.mem.as_mut().unwrap().commit().is_err() { out.trace.push("commit failed".into()); return out; }
    if c.reopen {
        w.mem = None;
        match Memvid::open(&w.path) { Ok(m) => w.mem = Some(m), Err(_) => { out.trace.push("reopen failed".into()); return out; } }
    }
    let frames = verif_hooks::verif_frames(w.mem.as_ref().unwrap());
    // whole payloads only (text below the chunk threshold): frame i = put i
    if frames.len() != payloads.len() { out.trace.push("unexpected frame count".into()); return out; }
    let file_bytes = std::fs::read(&w.path).unwrap_or_default();
    let lo = frames.iter().filter(|f| f.payload_length > 0).map(|f| f.payload_offset).min().unwrap_or(0) as usize;
    let hi = frames.iter().map(|f| (f.payload_offset + f.payload_length) as usize).max().unwrap_or(0).min(file_bytes.len());
    let ask = |drv: &mut Option<Driver>, line: &str| -> Option<String> { drv.as_mut().map(|d| d.ask(line)) };
    let _ = ask(drv, &format!("c7bfile base={lo} bytes={}", hexw0(&file_bytes[lo.min(hi)..hi])));
    struct Live { rd: memvid_core::BlobReader, frame: usize, pos: u64 }
    let mut live: Vec<Live> = vec![];
    for (k, op) in c.ops.iter().enumerate() {
        let (request, got): (String, String) = match op {
            SOp::Open { frame } => {
                let fi = *frame % frames.len();
                let f = &frames[fi];
                let plain = f.canonical_encoding != memvid_core::CanonicalEncoding::Zstd;
                match w.mem.as_mut().unwrap().blob_reader(f.id) {
                    Ok(rd) => {
                        if rd.len() != payloads[fi].len() as u64 {
                            out.oracle = Some(("blob-reader-length-differs-from-put".into(), format!("op {k}: blob_reader({}).len() = {} but the put had {} bytes", f.id, rd.len(), payloads[fi].len())));
                        }
                        live.push(Live { rd, frame: fi, pos: 0 });
                        out.branches.push(if plain { "stream-open-file".into() } else { "stream-open-memory".into() });
                        let req = if plain { format!("c7bopen start={} len={}", f.payload_offset, f.payload_length) } else { format!("c7bopenm data={}", hexw0(&payloads[fi])) };
                        (req, format!("ok {}", live.len() - 1))
                    }
                    Err(e) => { out.oracle = Some(("blob-reader-open-failed".into(), format!("op {k}: blob_reader({}) of a committed frame fails: {}", f.id, err_kind(&e)))); break; }
                }
            }
            SOp::Read { h, n } => {
                if live.is_empty() { continue; }
                let hi = *h % live.len();
                let l = &mut live[hi];
                let mut buf = vec![0u8; *n];
                let r = l.rd.read(&mut buf);
                let got = match r { Ok(k2) => { buf.truncate(k2); hexw0(&buf) } Err(_) => "io-error".to_string() };
                // oracle: the reference cursor over the put's bytes
                let p = &payloads[l.frame];
                let from = (l.pos as usize).min(p.len());
                let to = (from + *n).min(p.len());
                let want = hexw0(&p[from..to]);
                if got != want && out.oracle.is_none() {
                    out.oracle = Some(("stream-read-differs-from-put".into(), format!("op {k}: reader {hi} (frame {}, {} bytes) at position {} read({}) returned {} bytes {}…, the put's bytes there are {}…",
                        l.frame, p.len(), l.pos, n, got.len() / 2, got.chars().take(24).collect::<String>(), want.chars().take(24).collect::<String>())));
                }
                l.pos = to.max(l.pos as usize) as u64;
                out.reads += 1;
                if to - from > 0 && to < p.len() { out.branches.push("stream-partial-read".into()); }
                (format!("c7bread h={hi} n={n}"), got)
            }
            SOp::Seek { h, w: wh, d } => {
                if live.is_empty() { continue; }
                let hi = *h % live.len();
                let l = &mut live[hi];
                let sf = match wh { 0 => SeekFrom::Start((*d).max(0) as u64), 1 => SeekFrom::Current(*d), _ => SeekFrom::End(*d) };
                let r = l.rd.seek(sf);
                let got = match &r {
                    Ok(p) => format!("ok {p}"),
                    Err(e) => { let m = e.to_string(); if m.contains("before start") { "err before-start".into() } else if m.contains("beyond end") { "err beyond-end".into() } else { "err overflow".to_string() } }
                };
                if let Ok(p) = r { l.pos = p; }
                out.branches.push(if r.is_ok() { "stream-seek-ok".into() } else { "stream-seek-refused".into() });
                (format!("c7bseek h={hi} w={} d={}", ["s", "c", "e"][(*wh).min(2) as usize], if *wh == 0 { (*d).max(0) } else { *d }), got)
            }
            SOp::Touch { frame, how } => {
                let fi = *frame % frames.len();
                let mem = w.mem.as_mut().unwrap();
                match how % 3 {
                    0 => { let _ = mem.frame_canonical_payload(frames[fi].id); }
                    1 => { let _ = mem.blob_reader(frames[fi].id).map(|mut r| { let mut b = [0u8; 7]; let _ = r.read(&mut b); }); }
                    _ => { let _ = mem.search(memvid_core::SearchRequest { query: "granite".into(), top_k: 3, snippet_chars: 40, uri: None, scope: None, cursor: None,
                            as_of_frame: None, as_of_ts: None, no_sketch: false, acl_context: None, acl_enforcement_mode: Default::default() }); }
                }
                out.branches.push("stream-touch".into());
                (format!("c7btouch o={}", k * 37), "ok".to_string())
            }
        };
        out.trace.push(format!("{request} -> {got}"));
        if verbose { println!("  {request} -> {got}"); }
        if let Some(m) = ask(drv, &request) {
            if m != got && out.disagree.is_none() { out.disagree = Some((format!("op {k}: {request}"), m, got.clone())); }
        }
        if out.oracle.is_some() || out.disagree.is_some() { break; }
    }
    out
}

fn gen_stream_case(rng: &mut Rng) -> SCase {
    let n = rng.usize(2, 5);
    let payloads: Vec<(bool, usize, u64)> = (0..n).map(|_| {
        let binary = rng.chance(3, 4);
        let len = *rng.pick(&[1usize, 2, 7, 31, 64, 200, 513, 1024, 1900]);
        (binary, if binary { len } else { len.max(8) }, rng.u64())
    }).collect();
    let mut ops = vec![SOp::Open { frame: rng.usize(0, n - 1) }];
    let nops = rng.usize(8, 40);
    for _ in 0..nops {
        let r = rng.below(100);
        ops.push(if r < 12 { SOp::Open { frame: rng.usize(0, n - 1) } }
            else if r < 62 { SOp::Read { h: rng.usize(0, 7), n: *rng.pick(&[0usize, 1, 2, 3, 5, 8, 16, 33, 100, 600, 4096]) } }
            else if r < 80 { SOp::Seek { h: rng.usize(0, 7), w: rng.below(3) as u8, d: *rng.pick(&[0i64, 1, -1, 2, -3, 7, 30, -40, 500, 2000, -2000, i64::MAX, i64::MIN]) } }
            else { SOp::Touch { frame: rng.usize(0, n - 1), how: rng.below(3) as u8 } });
    }
    SCase { payloads, reopen: rng.bool(), ops }
}

fn corpus_c() -> Vec<(String, SCase)> {
    vec![
        // two readers of two binary frames read alternately, another read of the handle in between
        ("two-readers-interleaved".into(), SCase { payloads: vec![(true, 64, 1), (true, 100, 2), (false, 40, 3)], reopen: false,
            ops: vec![SOp::Open { frame: 0 }, SOp::Open { frame: 1 }, SOp::Read { h: 0, n: 10 }, SOp::Read { h: 1, n: 10 }, SOp::Read { h: 0, n: 10 },
                      SOp::Touch { frame: 1, how: 0 }, SOp::Read { h: 0, n: 100 }, SOp::Read { h: 1, n: 500 }, SOp::Read { h: 1, n: 5 }] }),
        ("read-touch-read".into(), SCase { payloads: vec![(true, 200, 4), (true, 31, 5)], reopen: true,
            ops: vec![SOp::Open { frame: 0 }, SOp::Read { h: 0, n: 16 }, SOp::Touch { frame: 1, how: 0 }, SOp::Read { h: 0, n: 16 }, SOp::Touch { frame: 0, how: 1 }, SOp::Read { h: 0, n: 16 },
                      SOp::Touch { frame: 0, how: 2 }, SOp::Read { h: 0, n: 4096 }] }),
        ("seeks".into(), SCase { payloads: vec![(true, 513, 6), (false, 64, 7)], reopen: false,
            ops: vec![SOp::Open { frame: 0 }, SOp::Open { frame: 1 }, SOp::Seek { h: 0, w: 2, d: -13 }, SOp::Read { h: 0, n: 100 }, SOp::Seek { h: 0, w: 1, d: -600 }, SOp::Seek { h: 0, w: 0, d: 514 },
                      SOp::Seek { h: 0, w: 0, d: 513 }, SOp::Read { h: 0, n: 1 }, SOp::Seek { h: 1, w: 0, d: 100 }, SOp::Read { h: 1, n: 5 }, SOp::Seek { h: 1, w: 1, d: -101 }, SOp::Seek { h: 0, w: 1, d: i64::MAX },
                      SOp::Seek { h: 0, w: 2, d: i64::MIN }, SOp::Seek { h: 0, w: 1, d: -500 }, SOp::Read { h: 0, n: 8 }] }),
    ]
}

fn record_c(sum: &mut Summary, drv: &mut Option<Driver>, label: &str, c: &SCase, out: SOutcome) {
    for b in &out.branches { sum.branch(b); }
    sum.case(&format!("stream|{}", out.trace.join(";")), out.reads >= 2, || json!({"label": label, "part": "stream", "ops": c.ops.len(), "reads": out.reads, "trace_tail": out.trace.iter().rev().take(2).collect::<Vec<_>>()}));
    if out.oracle.is_none() && out.disagree.is_none() { return; }
    let want: Option<String> = out.oracle.as_ref().map(|o| o.0.clone());
    let t0 = std::time::Instant::now();
    let mut fails = |cand: &[SOp]| -> bool {
        if t0.elapsed().as_secs() > 20 { return false; }
        let o = run_stream_case(&SCase { ops: cand.to_vec(), ..c.clone() }, drv, false);
        match &want { Some(s) => o.oracle.as_ref().map(|x| &x.0) == Some(s), None => o.disagree.is_some() && o.oracle.is_none() }
    };
    let small = shrink_list(&c.ops, &mut fails);
    let sc = SCase { ops: small, ..c.clone() };
    let o2 = run_stream_case(&sc, drv, false);
    let (oracle, disagree) = if o2.oracle.is_some() || o2.disagree.is_some() { (o2.oracle, o2.disagree) } else { (out.oracle, out.disagree) };
    let case = json!({"kind": "stream", "label": label, "case": serde_json::to_value(&sc).unwrap()});
    if let Some((sig, what)) = oracle { sum.oracle_violation(&sig, &what, case.clone()); }
    if let Some((what, m, i)) = disagree { sum.disagreement(&what, case, &m, &i); }
}

fn corpus_b() -> Vec<(String, Vec<hist::Op>)> {
    use hist::{Op, PutSpec, UpdSpec};
    let put = |kind, len, seed, ts| Op::Put(PutSpec::simple(PayloadSpec::new(kind, len, seed), ts));
    vec![
        ("whole-and-chunked-through-update-vacuum".into(), vec![put(PayloadKind::Bin, 7, 1, 100), put(PayloadKind::Ascii, 5000, 2, 101), put(PayloadKind::Zero, 300, 3, 102), Op::Commit,
            Op::Update(UpdSpec { id: 0, payload: Some(PayloadSpec::new(PayloadKind::Utf8, 2600, 4)), ..Default::default() }), Op::Delete { id: 5 }, Op::Reopen, Op::Vacuum,
            put(PayloadKind::Rand, 900, 5, 103), Op::Crash, Op::Doctor { vacuum: true, rebuild_time: true, rebuild_lex: true, rebuild_vec: false }]),
    ]
}

fn main() {
    let args = parse_args();
    let mut drv: Option<Driver> = if args.driver.as_os_str() == "none" { None } else { Some(Driver::spawn(&args.driver).expect("spawn driver")) };
    let rule = "Part A: short histories (2-6 puts + commit / drop+open / crash+open, optional batch with compression level 0/1/3/9/19) over payload kinds \
        {empty, 1-16 B binary, zero-filled, random binary, high-bit binary, control-character text, compressible text, ASCII / multi-byte UTF-8 below / at / above the \
        2400-character threshold, tables + code} x option sets {history-runner options, library defaults, defaults with auto_tag off, mixed; uri / search text / mime / tags}; \
        pending WAL records, frame table, frame_canonical_payload, blob_reader and checksum of EVERY frame compared with the Lean byte-level store after every op. \
        Part B: operation histories of the Core family (shared generator) with the content oracle. non-trivial = at least one acknowledged put and a commit point (A) / \
        two acknowledged mutations and a commit point (B); distinct = op/answer trace";
    let mut sum = Summary::new("C07", &args, rule);
    sum.expect_branches(&["put-whole-plain", "put-whole-zstd", "put-chunked", "put-empty", "put-near-threshold", "put-without-search-text", "apply-reads-fresh-payload",
        "oracle-whole", "oracle-chunked", "oracle-normalized", "op-reopen", "op-crash", "level-0", "level-9", "hist-whole-frame", "hist-chunked-document",
        "stream-open-file", "stream-open-memory", "stream-partial-read", "stream-seek-ok", "stream-seek-refused", "stream-touch"]);
    let known: Vec<String> = args.extra.get("known").map(|s| s.split(',').map(|x| x.to_string()).collect()).unwrap_or_default();

    if args.mode == "replay" {
        let case = load_replay(args.replay_file.as_ref().expect("replay file"));
        let input = case.get("input").unwrap_or(&case).clone();
        if input["kind"] == "stream" {
            let c: SCase = serde_json::from_value(input["case"].clone()).expect("stream case in replay file");
            let out = run_stream_case(&c, &mut drv, true);
            if let Some((sig, what)) = &out.oracle { println!("ORACLE {sig}: {what}"); }
            if let Some((w, m, i)) = &out.disagree { println!("DISAGREE {w}\n  model: {m}\n  impl : {i}"); }
            record_c(&mut sum, &mut drv, "replay", &c, out);
        } else if input["kind"] == "history" {
            let ops = hist::ops_from_json(&input["ops"]);
            let mut oracle = |v: &mut StepView| history_oracle(v);
            if !args.extra.get("histmodel").map(|s| s == "1").unwrap_or(false) { drv = None; }
            let out = hist::run_history(Source::Fixed(&ops), drv.as_mut(), &mut oracle, true);
            if let Some((sig, what, _, _)) = &out.oracle { println!("ORACLE {sig}: {what}"); }
            if let Some((w, m, i)) = &out.disagree { println!("DISAGREE {w}\n  model: {}\n  impl : {}", m.chars().take(600).collect::<String>(), i.chars().take(600).collect::<String>()); }
            if let Some(d) = &out.dead { println!("DEAD {d}"); }
            record_b(&mut sum, &known, &mut drv, "replay", out);
        } else {
            let ops: Vec<COp> = serde_json::from_value(input["ops"].clone()).expect("ops in replay file");
            let out = run_case(&ops, &mut drv, true);
            if let Some((sig, what, _)) = &out.oracle { println!("ORACLE {sig}: {what}"); }
            if let Some((w, m, i)) = &out.disagree { println!("DISAGREE {w}\n  model: {}\n  impl : {}", m.chars().take(600).collect::<String>(), i.chars().take(600).collect::<String>()); }
            record_a(&mut sum, &known, &mut drv, "replay", &ops, out);
        }
        sum.model_requests = drv.as_ref().map(|d| d.requests).unwrap_or(0);
        sum.finish(&args);
    }

    let max_fail: usize = args.extra.get("maxfail").and_then(|s| s.parse().ok()).unwrap_or(3);
    let n_a: usize = args.extra.get("ncontent").and_then(|s| s.parse().ok()).unwrap_or(if args.thorough { 150 } else { 6 });
    let n_b: usize = args.extra.get("nshort").and_then(|s| s.parse().ok()).unwrap_or(if args.thorough { 30 } else { 2 });
    let n_long: usize = args.extra.get("nlong").and_then(|s| s.parse().ok()).unwrap_or(if args.thorough { 2 } else { 0 });
    // Part A
    let timing = args.extra.contains_key("timing");
    for (label, ops) in corpus_a() {
        let t0 = std::time::Instant::now();
        let out = run_case(&ops, &mut drv, false);
        let t1 = t0.elapsed().as_secs_f32();
        sum.branch("corpus");
        record_a(&mut sum, &known, &mut drv, &label, &ops, out);
        if timing { eprintln!("[t] {label}: run {t1:.1}s total {:.1}s", t0.elapsed().as_secs_f32()); }
    }
    let mut rng = Rng::new(args.seed);
    for k in 0..n_a {
        if sum.oracle_violations.len() + sum.disagreements.len() >= max_fail { break; }
        let mut r = rng.fork();
        let ops = gen_case(&mut r);
        let t0 = std::time::Instant::now();
        let out = run_case(&ops, &mut drv, false);
        let t1 = t0.elapsed().as_secs_f32();
        record_a(&mut sum, &known, &mut drv, &format!("content-{k}"), &ops, out);
        if timing { eprintln!("[t] content-{k} ({} ops): run {t1:.1}s total {:.1}s", ops.len(), t0.elapsed().as_secs_f32()); }
    }
    // Part C: streaming readers
    let n_c: usize = args.extra.get("nstream").and_then(|s| s.parse().ok()).unwrap_or(if args.thorough { 400 } else { 40 });
    for (label, c) in corpus_c() {
        let out = run_stream_case(&c, &mut drv, false);
        sum.branch("corpus-stream");
        record_c(&mut sum, &mut drv, &label, &c, out);
    }
    for k in 0..n_c {
        if sum.oracle_violations.len() + sum.disagreements.len() >= max_fail { break; }
        let mut r = rng.fork();
        let c = gen_stream_case(&mut r);
        let out = run_stream_case(&c, &mut drv, false);
        record_c(&mut sum, &mut drv, &format!("stream-{k}"), &c, out);
    }
    // Part B: the Core model's own correspondence is the obligation of C01 / C06; here the shared runner
    // drives the implementation for the content oracle (`--histmodel 1` adds the model comparison)
    let mut hdrv: Option<Driver> = if args.extra.get("histmodel").map(|s| s == "1").unwrap_or(false) { drv.take() } else { None };
    let mut prof = hist::GenProfile::standard(args.thorough);
    if !args.thorough { prof.short_len = (10, 30); }
    prof.w_put = 50; prof.w_update = 14; prof.w_vacuum = 3; prof.w_reopen = 6; prof.w_crash = 4; prof.emb_percent = 10;
    for (label, ops) in corpus_b() {
        if sum.oracle_violations.len() + sum.disagreements.len() >= max_fail { break; }
        let mut oracle = |v: &mut StepView| history_oracle(v);
        let t0 = std::time::Instant::now();
        let out = hist::run_history(Source::Fixed(&ops), hdrv.as_mut(), &mut oracle, false);
        record_b(&mut sum, &known, &mut hdrv, &label, out);
        if timing { eprintln!("[t] hist {label}: {:.1}s", t0.elapsed().as_secs_f32()); }
    }
    for k in 0..(n_b + n_long) {
        if sum.oracle_violations.len() + sum.disagreements.len() >= max_fail { break; }
        let long = k >= n_b;
        let len = if long { rng.usize(prof.long_len.0, prof.long_len.1) } else { rng.usize(prof.short_len.0, prof.short_len.1) };
        let mut r = rng.fork();
        let mut p = prof.clone();
        if long { p.w_put = 70; p.w_update = 8; p.w_delete = 8; p.w_commit = 2; p.w_reopen = 2; p.w_crash = 2; p.w_vacuum = 1; p.w_doctor = 0; p.w_skip = 1; p.w_finalize = 1; p.w_ticket = 0; p.w_batch = 2; p.w_readonly = 0; }
        let mut oracle = |v: &mut StepView| history_oracle(v);
        let t0 = std::time::Instant::now();
        let out = hist::run_history(Source::Gen { rng: &mut r, prof: &p, len, long }, hdrv.as_mut(), &mut oracle, false);
        record_b(&mut sum, &known, &mut hdrv, &format!("{}-{k}", if long { "long" } else { "short" }), out);
        if timing { eprintln!("[t] hist {k} ({len} ops): {:.1}s", t0.elapsed().as_secs_f32()); }
    }
    sum.model_requests = hdrv.as_ref().or(drv.as_ref()).map(|d| d.requests).unwrap_or(0);
    sum.finish(&args);
}
