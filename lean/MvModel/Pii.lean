/-
  Model of src/pii.rs: `mask_pii` = the passes of `Gen.C36.maskOrder` applied one after another
  (each pass is `Regex::replace_all` with a literal token), `contains_pii` = some pattern of
  `Gen.C36.containsOrder` matches somewhere.  Patterns, orders and tokens are generated from the
  source on every run (tools/gen/C36.py).  Text = list of Unicode code points.
-/
import MvModel.Regex
import MvModel.Gen.C36
namespace Mv.Pii
open Mv.Regex

/-- run the passes in order -/
def maskWith (T : Tables) (passes : List (Re × List Nat)) (s : List Nat) : List Nat :=
  passes.foldl (fun acc p => replaceAll T p.1 p.2 acc) s

def containsWith (T : Tables) (pats : List Re) (s : List Nat) : Bool :=
  pats.any (fun r => isMatch T r s)

/-- every pass, run on the text the previous passes produced, creates no word boundary -/
def safeWith (T : Tables) : List (Re × List Nat) → List Nat → Bool
  | [], _ => true
  | p :: ps, s => passSafe T p.1 s && safeWith T ps (replaceAll T p.1 p.2 s)

/-- `mask_pii` -/
def maskPii (T : Tables) (s : List Nat) : List Nat := maskWith T Gen.C36.maskOrder s

/-- `contains_pii` -/
def containsPii (T : Tables) (s : List Nat) : Bool := containsWith T Gen.C36.containsOrder s

def maskSafe (T : Tables) (s : List Nat) : Bool := safeWith T Gen.C36.maskOrder s

/-- which patterns of `containsOrder` match (diagnostics for the driver) -/
def matchFlags (T : Tables) (s : List Nat) : List Bool :=
  Gen.C36.containsOrder.map (fun r => isMatch T r s)

/-- code points of a string / back (driver and examples) -/
def cps (s : String) : List Nat := s.toList.map Char.toNat
def ofCps (l : List Nat) : String := String.ofList (l.map Char.ofNat)

end Mv.Pii
