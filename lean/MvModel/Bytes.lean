/-
  Byte-level helpers shared by every model: little-endian integer codecs over `List UInt8`,
  hex printing/parsing for the driver line protocol, and the take/drop lemmas the codec
  proofs use.  Core Lean only (no imports) so that driver executables link.
-/
namespace Mv

abbrev Bytes := List UInt8

/-- `n` little-endian bytes of `v` (low byte first). -/
def leBytes : Nat → Nat → Bytes
  | 0, _ => []
  | n+1, v => UInt8.ofNat (v % 256) :: leBytes n (v / 256)

/-- value of a little-endian byte string -/
def leVal : Bytes → Nat
  | [] => 0
  | b :: bs => b.toNat + 256 * leVal bs

@[simp] theorem leBytes_length (n v : Nat) : (leBytes n v).length = n := by
  induction n generalizing v with
  | zero => rfl
  | succ n ih => simp [leBytes, ih]

theorem leVal_lt (bs : Bytes) : leVal bs < 256 ^ bs.length := by
  induction bs with
  | nil => simp [leVal]
  | cons b bs ih =>
    have hb : b.toNat < 256 := b.toNat_lt
    simp only [leVal, List.length_cons, Nat.pow_succ]
    omega

theorem leVal_leBytes (n v : Nat) (h : v < 256 ^ n) : leVal (leBytes n v) = v := by
  induction n generalizing v with
  | zero => simp [leBytes, leVal] at *; omega
  | succ n ih =>
    have h2 : v / 256 < 256 ^ n := by
      rw [Nat.pow_succ] at h
      exact Nat.div_lt_of_lt_mul (by omega)
    simp only [leBytes, leVal, ih _ h2]
    have : (UInt8.ofNat (v % 256)).toNat = v % 256 := by
      simp [UInt8.toNat_ofNat']
    omega

theorem leBytes_leVal (bs : Bytes) : leBytes bs.length (leVal bs) = bs := by
  induction bs with
  | nil => rfl
  | cons b bs ih =>
    have hb : b.toNat < 256 := b.toNat_lt
    simp only [List.length_cons, leBytes, leVal]
    have h1 : (b.toNat + 256 * leVal bs) % 256 = b.toNat := by omega
    have h2 : (b.toNat + 256 * leVal bs) / 256 = leVal bs := by omega
    rw [h1, h2, ih]
    simp

def u16le (v : Nat) : Bytes := leBytes 2 v
def u32le (v : Nat) : Bytes := leBytes 4 v
def u64le (v : Nat) : Bytes := leBytes 8 v

/-- `bytes[off .. off+len)` (shorter if out of range, like a clipped slice) -/
def slice (b : Bytes) (off len : Nat) : Bytes := (b.drop off).take len

@[simp] theorem slice_length_le (b : Bytes) (off len : Nat) : (slice b off len).length ≤ len := by
  simp [slice]; omega

theorem slice_length (b : Bytes) (off len : Nat) (h : off + len ≤ b.length) :
    (slice b off len).length = len := by
  simp [slice]; omega

def zeros (n : Nat) : Bytes := List.replicate n 0

@[simp] theorem zeros_length (n : Nat) : (zeros n).length = n := by simp [zeros]

/-- overwrite `b[off..off+w.length)` with `w` (caller guarantees it fits; otherwise the
    image is extended, which no model relies on) -/
def writeAt (b : Bytes) (off : Nat) (w : Bytes) : Bytes :=
  b.take off ++ w ++ b.drop (off + w.length)

theorem writeAt_length (b w : Bytes) (off : Nat) (h : off + w.length ≤ b.length) :
    (writeAt b off w).length = b.length := by
  simp [writeAt]; omega

/-! ### hex (driver protocol) -/

def hexDigit (n : Nat) : Char :=
  if n < 10 then Char.ofNat (48 + n) else Char.ofNat (87 + n)

def toHex (b : Bytes) : String :=
  String.ofList (b.flatMap fun x => [hexDigit (x.toNat / 16), hexDigit (x.toNat % 16)])

def hexVal (c : Char) : Option Nat :=
  if '0' ≤ c ∧ c ≤ '9' then some (c.toNat - 48)
  else if 'a' ≤ c ∧ c ≤ 'f' then some (c.toNat - 87)
  else if 'A' ≤ c ∧ c ≤ 'F' then some (c.toNat - 55)
  else none

def ofHexChars : List Char → Option Bytes
  | [] => some []
  | [_] => none
  | a :: b :: rest => do
    let x ← hexVal a
    let y ← hexVal b
    let r ← ofHexChars rest
    pure (UInt8.ofNat (16 * x + y) :: r)

/-- "-" denotes the empty byte string on the wire -/
def ofHex (s : String) : Option Bytes :=
  if s == "-" then some [] else ofHexChars s.toList

def toHexW (b : Bytes) : String := if b.isEmpty then "-" else toHex b

end Mv
