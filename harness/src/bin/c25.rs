//! C25 — tickets: strictly increasing sequence numbers, authentic signatures only, a rejected
//! ticket changes nothing.
//!
//! impl  : memvid_core::Memvid::{apply_ticket, apply_signed_ticket, bind_memory,
//!         set_memory_binding_only, commit, open} on real .mv2 files; the verifying key is the
//!         cfg(memvid_verif) override MEMVID_VERIF_TICKET_PUBKEY (test keypairs with constant seeds)
//!         or, when the variable is unset, the embedded production key.
//! model : drv_c25 (MvModel/Ticket.lean); the black box `sigVerify` is supplied per ticket by the
//!         harness's own Ed25519 verification over its own rendering of the canonical payload.
//! oracle: the three sentences of the property evaluated on the implementation's observations:
//!         (1) an accepted ticket's sequence number exceeds that of every ticket accepted before on
//!         this file (reopen included; after every reopen a replay probe is attempted when the
//!         stored number is lower than an accepted one), (2) an accepted signed ticket verifies
//!         under the configured key over the canonical payload, has a 64-byte signature and names
//!         the bound memory, (3) a rejected ticket returns an error (no panic) and leaves the
//!         observable ticket state and the file bytes unchanged.
#![allow(deprecated)]
use ed25519_dalek::{Signature, Signer, SigningKey, VerifyingKey};
use memvid_core::types::{MemoryBinding, SignedTicket, Ticket};
use memvid_core::{Memvid, MemvidError};
use mvh::*;
use std::path::PathBuf;

const ENV_KEY: &str = "MEMVID_VERIF_TICKET_PUBKEY";
/// src/constants.rs MEMVID_TICKET_PUBKEY, repeated here so that the oracle does not depend on it
const EMBEDDED_PUBKEY_B64: &str = "DFKNhP/yO5i1b9aKL+aHeBaGunz9sMfOF736fzYws4Q=";
const FREE_CAP: u64 = 50 * 1024 * 1024;

// ------------------------------------------------------------------------------------------
// small independent helpers: base64, JSON string escaping, uuid text
const B64: &[u8; 64] = b"ABCDEFGHIJKLMNOPQRSTUVWXYZabcdefghijklmnopqrstuvwxyz0123456789+/";
fn b64enc(b: &[u8]) -> String {
    let mut o = String::new();
    for c in b.chunks(3) {
        let n = (c[0] as u32) << 16 | (*c.get(1).unwrap_or(&0) as u32) << 8 | *c.get(2).unwrap_or(&0) as u32;
        o.push(B64[(n >> 18) as usize & 63] as char);
        o.push(B64[(n >> 12) as usize & 63] as char);
        o.push(if c.len() > 1 { B64[(n >> 6) as usize & 63] as char } else { '=' });
        o.push(if c.len() > 2 { B64[n as usize & 63] as char } else { '=' });
    }
    o
}
fn b64dec(s: &str) -> Vec<u8> {
    let mut bits = 0u32;
    let mut nb = 0;
    let mut o = vec![];
    for ch in s.bytes() {
        if ch == b'=' { break; }
        let v = B64.iter().position(|&x| x == ch).expect("base64 char") as u32;
        bits = bits << 6 | v;
        nb += 6;
        if nb >= 8 { nb -= 8; o.push((bits >> nb) as u8); }
    }
    o
}
/// serde_json's string escaping, written out independently
fn json_str(s: &str) -> String {
    let mut o = String::from("\"");
    for c in s.chars() {
        match c {
            '"' => o.push_str("\\\""),
            '\\' => o.push_str("\\\\"),
            '\u{08}' => o.push_str("\\b"),
            '\u{0c}' => o.push_str("\\f"),
            '\n' => o.push_str("\\n"),
            '\r' => o.push_str("\\r"),
            '\t' => o.push_str("\\t"),
            c if (c as u32) < 0x20 => o.push_str(&format!("\\u{:04x}", c as u32)),
            c => o.push(c),
        }
    }
    o.push('"');
    o
}
fn uuid_text(id: &[u8; 16]) -> String {
    let h = hex::encode(id);
    format!("{}-{}-{}-{}-{}", &h[0..8], &h[8..12], &h[12..16], &h[16..20], &h[20..32])
}
/// the canonical payload the control plane signs (src/signature.rs TicketSignaturePayload)
fn canonical_payload(mem: &[u8; 16], issuer: &str, seq: i64, exp: u64, cap: Option<u64>) -> Vec<u8> {
    format!(
        "{{\"version\":1,\"memory_id\":\"{}\",\"issuer\":{},\"seq_no\":{},\"expires_in\":{},\"capacity_bytes\":{}}}",
        uuid_text(mem), json_str(issuer), seq, exp,
        match cap { Some(c) => c.to_string(), None => "null".into() }
    ).into_bytes()
}

// ------------------------------------------------------------------------------------------
// keys
fn key1() -> SigningKey { SigningKey::from_bytes(&[7u8; 32]) }
fn key2() -> SigningKey { SigningKey::from_bytes(&[0x5au8; 32]) }
/// (env value or None = unset, verifying key the implementation will end up with)
fn key_mode(mode: &str) -> (Option<String>, Option<VerifyingKey>) {
    match mode {
        "good" => { let k = key1().verifying_key(); (Some(b64enc(k.as_bytes())), Some(k)) }
        "other" => { let k = key2().verifying_key(); (Some(b64enc(k.as_bytes())), Some(k)) }
        "embedded" => {
            let b: [u8; 32] = b64dec(EMBEDDED_PUBKEY_B64).try_into().unwrap();
            (None, Some(VerifyingKey::from_bytes(&b).unwrap()))
        }
        "bad-base64" => (Some("@@not base64@@".into()), None),
        "bad-length" => (Some(b64enc(&[1u8; 31])), None),
        _ => panic!("key mode {mode}"),
    }
}
fn set_env(v: &Option<String>) {
    // the harness is single-threaded
    unsafe {
        match v { Some(s) => std::env::set_var(ENV_KEY, s), None => std::env::remove_var(ENV_KEY) }
    }
}

// ------------------------------------------------------------------------------------------
// operations (JSON so that replays are exact; signatures are concrete bytes)
fn op_apply(seq: i64, exp: u64, cap: Option<u64>, issuer: &str) -> Value {
    json!({"op": "apply", "seq": seq, "exp": exp, "cap": cap, "issuer": issuer})
}
fn op_signed(seq: i64, exp: u64, cap: Option<u64>, issuer: &str, mem: &[u8; 16], sig: &[u8], key: &str) -> Value {
    json!({"op": "signed", "seq": seq, "exp": exp, "cap": cap, "issuer": issuer, "mem": hex::encode(mem), "sig": hexw(sig), "key": key})
}
fn op_bindt(mem: &[u8; 16], seq: i64, exp: u64, cap: Option<u64>, issuer: &str) -> Value {
    json!({"op": "bindt", "mem": hex::encode(mem), "seq": seq, "exp": exp, "cap": cap, "issuer": issuer})
}
fn op_bind(mem: &[u8; 16]) -> Value { json!({"op": "bind", "mem": hex::encode(mem)}) }
fn op_simple(name: &str) -> Value { json!({"op": name}) }

fn mem_of(op: &Value) -> [u8; 16] { hex::decode(op["mem"].as_str().unwrap()).unwrap().try_into().unwrap() }
fn cap_of(op: &Value) -> Option<u64> { op["cap"].as_u64() }
fn is_ticket_op(op: &Value) -> bool { matches!(op["op"].as_str().unwrap(), "apply" | "signed" | "bindt") }

fn binding_for(mem: &[u8; 16]) -> MemoryBinding {
    serde_json::from_value(json!({
        "memory_id": uuid_text(mem), "memory_name": "verif", "bound_at": "2024-01-01T00:00:00Z",
        "api_url": "https://example.invalid"
    })).expect("MemoryBinding")
}

// ------------------------------------------------------------------------------------------
// the implementation side
struct Real {
    _dir: tempfile::TempDir,
    path: PathBuf,
    mem: Option<Memvid>,
}

fn classify(e: &MemvidError) -> String {
    match e {
        MemvidError::TicketSequence { expected, actual } => format!("err seq {expected} {actual}"),
        MemvidError::TicketSignatureInvalid { reason } => {
            let r: &str = reason;
            let k = if r.contains("not bound") { "unbound" }
                else if r.contains("does not match") { "memid" }
                else if r.contains("64 bytes") { "siglen" }
                else if r.contains("mismatch") { "mismatch" }
                else if r.contains("public key") { "badkey" }
                else { "other" };
            format!("err sig {k}")
        }
        MemvidError::MemoryAlreadyBound { .. } => "err bound".into(),
        other => format!("err other {other:?}").replace('\n', " "),
    }
}

impl Real {
    /// a fresh memory: `Memvid::create` + one frame + commit is done once per process (it takes
    /// seconds because of the index set-up); every history starts from a byte copy of that file
    fn create() -> Real {
        static TEMPLATE: std::sync::OnceLock<Vec<u8>> = std::sync::OnceLock::new();
        let bytes = TEMPLATE.get_or_init(|| {
            let dir = tempfile::tempdir().expect("tempdir");
            let path = dir.path().join("template.mv2");
            let mut m = Memvid::create(&path).expect("create");
            m.put_bytes(b"first frame of the ticket harness file").expect("put");
            m.commit().expect("commit");
            drop(m);
            std::fs::read(&path).expect("read template")
        });
        let dir = tempfile::tempdir().expect("tempdir");
        let path = dir.path().join("t.mv2");
        std::fs::write(&path, bytes).expect("write copy");
        let m = Memvid::open(&path).expect("open copy");
        Real { _dir: dir, path, mem: Some(m) }
    }
    fn m(&mut self) -> &mut Memvid { self.mem.as_mut().unwrap() }
    fn file_hash(&self) -> String { b3short(&std::fs::read(&self.path).expect("read file")) }
    fn bound(&self) -> Option<[u8; 16]> {
        self.mem.as_ref().unwrap().get_memory_binding().map(|b| *b.memory_id.as_bytes())
    }
    fn seq(&self) -> i64 { self.mem.as_ref().unwrap().current_ticket().seq_no }
    /// observable ticket state in the driver's format
    fn state(&self) -> String {
        let m = self.mem.as_ref().unwrap();
        let t = m.current_ticket();
        let st = m.stats().expect("stats");
        let sq = match st.seq_no { Some(n) => n.to_string(), None => "none".into() };
        let capv = if st.capacity_bytes == m.get_capacity() { st.capacity_bytes.to_string() }
            else { format!("{}!={}", st.capacity_bytes, m.get_capacity()) };
        let bd = match self.bound() { Some(b) => hexw(&b), None => "none".into() };
        format!("{} {} {} {} {} {} {} {}", hexw(t.issuer.as_bytes()), t.seq_no, t.expires_in_secs,
            t.capacity_bytes, t.verified as u8, sq, capv, bd)
    }
    /// run one op; returns the result word(s) (`ok`, `err ..`, `panic`)
    fn exec(&mut self, op: &Value) -> String {
        let name = op["op"].as_str().unwrap().to_string();
        let res: Result<Result<(), MemvidError>, String> = match name.as_str() {
            "apply" | "bindt" | "signed" => {
                let seq = op["seq"].as_i64().unwrap();
                let exp = op["exp"].as_u64().unwrap();
                let issuer = op["issuer"].as_str().unwrap().to_string();
                let cap = cap_of(op);
                let mut m = self.mem.take().unwrap();
                let r = match name.as_str() {
                    "apply" => {
                        let t = Ticket { issuer, seq_no: seq, expires_in_secs: exp, capacity_bytes: cap };
                        guarded(std::panic::AssertUnwindSafe(|| m.apply_ticket(t)))
                    }
                    "bindt" => {
                        let t = Ticket { issuer, seq_no: seq, expires_in_secs: exp, capacity_bytes: cap };
                        let b = binding_for(&mem_of(op));
                        guarded(std::panic::AssertUnwindSafe(|| m.bind_memory(b, t)))
                    }
                    _ => {
                        let sig = unhexw(op["sig"].as_str().unwrap()).unwrap();
                        let id = binding_for(&mem_of(op)).memory_id;
                        let t = SignedTicket::new(issuer, seq, exp, cap, id, sig);
                        set_env(&key_mode(op["key"].as_str().unwrap()).0);
                        guarded(std::panic::AssertUnwindSafe(|| m.apply_signed_ticket(t)))
                    }
                };
                self.mem = Some(m);
                r
            }
            "bind" => { let b = binding_for(&mem_of(op)); Ok(self.m().set_memory_binding_only(b)) }
            "commit" => Ok(self.m().commit()),
            "put" => {
                // noise: a frame between tickets (may be refused by a tiny ticket capacity)
                let _ = self.m().put_bytes(b"another frame");
                Ok(self.m().commit())
            }
            "dirtyput" => {
                // an acknowledged but UNCOMMITTED put: the handle is dirty when the next ticket arrives
                let _ = self.m().put_bytes(b"uncommitted frame of the ticket harness");
                Ok(Ok(()))
            }
            "crash" => {
                // process death: no destructor commit; descriptors and lock go away; the next open replays the WAL.
                // A ticket that was ACCEPTED before must still be the stored one (apply_ticket rewrites TOC/footer/
                // header itself, it does not wait for a commit) — seed C02-2 deferred it to the next commit
                let m = self.mem.take().expect("handle");
                memvid_core::verif_hooks::verif_abandon(m);
                match Memvid::open(&self.path) {
                    Ok(m) => { self.mem = Some(m); Ok(Ok(())) }
                    Err(e) => panic!("open after crash failed: {e:?}"),
                }
            }
            "reopen" => {
                drop(self.mem.take());
                match Memvid::open(&self.path) {
                    Ok(m) => { self.mem = Some(m); Ok(Ok(())) }
                    Err(e) => panic!("reopen failed: {e:?}"),
                }
            }
            other => panic!("unknown op {other}"),
        };
        match res {
            Ok(Ok(())) => "ok".into(),
            Ok(Err(e)) => classify(&e),
            Err(p) => format!("panic {}", p.replace('\n', " ")),
        }
    }
}

// ------------------------------------------------------------------------------------------
// the harness's own evaluation of the signature black box for one signed op
fn sig_verifies(op: &Value) -> (bool, bool) {
    let (_, vk) = key_mode(op["key"].as_str().unwrap());
    let Some(vk) = vk else { return (false, false) };
    let sig = unhexw(op["sig"].as_str().unwrap()).unwrap();
    let Ok(arr) = <[u8; 64]>::try_from(sig.as_slice()) else { return (true, true) }; // length branch: value irrelevant
    let msg = canonical_payload(&mem_of(op), op["issuer"].as_str().unwrap(), op["seq"].as_i64().unwrap(),
        op["exp"].as_u64().unwrap(), cap_of(op));
    (vk.verify_strict(&msg, &Signature::from_bytes(&arr)).is_ok(), true)
}

fn driver_line(op: &Value) -> String {
    let capw = |op: &Value| match cap_of(op) { Some(c) => c.to_string(), None => "none".into() };
    let iss = |op: &Value| hexw(op["issuer"].as_str().unwrap().as_bytes());
    match op["op"].as_str().unwrap() {
        "apply" => format!("apply {} {} {} {}", op["seq"], op["exp"], capw(op), iss(op)),
        "bindt" => format!("bindt {} {} {} {} {}", op["mem"].as_str().unwrap(), op["seq"], op["exp"], capw(op), iss(op)),
        "signed" => {
            let (v, k) = sig_verifies(op);
            format!("signed {} {} {} {} {} {} {} {}", op["seq"], op["exp"], capw(op), iss(op),
                op["mem"].as_str().unwrap(), op["sig"].as_str().unwrap(), v as u8, k as u8)
        }
        "bind" => format!("bind {}", op["mem"].as_str().unwrap()),
        "put" => "commit".into(),
        // for the ticket state a crash + open is a reopen: accepted tickets are persisted by apply_ticket itself
        "crash" => "reopen".into(),
        other => other.to_string(),
    }
}

// ------------------------------------------------------------------------------------------
// one history on a fresh file: implementation, model, oracle
#[derive(Default)]
struct Outcome {
    trace: Vec<String>,          // "<op> => impl | model"
    violations: Vec<(String, String)>, // (signature, what)
    disagreements: Vec<(String, String, String)>, // (what, model, impl)
    accepted: usize,
    rejected: usize,
    branches: Vec<String>,
    canon: String,
}

fn run_history(ops: &[Value], drv: &mut Option<Driver>) -> Outcome {
    let mut out = Outcome::default();
    let t0 = std::time::Instant::now();
    let mut real = Real::create();
    if std::env::var("VERIF_C25_TIMING").is_ok() { eprintln!("timing create: {:?} file {} bytes", t0.elapsed(), std::fs::metadata(&real.path).map(|m| m.len()).unwrap_or(0)); }
    if let Some(d) = drv.as_mut() {
        let a = d.ask("init");
        let want = format!("ok w=1 | {}", real.state());
        if a != want { out.disagreements.push(("state after create".into(), a, want)); }
    }
    let mut accepted_seqs: Vec<i64> = vec![];
    for (i, op) in ops.iter().enumerate() {
        let name = op["op"].as_str().unwrap();
        let ticket = is_ticket_op(op);
        let before_state = real.state();
        let before_hash = real.file_hash();
        let before_bound = real.bound();
        let t0 = std::time::Instant::now();
        let res = real.exec(op);
        if std::env::var("VERIF_C25_TIMING").is_ok() { eprintln!("timing {name}: {:?}", t0.elapsed()); }
        let after_state = real.state();
        let after_hash = real.file_hash();
        let wrote = before_hash != after_hash;
        let resw = if res.starts_with("panic") { "panic".to_string() } else { res.clone() };
        let imp = if ticket || name == "bind" {
            format!("{} w={} | {}", resw, wrote as u8, after_state)
        } else {
            format!("{} | {}", resw, after_state)
        };
        // ---- model
        let mut model = String::from("-");
        if name == "dirtyput" {
            // not a ticket operation and invisible to the ticket model: executed, traced, not compared
        } else if let Some(d) = drv.as_mut() {
            let a = d.ask(&driver_line(op));
            model = if ticket || name == "bind" { a } else {
                // `w` is not compared for commit/reopen/put
                match a.split_once(" w=") { Some((r, rest)) => format!("{} | {}", r, rest.split_once("| ").map(|x| x.1).unwrap_or("")), None => a }
            };
            if model != imp {
                out.disagreements.push((format!("op #{i} {name}"), model.clone(), imp.clone()));
            }
        }
        out.trace.push(format!("#{i} {} => impl: {} || model: {}", op, if res.starts_with("panic") { format!("{imp}   [{res}]") } else { imp.clone() }, model));
        out.canon.push_str(&format!("{op}>{imp};"));
        // ---- oracle
        if ticket {
            let seq = op["seq"].as_i64().unwrap();
            if res == "ok" {
                out.accepted += 1;
                out.branches.push(format!("accepted-{name}"));
                if let Some(&m) = accepted_seqs.iter().max() {
                    if seq <= m {
                        out.violations.push(("accepted-seq-not-above-earlier-accepted".into(),
                            format!("op #{i}: ticket seq_no {seq} accepted although a ticket with seq_no {m} was accepted before")));
                    }
                }
                accepted_seqs.push(seq);
                if name == "signed" {
                    let (v, k) = sig_verifies(op);
                    let siglen = unhexw(op["sig"].as_str().unwrap()).unwrap().len();
                    if !(k && siglen == 64 && v) {
                        out.violations.push(("accepted-signed-ticket-does-not-verify".into(),
                            format!("op #{i}: signed ticket accepted; key parses={k} signature length={siglen} verify_strict over canonical payload={v}")));
                    }
                    if before_bound != Some(mem_of(op)) {
                        out.violations.push(("accepted-signed-ticket-for-other-memory".into(),
                            format!("op #{i}: signed ticket for memory {} accepted while bound to {:?}", op["mem"], before_bound.map(hex::encode))));
                    }
                }
            } else {
                out.rejected += 1;
                let w: Vec<&str> = res.split(' ').collect();
                out.branches.push(match (w[0], w.get(1).copied()) {
                    ("err", Some("seq")) => "rejected-err-seq".to_string(),
                    ("err", Some("sig")) => format!("rejected-err-sig-{}", w.get(2).copied().unwrap_or("?")),
                    ("err", Some("bound")) => "rejected-err-bound".to_string(),
                    ("panic", _) => "rejected-panic".to_string(),
                    _ => "rejected-other".to_string(),
                });
                if res.starts_with("panic") {
                    out.violations.push(("rejected-ticket-panics".into(),
                        format!("op #{i}: ticket seq_no {seq} against current seq_no {} did not return an error: {res}", before_state.split(' ').nth(1).unwrap_or("?"))));
                }
                if before_state != after_state {
                    out.violations.push(("rejected-ticket-changes-state".into(),
                        format!("op #{i}: {res}; state before [{before_state}] after [{after_state}]")));
                }
                if wrote {
                    out.violations.push(("rejected-ticket-writes-file".into(),
                        format!("op #{i}: {res}; file hash {before_hash} -> {after_hash}")));
                }
            }
        }
        if name == "reopen" || name == "crash" {
            out.branches.push(name.to_string());
            if before_state != after_state { out.branches.push("reopen-changed-observable-state".into()); }
            // across reopen: if the stored number fell below an accepted one, a replay is accepted
            if let Some(&m) = accepted_seqs.iter().max() {
                if real.seq() < m {
                    let probe = op_apply(m, 0, None, "replay-probe");
                    let r = real.exec(&probe);
                    if r == "ok" {
                        out.violations.push(("accepted-seq-not-above-earlier-accepted".into(),
                            format!("after reopen #{i} the stored seq_no is {} and a replay of the accepted seq_no {m} was accepted again", after_state.split(' ').nth(1).unwrap_or("?"))));
                    }
                    if let Some(d) = drv.as_mut() { let _ = d.ask(&driver_line(&probe)); }
                }
            }
        }
    }
    out
}

// ------------------------------------------------------------------------------------------
// generator
const ISSUERS: &[&str] = &["memvid.com", "memvid-dashboard", "", "free-tier", " ", "a\"b\\c", "line\nbreak\ttab\u{1}\u{1f}",
    "émetteur-日本語-\u{1F600}", "{\"seq_no\":99}", "\u{7f}\u{80}\u{2028}", "issuer/with/slashes"];

fn gen_seq(rng: &mut Rng, cur: i64, allow_max: bool) -> i64 {
    match rng.below(20) {
        0..=6 => cur.saturating_add(1),
        7 => cur,
        8 => cur.saturating_sub(1),
        9 => cur.saturating_add(rng.i64(2, 1000)),
        10 => rng.i64(-5, 5),
        11 => i64::MIN,
        12 => if allow_max { i64::MAX } else { cur.saturating_add(2) },
        13 => if allow_max { i64::MAX - rng.i64(1, 3) } else { 0 },
        14 => rng.i64(i64::MIN, i64::MAX),
        15 => cur.saturating_sub(rng.i64(2, 1000)),
        16 => 0,
        17 => -1,
        _ => cur.saturating_add(rng.i64(1, 3)),
    }
}
fn gen_cap(rng: &mut Rng) -> Option<u64> {
    match rng.below(10) {
        0 | 1 => None,
        2 => Some(0),
        3 => Some(1),
        4 => Some(FREE_CAP),
        5 => Some(u64::MAX),
        6 => Some(10 * 1024 * 1024 * 1024),
        7 => Some(rng.u64()),
        _ => Some(rng.range(1, 1 << 40)),
    }
}
fn gen_exp(rng: &mut Rng) -> u64 {
    match rng.below(5) { 0 => 0, 1 => 86400, 2 => u64::MAX, 3 => rng.u64(), _ => rng.range(1, 1_000_000) }
}
fn gen_issuer(rng: &mut Rng) -> String {
    if rng.chance(1, 8) {
        let n = rng.usize(1, 40);
        (0..n).map(|_| char::from_u32(rng.range(1, 0x2ff) as u32).unwrap_or('x')).collect()
    } else { (*rng.pick(ISSUERS)).to_string() }
}
fn gen_mem(rng: &mut Rng) -> [u8; 16] { rng.bytes(16).try_into().unwrap() }

/// a signed-ticket op: valid under key1 for `bound` unless tampered
fn gen_signed(rng: &mut Rng, cur: i64, bound: Option<[u8; 16]>, allow_max: bool, tags: &mut Vec<String>) -> Value {
    let mem = bound.unwrap_or_else(|| gen_mem(rng));
    let mut seq = gen_seq(rng, cur, allow_max);
    let mut exp = gen_exp(rng);
    let mut cap = gen_cap(rng);
    let mut issuer = gen_issuer(rng);
    let mut memid = mem;
    let mut key = "good";
    let signer = if rng.chance(1, 12) { tags.push("signed-by-other-key".into()); key2() } else { key1() };
    let mut sig = signer.sign(&canonical_payload(&mem, &issuer, seq, exp, cap)).to_bytes().to_vec();
    if rng.chance(1, 2) {
        let t = rng.below(15);
        tags.push(format!("tamper-{t}"));
        match t {
            0 => { let i = rng.usize(0, 63); sig[i] ^= 1 << rng.below(8); }
            1 => { sig.pop(); }
            2 => { sig.push(rng.u64() as u8); }
            3 => { sig.clear(); }
            4 => { seq = if rng.bool() { seq.wrapping_add(1) } else { gen_seq(rng, cur, allow_max) }; }
            5 => { issuer.push('x'); }
            6 => { cap = match cap { None => Some(0), Some(0) => None, Some(c) => Some(c.wrapping_add(1)) }; }
            7 => { exp = exp.wrapping_add(1); }
            8 => { memid = gen_mem(rng); } // ticket for another memory, signature not re-made
            9 => { // a correctly signed ticket for another memory
                memid = gen_mem(rng);
                sig = key1().sign(&canonical_payload(&memid, &issuer, seq, exp, cap)).to_bytes().to_vec();
            }
            10 => { key = "other"; }            // implementation trusts a different key
            11 => { key = *rng.pick(&["bad-base64", "bad-length"]); }
            12 => { key = "embedded"; }         // production key: test signatures must fail
            13 => { sig = vec![0u8; 64]; }
            _ => { let i = rng.usize(0, 15); memid[i] ^= 1 << rng.below(8); }
        }
    } else {
        tags.push("signed-untampered".into());
    }
    op_signed(seq, exp, cap, &issuer, &memid, &sig, key)
}

fn gen_history(rng: &mut Rng, thorough: bool) -> Vec<Value> {
    // the generator tracks what the ticket state should be only to aim sequence numbers; the oracle
    // never uses this bookkeeping
    let n = rng.usize(4, if thorough { 60 } else { 36 });
    let mut ops = vec![];
    let mut cur: i64 = 1;
    let mut bound: Option<[u8; 16]> = None;
    let mut unpersisted_bind = false;
    let mut tags = vec![];
    if rng.chance(2, 3) {
        let m = gen_mem(rng);
        ops.push(op_bind(&m));
        bound = Some(m);
        unpersisted_bind = true;
    }
    for k in 0..n {
        let allow_max = k + 4 >= n || rng.chance(1, 40);
        let c = rng.below(100);
        let op = if c < 30 {
            op_apply(gen_seq(rng, cur, allow_max), gen_exp(rng), gen_cap(rng), &gen_issuer(rng))
        } else if c < 72 {
            gen_signed(rng, cur, bound, allow_max, &mut tags)
        } else if c < 77 {
            let m = if bound.is_some() && rng.chance(2, 3) { bound.unwrap() } else { gen_mem(rng) };
            op_bindt(&m, gen_seq(rng, cur, allow_max), gen_exp(rng), gen_cap(rng), &gen_issuer(rng))
        } else if c < 82 {
            let m = if bound.is_some() && rng.bool() { bound.unwrap() } else { gen_mem(rng) };
            op_bind(&m)
        } else if c < 86 {
            op_simple("dirtyput")
        } else if c < 89 {
            // `bind` / `bindt` store the binding in the handle only (bind_memory persists its TICKET at once, the binding with the next commit), so
            // a crash legitimately loses it — the ticket model has no notion of that: no crash while one is pending
            if unpersisted_bind { op_simple("reopen") } else { op_simple("crash") }
        } else if c < 94 {
            op_simple("reopen")
        } else if c < 99 || !thorough || !rng.chance(1, 8) {
            op_simple("commit")
        } else {
            op_simple("put") // put_bytes + commit rebuilds the indexes: seconds per call, thorough tier only
        };
        match op["op"].as_str().unwrap() { "bind" | "bindt" => unpersisted_bind = true, "commit" | "put" | "reopen" => unpersisted_bind = false, _ => {} }
        // bookkeeping for aiming only
        match op["op"].as_str().unwrap() {
            "apply" => { let s = op["seq"].as_i64().unwrap(); if s > cur { cur = s; } }
            "signed" => {
                let s = op["seq"].as_i64().unwrap();
                if s > cur && bound == Some(mem_of(&op)) && op["key"] != "bad-base64" && op["key"] != "bad-length" && sig_verifies(&op).0
                    && unhexw(op["sig"].as_str().unwrap()).unwrap().len() == 64 { cur = s; }
            }
            "bindt" => {
                let m = mem_of(&op);
                if bound.is_none() || bound == Some(m) {
                    let s = op["seq"].as_i64().unwrap();
                    if s > cur { cur = s; bound = Some(m); }
                }
            }
            "bind" => { let m = mem_of(&op); if bound.is_none() { bound = Some(m); } }
            _ => {}
        }
        ops.push(op);
        // replays right after a reopen are the interesting ones
        if (ops.last().unwrap()["op"] == "reopen" || ops.last().unwrap()["op"] == "crash") && rng.chance(1, 2) {
            ops.push(op_apply(cur.saturating_sub(rng.i64(0, 1)), 0, None, "replay"));
        }
    }
    ops
}

/// hand-written histories that run first
fn corpus() -> Vec<Vec<Value>> {
    let mem: [u8; 16] = hex::decode("123e4567e89b12d3a456426614174000").unwrap().try_into().unwrap();
    let other: [u8; 16] = [0xAB; 16];
    let sign = |k: &SigningKey, m: &[u8; 16], iss: &str, seq: i64, exp: u64, cap: Option<u64>| k.sign(&canonical_payload(m, iss, seq, exp, cap)).to_bytes().to_vec();
    let mut v = vec![];
    // the repository's own test vector: a production-signed ticket verifies under the embedded key
    let dash: [u8; 16] = hex::decode("69601cefbea57ba3fec39b5c00000000").unwrap().try_into().unwrap();
    let dash_sig = b64dec("OUVSB4rKCSPDlP+rrZN1AlkI6k2zDdNaZb5HKPZDTjqhnCHBYKXg4lyEE4aevDN7rLpdFjINiCCaBEBaH35vDw==");
    v.push(vec![
        op_signed(9, 86400, Some(10737418240), "memvid-dashboard", &dash, &dash_sig, "embedded"), // unbound
        op_bind(&dash),
        op_signed(9, 86400, Some(10737418240), "memvid-dashboard", &dash, &dash_sig, "good"),     // wrong key
        op_signed(9, 86400, Some(10737418241), "memvid-dashboard", &dash, &dash_sig, "embedded"), // payload tampered
        op_signed(9, 86400, Some(10737418240), "memvid-dashboard", &dash, &dash_sig, "embedded"), // accepted
        op_simple("reopen"),
        op_signed(9, 86400, Some(10737418240), "memvid-dashboard", &dash, &dash_sig, "embedded"), // replay
        op_apply(9, 0, None, "x"),
        op_apply(10, 0, None, "x"),
    ]);
    // a ticket accepted while a put is pending (dirty handle), then a crash: the ticket must survive, its replay be refused
    v.push(vec![
        op_apply(2, 60, Some(1 << 30), "a"), op_simple("dirtyput"), op_apply(7, 60, Some(1 << 30), "a"), op_simple("crash"),
        op_apply(7, 0, None, "replay"), op_apply(8, 0, None, "a"), op_simple("dirtyput"), op_simple("crash"), op_apply(8, 0, None, "replay"),
    ]);
    // unsigned: fresh memory starts at 1; equal / lower / higher; reopen; replay
    v.push(vec![
        op_apply(1, 0, None, "a"), op_apply(0, 0, None, "a"), op_apply(-1, 0, None, "a"), op_apply(i64::MIN, 0, None, "a"),
        op_apply(2, 60, Some(4096), "a"), op_apply(2, 60, Some(4096), "a"), op_simple("reopen"), op_apply(2, 0, None, "a"),
        op_apply(1, 0, None, "a"), op_apply(3, 0, Some(0), ""), op_simple("commit"), op_simple("reopen"), op_apply(3, 0, None, "b"),
        op_apply(1000, u64::MAX, Some(u64::MAX), "big"), op_simple("put"), op_simple("reopen"), op_apply(999, 0, None, "b"),
    ]);
    // signed happy path + every single-field tamper + binding persistence
    let s2 = sign(&key1(), &mem, "memvid.com", 2, 86400, Some(1 << 30));
    let s3 = sign(&key1(), &mem, "memvid.com", 3, 86400, None);
    let mut flip = s3.clone(); flip[17] ^= 0x40;
    v.push(vec![
        op_signed(2, 86400, Some(1 << 30), "memvid.com", &mem, &s2, "good"),   // unbound
        op_bind(&mem),
        op_bind(&other),                                                       // already bound
        op_signed(2, 86400, Some(1 << 30), "memvid.com", &other, &s2, "good"), // other memory
        op_signed(2, 86400, Some(1 << 30), "memvid.com", &mem, &s2[..63], "good"),
        op_signed(2, 86401, Some(1 << 30), "memvid.com", &mem, &s2, "good"),
        op_signed(2, 86400, Some(1 << 30), "memvid.co", &mem, &s2, "good"),
        op_signed(2, 86400, None, "memvid.com", &mem, &s2, "good"),
        op_signed(3, 86400, Some(1 << 30), "memvid.com", &mem, &s2, "good"),
        op_signed(2, 86400, Some(1 << 30), "memvid.com", &mem, &s2, "bad-base64"),
        op_signed(2, 86400, Some(1 << 30), "memvid.com", &mem, &s2, "bad-length"),
        op_signed(2, 86400, Some(1 << 30), "memvid.com", &mem, &s2, "other"),
        op_signed(2, 86400, Some(1 << 30), "memvid.com", &mem, &s2, "good"),   // accepted
        op_signed(2, 86400, Some(1 << 30), "memvid.com", &mem, &s2, "good"),   // replay
        op_simple("reopen"),
        op_signed(2, 86400, Some(1 << 30), "memvid.com", &mem, &s2, "good"),   // replay after reopen
        op_signed(3, 86400, None, "memvid.com", &mem, &flip, "good"),
        op_signed(3, 86400, None, "memvid.com", &mem, &s3, "good"),            // accepted, capacity None
        op_apply(3, 0, None, "unsigned-replay"),
        op_apply(4, 0, None, "unsigned-after-signed"),
        op_simple("reopen"),
        op_signed(4, 86400, None, "memvid.com", &mem, &sign(&key1(), &mem, "memvid.com", 4, 86400, None), "good"),
    ]);
    // bind_memory path, binding not yet persisted when the signed ticket arrives
    v.push(vec![
        op_bindt(&mem, 1, 0, None, "temp"), op_bindt(&mem, 5, 0, Some(123456), "temp"), op_bindt(&other, 6, 0, None, "temp"),
        op_bindt(&mem, 5, 0, None, "temp"),
        op_signed(6, 1, Some(2), "i", &mem, &sign(&key1(), &mem, "i", 6, 1, Some(2)), "good"),
        op_simple("reopen"),
        op_signed(7, 1, Some(2), "i", &mem, &sign(&key1(), &mem, "i", 7, 1, Some(2)), "good"),
        op_signed(7, 1, Some(2), "i", &mem, &sign(&key1(), &mem, "i", 7, 1, Some(2)), "good"),
    ]);
    // the top of the i64 range: every later ticket must be *rejected with an error*
    v.push(vec![
        op_apply(i64::MAX - 1, 0, None, "top"), op_apply(i64::MAX - 1, 0, None, "top"),
        op_apply(i64::MAX, 0, None, "top"),
        op_apply(i64::MAX, 0, None, "top"),
        op_apply(0, 0, None, "top"),
        op_simple("reopen"),
        op_apply(i64::MIN, 0, None, "top"),
        op_bind(&mem),
        op_signed(i64::MAX, 0, None, "top", &mem, &sign(&key1(), &mem, "top", i64::MAX, 0, None), "good"),
        op_bindt(&mem, 5, 0, None, "top"),
    ]);
    v
}

// ------------------------------------------------------------------------------------------
fn record(h: &[Value], out: &Outcome, sum: &mut Summary, drv: &mut Option<Driver>) {
    for b in &out.branches { sum.branch(b); }
    let nontrivial = out.accepted > 0 && out.rejected > 0;
    sum.case(&out.canon, nontrivial, || json!({"ops": h.len(), "accepted": out.accepted, "rejected": out.rejected,
        "last": out.trace.last().cloned().unwrap_or_default()}));
    if !out.violations.is_empty() {
        // shrink to a minimal history showing the first violation class
        let sig0 = out.violations[0].0.clone();
        let mut fails = |cand: &[Value]| {
            let mut none = None;
            run_history(cand, &mut none).violations.iter().any(|v| v.0 == sig0)
        };
        let small = shrink_list(h, &mut fails);
        let o2 = run_history(&small, drv);
        let (sg, what) = o2.violations.iter().find(|v| v.0 == sig0).cloned().unwrap_or(out.violations[0].clone());
        sum.oracle_violation(&sg, &what, json!({"ops": small}));
        for v in out.violations.iter().filter(|v| v.0 != sig0) {
            sum.oracle_violation(&v.0, &v.1, json!({"ops": h}));
        }
    }
    if let Some(d) = out.disagreements.first() {
        sum.disagreement(&d.0, json!({"ops": h}), &d.1, &d.2);
    }
}

fn main() {
    let args = parse_args();
    let mut drv: Option<Driver> = if args.driver.as_os_str() == "none" { None } else { Some(Driver::spawn(&args.driver).expect("spawn driver")) };
    let mut sum = Summary::new("C25", &args,
        "histories of 4-36 (thorough 60) operations on a fresh .mv2 file: apply_ticket / apply_signed_ticket / bind_memory / \
         set_memory_binding_only / commit / put+commit / drop+open; sequence numbers around the current one, 0, -1, i64::MIN/MAX, \
         random; capacities None/0/1/free/u64::MAX/random; issuers incl. quotes, control and non-ASCII characters; signed tickets \
         made with a test key and tampered in one of 15 ways (signature bit/length, each payload field, memory id, other signer, \
         other/unparseable/embedded verifying key); non-trivial = at least one ticket accepted and one rejected; distinct = \
         operations + observations");
    sum.expect_branches(&["accepted-apply", "accepted-signed", "accepted-bindt", "rejected-err-seq", "rejected-err-sig-unbound",
        "rejected-err-sig-memid", "rejected-err-sig-siglen", "rejected-err-sig-mismatch", "rejected-err-sig-badkey",
        "rejected-err-bound", "reopen", "crash"]);
    if args.mode == "replay" {
        let case = load_replay(args.replay_file.as_ref().expect("replay file"));
        let input = case.get("input").unwrap_or(&case);
        let ops: Vec<Value> = input["ops"].as_array().expect("ops").clone();
        let out = run_history(&ops, &mut drv);
        for l in &out.trace { println!("{l}"); }
        for v in &out.violations { println!("ORACLE {}: {}", v.0, v.1); }
        for d in &out.disagreements { println!("DISAGREE {}: model [{}] impl [{}]", d.0, d.1, d.2); }
        for b in &out.branches { sum.branch(b); }
        sum.case(&out.canon, true, || json!({"ops": ops.len()}));
        for v in &out.violations { sum.oracle_violation(&v.0, &v.1, json!({"ops": ops})); }
        if let Some(d) = out.disagreements.first() { sum.disagreement(&d.0, json!({"ops": ops}), &d.1, &d.2); }
        sum.finish(&args);
    }
    for h in corpus() {
        let out = run_history(&h, &mut drv);
        record(&h, &out, &mut sum, &mut drv);
    }
    let mut rng = Rng::new(args.seed);
    let n = if args.thorough { 1500 } else { 160 };
    for _ in 0..n {
        let h = gen_history(&mut rng, args.thorough);
        let out = run_history(&h, &mut drv);
        record(&h, &out, &mut sum, &mut drv);
        if sum.oracle_violations.len() >= 20 { break; }
    }
    sum.model_requests = drv.as_ref().map(|d| d.requests).unwrap_or(0);
    sum.finish(&args);
}
