/-
  Model of `/repo/src/encryption/{types,capsule,capsule_stream}.rs` (feature `encryption`):
  the 64-byte `.mv2e` header codec, `lock_file` (= `lock_file_stream`), `unlock_file` with its
  format switch on `reserved[0]`, the one-shot reader, the streaming reader loop over
  `[len u32 LE][ciphertext]` frames with nonce = base[..4] ‖ big-endian chunk counter, and
  `write_atomic`.

  Black boxes are parameters: the AEAD (`Aead.enc/dec key nonce data`, AES-256-GCM in the
  implementation) and the key derivation (`kdf password salt`, Argon2id).  Every constant and
  header offset comes from `MvModel/Gen/C29.lean`, regenerated from the source on every run.

  The streaming reader exists in two variants selected by `fx : Bool`:
    `fx = false`  the loop as it is at /repo HEAD: EOF at a length prefix — also a partial
                  one — ends the stream with `Ok`, `original_size` is never looked at;
    `fx = true`   the loop with /verif/fixes/C29.diff applied: a partial length prefix is an I/O
                  error and the number of plaintext bytes written must equal `original_size`.
-/
import MvModel.Bytes
import MvModel.Gen.C29
namespace Mv.Capsule
open Mv.Gen.C29

/-! ### constants (generated) and the layout facts the model relies on -/

def HEADER_SIZE : Nat := MV2E_HEADER_SIZE
/-- bytes of the base nonce that are kept; the rest is overwritten by the chunk counter -/
def NONCE_KEEP : Nat := NONCE_SIZE - COUNTER_BYTES

theorem HEADER_SIZE_eq : HEADER_SIZE = 64 := by decide
theorem NONCE_KEEP_eq : NONCE_KEEP = 4 := by decide
theorem NONCE_SIZE_eq : NONCE_SIZE = 12 := by decide
theorem COUNTER_BYTES_eq : COUNTER_BYTES = 8 := by decide
theorem SALT_SIZE_eq : SALT_SIZE = 32 := by decide
theorem TAG_SIZE_eq : TAG_SIZE = 16 := by decide
theorem CHUNK_SIZE_eq : CHUNK_SIZE = 1048576 := by decide
theorem STREAM_FLAG_eq : STREAM_FLAG = 1 := by decide
theorem LOCK_RESERVED_eq : LOCK_RESERVED = [1, 0, 0, 0] := by decide
theorem MV2E_MAGIC_eq : MV2E_MAGIC = [0x4D, 0x56, 0x32, 0x45] := by decide
theorem MV2_MAGIC_eq : MV2_MAGIC = [0x4D, 0x56, 0x32, 0x00] := by decide

/-- `Mv2eHeader::encode` lays the fields out back to back in this order with no gaps, so the
    model may write the header as a concatenation; fails to elaborate when the source moves
    a field. -/
theorem layout_ok :
    OFF_MAGIC = 0 ∧ END_MAGIC = OFF_VERSION ∧ MV2E_MAGIC.length = END_MAGIC - OFF_MAGIC ∧
    END_VERSION = OFF_KDF_ALGORITHM ∧ END_VERSION - OFF_VERSION = 2 ∧
    END_KDF_ALGORITHM = OFF_CIPHER_ALGORITHM ∧ END_KDF_ALGORITHM - OFF_KDF_ALGORITHM = 1 ∧
    END_CIPHER_ALGORITHM = OFF_SALT ∧ END_CIPHER_ALGORITHM - OFF_CIPHER_ALGORITHM = 1 ∧
    END_SALT = OFF_NONCE ∧ END_SALT - OFF_SALT = SALT_SIZE ∧
    END_NONCE = OFF_ORIGINAL_SIZE ∧ END_NONCE - OFF_NONCE = NONCE_SIZE ∧
    END_ORIGINAL_SIZE = OFF_RESERVED ∧ END_ORIGINAL_SIZE - OFF_ORIGINAL_SIZE = 8 ∧
    END_RESERVED = MV2E_HEADER_SIZE ∧ END_RESERVED - OFF_RESERVED = 4 ∧
    LOCK_RESERVED.length = 4 ∧ LOCK_RESERVED.head? = some STREAM_FLAG ∧
    COUNTER_BYTES ≤ NONCE_SIZE ∧ MV2_MAGIC.length = 4 ∧
    MV2E_VERSION < 65536 ∧ KDF_ARGON2ID < 256 ∧ CIPHER_AES_256_GCM < 256 ∧
    CHUNK_SIZE + TAG_SIZE < 4294967296 ∧ 0 < CHUNK_SIZE := by decide

/-! ### black boxes -/

/-- authenticated encryption: `enc key nonce plaintext`, `dec key nonce ciphertext` -/
structure Aead where
  enc : Bytes → Bytes → Bytes → Bytes
  dec : Bytes → Bytes → Bytes → Option Bytes

/-- key derivation `kdf password salt` -/
abbrev Kdf := Bytes → Bytes → Bytes

/-- `EncryptionError`, reduced to its kind -/
inductive Err where
  | io | invalidMagic | unsupportedVersion | unsupportedKdf | unsupportedCipher
  | decryption | sizeMismatch | notMv2 | corrupted
deriving DecidableEq, Repr

def Err.name : Err → String
  | .io => "io" | .invalidMagic => "invalid-magic" | .unsupportedVersion => "unsupported-version"
  | .unsupportedKdf => "unsupported-kdf" | .unsupportedCipher => "unsupported-cipher"
  | .decryption => "decryption" | .sizeMismatch => "size-mismatch" | .notMv2 => "not-mv2"
  | .corrupted => "corrupted-decryption"

/-! ### header -/

/-- the variable fields of `Mv2eHeader` (magic, version, kdf and cipher ids admit one value
    each: `decode` rejects every other) -/
structure Header where
  salt : Bytes
  nonce : Bytes
  originalSize : Nat
  reserved : Bytes
deriving DecidableEq, Repr

/-- `Mv2eHeader::encode` -/
def encodeHeader (h : Header) : Bytes :=
  MV2E_MAGIC ++ u16le MV2E_VERSION ++ [UInt8.ofNat KDF_ARGON2ID] ++ [UInt8.ofNat CIPHER_AES_256_GCM]
    ++ h.salt ++ h.nonce ++ u64le h.originalSize ++ h.reserved

/-- `Mv2eHeader::decode` on the 64 header bytes -/
def decodeHeader (b : Bytes) : Except Err Header :=
  if slice b OFF_MAGIC 4 ≠ MV2E_MAGIC then .error .invalidMagic
  else if leVal (slice b OFF_VERSION 2) ≠ MV2E_VERSION then .error .unsupportedVersion
  else if leVal (slice b OFF_KDF_ALGORITHM 1) ≠ KDF_ARGON2ID then .error .unsupportedKdf
  else if leVal (slice b OFF_CIPHER_ALGORITHM 1) ≠ CIPHER_AES_256_GCM then .error .unsupportedCipher
  else .ok { salt := slice b OFF_SALT SALT_SIZE, nonce := slice b OFF_NONCE NONCE_SIZE,
             originalSize := leVal (slice b OFF_ORIGINAL_SIZE 8), reserved := slice b OFF_RESERVED 4 }

/-! ### nonces and frames -/

/-- `n` big-endian bytes of `v` (`u64::to_be_bytes` for n = 8) -/
def beBytes (n v : Nat) : Bytes := (leBytes n v).reverse

/-- `nonce = base; nonce[NONCE_SIZE-8..] = chunk_index.to_be_bytes()` -/
def nonceFor (base : Bytes) (i : Nat) : Bytes := base.take NONCE_KEEP ++ beBytes COUNTER_BYTES i

/-- one frame: `[ciphertext.len() as u32 LE][ciphertext]` -/
def frame (ct : Bytes) : Bytes := u32le ct.length ++ ct

/-- the frames `lock` writes for the plaintext chunks `ps`, the first with counter `i` -/
def frames (A : Aead) (key base : Bytes) : Nat → List Bytes → Bytes
  | _, [] => []
  | i, p :: ps => frame (A.enc key (nonceFor base i) p) ++ frames A key base (i + 1) ps

/-- the `loop { n = reader.read(&mut buffer[..CHUNK_SIZE]); if n == 0 { break } … }` split of the
    input: pieces of `cs` bytes, the last one shorter, none empty (`fuel` = input length) -/
def chunksOf (cs : Nat) : Nat → Bytes → List Bytes
  | 0, _ => []
  | fuel + 1, b => if b.isEmpty then [] else b.take cs :: chunksOf cs fuel (b.drop cs)

def chunks (cs : Nat) (f : Bytes) : List Bytes := chunksOf cs f.length f

/-! ### lock -/

/-- `validate_mv2_bytes` / the magic test of `validate_mv2_file` -/
def validMv2 (f : Bytes) : Bool := decide (4 ≤ f.length) && (f.take 4 == MV2_MAGIC)

/-- `lock_file` = `lock_file_stream` on a plain file with content `f`; `salt` and `base` are the
    `OsRng` outputs; `cs` is the chunk size (`CHUNK_SIZE` in the implementation) -/
def lockWith (A : Aead) (kdf : Kdf) (cs : Nat) (pw salt base f : Bytes) : Except Err Bytes :=
  if f.length < 4 then .error .io                       -- validate_mv2_file: read_exact(4) fails
  else if f.take 4 ≠ MV2_MAGIC then .error .notMv2
  else
    let key := kdf pw salt
    let h : Header := { salt := salt, nonce := base, originalSize := f.length, reserved := LOCK_RESERVED }
    .ok (encodeHeader h ++ frames A key base 0 (chunks cs f))

def lock (A : Aead) (kdf : Kdf) (pw salt base f : Bytes) : Except Err Bytes :=
  lockWith A kdf CHUNK_SIZE pw salt base f

/-! ### unlock -/

/-- the loop of `unlock_file_stream` over the bytes after the header.  `rest` = unread input,
    `i` = `chunk_index`, `acc` = plaintext written so far, `osize` = `header.original_size`.
    Each iteration consumes at least 4 bytes, so `fuel = rest.length + 1` never runs out. -/
def readLoop (fx : Bool) (A : Aead) (key base : Bytes) (osize : Nat) :
    Nat → Bytes → Nat → Bytes → Except Err Bytes
  | 0, _, _, _ => .error .io
  | fuel + 1, rest, i, acc =>
    if rest.length < 4 then
      -- `read_exact(&mut len_bytes)` hits EOF
      if fx then
        if rest.length ≠ 0 then .error .io
        else if acc.length ≠ osize then .error .sizeMismatch
        else .ok acc
      else .ok acc
    else
      let len := leVal (rest.take 4)
      let r1 := rest.drop 4
      if r1.length < len then .error .io                -- `read_exact(&mut ciphertext)` fails
      else
        match A.dec key (nonceFor base i) (r1.take len) with
        | none => .error .decryption
        | some p => readLoop fx A key base osize fuel (r1.drop len) (i + 1) (acc ++ p)

/-- `unlock_file_stream` on capsule bytes `c`; result = the plaintext handed to `write_atomic` -/
def unlockStream (fx : Bool) (A : Aead) (kdf : Kdf) (pw c : Bytes) : Except Err Bytes :=
  if c.length < HEADER_SIZE then .error .io
  else
    match decodeHeader (c.take HEADER_SIZE) with
    | .error e => .error e
    | .ok h =>
      let key := kdf pw h.salt
      let rest := c.drop HEADER_SIZE
      readLoop fx A key h.nonce h.originalSize (rest.length + 1) rest 0 []

/-- `unlock_file_oneshot` -/
def unlockOneshot (A : Aead) (kdf : Kdf) (pw c : Bytes) (h : Header) : Except Err Bytes :=
  let body := c.drop HEADER_SIZE
  let key := kdf pw h.salt
  match A.dec key h.nonce body with
  | none => .error .decryption
  | some p =>
    if p.length ≠ h.originalSize then .error .sizeMismatch
    else if ¬ validMv2 p then .error .corrupted
    else .ok p

/-- `unlock_file`: header, then the format switch on `reserved[0]` -/
def unlock (fx : Bool) (A : Aead) (kdf : Kdf) (pw c : Bytes) : Except Err Bytes :=
  if c.length < HEADER_SIZE then .error .io
  else
    match decodeHeader (c.take HEADER_SIZE) with
    | .error e => .error e
    | .ok h =>
      if h.reserved.head? = some STREAM_FLAG then unlockStream fx A kdf pw c
      else unlockOneshot A kdf pw c h

/-! ### write_atomic -/

/-- `write_atomic`: the destination holds the new content only when the writer closure (which
    produced `r`) succeeded; on error the temporary file is dropped and the destination keeps
    what it had (`none` = did not exist). -/
def writeAtomic (old : Option Bytes) (r : Except Err Bytes) : Option Bytes :=
  match r with
  | .ok b => some b
  | .error _ => old

/-- `unlock_file` as a file-system step: result and the content of the output path afterwards -/
def unlockFile (fx : Bool) (A : Aead) (kdf : Kdf) (pw c : Bytes) (old : Option Bytes) :
    Except Err Unit × Option Bytes :=
  let r := unlock fx A kdf pw c
  (r.map (fun _ => ()), writeAtomic old r)

end Mv.Capsule
