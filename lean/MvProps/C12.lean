/-
  C12 — ACL enforcement never leaks a denied frame.

  Statement (properties.jsonl): with mode Enforce no hit, context fragment or citation returned by
  search, vector search, adaptive search or ask refers to a frame whose ACL metadata denies the
  caller (other tenant, restricted without matching principal/role/group, missing/invalid
  metadata); Enforce without a tenant is an error; Audit returns the same hits as no ACL context.

  Proved here for the model `MvModel/Acl.lean` (decision function, hit filter, and the position of
  the filter in the four entry points), for every metadata map, caller context, TOC, incoming hit
  list, `build_context` function `B`, answer synthesiser `S` and adaptive cut-off `cut`.
-/
import MvModel.Acl
namespace Mv.Acl

/-! ### Fuel of the two parser loops is sufficient -/

theorem hex4_len {s : Str} {n : Nat} {r : Str} (h : hex4 s = some (n, r)) : r.length + 4 = s.length := by
  unfold hex4 at h
  split at h
  · split at h
    · simp only [Option.some.injEq, Prod.mk.injEq] at h
      obtain ⟨_, rfl⟩ := h
      simp
    · exact absurd h (by simp)
  · exact absurd h (by simp)

theorem parseUnicodeEscape_len {s : Str} {c : Char} {r : Str} (h : parseUnicodeEscape s = some (c, r)) :
    r.length < s.length := by
  unfold parseUnicodeEscape at h
  split at h
  · exact absurd h (by simp)
  · rename_i n rest hh
    have h4 := hex4_len hh
    split at h
    · exact absurd h (by simp)
    · split at h
      · simp only [Option.some.injEq, Prod.mk.injEq] at h
        obtain ⟨_, rfl⟩ := h
        omega
      · split at h
        · rename_i c1 c2 rest2
          split at h
          · split at h
            · exact absurd h (by simp)
            · rename_i n2 rest3 hh2
              have h42 := hex4_len hh2
              split at h
              · exact absurd h (by simp)
              · simp only [Option.some.injEq, Prod.mk.injEq] at h
                obtain ⟨_, rfl⟩ := h
                simp only [List.length_cons] at h4
                omega
          · exact absurd h (by simp)
        · exact absurd h (by simp)

theorem parseEscape_len {s : Str} {c : Char} {r : Str} (h : parseEscape s = some (c, r)) :
    r.length < s.length := by
  unfold parseEscape at h
  split at h
  · exact absurd h (by simp)
  · rename_i c0 rest
    repeat' split at h
    all_goals first
      | (simp only [Option.some.injEq, Prod.mk.injEq] at h
         obtain ⟨_, rfl⟩ := h
         simp)
      | (have := parseUnicodeEscape_len h
         simp only [List.length_cons]
         omega)
      | exact absurd h (by simp)

/-- one more unit of fuel changes nothing once the fuel exceeds the input length -/
theorem parseStrBody_fuel_succ : ∀ (fuel : Nat) (s acc : Str), s.length < fuel →
    parseStrBody fuel s acc = parseStrBody (fuel + 1) s acc := by
  intro fuel
  induction fuel with
  | zero => intro s acc h; omega
  | succ f ih =>
    intro s acc h
    cases s with
    | nil => simp [parseStrBody]
    | cons c rest =>
      simp only [List.length_cons] at h
      rw [parseStrBody, parseStrBody]
      split
      · rfl
      · split
        · cases he : parseEscape rest with
          | none => rfl
          | some p =>
            obtain ⟨ch, rest'⟩ := p
            have := parseEscape_len he
            exact ih rest' (ch :: acc) (by omega)
        · split
          · rfl
          · exact ih rest (c :: acc) (by omega)

/-- the fuel `s.length + 1` used by `parseStringAt` is sufficient: any larger fuel gives the same result -/
theorem parseStrBody_fuel (s acc : Str) (k : Nat) :
    parseStrBody (s.length + 1 + k) s acc = parseStrBody (s.length + 1) s acc := by
  induction k with
  | zero => rfl
  | succ k ih =>
    rw [← ih]
    exact (parseStrBody_fuel_succ (s.length + 1 + k) s acc (by omega)).symm

theorem parseStrBody_len : ∀ (fuel : Nat) (s acc v tail : Str),
    parseStrBody fuel s acc = some (v, tail) → tail.length < s.length := by
  intro fuel
  induction fuel with
  | zero => intro s acc v tail h; simp [parseStrBody] at h
  | succ f ih =>
    intro s acc v tail h
    cases s with
    | nil => simp [parseStrBody] at h
    | cons c rest =>
      rw [parseStrBody] at h
      simp only [List.length_cons]
      split at h
      · simp only [Option.some.injEq, Prod.mk.injEq] at h
        obtain ⟨_, rfl⟩ := h
        omega
      · split at h
        · cases he : parseEscape rest with
          | none => rw [he] at h; exact absurd h (by simp)
          | some p =>
            obtain ⟨ch, rest'⟩ := p
            rw [he] at h
            have h1 := parseEscape_len he
            have h2 := ih rest' (ch :: acc) v tail h
            omega
        · split at h
          · exact absurd h (by simp)
          · have := ih rest (c :: acc) v tail h
            omega

theorem skipWs_len (s : Str) : (skipWs s).length ≤ s.length := by
  unfold skipWs
  induction s with
  | nil => simp
  | cons c t ih =>
    simp only [List.dropWhile_cons]
    split
    · simp only [List.length_cons]; omega
    · simp

theorem parseStringAt_len {s v tail : Str} (h : parseStringAt s = some (v, tail)) : tail.length < s.length := by
  unfold parseStringAt at h
  have hl := skipWs_len s
  split at h
  · rename_i c rest hs
    rw [hs] at hl
    simp only [List.length_cons] at hl
    split at h
    · have := parseStrBody_len _ _ _ _ _ h
      omega
    · exact absurd h (by simp)
  · exact absurd h (by simp)

/-- the array loop: fuel beyond the input length changes nothing -/
theorem parseArrayRest_fuel_succ : ∀ (fuel : Nat) (s : Str) (acc : List Str), s.length < fuel →
    parseArrayRest fuel s acc = parseArrayRest (fuel + 1) s acc := by
  intro fuel
  induction fuel with
  | zero => intro s acc h; omega
  | succ f ih =>
    intro s acc h
    rw [parseArrayRest, parseArrayRest]
    have hl := skipWs_len s
    split
    · rfl
    · rename_i c rest hs
      rw [hs] at hl
      simp only [List.length_cons] at hl
      split
      · rfl
      · split
        · have hl2 := skipWs_len rest
          split
          · rfl
          · rename_i d rest2 hs2
            rw [hs2] at hl2
            split
            · rfl
            · cases hp : parseStringAt (d :: rest2) with
              | none => rfl
              | some p =>
                obtain ⟨v, tail⟩ := p
                have := parseStringAt_len hp
                exact ih tail (v :: acc) (by omega)
        · rfl

/-! ### Decision lemmas -/

/-- the caller matches one of the frame's allow-lists -/
def Grants (p : ParsedAcl) (n : NCtx) : Prop :=
  (∃ s, n.subject = some s ∧ s ∈ p.principals) ∨ (∃ r, r ∈ n.roles ∧ r ∈ p.roles) ∨
  (∃ g, g ∈ n.groups ∧ g ∈ p.groups)

theorem accessGranted_iff (p : ParsedAcl) (n : NCtx) : accessGranted p n = true ↔ Grants p n := by
  unfold accessGranted Grants
  cases hs : n.subject with
  | none => simp [List.any_eq_true]
  | some s => simp [List.any_eq_true, or_assoc]

/-- missing or invalid metadata → deny (whatever the caller) -/
theorem C12_invalid_metadata_denied (m : Meta) (n : NCtx) (h : parseAclMetadata m = none) :
    evaluate m (some n) = .denyMissing := by
  simp [evaluate, h]

/-- other tenant → deny, also for public frames and for callers on every allow-list -/
theorem C12_other_tenant_denied (m : Meta) (n : NCtx) (p : ParsedAcl) (hp : parseAclMetadata m = some p)
    (ht : p.tenant ≠ n.tenant) : evaluate m (some n) = .denyCrossTenant := by
  simp [evaluate, hp, ht]

/-- restricted and no matching principal / role / group → deny -/
theorem C12_restricted_without_match_denied (m : Meta) (n : NCtx) (p : ParsedAcl)
    (hp : parseAclMetadata m = some p) (ht : p.tenant = n.tenant) (hv : p.visibility = .restricted)
    (hno : ¬ Grants p n) : evaluate m (some n) = .denyRestricted := by
  have hg : accessGranted p n = false := by
    cases h : accessGranted p n with
    | false => rfl
    | true => exact absurd ((accessGranted_iff p n).mp h) hno
  simp [evaluate, hp, ht, hv, hg]

/-- exactly when a frame is visible to a caller that has a tenant -/
theorem C12_allow_iff (m : Meta) (n : NCtx) :
    evaluate m (some n) = .allow ↔
      ∃ p, parseAclMetadata m = some p ∧ p.tenant = n.tenant ∧ (p.visibility = .pub ∨ Grants p n) := by
  unfold evaluate
  cases hp : parseAclMetadata m with
  | none => simp
  | some p =>
    simp only [Option.some.injEq, exists_eq_left']
    by_cases ht : p.tenant = n.tenant
    · by_cases hv : p.visibility = .pub
      · simp [ht, hv]
      · by_cases hg : accessGranted p n = true
        · simp [ht, hv, hg, (accessGranted_iff p n).mp hg]
        · have : ¬ Grants p n := fun h => hg ((accessGranted_iff p n).mpr h)
          simp [ht, hv, hg, this]
    · simp [ht]

/-- what makes metadata invalid: no tenant key -/
theorem C12_missing_tenant_invalid (m : Meta) (h : m.get TENANT_KEY = none) : parseAclMetadata m = none := by
  simp [parseAclMetadata, h, normalizeScalar]

/-- … no visibility key -/
theorem C12_missing_visibility_invalid (m : Meta) (h : m.get VISIBILITY_KEY = none) :
    parseAclMetadata m = none := by
  unfold parseAclMetadata
  cases normalizeScalar (m.get TENANT_KEY) with
  | none => rfl
  | some t => simp [h, normalizeScalar]

/-- … a visibility that is neither of the two keywords -/
theorem C12_unknown_visibility_invalid (m : Meta) (v : Str) (h : normalizeScalar (m.get VISIBILITY_KEY) = some v)
    (h1 : v ≠ Mv.Gen.C12.VIS_PUBLIC) (h2 : v ≠ Mv.Gen.C12.VIS_RESTRICTED) : parseAclMetadata m = none := by
  unfold parseAclMetadata
  cases normalizeScalar (m.get TENANT_KEY) with
  | none => rfl
  | some t => simp [h, h1, h2]

/-- … an allow-list that is present but is not a JSON array of strings -/
theorem C12_malformed_list_invalid (m : Meta) (key raw : Str)
    (hk : key = ROLES_KEY ∨ key = GROUPS_KEY ∨ key = PRINCIPALS_KEY) (hget : m.get key = some raw)
    (hbad : parseJsonStringArray raw = none) : parseAclMetadata m = none := by
  have hl : parseAclList m key = none := by simp [parseAclList, hget, hbad]
  unfold parseAclMetadata
  cases normalizeScalar (m.get TENANT_KEY) with
  | none => rfl
  | some t =>
    cases normalizeScalar (m.get VISIBILITY_KEY) with
    | none => rfl
    | some v =>
      simp only
      split
      · rfl
      · rcases hk with rfl | rfl | rfl
        · simp [hl]
        · cases parseAclList m ROLES_KEY <;> simp [hl]
        · cases parseAclList m ROLES_KEY <;> cases parseAclList m GROUPS_KEY <;> simp [hl]

theorem mapM_none_of_mem {α β : Type} {f : α → Option β} {l : List α} {x : α} (hx : x ∈ l) (hf : f x = none) :
    l.mapM f = none := by
  induction l with
  | nil => simp at hx
  | cons a t ih =>
    rcases List.mem_cons.mp hx with rfl | h'
    · simp [List.mapM_cons, hf]
    · cases hfa : f a <;> simp [List.mapM_cons, hfa, ih h']

/-- … an allow-list with an entry that normalises to nothing (`""`, `" "`, `"\"\""`) -/
theorem C12_blank_list_entry_invalid (m : Meta) (key raw : Str) (vs : List Str) (v : Str)
    (hk : key = ROLES_KEY ∨ key = GROUPS_KEY ∨ key = PRINCIPALS_KEY) (hget : m.get key = some raw)
    (harr : parseJsonStringArray raw = some vs) (hv : v ∈ vs) (hblank : normalizeScalar (some v) = none) :
    parseAclMetadata m = none := by
  have hl : parseAclList m key = none := by
    simp only [parseAclList, hget, harr]
    exact mapM_none_of_mem hv hblank
  unfold parseAclMetadata
  cases normalizeScalar (m.get TENANT_KEY) with
  | none => rfl
  | some t =>
    cases normalizeScalar (m.get VISIBILITY_KEY) with
    | none => rfl
    | some v =>
      simp only
      split
      · rfl
      · rcases hk with rfl | rfl | rfl
        · simp [hl]
        · cases parseAclList m ROLES_KEY <;> simp [hl]
        · cases parseAclList m ROLES_KEY <;> cases parseAclList m GROUPS_KEY <;> simp [hl]

/-! ### The hit filter -/

/-- the frame exists and the rule allows the (normalised) caller to see it -/
def Allowed (frames : Frames) (n : NCtx) (frameId : Nat) : Prop :=
  ∃ m, frames frameId = some m ∧ evaluate m (some n) = .allow

theorem decideHit_allowed_iff (frames : Frames) (n : NCtx) (h : Hit) :
    (decideHit frames n h).allowed = true ↔ Allowed frames n h.frameId := by
  unfold decideHit Allowed
  cases hf : frames h.frameId with
  | none => simp [Decision.allowed]
  | some m =>
    cases he : evaluate m (some n) <;> simp [Decision.allowed, he]

/-- a hit whose frame is missing from the TOC is denied -/
theorem C12_unknown_frame_denied (frames : Frames) (n : NCtx) (h : Hit) (hf : frames h.frameId = none) :
    decideHit frames n h = .denyMissing := by
  simp [decideHit, hf]

/-- everything of a hit except its rank -/
def Hit.key (h : Hit) : Nat × Nat := (h.frameId, h.body)

theorem rerankFrom_key (k : Nat) (l : List Hit) : (rerankFrom k l).map Hit.key = l.map Hit.key := by
  induction l generalizing k with
  | nil => rfl
  | cons h t ih => simp [rerankFrom, ih, Hit.key]

theorem rerankFrom_ranks (k : Nat) (l : List Hit) :
    (rerankFrom k l).map (·.rank) = List.range' (k + 1) l.length := by
  induction l generalizing k with
  | nil => rfl
  | cons h t ih => simp [rerankFrom, ih, List.range'_succ]

theorem rerankFrom_frameIds (k : Nat) (l : List Hit) :
    (rerankFrom k l).map (·.frameId) = l.map (·.frameId) := by
  induction l generalizing k with
  | nil => rfl
  | cons h t ih => simp [rerankFrom, ih]

theorem mem_rerankFrom {k : Nat} {l : List Hit} {h : Hit} (hm : h ∈ rerankFrom k l) :
    ∃ h' ∈ l, h.frameId = h'.frameId ∧ h.body = h'.body := by
  induction l generalizing k with
  | nil => simp [rerankFrom] at hm
  | cons a t ih =>
    simp only [rerankFrom, List.mem_cons] at hm
    rcases hm with rfl | hm
    · exact ⟨a, by simp, rfl, rfl⟩
    · obtain ⟨h', hh, e⟩ := ih hm
      exact ⟨h', by simp [hh], e⟩

theorem validateEnforce_ok {ctx : Option Ctx} {n : NCtx} (h : validateEnforce ctx = .ok n) :
    normalizeCtx ctx = some n := by
  unfold validateEnforce at h
  cases ctx with
  | none => simp at h
  | some c =>
    simp only at h
    cases hn : normalizeCtx (some c) with
    | none => rw [hn] at h; simp at h
    | some n' => rw [hn] at h; simp only [Except.ok.injEq] at h; rw [h]

theorem validateEnforce_err {ctx : Option Ctx} (h : normalizeCtx ctx = none) :
    validateEnforce ctx = .error .contextRequired ∨ validateEnforce ctx = .error .tenantRequired := by
  unfold validateEnforce
  cases ctx with
  | none => simp
  | some c => simp [h]

/-- the Enforce filter: the output is exactly the input with the denied hits removed, in the same
    order, re-ranked 1..n; in particular every output hit is allowed -/
theorem C12_apply_enforce (frames : Frames) (ctx : Option Ctx) (hits out : List Hit) (st : Stats)
    (h : applyAcl frames .enforce ctx hits = .ok (out, st)) :
    ∃ n, normalizeCtx ctx = some n ∧
      (∀ x ∈ out, Allowed frames n x.frameId) ∧
      out.map Hit.key = (hits.filter (fun x => (decideHit frames n x).allowed)).map Hit.key ∧
      (out.map Hit.key).Sublist (hits.map Hit.key) ∧
      out.map (·.rank) = List.range' 1 out.length := by
  unfold applyAcl at h
  cases hv : validateEnforce ctx with
  | error e => simp [hv] at h
  | ok n =>
    simp only [hv, Except.ok.injEq, Prod.mk.injEq] at h
    obtain ⟨rfl, _⟩ := h
    refine ⟨n, validateEnforce_ok hv, ?_, ?_, ?_, ?_⟩
    · intro x hx
      obtain ⟨x', hx', hf, _⟩ := mem_rerankFrom hx
      rw [hf]
      exact (decideHit_allowed_iff frames n x').mp (List.mem_filter.mp hx').2
    · exact rerankFrom_key 0 _
    · rw [rerank, rerankFrom_key]
      exact List.Sublist.map _ List.filter_sublist
    · have := rerankFrom_ranks 0 (hits.filter (fun x => (decideHit frames n x).allowed))
      rw [rerank, this]
      have hl : (rerankFrom 0 (hits.filter (fun x => (decideHit frames n x).allowed))).length
          = (hits.filter (fun x => (decideHit frames n x).allowed)).length := by
        have := congrArg List.length (rerankFrom_key 0 (hits.filter (fun x => (decideHit frames n x).allowed)))
        simpa using this
      rw [hl]

/-- completeness of the filter: an allowed input hit is never dropped -/
theorem C12_apply_enforce_keeps_allowed (frames : Frames) (ctx : Option Ctx) (hits out : List Hit) (st : Stats)
    (h : applyAcl frames .enforce ctx hits = .ok (out, st)) (n : NCtx) (hn : normalizeCtx ctx = some n)
    (x : Hit) (hx : x ∈ hits) (ha : Allowed frames n x.frameId) : x.key ∈ out.map Hit.key := by
  obtain ⟨n', hn', _, hk, _, _⟩ := C12_apply_enforce frames ctx hits out st h
  rw [hn] at hn'
  cases hn'
  rw [hk]
  exact List.mem_map.mpr ⟨x, List.mem_filter.mpr ⟨hx, (decideHit_allowed_iff frames n x).mpr ha⟩, rfl⟩

theorem applyAcl_enforce_needs_tenant (frames : Frames) (ctx : Option Ctx) (hits : List Hit)
    (h : normalizeCtx ctx = none) :
    applyAcl frames .enforce ctx hits = .error .contextRequired ∨
    applyAcl frames .enforce ctx hits = .error .tenantRequired := by
  unfold applyAcl
  rcases validateEnforce_err h with e | e <;> simp [e]

theorem applyAcl_audit (frames : Frames) (ctx : Option Ctx) (hits : List Hit) :
    ∃ st, applyAcl frames .audit ctx hits = .ok (hits, st) := by
  unfold applyAcl
  cases normalizeCtx ctx with
  | none => exact ⟨_, rfl⟩
  | some n => exact ⟨_, rfl⟩

theorem validateRequest_enforce_needs_tenant {ctx : Option Ctx} (h : normalizeCtx ctx = none) :
    validateRequest .enforce ctx = .error .contextRequired ∨ validateRequest .enforce ctx = .error .tenantRequired := by
  unfold validateRequest
  rcases validateEnforce_err h with e | e <;> simp [e]

/-! ### The entry points -/

/-- a response that shows nothing of a denied frame: all hits allowed, the context string built
    from exactly these hits, the total counting exactly these hits -/
def Response.Clean {κ : Type} (B : List Hit → κ) (frames : Frames) (n : NCtx) (r : Response κ) : Prop :=
  (∀ x ∈ r.hits, Allowed frames n x.frameId) ∧ r.context = B r.hits ∧ r.totalHits = r.hits.length

theorem mem_citationsFrom {k : Nat} {l : List Hit} {c : Citation} (hc : c ∈ citationsFrom k l) :
    ∃ x ∈ l, c.frameId = x.frameId := by
  induction l generalizing k with
  | nil => simp [citationsFrom] at hc
  | cons a t ih =>
    simp only [citationsFrom, List.mem_cons] at hc
    rcases hc with rfl | hc
    · exact ⟨a, by simp, rfl⟩
    · obtain ⟨x, hx, e⟩ := ih hc
      exact ⟨x, by simp [hx], e⟩

theorem search_enforce_clean {κ : Type} (B : List Hit → κ) (frames : Frames) (ctx : Option Ctx)
    (pre : PreSearch κ) (r : Response κ) (h : search B frames .enforce ctx pre = .ok r) :
    ∃ n, normalizeCtx ctx = some n ∧ r.Clean B frames n := by
  unfold search at h
  cases hv : validateEnforce ctx with
  | error e => cases pre <;> simp [validateRequest, hv] at h
  | ok n =>
    have hn := validateEnforce_ok hv
    refine ⟨n, hn, ?_⟩
    cases pre with
    | disabled => simp at h
    | failed => simp [validateRequest, hv] at h
    | early =>
      simp only [validateRequest, hv, Except.ok.injEq] at h
      subst h
      exact ⟨by simp, rfl, rfl⟩
    | engine r0 =>
      simp only [validateRequest, hv] at h
      cases ha : applyAcl frames .enforce ctx r0.hits with
      | error e => simp [ha] at h
      | ok p =>
        obtain ⟨out, st⟩ := p
        simp only [ha, Except.ok.injEq] at h
        subst h
        obtain ⟨n', hn', hall, _⟩ := C12_apply_enforce frames ctx r0.hits out st ha
        rw [hn] at hn'
        cases hn'
        exact ⟨hall, rfl, rfl⟩

theorem vecSearch_enforce_clean {κ : Type} (B : List Hit → κ) (frames : Frames) (ctx : Option Ctx)
    (pre : PreVec) (r : Response κ) (h : vecSearch B frames .enforce ctx pre = .ok r) :
    ∃ n, normalizeCtx ctx = some n ∧ r.Clean B frames n := by
  unfold vecSearch at h
  cases hv : validateEnforce ctx with
  | error e => cases pre <;> simp [validateRequest, hv] at h
  | ok n =>
    have hn := validateEnforce_ok hv
    refine ⟨n, hn, ?_⟩
    cases pre with
    | disabled => simp at h
    | failed => simp [validateRequest, hv] at h
    | noVecHits =>
      simp only [validateRequest, hv, Except.ok.injEq] at h
      subst h
      exact ⟨by simp, rfl, rfl⟩
    | converted hs =>
      simp only [validateRequest, hv] at h
      cases ha : applyAcl frames .enforce ctx hs with
      | error e => simp [ha] at h
      | ok p =>
        obtain ⟨out, st⟩ := p
        simp only [ha, Except.ok.injEq] at h
        subst h
        obtain ⟨n', hn', hall, _⟩ := C12_apply_enforce frames ctx hs out st ha
        rw [hn] at hn'
        cases hn'
        exact ⟨hall, rfl, rfl⟩

theorem adaptive_enforce_clean {κ : Type} (B : List Hit → κ) (frames : Frames) (ctx : Option Ctx)
    (pre : PreVec) (cut : List Hit → Option Nat) (out : List Hit)
    (h : adaptive B frames .enforce ctx pre cut = .ok out) :
    ∃ n, normalizeCtx ctx = some n ∧ ∀ x ∈ out, Allowed frames n x.frameId := by
  unfold adaptive at h
  cases hv : vecSearch B frames .enforce ctx pre with
  | error e => simp [hv] at h
  | ok r =>
    obtain ⟨n, hn, hall, _⟩ := vecSearch_enforce_clean B frames ctx pre r hv
    refine ⟨n, hn, ?_⟩
    simp only [hv] at h
    cases hc : cut r.hits with
    | none =>
      simp only [hc, Except.ok.injEq] at h
      subst h
      exact hall
    | some k =>
      simp only [hc, Except.ok.injEq] at h
      subst h
      intro x hx
      obtain ⟨x', hx', hf, _⟩ := mem_rerankFrom hx
      rw [hf]
      exact hall x' (List.mem_of_mem_take hx')

theorem ask_enforce_clean {κ α : Type} (B : List Hit → κ) (S : List Hit → List Citation → α) (frames : Frames)
    (ctx : Option Ctx) (contextOnly : Bool) (pre : PreAsk κ) (noAnswer : α) (a : AskResponse κ α)
    (h : ask B S frames .enforce ctx contextOnly pre noAnswer = .ok a) :
    ∃ n, normalizeCtx ctx = some n ∧ a.retrieval.Clean B frames n ∧
      (∀ c ∈ a.citations, Allowed frames n c.frameId) ∧
      (∀ f ∈ a.fragments, Allowed frames n f.frameId) ∧
      a.fragments = buildFragments a.retrieval.hits ∧
      a.citations = (if contextOnly then [] else buildCitations a.retrieval.hits) ∧
      a.answer = (if contextOnly then noAnswer else S a.retrieval.hits a.citations) := by
  unfold ask at h
  cases pre with
  | failed => simp at h
  | ranked r0 =>
    simp only at h
    cases ha : applyAcl frames .enforce ctx r0.hits with
    | error e => simp [ha] at h
    | ok p =>
      obtain ⟨out, st⟩ := p
      simp only [ha, Except.ok.injEq] at h
      subst h
      obtain ⟨n, hn, hall, _⟩ := C12_apply_enforce frames ctx r0.hits out st ha
      refine ⟨n, hn, ⟨hall, rfl, rfl⟩, ?_, ?_, rfl, rfl, rfl⟩
      · intro c hc
        simp only at hc
        cases contextOnly with
        | true => simp at hc
        | false =>
          simp only [Bool.false_eq_true, if_false] at hc
          obtain ⟨x, hx, e⟩ := mem_citationsFrom hc
          rw [e]; exact hall x hx
      · intro f hf
        simp only [buildFragments, List.mem_map] at hf
        obtain ⟨x, hx, rfl⟩ := hf
        exact hall x hx

/-- **No leak.**  With mode Enforce, whatever the engines, fusion, re-ranking and cut-off produced:
    every hit returned by search / vector search / adaptive search / ask, every citation and every
    context fragment refers to a frame that exists and that the rule allows for the caller; the
    context string is `build_context` of exactly the allowed hits, citations / fragments / answer are
    functions of exactly the allowed hits, and `total_hits` counts only them. -/
theorem C12_no_leak {κ α : Type} (B : List Hit → κ) (S : List Hit → List Citation → α) (frames : Frames)
    (ctx : Option Ctx) :
    (∀ pre r, search B frames .enforce ctx pre = .ok r → ∃ n, normalizeCtx ctx = some n ∧ r.Clean B frames n) ∧
    (∀ pre r, vecSearch B frames .enforce ctx pre = .ok r → ∃ n, normalizeCtx ctx = some n ∧ r.Clean B frames n) ∧
    (∀ pre cut out, adaptive B frames .enforce ctx pre cut = .ok out →
      ∃ n, normalizeCtx ctx = some n ∧ ∀ x ∈ out, Allowed frames n x.frameId) ∧
    (∀ contextOnly pre noAnswer a, ask B S frames .enforce ctx contextOnly pre noAnswer = .ok a →
      ∃ n, normalizeCtx ctx = some n ∧ a.retrieval.Clean B frames n ∧
        (∀ c ∈ a.citations, Allowed frames n c.frameId) ∧
        (∀ f ∈ a.fragments, Allowed frames n f.frameId) ∧
        a.fragments = buildFragments a.retrieval.hits ∧
        a.citations = (if contextOnly then [] else buildCitations a.retrieval.hits) ∧
        a.answer = (if contextOnly then noAnswer else S a.retrieval.hits a.citations)) :=
  ⟨fun pre r h => search_enforce_clean B frames ctx pre r h,
   fun pre r h => vecSearch_enforce_clean B frames ctx pre r h,
   fun pre cut out h => adaptive_enforce_clean B frames ctx pre cut out h,
   fun co pre na a h => ask_enforce_clean B S frames ctx co pre na a h⟩

/-- what "allowed" excludes, in the words of the property: a frame of another tenant, a
    restricted frame without a matching principal / role / group, a frame with missing or invalid
    metadata and a frame id unknown to the TOC are all NOT `Allowed` -/
theorem C12_denied_not_allowed (frames : Frames) (n : NCtx) (fid : Nat) :
    (frames fid = none → ¬ Allowed frames n fid) ∧
    (∀ m, frames fid = some m → parseAclMetadata m = none → ¬ Allowed frames n fid) ∧
    (∀ m p, frames fid = some m → parseAclMetadata m = some p → p.tenant ≠ n.tenant → ¬ Allowed frames n fid) ∧
    (∀ m p, frames fid = some m → parseAclMetadata m = some p → p.visibility = .restricted → ¬ Grants p n →
      ¬ Allowed frames n fid) := by
  refine ⟨?_, ?_, ?_, ?_⟩
  · rintro hf ⟨m, hm, _⟩; rw [hf] at hm; cases hm
  · rintro m hf hp ⟨m', hm', he⟩
    rw [hf] at hm'; cases hm'
    rw [C12_invalid_metadata_denied m n hp] at he; cases he
  · rintro m p hf hp ht ⟨m', hm', he⟩
    rw [hf] at hm'; cases hm'
    rw [C12_other_tenant_denied m n p hp ht] at he; cases he
  · rintro m p hf hp hv hg ⟨m', hm', he⟩
    rw [hf] at hm'; cases hm'
    obtain ⟨p', hp', _, hor⟩ := (C12_allow_iff m n).mp he
    rw [hp] at hp'; cases hp'
    rcases hor with h | h
    · rw [hv] at h; cases h
    · exact hg h

/-- **Enforce needs a tenant.**  A caller context that is absent, has no tenant, or whose tenant
    normalises to nothing makes every entry point fail, before or instead of returning anything
    (also on the early-return paths: empty date range / replay window, empty vector result). -/
theorem C12_enforce_needs_tenant {κ α : Type} (B : List Hit → κ) (S : List Hit → List Citation → α)
    (frames : Frames) (ctx : Option Ctx) (h : normalizeCtx ctx = none) :
    (∀ hits, ∃ e, applyAcl frames .enforce ctx hits = .error e) ∧
    (∀ pre, ∃ e, search B frames .enforce ctx pre = .error e) ∧
    (∀ pre, ∃ e, vecSearch B frames .enforce ctx pre = .error e) ∧
    (∀ pre cut, ∃ e, adaptive B frames .enforce ctx pre cut = .error e) ∧
    (∀ contextOnly pre noAnswer, ∃ e, ask B S frames .enforce ctx contextOnly pre noAnswer = .error e) := by
  have hv := validateRequest_enforce_needs_tenant h
  have hvec : ∀ pre, ∃ e, vecSearch B frames .enforce ctx pre = .error e := by
    intro pre
    unfold vecSearch
    cases pre <;> rcases hv with e | e <;> simp [e]
  refine ⟨?_, ?_, hvec, ?_, ?_⟩
  · intro hits
    rcases applyAcl_enforce_needs_tenant frames ctx hits h with e | e <;> exact ⟨_, e⟩
  · intro pre
    unfold search
    cases pre <;> rcases hv with e | e <;> simp [e]
  · intro pre cut
    obtain ⟨e, he⟩ := hvec pre
    exact ⟨e, by simp [adaptive, he]⟩
  · intro co pre na
    unfold ask
    cases pre with
    | failed => exact ⟨_, rfl⟩
    | ranked r =>
      rcases applyAcl_enforce_needs_tenant frames ctx r.hits h with e | e <;> simp [e]

/-- the ACL error is the one reported when the request reaches the check (lex/vec enabled) -/
theorem C12_enforce_needs_tenant_reason {κ : Type} (B : List Hit → κ) (frames : Frames) (ctx : Option Ctx)
    (h : normalizeCtx ctx = none) (pre : PreSearch κ) (hp : pre ≠ .disabled) :
    search B frames .enforce ctx pre = .error .contextRequired ∨
    search B frames .enforce ctx pre = .error .tenantRequired := by
  have hv := validateRequest_enforce_needs_tenant h
  unfold search
  cases pre with
  | disabled => exact absurd rfl hp
  | failed => rcases hv with e | e <;> simp [e]
  | early => rcases hv with e | e <;> simp [e]
  | engine r => rcases hv with e | e <;> simp [e]

/-- **Audit is the identity.**  In Audit mode, with any caller context at all, every entry point
    returns what it returns without an ACL context — and `search` / the filter return the engine's
    hits untouched. -/
theorem C12_audit_id {κ α : Type} (B : List Hit → κ) (S : List Hit → List Citation → α) (frames : Frames)
    (ctx : Option Ctx) :
    (∀ hits, ∃ st, applyAcl frames .audit ctx hits = .ok (hits, st)) ∧
    (∀ r, search B frames .audit ctx (.engine r) = .ok r) ∧
    (∀ pre, search B frames .audit ctx pre = search B frames .audit none pre) ∧
    (∀ pre, vecSearch B frames .audit ctx pre = vecSearch B frames .audit none pre) ∧
    (∀ pre cut, adaptive B frames .audit ctx pre cut = adaptive B frames .audit none pre cut) ∧
    (∀ contextOnly pre noAnswer, ask B S frames .audit ctx contextOnly pre noAnswer =
      ask B S frames .audit none contextOnly pre noAnswer) := by
  have hs : ∀ pre, search B frames .audit ctx pre = search B frames .audit none pre := by
    intro pre
    cases pre with
    | disabled => rfl
    | failed => rfl
    | early => rfl
    | engine r =>
      obtain ⟨s1, h1⟩ := applyAcl_audit frames ctx r.hits
      obtain ⟨s2, h2⟩ := applyAcl_audit frames none r.hits
      simp [search, validateRequest, h1, h2]
  have hvec : ∀ pre, vecSearch B frames .audit ctx pre = vecSearch B frames .audit none pre := by
    intro pre
    cases pre with
    | disabled => rfl
    | failed => rfl
    | noVecHits => rfl
    | converted hs =>
      obtain ⟨s1, h1⟩ := applyAcl_audit frames ctx hs
      obtain ⟨s2, h2⟩ := applyAcl_audit frames none hs
      simp [vecSearch, validateRequest, h1, h2]
  refine ⟨applyAcl_audit frames ctx, ?_, hs, hvec, ?_, ?_⟩
  · intro r
    obtain ⟨s1, h1⟩ := applyAcl_audit frames ctx r.hits
    simp [search, validateRequest, h1]
  · intro pre cut
    simp [adaptive, hvec pre]
  · intro co pre na
    cases pre with
    | failed => rfl
    | ranked r =>
      obtain ⟨s1, h1⟩ := applyAcl_audit frames ctx r.hits
      obtain ⟨s2, h2⟩ := applyAcl_audit frames none r.hits
      simp [ask, h1, h2]

/-! ### The defect repaired by `fixes/C12.diff`

Before the repair `Memvid::search` (and likewise `vec_search_with_embedding_acl`) looked at the ACL
fields only inside `apply_acl_to_search_hits`, i.e. after its early returns.  With that order the
second clause of the property is false: -/

/-- `Memvid::search` as it was before the repair: no up-front check -/
def searchBeforeFix {κ : Type} (B : List Hit → κ) (frames : Frames) (mode : Mode) (ctx : Option Ctx)
    (pre : PreSearch κ) : Except Err (Response κ) :=
  match pre with
  | .disabled => .error .other
  | .failed => .error .other
  | .early => .ok { hits := [], totalHits := 0, context := B [] }
  | .engine r =>
    match applyAcl frames mode ctx r.hits with
    | .error e => .error e
    | .ok (hits, _) =>
      match mode with
      | .enforce => .ok { hits, totalHits := hits.length, context := B hits }
      | .audit => .ok { r with hits }

/-- witness: Enforce, no caller context at all, a request whose replay window matches no frame -/
theorem C12_before_fix_counterexample :
    ¬ (∀ (ctx : Option Ctx) (pre : PreSearch Unit), normalizeCtx ctx = none →
        ∃ e, searchBeforeFix (fun _ => ()) (fun _ => none) .enforce ctx pre = .error e) := by
  intro h
  obtain ⟨e, he⟩ := h none .early rfl
  simp [searchBeforeFix] at he

/-- the repair changes nothing for requests that pass the up-front check -/
theorem search_eq_before_fix {κ : Type} (B : List Hit → κ) (frames : Frames) (mode : Mode) (ctx : Option Ctx)
    (pre : PreSearch κ) (hok : validateRequest mode ctx = .ok ()) (hpre : pre ≠ .failed) :
    search B frames mode ctx pre = searchBeforeFix B frames mode ctx pre := by
  cases pre with
  | disabled => rfl
  | failed => exact absurd rfl hpre
  | early => simp [search, searchBeforeFix, hok]
  | engine r =>
    simp only [search, searchBeforeFix, hok]
    cases applyAcl frames mode ctx r.hits <;> rfl

/-! ### Character tables and stats -/

/-- `isWs` is false above U+3000 (so a comparison with `char::is_whitespace` below U+3100 is exhaustive) -/
theorem isWs_bound (c : Char) (h : isWs c = true) : c.toNat ≤ 0x3000 := by
  unfold isWs at h
  simp only [Bool.or_eq_true, Bool.and_eq_true, decide_eq_true_eq, beq_iff_eq] at h
  omega

/-- `lowerChar` changes exactly `A..Z`, by +32 -/
theorem lowerChar_spec (c : Char) :
    (0x41 ≤ c.toNat ∧ c.toNat ≤ 0x5A → (lowerChar c).toNat = c.toNat + 32) ∧
    (¬ (0x41 ≤ c.toNat ∧ c.toNat ≤ 0x5A) → lowerChar c = c) := by
  unfold lowerChar
  constructor
  · intro h
    rw [if_pos h]
    have : (c.toNat + 32).isValidChar := by
      left; omega
    unfold Char.ofNat
    rw [dif_pos this]
    rfl
  · intro h
    rw [if_neg h]

/-- stats bookkeeping of the filter: every hit is counted once -/
theorem foldl_record_total (frames : Frames) (n : NCtx) (hits : List Hit) (s : Stats) :
    let r := hits.foldl (fun s h => s.record (decideHit frames n h)) s
    r.allowed + r.denied = s.allowed + s.denied + hits.length := by
  induction hits generalizing s with
  | nil => simp
  | cons h t ih =>
    simp only [List.foldl_cons, List.length_cons]
    have := ih (s.record (decideHit frames n h))
    simp only at this
    rw [this]
    cases decideHit frames n h <;> simp [Stats.record] <;> omega

/-- the stats returned by the filter count every incoming hit exactly once -/
theorem C12_apply_stats (frames : Frames) (mode : Mode) (ctx : Option Ctx) (hits out : List Hit) (st : Stats)
    (h : applyAcl frames mode ctx hits = .ok (out, st)) : st.allowed + st.denied = hits.length := by
  unfold applyAcl at h
  cases mode with
  | audit =>
    simp only at h
    cases hn : normalizeCtx ctx with
    | none =>
      simp only [hn, Except.ok.injEq, Prod.mk.injEq] at h
      obtain ⟨_, rfl⟩ := h
      simp
    | some n =>
      simp only [hn, Except.ok.injEq, Prod.mk.injEq] at h
      obtain ⟨_, rfl⟩ := h
      have := foldl_record_total frames n hits {}
      simpa using this
  | enforce =>
    simp only at h
    cases hv : validateEnforce ctx with
    | error e => simp [hv] at h
    | ok n =>
      simp only [hv, Except.ok.injEq, Prod.mk.injEq] at h
      obtain ⟨_, rfl⟩ := h
      have := foldl_record_total frames n hits {}
      simpa using this

/-! ### Non-vacuity: concrete instances -/

section Examples

def exMetaRestricted : Meta :=
  [(TENANT_KEY, "Tenant-A".toList), (VISIBILITY_KEY, "\"Restricted\"".toList),
   (ROLES_KEY, "[\"Admin\", \"analyst\"]".toList), (GROUPS_KEY, "[\"eng\"]".toList)]
def exMetaPublicOther : Meta := [(TENANT_KEY, "tenant-b".toList), (VISIBILITY_KEY, "public".toList)]
def exMetaBroken : Meta :=
  [(TENANT_KEY, "tenant-a".toList), (VISIBILITY_KEY, "public".toList), (GROUPS_KEY, "eng,ops".toList)]
def exCtx (roles : List String) : Option Ctx :=
  some { tenant := some " \"TENANT-A\" ".toList, subject := none, roles := roles.map String.toList, groups := [] }
def exFrames : Frames := fun id =>
  if id = 0 then some exMetaRestricted else if id = 1 then some exMetaPublicOther
  else if id = 2 then some exMetaBroken else none
def exHits : List Hit := [⟨1, 1, 10⟩, ⟨0, 2, 11⟩, ⟨2, 3, 12⟩, ⟨7, 4, 13⟩, ⟨0, 5, 14⟩]

-- the decision function: JSON-quoted, padded, mixed-case values meet; each denial reason occurs
example : evaluate exMetaRestricted (normalizeCtx (exCtx ["viewer", "\"ADMIN\""])) = .allow := by decide
example : evaluate exMetaRestricted (normalizeCtx (exCtx ["viewer"])) = .denyRestricted := by decide
example : evaluate exMetaPublicOther (normalizeCtx (exCtx ["admin"])) = .denyCrossTenant := by decide
example : evaluate exMetaBroken (normalizeCtx (exCtx ["admin"])) = .denyMissing := by decide
example : evaluate [] (normalizeCtx (exCtx ["admin"])) = .denyMissing := by decide
-- hypotheses of the decision lemmas are satisfiable
example : parseAclMetadata exMetaRestricted =
    some ⟨"tenant-a".toList, .restricted, ["admin".toList, "analyst".toList], ["eng".toList], []⟩ := by decide
example : parseAclMetadata exMetaBroken = none := by decide
-- the parsers: surrogate pair accepted, lone surrogate / raw control / trailing comma / non-string rejected
example : parseJsonString "\"\\ud83d\\ude00\\u00e9\\n\"".toList = some [Char.ofNat 0x1F600, 'é', '\n'] := by decide
example : parseJsonString "\"\\ud83d\"".toList = none := by decide
example : parseJsonString "\"a\tb\"".toList = none := by decide
example : parseJsonStringArray " [ \"a\" , \"b\" ] ".toList = some ["a".toList, "b".toList] := by decide
example : parseJsonStringArray "[\"a\",]".toList = none := by decide
example : parseJsonStringArray "[\"a\",1]".toList = none := by decide
example : normalizeScalar (some "\u00a0 \"\\\"Ops\\\"\" ".toList) = some "\"ops\"".toList := by decide
-- C12_no_leak / C12_apply_enforce: a hit list with an allowed frame (twice), a frame of another
-- tenant, a frame with invalid metadata and an unknown frame id
example : (applyAcl exFrames .enforce (exCtx ["admin"]) exHits).toOption =
    some ([⟨0, 1, 11⟩, ⟨0, 2, 14⟩], { allowed := 2, denied := 3, crossTenant := 1, missing := 2 }) := by decide
example : (search id exFrames .enforce (exCtx ["admin"]) (.engine ⟨exHits, 5, exHits⟩)).toOption.map
    (fun r => (r.hits, r.totalHits, r.context)) = some ([⟨0, 1, 11⟩, ⟨0, 2, 14⟩], 2, [⟨0, 1, 11⟩, ⟨0, 2, 14⟩]) := by decide
example : (ask (α := Nat) id (fun h c => h.length + c.length) exFrames .enforce (exCtx ["admin"]) false
      (.ranked ⟨exHits, 5, exHits⟩) 0).toOption.map (fun a => (a.citations, a.fragments, a.answer)) =
    some ([⟨1, 0, 11⟩, ⟨2, 0, 14⟩], [⟨1, 0, 11⟩, ⟨2, 0, 14⟩], 4) := by decide
-- C12_enforce_needs_tenant: contexts that normalise to nothing exist in each flavour
example : normalizeCtx none = none := rfl
example : normalizeCtx (some ⟨none, some "bob".toList, [], []⟩) = none := by decide
example : normalizeCtx (some ⟨some " \"\\u0020\" ".toList, none, [], []⟩) = none := by decide
example : search id exFrames .enforce (some ⟨some "\"\"".toList, none, [], []⟩) (.early : PreSearch (List Hit)) |>.toOption |>.isNone := by decide
-- C12_audit_id: Audit with a caller that would be denied everything still returns all hits
example : (applyAcl exFrames .audit (exCtx []) exHits).toOption.map (·.1) = some exHits := by decide

end Examples

end Mv.Acl
