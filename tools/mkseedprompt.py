#!/usr/bin/env python3
"""mkseedprompt.py <PID> <n> -> prints the prompt for seeding agent number n of property PID
(and creates the scratch worktree /tmp/seed-<PID>-<n>/wt)."""
import json, subprocess, sys, os
pid, n = sys.argv[1], sys.argv[2]
p = next(json.loads(l) for l in open("/verif/properties.jsonl") if json.loads(l)["id"] == pid)
base = f"/tmp/seed-{pid}-{n}"
wt, out = f"{base}/wt", f"{base}/out"
os.makedirs(base, exist_ok=True)
if not os.path.exists(wt):
    subprocess.run(["git", "-C", "/repo", "worktree", "add", "--detach", wt, "HEAD"], check=True, stdout=subprocess.DEVNULL, stderr=subprocess.DEVNULL)
if not os.path.exists(f"{wt}/target"):
    # reuse compiled dependencies (the crate itself is rebuilt because its path differs)
    subprocess.run(f"mkdir -p {wt}/target/debug && cp -a /repo/target/debug/deps /repo/target/debug/build /repo/target/debug/.fingerprint {wt}/target/debug/ 2>/dev/null; cp -a /repo/target/.rustc_info.json /repo/target/CACHEDIR.TAG {wt}/target/ 2>/dev/null; rm -f {wt}/target/debug/deps/*memvid_core* {wt}/target/debug/deps/lifecycle-* {wt}/target/debug/deps/mutation-*", shell=True)
t = open("/verif/tools/prompts/seed.txt").read()
t = (t.replace("{PID}", pid).replace("{TITLE}", p["title"]).replace("{STATEMENT}", p["statement"])
      .replace("{QUANT}", p["quantifier"]["text"]).replace("{WT}", wt).replace("{OUT}", out))
print(t)
