/-
  C14Pending — why `OpOk` excludes `commit_skip_indexes` and doctor runs that rebuild the vector
  index: on the shared Core model AS IT STANDS (mirroring the tree without fixes/C40.diff and
  fixes/C21.diff) each of them loses the embedding of an active frame.

  NOT part of the registered C14 modules on purpose: these two statements are about defects owned by
  C40 and C21.  When their repairs land and `Core.lean` follows, this file stops compiling — delete
  it then, and drop the two clauses from `OpOk` (MvProps/C14Steps.lean).
-/
import MvProps.C14
namespace Mv.Core

def embP : Emb := (3, "p0")
def putP : Op := .put { ts := 5, content := "aa", len := 10, plen := 10, emb := some embP } {}

/-- `commit_skip_indexes` applies the embedded put and drops its embedding; `finalize_indexes` rebuilds
    the vector index from the in-memory index only (property C40) -/
theorem C14_skip_commit_drops_embedding :
    let m := runCfg true Mem.create [putP, .commitSkipIndexes, .finalizeIndexes 40]
    isActive m.frames 0 = true ∧ vecL m = [] ∧
    embRun [] (traceCfg true Mem.create [putP, .commitSkipIndexes, .finalizeIndexes 40]) = [some embP] := by decide

/-- doctor with `rebuild_vec_index` forgets the index before rebuilding it from itself (repair:
    fixes/C21.diff) -/
theorem C14_doctor_rebuild_vec_drops_embedding :
    let m := runCfg true Mem.create [putP, .commit 40, .doctor false false false true 40 41 42 43]
    isActive m.frames 0 = true ∧ vecL m = [] ∧
    vecL (runCfg true Mem.create [putP, .commit 40]) = [{ id := 0, dim := 3, tok := "p0" }] := by decide

end Mv.Core
