/-
  C08 — Deleted and superseded frames disappear from every read path.

  Model: MvModel/Core.lean (the handle), MvModel/Spec.lean (what acknowledged calls mean), MvModel/ReadPaths.lean
  (the loop every read API runs over an engine's answer).  Lemmas: MvProps/CoreLemmas.lean (refinement),
  MvProps/C08Lemmas.lean (index maintenance: the invariant `RdOk`).

  Every theorem quantifies over ALL operation lists (put incl. chunked / with embeddings, update with and
  without payload, delete, commit, drop+open, crash+open, batch mode, skip-index commits, finalize, vacuum,
  doctor, tickets) and arbitrary trace inputs (where automatic checkpoints fire, WAL growth, …).
  The engines are black boxes: a search ANSWER is an arbitrary list of ids, constrained at most by
  E1 = "an engine returns only ids of documents it holds".

  A. status            a committed delete / update leaves the frame inactive for ever; the old version
                       records `superseded_by`; the new version inherits what the update did not specify
  B. vector / time     in EVERY reachable state the in-memory vector index, the persisted vector index and
                       the persisted time index hold ids of Active frames only  ⇒ (E1) `search_vec`,
                       `vec_search_with_embedding`, `search_adaptive`, `ask`'s vector recall and `timeline`
                       never report an inactive frame
  C. lexical engine    the same for the Tantivy documents in every history that does not use
                       `commit_skip_indexes`, and again after the next full rebuild (finalize / vacuum);
                       `C08_lex_counterexample`: false right after a skip-index commit (the engine is
                       detached while the records are applied) — and the stale document survives later
                       plain commits
  D. search loops      with the status test of repo commit f3f305c (= /verif/fixes/C10.diff) no lexical search path reports an
                       inactive frame WHATEVER the engine answers (`C08_search_repaired`); without it the
                       claim needs C (`C08_search_current_partial`) and fails otherwise
                       (`C08_search_current_counterexample`)
  E. frame_by_uri      returns an Active frame whenever one carries the URI, and then the newest such
-/
import MvProps.C01
import MvProps.C08Lemmas
namespace Mv.Core

/-! ## The invariant along whole histories -/

/-- no `commit_skip_indexes` among the operations -/
def NoSkip (ops : List Op) : Prop := ∀ op ∈ ops, op.isSkip = false

instance (ops : List Op) : Decidable (NoSkip ops) := by unfold NoSkip; exact inferInstance
instance (recs : List (Nat × Entry)) : Decidable (OnlyLex recs) := by unfold OnlyLex; exact inferInstance

theorem rdOk_run_weak (m : Mem) (ops : List Op) (lx : Bool) (hi : Inv m) (hr : RdOk lx m) :
    Inv (run m ops) ∧ RdOk false (run m ops) := by
  induction ops generalizing m lx with
  | nil => exact ⟨hi, hr.weaken⟩
  | cons op ops ih => exact ih (step m op).1 _ (inv_step m op hi) (rdOk_step lx m op hi hr)

theorem rdOk_run_noSkip (m : Mem) (ops : List Op) (hi : Inv m) (hr : RdOk true m) (hns : NoSkip ops) :
    Inv (run m ops) ∧ RdOk true (run m ops) := by
  induction ops generalizing m with
  | nil => exact ⟨hi, hr⟩
  | cons op ops ih =>
    have h1 := rdOk_step true m op hi hr
    rw [hns op (by simp)] at h1
    exact ih (step m op).1 (inv_step m op hi) h1 (fun o ho => hns o (by simp [ho]))

theorem run_append_list (m : Mem) (a b : List Op) : run m (a ++ b) = run (run m a) b := by
  induction a generalizing m with
  | nil => rfl
  | cons o os ih => exact ih (step m o).1

/-! ## B. Vector index and time index -/

/-- **C08 (vector / time index membership).**  In every reachable state — committed or not, after any
    mixture of operations — every entry of the in-memory vector index, of the persisted vector index and
    of the persisted time index names a frame the committed table marks Active. -/
theorem C08_vec_time_hold_active_only (ops : List Op) :
    (∀ e ∈ (run Mem.create ops).vec.getD [], isActive (run Mem.create ops).frames e.id = true) ∧
    (∀ e ∈ (run Mem.create ops).pVec.getD [], isActive (run Mem.create ops).frames e.id = true) ∧
    (∀ e ∈ (run Mem.create ops).time.getD [], isActive (run Mem.create ops).frames e.2 = true) := by
  obtain ⟨_, hr⟩ := rdOk_run_weak Mem.create ops true create_inv create_rd
  exact ⟨hr.vec, hr.pvec, hr.time⟩

/-- … stated from the frame's side: a frame that is not Active (superseded, deleted) is in neither index -/
theorem C08_inactive_not_indexed (ops : List Op) (f : Nat) (hf : isActive (run Mem.create ops).frames f = false) :
    (∀ e ∈ (run Mem.create ops).vec.getD [], e.id ≠ f) ∧ (∀ e ∈ (run Mem.create ops).time.getD [], e.2 ≠ f) := by
  obtain ⟨hv, _, ht⟩ := C08_vec_time_hold_active_only ops
  exact ⟨(fun e he hq => by have := hv e he; rw [hq, hf] at this; cases this),
         (fun e he hq => by have := ht e he; rw [hq, hf] at this; cases this)⟩

/-- **C08 (vector search paths).**  Whatever the vector index answers — as long as it answers with ids
    of its own entries (E1) — `vec_search_with_embedding` (hence `search_adaptive` and `ask`'s vector
    recall) reports Active frames only, with or without a status test in its loop; so does `search_vec`,
    which returns the answer as it is. -/
theorem C08_vec_search (ops : List Op) (answer : List Nat) (statusTest : Bool)
    (E1 : ∀ id ∈ answer, ∃ e ∈ (run Mem.create ops).vec.getD [], e.id = id) :
    (∀ id ∈ answer, isActive (run Mem.create ops).frames id = true) ∧
    (∀ id ∈ vecHits statusTest (run Mem.create ops).frames answer, isActive (run Mem.create ops).frames id = true) := by
  have hv := (C08_vec_time_hold_active_only ops).1
  have h1 : ∀ id ∈ answer, isActive (run Mem.create ops).frames id = true := by
    intro id hid
    obtain ⟨e, he, rfl⟩ := E1 id hid
    exact hv e he
  exact ⟨h1, fun id hid => h1 id (List.mem_filter.mp hid).1⟩

theorem hitKept_true_active (frames : List Frame) (id : Nat) (h : hitKept true frames id = true) :
    isActive frames id = true := by
  unfold hitKept at h
  unfold isActive
  cases hf : frames[id]? with
  | none => rw [hf] at h; cases h
  | some f => rw [hf] at h; simpa using h

/-- **C08 (timeline).**  The unbounded timeline lists Active frames only — by the status test in its loop
    for ANY handle, and for reachable handles even without it (every entry it starts from is Active). -/
theorem C08_timeline (m : Mem) : ∀ id ∈ timelineIds true m, isActive m.frames id = true := by
  intro id hid
  simp only [timelineIds, List.mem_map, List.mem_filter] at hid
  obtain ⟨e, ⟨_, hk⟩, rfl⟩ := hid
  exact hitKept_true_active m.frames e.2 hk

theorem C08_timeline_entries_active (ops : List Op) :
    ∀ e ∈ timelineEntries (run Mem.create ops), isActive (run Mem.create ops).frames e.2 = true := by
  obtain ⟨_, hr⟩ := rdOk_run_weak Mem.create ops true create_inv create_rd
  intro e he
  unfold timelineEntries at he
  cases ht : (run Mem.create ops).time with
  | none =>
    rw [ht] at he
    simp only [List.mem_map, List.mem_filter] at he
    obtain ⟨f, ⟨hf, hp⟩, rfl⟩ := he
    simp at hp
    exact active_of_mem _ hr.dense f hf hp.1
  | some t =>
    rw [ht] at he
    simp only [List.mem_append, List.mem_map, List.mem_filter] at he
    rcases he with he | ⟨f, ⟨hf, hp⟩, rfl⟩
    · have := hr.time e (by rw [ht]; exact he)
      exact this
    · simp at hp
      exact active_of_mem _ hr.dense f hf hp.1.1

/-- **C08 (time-travel candidates).**  `get_replay_frame_ids` — the candidate filter of a search with
    `as_of_frame` / `as_of_ts` — lists Active frames only. -/
theorem C08_replay_ids (ops : List Op) (asOfFrame : Option Nat) (asOfTs : Option Int) :
    ∀ id ∈ replayIds (run Mem.create ops).frames asOfFrame asOfTs, isActive (run Mem.create ops).frames id = true := by
  obtain ⟨_, hr⟩ := rdOk_run_weak Mem.create ops true create_inv create_rd
  intro id hid
  simp only [replayIds, List.mem_map, List.mem_filter] at hid
  obtain ⟨f, ⟨hf, hp⟩, rfl⟩ := hid
  simp only [Bool.and_eq_true, beq_iff_eq] at hp
  exact active_of_mem _ hr.dense f hf hp.1.1

/-! ## C. The lexical engine -/

/-- every engine document is an Active frame, unless an indexed Insert is still pending -/
def LexClean (m : Mem) : Prop := HasIdxInsert m.pending ∨ ∀ x ∈ m.lexDocs, isActive m.frames x = true

/-- **C08 (engine contents, histories without skip-index commits).**  -/
theorem C08_lex_no_skip (ops : List Op) (hns : NoSkip ops) : LexClean (run Mem.create ops) :=
  (rdOk_run_noSkip Mem.create ops create_inv create_rd hns).2.lex rfl

/-- a full rebuild (`finalize_indexes`, `vacuum`) -/
def Op.fullRebuild : Op → Bool
  | .finalizeIndexes _ => true
  | .vacuum _ _ => true
  | _ => false

/-- **C08 (engine contents after a full rebuild).**  Whatever happened before — skip-index commits
    included — once `finalize_indexes` or `vacuum` has run and no skip-index commit follows it, every
    engine document is an Active frame again. -/
theorem C08_lex_after_full_rebuild (pre post : List Op) (r : Op) (hr : r.fullRebuild = true) (hns : NoSkip post) :
    LexClean (run Mem.create (pre ++ r :: post)) := by
  obtain ⟨hi0, h0⟩ := rdOk_run_weak Mem.create pre true create_inv create_rd
  rw [run_append_list]
  show LexClean (run (step (run Mem.create pre) r).1 post)
  have h1 : RdOk true (step (run Mem.create pre) r).1 := by
    cases r with
    | finalizeIndexes ft => exact finalize_rd false _ ft h0
    | vacuum a b => exact vacuum_rd false _ a b hi0 h0
    | create => cases hr
    | put a t => cases hr
    | update id u t => cases hr
    | delete id t => cases hr
    | commit ft => cases hr
    | reopen a b => cases hr
    | crash ft => cases hr
    | beginBatch d ws => cases hr
    | endBatch => cases hr
    | commitSkipIndexes => cases hr
    | doctor v rt rl rv a b c d => cases hr
    | ticket s c b f => cases hr
  exact (rdOk_run_noSkip _ post (inv_step _ r hi0) h1 hns).2.lex rfl

theorem not_hasIdx_of_onlyLex (recs : List (Nat × Entry)) (h : OnlyLex recs) : ¬ HasIdxInsert recs := by
  intro ⟨r, hr, e, he, _⟩
  rw [h r hr] at he; cases he

/-- **C08 (engine contents at a quiescent moment).**  When no Insert / Tombstone record is pending —
    after a commit, a drop+open, a crash+open, an automatic checkpoint — every document the lexical
    engine holds is an Active frame: a committed delete / update has removed the frame's document. -/
theorem C08_lex_quiescent (ops : List Op) (hns : NoSkip ops) (hq : OnlyLex (run Mem.create ops).pending) :
    ∀ x ∈ (run Mem.create ops).lexDocs, isActive (run Mem.create ops).frames x = true := by
  rcases C08_lex_no_skip ops hns with h | h
  · exact absurd h (not_hasIdx_of_onlyLex _ hq)
  · exact h

/-- the full-strength engine claim: at every quiescent moment of EVERY history -/
def C08_lex_full : Prop :=
  ∀ ops : List Op, OnlyLex (run Mem.create ops).pending →
    ∀ x ∈ (run Mem.create ops).lexDocs, isActive (run Mem.create ops).frames x = true

def exDoc8 : PutArgs := { ts := 5, content := "aa", len := 10, plen := 10 }
def exBin8 : PutArgs := { ts := 6, content := "bb", len := 3, plen := 3, st := false }

/-- witness: put; commit; delete 0; commit_skip_indexes — the delete is committed (frame 0 is Deleted,
    nothing is pending) and the engine still holds document 0 -/
def lexWitness : List Op := [.put exDoc8 {}, .commit 40, .delete 0 {}, .commitSkipIndexes]

theorem C08_lex_counterexample : ¬ C08_lex_full := by
  intro h
  have h0 := h lexWitness (by decide) 0 (by decide)
  exact absurd h0 (by decide)

/-- … and the stale document survives later plain commits (incremental engine update) and a drop+open -/
example : (run Mem.create (lexWitness ++ [.put exBin8 {}, .commit 60, .reopen 70 80])).lexDocs = [0] ∧
    isActive (run Mem.create (lexWitness ++ [.put exBin8 {}, .commit 60, .reopen 70 80])).frames 0 = false := by decide

/-- … until the next full rebuild -/
example : (run Mem.create (lexWitness ++ [.finalizeIndexes 50])).lexDocs = [] := by decide

/-! ## D. The search loops -/

/-- **C08 (lexical search, repaired loop).**  With the status test of fixes/C10.diff in the hit loop of
    `try_tantivy_search` / `search_with_lex_fallback` / `search_with_filters_only`, no lexical search path
    (hence no `ask`) reports a frame the committed table marks Superseded or Deleted — for ANY handle state
    and ANY engine answer (no engine assumption at all: stale, duplicated or foreign ids are dropped). -/
theorem C08_search_repaired (frames : List Frame) (answer : List Nat) :
    ∀ id ∈ searchHits true frames answer, isActive frames id = true := by
  intro id hid
  exact hitKept_true_active frames id (List.mem_filter.mp hid).2

/-- **C08 (lexical search, loop as found).**  Without the status test the claim rests on the engine:
    it holds when the engine answers with ids of its documents (E1) and every document is an Active frame
    (`LexClean` with nothing pending: parts C above). -/
theorem C08_search_current_partial (m : Mem) (answer : List Nat) (E1 : ∀ id ∈ answer, id ∈ m.lexDocs)
    (hc : ∀ x ∈ m.lexDocs, isActive m.frames x = true) :
    ∀ id ∈ searchHits false m.frames answer, isActive m.frames id = true := by
  intro id hid
  exact hc id (E1 id (List.mem_filter.mp hid).1)

/-- the loop as found, on every reachable quiescent state, for every engine answer satisfying E1 -/
def C08_search_current_full : Prop :=
  ∀ (ops : List Op) (answer : List Nat), OnlyLex (run Mem.create ops).pending →
    (∀ id ∈ answer, id ∈ (run Mem.create ops).lexDocs) →
    ∀ id ∈ searchHits false (run Mem.create ops).frames answer, isActive (run Mem.create ops).frames id = true

theorem C08_search_current_counterexample : ¬ C08_search_current_full := by
  intro h
  have h0 := h lexWitness [0] (by decide) (by decide) 0 (by decide)
  exact absurd h0 (by decide)

/-- the same witness through the repaired loop: nothing is reported -/
example : searchHits false (run Mem.create lexWitness).frames [0] = [0] ∧
    searchHits true (run Mem.create lexWitness).frames [0] = [] := by decide

/-- the variant the CURRENT source tree has (flags of Gen/C08.lean): once the generated flag says the
    status test is there, the unconditional theorem applies to it -/
theorem C08_search_code (h : Mv.Gen.C08.TANTIVY_STATUS_TEST = true) (frames : List Frame) (answer : List Nat) :
    ∀ id ∈ codeSearchHits frames answer, isActive frames id = true := by
  unfold codeSearchHits; rw [h]; exact C08_search_repaired frames answer

/-! ## E. frame_by_uri -/

theorem find?_reverse_some {α : Type} (p : α → Bool) (l : List α) (x : α) (h : l.reverse.find? p = some x) :
    p x = true ∧ ∃ pre post, l = pre ++ x :: post ∧ ∀ y ∈ post, p y = false := by
  have hp := List.find?_some h
  obtain ⟨as, bs, hl, hbs⟩ := List.find?_eq_some_iff_append.mp h |>.2
  refine ⟨hp, bs.reverse, as.reverse, ?_, ?_⟩
  · have := congrArg List.reverse hl
    simpa using this
  · intro y hy
    have := hbs y (by simpa using hy)
    simpa using this

/-- **C08 (frame_by_uri).**  When some Active frame carries the URI, `frame_by_uri` returns an Active
    frame with that URI, and no frame after it in the table (= with a larger id) is an Active frame with
    the URI: it is the newest active version.  (Only when NO active frame has the URI does it fall back
    to the newest frame of any status.) -/
theorem C08_frame_by_uri (frames : List Frame) (uri : String)
    (hex : ∃ g ∈ frames, g.uri = uri ∧ g.status = .active) :
    ∃ f, frameByUri frames uri = some f ∧ f.uri = uri ∧ f.status = .active ∧
      ∃ pre post, frames = pre ++ f :: post ∧ ∀ y ∈ post, ¬ (y.uri = uri ∧ y.status = .active) := by
  obtain ⟨g, hg, hgu, hga⟩ := hex
  unfold frameByUri
  cases hfind : frames.reverse.find? (fun f => f.uri == uri && f.status == .active) with
  | none =>
    have := List.find?_eq_none.mp hfind g (by simpa using hg)
    simp [hgu, hga] at this
  | some f =>
    obtain ⟨hp, pre, post, hl, hpost⟩ := find?_reverse_some _ frames f hfind
    simp at hp
    refine ⟨f, rfl, hp.1, hp.2, pre, post, hl, ?_⟩
    intro y hy ⟨h1, h2⟩
    have := hpost y hy
    simp [h1, h2] at this

/-! ## A. Status, `superseded_by`, inheritance -/

/-- an inactive frame of the reference stays inactive under every acknowledged operation but `create` -/
theorem specStep_keeps_inactive (S : Spec) (op : Op) (hne : op ≠ Op.create) (i : Nat) (f : SFrame)
    (h : S[i]? = some f) (hf : f.status ≠ .active) :
    ∃ g, (specStep S op)[i]? = some g ∧ g.status ≠ .active := by
  have hlt : i < S.length := (List.getElem?_eq_some_iff.mp h).1
  have hmod : ∀ (t : Nat) (k : SFrame → SFrame), (∀ x, (k x).status ≠ .active) →
      ∃ g, (S.modify t k)[i]? = some g ∧ g.status ≠ .active := by
    intro t k hk
    rw [List.getElem?_modify, h]
    by_cases hti : t = i
    · exact ⟨k f, by simp [hti], hk f⟩
    · exact ⟨f, by simp [hti], hf⟩
  cases op with
  | create => exact absurd rfl hne
  | put a t =>
    refine ⟨f, ?_, hf⟩
    show (specPut S a)[i]? = some f
    unfold specPut
    rw [List.getElem?_append_left hlt]; exact h
  | update id u t =>
    show ∃ g, (specUpdate S id u)[i]? = some g ∧ g.status ≠ .active
    unfold specUpdate
    cases hS : S[id]? with
    | none => exact ⟨f, h, hf⟩
    | some old =>
      simp only
      obtain ⟨g, hg, hgs⟩ := hmod id (SFrame.markSup S.length) (fun x => by simp [SFrame.markSup])
      refine ⟨g, ?_, hgs⟩
      rw [List.getElem?_append_left (by simpa using hlt)]; exact hg
  | delete id t => exact hmod id SFrame.markDel (fun x => by simp [SFrame.markDel])
  | commit ft => exact ⟨f, h, hf⟩
  | reopen a b => exact ⟨f, h, hf⟩
  | crash ft => exact ⟨f, h, hf⟩
  | beginBatch d ws => exact ⟨f, h, hf⟩
  | endBatch => exact ⟨f, h, hf⟩
  | commitSkipIndexes => exact ⟨f, h, hf⟩
  | finalizeIndexes ft => exact ⟨f, h, hf⟩
  | vacuum a b => exact ⟨f, h, hf⟩
  | doctor v rt rl rv a b c d => exact ⟨f, h, hf⟩
  | ticket s c b f' => exact ⟨f, h, hf⟩

theorem specRun_keeps_inactive (S : Spec) (tr : List (Op × Out)) (hne : ∀ x ∈ tr, x.1 ≠ Op.create) (i : Nat) (f : SFrame)
    (h : S[i]? = some f) (hf : f.status ≠ .active) :
    ∃ g, (specRun S tr)[i]? = some g ∧ g.status ≠ .active := by
  induction tr generalizing S f with
  | nil => exact ⟨f, h, hf⟩
  | cons x rest ih =>
    obtain ⟨op, out⟩ := x
    simp only [specRun]
    by_cases hack : out.isAck = true
    · simp only [hack, if_true]
      obtain ⟨g, hg, hgs⟩ := specStep_keeps_inactive S op (hne (op, out) (by simp)) i f h hf
      exact ih _ (fun y hy => hne y (by simp [hy])) g hg hgs
    · simp only [hack]
      exact ih _ (fun y hy => hne y (by simp [hy])) f h hf

theorem trace_ops (m : Mem) (ops : List Op) : ∀ x ∈ trace m ops, x.1 ∈ ops := by
  induction ops generalizing m with
  | nil => intro x hx; cases hx
  | cons op rest ih =>
    intro x hx
    simp only [trace, List.mem_cons] at hx
    rcases hx with hx | hx
    · rw [hx]; simp
    · exact List.mem_cons_of_mem _ (ih _ x hx)

/-- **C08 (inactive for ever).**  A frame that the acknowledged operations have made inactive (abstract
    state = committed table + pending records) is inactive in the committed table after every later
    history that ends in a durable operation (commit, drop+open, crash+open, skip-index commit, vacuum, doctor):
    no later operation — update, delete, vacuum, doctor, reopen — brings it back. -/
theorem C08_inactive_forever (m : Mem) (hi : Inv m) (i : Nat) (f : SFrame) (h : (abs m)[i]? = some f)
    (hf : f.status ≠ .active) (more : List Op) (hnc : ∀ op ∈ more, op ≠ Op.create) (last : Op) (hd : last.durable = true) :
    ∃ g, (run m (more ++ [last])).frames[i]? = some g ∧ g.status ≠ .active := by
  have hlast : last ≠ Op.create := by intro hq; rw [hq] at hd; cases hd
  obtain ⟨hinv, habs⟩ := run_refines m more hi
  rw [run_append]
  have hdf := durable_frames (run m more) last hinv hd
  have hsim := core_sim (run m more) last hinv
  have h1 : ∃ g, (abs (run m more))[i]? = some g ∧ g.status ≠ .active := by
    rw [habs]
    exact specRun_keeps_inactive _ _ (fun x hx => hnc x.1 (trace_ops m more x hx)) i f h hf
  obtain ⟨g1, hg1, hs1⟩ := h1
  have h2 : ∃ g, (abs (step (run m more) last).1)[i]? = some g ∧ g.status ≠ .active := by
    rw [hsim]
    split
    · exact specStep_keeps_inactive _ last hlast i g1 hg1 hs1
    · exact ⟨g1, hg1, hs1⟩
  obtain ⟨g2, hg2, hs2⟩ := h2
  rw [← hdf, List.getElem?_map] at hg2
  cases hfr : (step (run m more) last).1.frames[i]? with
  | none => rw [hfr] at hg2; simp at hg2
  | some fr =>
    rw [hfr] at hg2
    simp only [Option.map_some, Option.some.injEq] at hg2
    exact ⟨fr, rfl, by intro hq; apply hs2; rw [← hg2]; exact hq⟩

/-- **C08 (delete).**  An acknowledged `delete_frame(id)` marks the frame Deleted (and clears
    `superseded_by`) in the abstract state at once … -/
theorem C08_delete_marks (m : Mem) (hi : Inv m) (id : Nat) (t : Trace) (hack : (m.delete id t).2.isAck = true) :
    ∃ old, (abs m)[id]? = some old ∧ (abs (m.delete id t).1)[id]? = some old.markDel := by
  obtain ⟨_, h2, _⟩ := delete_sim m id t hi
  rw [h2 hack]
  -- an acknowledged delete names a committed frame
  have hlt : id < (abs m).length := by
    unfold Mem.delete at hack
    split at hack
    · simp [Out.isAck] at hack
    · rename_i f hf
      have : id < m.frames.length := (List.getElem?_eq_some_iff.mp hf).1
      rw [abs_length m hi]; unfold Mem.nextFrameId; omega
  refine ⟨(abs m)[id], List.getElem?_eq_getElem hlt, ?_⟩
  unfold specDelete
  rw [List.getElem?_modify, List.getElem?_eq_getElem hlt]; simp

/-- … and so the committed table shows it inactive after every later history ending in a durable
    operation. -/
theorem C08_delete_committed (m : Mem) (hi : Inv m) (id : Nat) (t : Trace) (hack : (m.delete id t).2.isAck = true)
    (more : List Op) (hnc : ∀ op ∈ more, op ≠ Op.create) (last : Op) (hd : last.durable = true) :
    ∃ g, (run m (Op.delete id t :: more ++ [last])).frames[id]? = some g ∧ g.status ≠ .active := by
  obtain ⟨old, _, h1⟩ := C08_delete_marks m hi id t hack
  have := C08_inactive_forever (m.delete id t).1 (inv_step m (.delete id t) hi) id old.markDel h1
    (by simp [SFrame.markDel]) more hnc last hd
  exact this

/-- what the reference records for an acknowledged update of `id` (new id `n` = next frame id):
    old version Superseded with `superseded_by = n`; new version Active, `supersedes = id`, every field
    the update did not specify taken from the old version; content kept when no payload is given -/
theorem specUpdate_facts (S : Spec) (id : Nat) (u : UpdArgs) (old : SFrame) (h : S[id]? = some old) :
    (specUpdate S id u)[id]? = some (old.markSup S.length) ∧
    ∃ nw, (specUpdate S id u)[S.length]? = some nw ∧ nw.id = S.length ∧ nw.status = .active ∧
      nw.supersedes = some id ∧ nw.supersededBy = none ∧
      nw.ts = u.ts.getD old.ts ∧ nw.uri = u.uri.getD old.uri ∧
      nw.kind = (match u.kind with | some x => some x | none => old.kind) ∧
      nw.track = (match u.track with | some x => some x | none => old.track) ∧
      nw.tags = (if u.tags.isEmpty then old.tags else u.tags) ∧
      nw.labels = (if u.labels.isEmpty then old.labels else u.labels) ∧
      (u.payload = none → nw.content = old.content ∧ nw.manifest = none) := by
  have hlt : id < S.length := (List.getElem?_eq_some_iff.mp h).1
  unfold specUpdate
  simp only [h]
  constructor
  · rw [List.getElem?_append_left (by simpa using hlt), List.getElem?_modify, h]; simp
  · refine ⟨specDoc (specInherit old u) S.length (some id) (specInherit old u).content, ?_, rfl, rfl, rfl, rfl, rfl, ?_, rfl, rfl, rfl, rfl, ?_⟩
    · have hl : (S.modify id (SFrame.markSup S.length)).length = S.length := by simp
      rw [List.getElem?_append_right (by rw [hl]; exact Nat.le_refl _), hl]; simp
    · simp only [specDoc, specInherit]
      cases u.uri <;> rfl
    · intro hp
      simp [specDoc, specInherit, hp]

/-- **C08 (update, committed).**  An acknowledged `update_frame(id, …)` followed by any durable operation:
    the committed table IS the reference, i.e. (by `specUpdate_facts`) the old version is Superseded with
    `superseded_by` = the new id, the new version is Active with `supersedes = id` and inherits every
    unspecified field. -/
theorem C08_update_committed (m : Mem) (hi : Inv m) (id : Nat) (u : UpdArgs) (t : Trace)
    (hack : (m.update id u t).2.isAck = true) (last : Op) (hd : last.durable = true) :
    (run m [Op.update id u t, last]).frames.map view = specUpdate (abs m) id u := by
  have hlast : last ≠ Op.create := by intro hq; rw [hq] at hd; cases hd
  obtain ⟨h1, h2, _⟩ := update_sim m id u t hi
  show (step (m.update id u t).1 last).1.frames.map view = _
  rw [durable_frames _ last h1 hd, core_sim _ last h1, h2 hack]
  -- a durable operation (commit, drop+open, crash+open, skip-index commit, vacuum, doctor) leaves the
  -- reference as it is
  cases last with
  | create => exact absurd rfl hlast
  | put a t => cases hd
  | update id u t => cases hd
  | delete id t => cases hd
  | commit ft => simp [specStep]
  | reopen a b => simp [specStep]
  | crash ft => simp [specStep]
  | beginBatch d ws => first | (simp [specStep]; done) | cases hd
  | endBatch => first | (simp [specStep]; done) | cases hd
  | commitSkipIndexes => first | (simp [specStep]; done) | cases hd
  | finalizeIndexes ft => first | (simp [specStep]; done) | cases hd
  | vacuum a b => first | (simp [specStep]; done) | cases hd
  | doctor v rt rl rv a b c d => first | (simp [specStep]; done) | cases hd
  | ticket s c b f => first | (simp [specStep]; done) | cases hd

/-- an acknowledged update names a committed frame, which the abstract state knows with the same
    identity fields -/
theorem update_ack_target (m : Mem) (hi : Inv m) (id : Nat) (u : UpdArgs) (t : Trace) (hack : (m.update id u t).2.isAck = true) :
    ∃ old, (abs m)[id]? = some old := by
  have hlt : id < (abs m).length := by
    unfold Mem.update at hack
    split at hack
    · simp [Out.isAck] at hack
    · split at hack
      · simp [Out.isAck] at hack
      · rename_i f hf
        have : id < m.frames.length := (List.getElem?_eq_some_iff.mp hf).1
        rw [abs_length m hi]; unfold Mem.nextFrameId; omega
  exact ⟨(abs m)[id], List.getElem?_eq_getElem hlt⟩

/-- **C08 (update: old version superseded, new version inherits).**  The two previous statements combined,
    read off the committed table after `update_frame(id, …)` and a durable operation. -/
theorem C08_update_supersedes_and_inherits (m : Mem) (hi : Inv m) (id : Nat) (u : UpdArgs) (t : Trace)
    (hack : (m.update id u t).2.isAck = true) (last : Op) (hd : last.durable = true) :
    ∃ old, (abs m)[id]? = some old ∧
    ∃ fo fn, (run m [Op.update id u t, last]).frames[id]? = some fo ∧
      (run m [Op.update id u t, last]).frames[m.nextFrameId]? = some fn ∧
      fo.status = .superseded ∧ fo.supersededBy = some m.nextFrameId ∧
      fn.status = .active ∧ fn.supersedes = some id ∧
      fn.ts = u.ts.getD old.ts ∧ fn.uri = u.uri.getD old.uri ∧
      fn.kind = (match u.kind with | some x => some x | none => old.kind) ∧
      fn.track = (match u.track with | some x => some x | none => old.track) ∧
      fn.tags = (if u.tags.isEmpty then old.tags else u.tags) ∧
      fn.labels = (if u.labels.isEmpty then old.labels else u.labels) ∧
      (u.payload = none → fn.content = old.content) := by
  obtain ⟨old, hold⟩ := update_ack_target m hi id u t hack
  have hc := C08_update_committed m hi id u t hack last hd
  obtain ⟨f1, nw, f2, _, f3, f4, _, f5, f6, f7, f8, f9, f10, f11⟩ := specUpdate_facts (abs m) id u old hold
  rw [abs_length m hi] at f1 f2
  rw [← hc, List.getElem?_map] at f1 f2
  refine ⟨old, hold, ?_⟩
  cases ho : (run m [Op.update id u t, last]).frames[id]? with
  | none => rw [ho] at f1; simp at f1
  | some fo =>
    cases hn : (run m [Op.update id u t, last]).frames[m.nextFrameId]? with
    | none => rw [hn] at f2; simp at f2
    | some fn =>
      rw [ho] at f1; rw [hn] at f2
      simp only [Option.map_some, Option.some.injEq] at f1 f2
      have e1 : (view fo).status = .superseded := by rw [f1]; rfl
      have e2 : (view fo).supersededBy = some m.nextFrameId := by rw [f1]; rfl
      refine ⟨fo, fn, rfl, rfl, e1, e2, ?_, ?_, ?_, ?_, ?_, ?_, ?_, ?_, ?_⟩
      · show (view fn).status = _; rw [f2]; exact f3
      · show (view fn).supersedes = _; rw [f2]; exact f4
      · show (view fn).ts = _; rw [f2]; exact f5
      · show (view fn).uri = _; rw [f2]; exact f6
      · show (view fn).kind = _; rw [f2]; exact f7
      · show (view fn).track = _; rw [f2]; exact f8
      · show (view fn).tags = _; rw [f2]; exact f9
      · show (view fn).labels = _; rw [f2]; exact f10
      · intro hp; show (view fn).content = _; rw [f2]; exact (f11 hp).1

/-! ## Non-vacuity: concrete histories satisfy the hypotheses and show the conclusions by evaluation -/

def exEmb8 : PutArgs := { ts := 7, uri := some "mv2://d", content := "cc", len := 5, plen := 5, emb := some (2, "e1"), tags := ["t"] }
def exHist8 : List Op :=
  [.put exEmb8 {}, .put exDoc8 {}, .commit 40, .delete 1 {}, .update 0 { labels := ["x"] } {}, .commit 80]

example : NoSkip exHist8 := by decide
example : OnlyLex (run Mem.create exHist8).pending := by decide
example : (Op.commit 80).durable = true ∧ (Op.finalizeIndexes 3).fullRebuild = true := ⟨rfl, rfl⟩
/-- frames 0 (updated) and 1 (deleted) are inactive and in no index; the carried embedding belongs to the
    new version 2; `frame_by_uri` finds version 2 -/
example : ((run Mem.create exHist8).frames.map (fun f => (f.id, f.status, f.supersededBy, f.tags, f.labels))) =
      [(0, Status.superseded, some 2, ["t"], []), (1, Status.deleted, none, [], []), (2, Status.active, none, ["t"], ["x"])] := by decide
example : ((run Mem.create exHist8).vec.getD []).map (·.id) = [2] ∧ (run Mem.create exHist8).lexDocs = [2] ∧
    timelineIds true (run Mem.create exHist8) = [2] ∧ inactiveIds (run Mem.create exHist8).frames = [0, 1] := by decide
example : (run Mem.create exHist8).time = some [((7 : Int), 2)] := by decide
example : (frameByUri (run Mem.create exHist8).frames "mv2://d").map (·.id) = some 2 := by decide
example : (Mem.create.put exEmb8 {}).1.commit 40 |>.1 |> fun m => (m.update 0 { labels := ["x"] } {}).2.isAck = true := by decide
example : ∃ g ∈ (run Mem.create exHist8).frames, g.uri = "mv2://d" ∧ g.status = .active := by decide

end Mv.Core
