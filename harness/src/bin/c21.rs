//! C21 — doctor preserves committed data, heals, and is idempotent.
//! impl: Memvid::doctor on real .mv2 files (built, leaked with pending WAL records, and damaged in one
//! repairable structure located through the header/TOC), every option combination, in child processes;
//! model: drv_c21 (MvModel/Doctor.lean: probe -> plan -> execute over the abstract file condition);
//! oracle: active frames + payload hashes after doctor = what the builder was acknowledged, file opens,
//! verify(deep) = Passed, second run Clean (default options) / no-op for the same options, dry-run leaves
//! the bytes untouched.
use memvid_core::io::header::HeaderCodec;
use memvid_core::types::{DoctorOptions, FrameStatus, Toc};
use memvid_core::{Memvid, PutOptions};
use mvh::*;
use std::collections::BTreeMap;
use std::io::Read;
use std::path::{Path, PathBuf};
use std::process::{Command, Stdio};
use std::sync::atomic::{AtomicUsize, Ordering};
use std::sync::{Arc, Mutex};
use std::time::{Duration, Instant};

const HEADER_SIZE: usize = 4096;
const FOOTER_SIZE: usize = 56;

// =======================================================================================
// file builder (real API, runs in a child so that a leaked handle's lock dies with the process)
#[derive(Clone, Debug, PartialEq)]
struct Shape {
    seed: u64,
    /// puts before the first commit
    n1: usize,
    /// puts between first and second commit (0 = one commit only)
    n2: usize,
    /// committed frames deleted (tombstoned) before the last commit
    ndel: usize,
    /// acknowledged puts after the last commit, never committed (handle leaked)
    npend: usize,
    /// a delete acknowledged after the last commit, never committed
    pend_del: bool,
    lex: bool,
    vec: bool,
    /// also commit a chunked document (>= 2400 chars: payload-less parent + chunk frames), a no_raw put (empty stored
    /// payload) and a payload-reusing update
    rich: bool,
}

impl Shape {
    fn to_json(&self) -> Value {
        json!({"seed": self.seed, "n1": self.n1, "n2": self.n2, "ndel": self.ndel, "npend": self.npend,
               "pend_del": self.pend_del, "lex": self.lex, "vec": self.vec, "rich": self.rich})
    }
    fn from_json(v: &Value) -> Shape {
        Shape {
            seed: v["seed"].as_u64().unwrap_or(1), n1: v["n1"].as_u64().unwrap_or(2) as usize,
            n2: v["n2"].as_u64().unwrap_or(0) as usize, ndel: v["ndel"].as_u64().unwrap_or(0) as usize,
            npend: v["npend"].as_u64().unwrap_or(0) as usize, pend_del: v["pend_del"].as_bool().unwrap_or(false),
            lex: v["lex"].as_bool().unwrap_or(true), vec: v["vec"].as_bool().unwrap_or(false),
            rich: v["rich"].as_bool().unwrap_or(false),
        }
    }
    fn key(&self) -> String { self.to_json().to_string() }
}

fn words(rng: &mut Rng, n: usize) -> String {
    const W: &[&str] = &["quantum", "ledger", "harbor", "violet", "granite", "meadow", "signal", "copper", "lantern",
        "orbit", "thistle", "marble", "cinder", "willow", "anchor", "breeze", "cobalt", "ember", "fjord", "glacier"];
    let mut s = String::new();
    for i in 0..n {
        if i > 0 { s.push(' '); }
        s.push_str(*rng.pick::<&str>(W));
    }
    s
}

fn put_opts(ts: i64, uri: &str) -> PutOptions {
    let mut o = PutOptions::default();
    o.timestamp = Some(ts);
    o.uri = Some(uri.to_string());
    o.title = Some(format!("title of {uri}"));
    o.extract_triplets = false;
    o.extract_dates = false;
    o
}

/// what the builder was acknowledged
#[derive(Clone, Debug, Default)]
struct Built {
    /// uri -> payload digest of every frame that must be active (committed or acknowledged pending)
    expect: BTreeMap<String, String>,
    /// the same restricted to what was committed (pending operations ignored)
    committed: BTreeMap<String, String>,
    /// model view: committed frames `(active, digest)` in id order, pending operations
    frames: Vec<(bool, u32)>,
    pending: Vec<String>,
    /// active frames that carry an embedding, in the acknowledged / committed view
    emb_expect: usize,
    emb_committed: usize,
}

fn dig32(b: &[u8]) -> u32 { let h = blake3::hash(b); u32::from_le_bytes(h.as_bytes()[..4].try_into().unwrap()) }

/// builds the file; returns the acknowledged view
fn build_file(path: &Path, sh: &Shape) -> Result<Built, String> {
    let mut rng = Rng::new(sh.seed ^ 0xC21);
    let mut mem = Memvid::create(path).map_err(|e| format!("create: {e}"))?;
    if sh.lex { mem.enable_lex().map_err(|e| format!("enable_lex: {e}"))?; }
    if sh.vec { mem.enable_vec().map_err(|e| format!("enable_vec: {e}"))?; }
    // every put: (uri, digest hex, digest32, has embedding)
    let mut puts: Vec<(String, String, u32, bool)> = Vec::new();
    let put = |mem: &mut Memvid, rng: &mut Rng, puts: &mut Vec<(String, String, u32, bool)>| -> Result<(), String> {
        let k = puts.len();
        let uri = format!("mv2://c21/{k}");
        let ts = 1_700_000_000 + (rng.below(5000) as i64);
        let payload: Vec<u8> = if k % 3 == 2 {
            let n = rng.usize(1, 600); let mut b = rng.bytes(n); b[0] = 0xFF; b
        } else {
            let n = rng.usize(3, 60);
            format!("note {k} {}", words(rng, n)).into_bytes()
        };
        let emb = sh.vec && k % 2 == 0;
        if emb {
            let e: Vec<f32> = (0..4).map(|i| (rng.below(200) as f32) / 8.0 - (i as f32)).collect();
            mem.put_with_embedding_and_options(&payload, e, put_opts(ts, &uri)).map_err(|e| format!("put emb {k}: {e}"))?;
        } else {
            mem.put_bytes_with_options(&payload, put_opts(ts, &uri)).map_err(|e| format!("put {k}: {e}"))?;
        }
        puts.push((uri, b3short(&payload), dig32(&payload), emb));
        Ok(())
    };
    let mut deleted: Vec<usize> = Vec::new();
    // extra committed frames of a rich shape: uri -> digest of the canonical payload
    let mut extra: Vec<(String, String)> = Vec::new();
    for i in 0..sh.n1 {
        put(&mut mem, &mut rng, &mut puts)?;
        if sh.rich && i == 0 {
            // a long plain-text document: stored as a parent frame without payload followed by its chunk frames
            let mut doc = String::new();
            let mut n = 0u32;
            while doc.len() < 3600 {
                n += 1;
                doc.push_str(&format!("Entry {n} of the survey journal notes ridge {} and {} samples near the {} station. ", n * 7 + 3, n * 13 + 5, words(&mut rng, 2)));
            }
            mem.put_bytes_with_options(doc.as_bytes(), put_opts(1_700_000_100, "mv2://c21/doc")).map_err(|e| format!("put doc: {e}"))?;
            extra.push(("mv2://c21/doc".into(), b3short(doc.as_bytes())));
            // a text-only put: nothing stored as raw payload
            let mut o = put_opts(1_700_000_101, "mv2://c21/noraw");
            o.no_raw = true;
            let text = format!("text only note {}", words(&mut rng, 12));
            mem.put_bytes_with_options(text.as_bytes(), o).map_err(|e| format!("put no_raw: {e}"))?;
        }
    }
    mem.commit().map_err(|e| format!("commit 1: {e}"))?;
    let mut force_commit2 = false;
    if sh.rich && sh.ndel == 0 {
        // payload-reusing update of the first note: a new frame that points at the stored bytes of the old one
        let id = mem.frame_by_uri("mv2://c21/0").map_err(|e| format!("lookup 0: {e}"))?.id;
        let mut o = PutOptions::default();
        o.title = Some("retitled".into());
        mem.update_frame(id, None, o, None).map_err(|e| format!("update: {e}"))?;
        force_commit2 = true;
    }
    for _ in 0..sh.n2 { put(&mut mem, &mut rng, &mut puts)?; }
    for d in 0..sh.ndel.min(sh.n1) {
        mem.delete_frame(d as u64).map_err(|e| format!("delete {d}: {e}"))?;
        deleted.push(d);
    }
    if sh.n2 > 0 || sh.ndel > 0 || force_commit2 { mem.commit().map_err(|e| format!("commit 2: {e}"))?; }
    let ncommitted = puts.len();
    let mut out = Built::default();
    for (i, p) in puts.iter().enumerate() { out.frames.push((!deleted.contains(&i), p.2)); }
    for _ in 0..sh.npend { put(&mut mem, &mut rng, &mut puts)?; }
    for p in &puts[ncommitted..] { out.pending.push(format!("p{}", p.2)); }
    let mut pend_deleted: Vec<usize> = Vec::new();
    if sh.pend_del && sh.n1 > 0 {
        let victim = sh.n1 - 1;
        if !deleted.contains(&victim) {
            let vid = if sh.rich { mem.frame_by_uri(&format!("mv2://c21/{victim}")).map_err(|e| format!("lookup victim: {e}"))?.id } else { victim as u64 };
            mem.delete_frame(vid).map_err(|e| format!("pending delete {vid}: {e}"))?;
            pend_deleted.push(victim);
            out.pending.push(format!("d{vid}"));
        }
    }
    for (i, p) in puts.iter().enumerate() {
        if deleted.contains(&i) { continue; }
        if i < ncommitted { out.committed.insert(p.0.clone(), p.1.clone()); if p.3 { out.emb_committed += 1; } }
        if !pend_deleted.contains(&i) { out.expect.insert(p.0.clone(), p.1.clone()); if p.3 { out.emb_expect += 1; } }
    }
    let _ = extra; // the document's canonical payload is normalised text: its reference digest is taken from the undamaged file
    if !out.pending.is_empty() {
        // crash: the handle is never dropped (Drop would commit); the process exits right after
        std::mem::forget(mem);
    } else {
        drop(mem);
    }
    Ok(out)
}

// =======================================================================================
// child side
fn errkind(e: &memvid_core::MemvidError) -> String {
    let d = format!("{e:?}");
    let k: String = d.chars().take_while(|c| c.is_ascii_alphanumeric()).collect();
    format!("err:{k}")
}

fn opts_of(bits: u32) -> DoctorOptions {
    DoctorOptions {
        rebuild_time_index: bits & 1 != 0, rebuild_lex_index: bits & 2 != 0, rebuild_vec_index: bits & 4 != 0,
        vacuum: bits & 8 != 0, dry_run: bits & 16 != 0, quiet: true,
    }
}

fn snake<T: serde::Serialize>(x: &T) -> String { serde_json::to_value(x).ok().and_then(|v| v.as_str().map(|s| s.to_string())).unwrap_or_else(|| "?".into()) }

fn doctor_obs(path: &Path, bits: u32) -> Value {
    let p = path.to_path_buf();
    let r = std::panic::catch_unwind(move || Memvid::doctor(&p, opts_of(bits)));
    match r {
        Err(e) => {
            let msg = if let Some(s) = e.downcast_ref::<&str>() { (*s).to_string() } else if let Some(s) = e.downcast_ref::<String>() { s.clone() } else { "panic".into() };
            json!({"status": "panic", "msg": msg})
        }
        Ok(Err(e)) => json!({"status": errkind(&e), "msg": e.to_string()}),
        Ok(Ok(rep)) => {
            let phases: Vec<String> = rep.plan.phases.iter().map(|p| {
                format!("{}[{}]", snake(&p.phase), p.actions.iter().map(|a| snake(&a.action)).collect::<Vec<_>>().join("+"))
            }).collect();
            let mut codes: Vec<String> = rep.plan.findings.iter().map(|f| snake(&f.code)).collect();
            codes.sort(); codes.dedup();
            let mut extra: Vec<String> = rep.findings.iter().map(|f| format!("{}:{}", snake(&f.code), f.message)).collect();
            extra.sort(); extra.dedup();
            let ran: Vec<String> = rep.phases.iter().map(|p| format!("{}={}", snake(&p.phase), snake(&p.status))).collect();
            json!({"status": snake(&rep.status), "noop": rep.plan.is_noop(), "plan": phases.join(" "), "codes": codes.join(","),
                   "extra": extra, "ran": ran.join(" "),
                   "verification": rep.verification.as_ref().map(|v| snake(&v.overall_status))})
        }
    }
}

/// verify(deep) + open + active frames, all on private copies (the file under doctor stays as doctor left it)
fn observe(path: &Path, tag: &str) -> Value {
    let vf = path.with_extension(format!("{tag}.vf.mv2"));
    let _ = std::fs::copy(path, &vf);
    let vfc = vf.clone();
    let verify = match std::panic::catch_unwind(move || Memvid::verify(&vfc, true)) {
        Ok(Ok(rep)) => {
            let failed: Vec<String> = rep.checks.iter().filter(|c| snake(&c.status) == "failed").map(|c| c.name.clone()).collect();
            if failed.is_empty() { snake(&rep.overall_status) } else { format!("{}:{}", snake(&rep.overall_status), failed.join("+")) }
        }
        Ok(Err(e)) => errkind(&e),
        Err(_) => "panic".into(),
    };
    let _ = std::fs::remove_file(&vf);
    let cp = path.with_extension(format!("{tag}.rw.mv2"));
    let _ = std::fs::copy(path, &cp);
    let cpc = cp.clone();
    let opened = std::panic::catch_unwind(move || -> Result<Value, String> {
        let mut mem = Memvid::open(&cpc).map_err(|e| errkind(&e))?;
        let frames = memvid_core::verif_hooks::verif_frames(&mem);
        let mut active: BTreeMap<String, String> = BTreeMap::new();
        let mut nactive = 0usize;
        let mut ids: Vec<String> = Vec::new();
        let mut emb = 0usize;
        for f in &frames {
            if f.status != FrameStatus::Active { continue; }
            nactive += 1;
            let key = format!("{}|{}", f.id, f.uri.clone().unwrap_or_else(|| "-".into()));
            let dig = match mem.frame_canonical_payload(f.id) {
                Ok(b) => { ids.push(format!("{}:{}", f.id, dig32(&b))); b3short(&b) }
                Err(e) => { ids.push(format!("{}:{}", f.id, errkind(&e))); errkind(&e) }
            };
            if let Ok(Some(_)) = mem.frame_embedding(f.id) { emb += 1; }
            active.insert(key, dig);
        }
        let st = memvid_core::verif_hooks::verif_state(&mem);
        let ix = memvid_core::verif_hooks::verif_index_state(&mem);
        Ok(json!({"active": active, "ids": ids.join(","), "emb": emb, "nactive": nactive, "total": frames.len(), "time_index": st.time_index_present,
                  "lex_docs": ix.lex_num_docs, "vec": st.vec_entries.len(), "lex_enabled": st.lex_enabled, "vec_enabled": st.vec_enabled}))
    });
    let _ = std::fs::remove_file(&cp);
    let open = match opened { Ok(Ok(v)) => v, Ok(Err(e)) => json!({"error": e}), Err(_) => json!({"error": "panic"}) };
    json!({"verify": verify, "open": open})
}

fn child_main(argv: &[String]) -> ! {
    std::panic::set_hook(Box::new(|_| {}));
    match argv[2].as_str() {
        "build" => {
            let path = PathBuf::from(&argv[3]);
            let sh = Shape::from_json(&serde_json::from_str(&argv[4]).expect("shape json"));
            match build_file(&path, &sh) {
                Ok(b) => println!("OBS {}", json!({"expect": b.expect, "committed": b.committed, "frames": b.frames, "pending": b.pending,
                    "emb_expect": b.emb_expect, "emb_committed": b.emb_committed})),
                Err(e) => println!("OBS {}", json!({"error": e})),
            }
        }
        "run" => {
            let path = PathBuf::from(&argv[3]);
            let bits: u32 = argv[4].parse().expect("bits");
            let before = std::fs::read(&path).map(|b| b3short(&b)).unwrap_or_default();
            let d1 = doctor_obs(&path, bits);
            let after = std::fs::read(&path).map(|b| b3short(&b)).unwrap_or_default();
            let o1 = observe(&path, "o1");
            // second run: the same options on the file itself, the default options on a copy
            // (a dry run leaves the bytes alone: nothing to run again; default options: both runs are the same)
            let (mut d2, mut o2, mut d2d) = (Value::Null, Value::Null, Value::Null);
            if bits & 16 == 0 && d1["status"] != "panic" {
                let cp = path.with_extension("again.mv2");
                if bits & 15 != 0 { let _ = std::fs::copy(&path, &cp); }
                d2 = doctor_obs(&path, bits);
                // what a reader sees is re-observed only when the second run did more than verify
                if d2["status"] != "clean" { o2 = observe(&path, "o2"); }
                d2d = if bits & 15 != 0 { doctor_obs(&cp, 0) } else { d2.clone() };
                let _ = std::fs::remove_file(&cp);
            }
            println!("OBS {}", json!({"d1": d1, "unchanged": before == after, "o1": o1, "d2": d2, "o2": o2, "d2d": d2d}));
        }
        "observe" => {
            let path = PathBuf::from(&argv[3]);
            println!("OBS {}", observe(&path, "o0"));
        }
        _ => {}
    }
    std::process::exit(0);
}

fn run_child(args: &[String]) -> Result<Value, String> {
    let exe = std::env::current_exe().map_err(|e| e.to_string())?;
    let mut ch = Command::new(exe).arg("child").args(args).stdin(Stdio::null()).stdout(Stdio::piped()).stderr(Stdio::null())
        .spawn().map_err(|e| e.to_string())?;
    let so = ch.stdout.take();
    let reader = std::thread::spawn(move || { let mut out = String::new(); if let Some(mut so) = so { let _ = so.read_to_string(&mut out); } out });
    let t0 = Instant::now();
    loop {
        match ch.try_wait() {
            Ok(Some(_)) => break,
            Ok(None) => {
                if t0.elapsed() > Duration::from_secs(900) { let _ = ch.kill(); let _ = ch.wait(); return Err("hang".into()); }
                std::thread::sleep(Duration::from_millis(3));
            }
            Err(e) => return Err(e.to_string()),
        }
    }
    let out = reader.join().unwrap_or_default();
    for line in out.lines() {
        if let Some(j) = line.strip_prefix("OBS ") {
            return serde_json::from_str(j).map_err(|e| e.to_string());
        }
    }
    Err("died".into())
}

// =======================================================================================
// damage, located through the header and the TOC of the intact file
#[derive(Clone, Debug, PartialEq)]
enum Damage {
    /// header.footer_offset replaced: 0 = one byte early, 1 = one byte late, 2 = zero, 3 = beyond the file,
    /// 4 = the header's own end (4096), 5 = points at the commit footer
    HdrPtr(u8),
    /// byte `i` of header.toc_checksum flipped
    HdrTocSum(u8),
    /// byte `i` of the checksum field stored in the TOC flipped (also invalidates the footer hash over the TOC)
    TocSum(u8),
    /// commit footer: 0 = magic, 1 = toc_len, 2 = toc_hash, 3 = generation (not validated by anything)
    Footer(u8),
    /// index segment: 0 = time (byte at n/8 flipped), 1 = lex (first Tantivy segment, byte at n/8 flipped),
    /// 2 = vec (first four bytes inverted: the segment no longer decodes)
    Index(u8, u8),
    /// first 100 bytes of the embedded WAL region set to 0xFF (outside the property's quantifier)
    Wal,
}

impl Damage {
    fn to_json(&self) -> Value {
        match *self {
            Damage::HdrPtr(v) => json!({"k": "hdr-ptr", "v": v}),
            Damage::HdrTocSum(i) => json!({"k": "hdr-tocsum", "v": i}),
            Damage::TocSum(i) => json!({"k": "toc-sum", "v": i}),
            Damage::Footer(p) => json!({"k": "footer", "v": p}),
            Damage::Index(w, n) => json!({"k": "index", "v": w, "n": n}),
            Damage::Wal => json!({"k": "wal"}),
        }
    }
    fn from_json(v: &Value) -> Option<Damage> {
        let x = v["v"].as_u64().unwrap_or(0) as u8;
        Some(match v["k"].as_str().unwrap_or("") {
            "hdr-ptr" => Damage::HdrPtr(x), "hdr-tocsum" => Damage::HdrTocSum(x), "toc-sum" => Damage::TocSum(x),
            "footer" => Damage::Footer(x), "index" => Damage::Index(x, v["n"].as_u64().unwrap_or(0) as u8), "wal" => Damage::Wal,
            _ => return None,
        })
    }
    fn name(&self) -> String {
        match *self {
            Damage::HdrPtr(_) => "hdr-ptr".into(), Damage::HdrTocSum(_) => "hdr-tocsum".into(),
            Damage::TocSum(_) => "toc-sum".into(), Damage::Footer(p) => format!("footer-{}", ["magic", "len", "hash", "gen"][(p % 4) as usize]),
            Damage::Index(w, _) => format!("index-{}", ["time", "lex", "vec"][(w % 3) as usize]), Damage::Wal => "wal".into(),
        }
    }
}

struct Layout { len: usize, toc_off: usize, wal_off: usize, wal_size: usize, toc: Toc }

fn layout(bytes: &[u8]) -> Result<Layout, String> {
    let hb: &[u8; HEADER_SIZE] = bytes.get(..HEADER_SIZE).ok_or("short file")?.try_into().map_err(|_| "short file")?;
    let hdr = HeaderCodec::decode(hb).map_err(|e| format!("header: {e}"))?;
    let len = bytes.len();
    let toc_off = hdr.footer_offset as usize;
    if toc_off + FOOTER_SIZE > len { return Err("footer offset beyond file".into()); }
    let toc = Toc::decode(&bytes[toc_off..len - FOOTER_SIZE]).map_err(|e| format!("toc: {e}"))?;
    Ok(Layout { len, toc_off, wal_off: hdr.wal_offset as usize, wal_size: hdr.wal_size as usize, toc })
}

fn index_span(lay: &Layout, w: u8) -> Option<(u64, u64)> {
    match w % 3 {
        0 => lay.toc.time_index.as_ref().map(|m| (m.bytes_offset, m.bytes_length)),
        1 => lay.toc.segment_catalog.tantivy_segments.first().map(|s| (s.common.bytes_offset, s.common.bytes_length)),
        _ => lay.toc.indexes.vec.as_ref().map(|m| (m.bytes_offset, m.bytes_length)),
    }.filter(|(_, l)| *l > 0)
}

/// None = the structure does not exist in this file
fn apply_damage(bytes: &mut [u8], lay: &Layout, d: &Damage) -> Option<String> {
    let fo = lay.len - FOOTER_SIZE;
    match *d {
        Damage::HdrPtr(v) => {
            let t = lay.toc_off as u64;
            let nv: u64 = match v % 6 { 0 => t - 1, 1 => t + 1, 2 => 0, 3 => lay.len as u64 + 1000, 4 => 4096, _ => fo as u64 };
            bytes[8..16].copy_from_slice(&nv.to_le_bytes());
            Some(format!("header.footer_offset {t} -> {nv}"))
        }
        Damage::HdrTocSum(i) => { let o = 48 + (i % 32) as usize; bytes[o] ^= 0x5A; Some(format!("header byte {o} flipped")) }
        Damage::TocSum(i) => { let o = fo - 32 + (i % 32) as usize; bytes[o] ^= 0x5A; Some(format!("toc checksum byte {o} flipped")) }
        Damage::Footer(p) => {
            let o = match p % 4 { 0 => fo + 3, 1 => fo + 9, 2 => fo + 20, _ => fo + 50 };
            bytes[o] ^= 0x5A;
            Some(format!("footer byte {o} flipped"))
        }
        Damage::Index(w, n) => {
            let (off, l) = index_span(lay, w)?;
            if (off + l) as usize > bytes.len() { return None; }
            if w % 3 == 2 {
                for o in off..(off + l.min(4)) { bytes[o as usize] ^= 0xFF; }
                Some(format!("vec index first bytes inverted (segment {off}+{l})"))
            } else {
                let o = (off + (l * (n % 8) as u64) / 8) as usize;
                bytes[o] ^= 0x5A;
                Some(format!("index {} byte {o} flipped (segment {off}+{l})", ["time", "lex", "vec"][(w % 3) as usize]))
            }
        }
        Damage::Wal => {
            let n = lay.wal_size.min(100);
            for b in &mut bytes[lay.wal_off..lay.wal_off + n] { *b = 0xFF; }
            Some(format!("wal bytes {}..{} set to 0xFF", lay.wal_off, lay.wal_off + n))
        }
    }
}

/// the abstract condition (flags word of the model's file encoding) of `base` damaged by `faults`
fn flags_of(lay: &Layout, faults: &[Damage]) -> String {
    let has = |f: &dyn Fn(&Damage) -> bool| faults.iter().any(|d| f(d));
    let toc_sum = has(&|d| matches!(d, Damage::TocSum(_)));
    let hdr_ptr = !has(&|d| matches!(d, Damage::HdrPtr(_)));
    let hdr_sum = !(toc_sum || has(&|d| matches!(d, Damage::HdrTocSum(_))));
    let foot = if has(&|d| matches!(d, Damage::Footer(p) if p % 4 == 0)) { 'm' }
        else if toc_sum || has(&|d| matches!(d, Damage::Footer(p) if p % 4 == 1 || p % 4 == 2)) { 'b' } else { 'o' };
    let idx = |w: u8| -> char {
        if index_span(lay, w).is_none() { 'm' } else if has(&|d| matches!(d, Damage::Index(x, _) if x % 3 == w)) { 'c' } else { 'o' }
    };
    let b = |x: bool| if x { '1' } else { '0' };
    format!("{}{}{}{}{}{}{}{}", b(hdr_ptr), b(hdr_sum), b(!toc_sum), foot, idx(0), idx(1), idx(2), b(!has(&|d| matches!(d, Damage::Wal))))
}

fn scratch() -> PathBuf {
    static N: AtomicUsize = AtomicUsize::new(0);
    let base = std::env::temp_dir().join(format!("c21-{}-{}", std::process::id(), N.fetch_add(1, Ordering::SeqCst)));
    let _ = std::fs::create_dir_all(&base);
    base
}

// =======================================================================================
// cases
#[derive(Clone, Debug)]
struct Case { shape: Shape, faults: Vec<Damage>, bits: u32 }

impl Case {
    fn to_json(&self) -> Value {
        json!({"shape": self.shape.to_json(), "faults": self.faults.iter().map(|d| d.to_json()).collect::<Vec<_>>(), "bits": self.bits})
    }
    fn from_json(v: &Value) -> Case {
        Case {
            shape: Shape::from_json(&v["shape"]),
            faults: v["faults"].as_array().map(|a| a.iter().filter_map(Damage::from_json).collect()).unwrap_or_default(),
            bits: v["bits"].as_u64().unwrap_or(0) as u32,
        }
    }
    fn fault_names(&self) -> String { if self.faults.is_empty() { "none".into() } else { self.faults.iter().map(|d| d.name()).collect::<Vec<_>>().join("+") } }
}

struct Base {
    bytes: Vec<u8>, lay: Layout, built: Built,
    /// what opening the undamaged file shows (pending records replayed): `id|uri` -> digest of the canonical payload of
    /// EVERY active frame (document parents are reassembled from their chunks), and how many carry an embedding
    ideal: BTreeMap<String, String>, ideal_emb: usize,
}

fn build_base(dir: &Path, sh: &Shape) -> Result<Base, String> {
    let path = dir.join(format!("base-{}.mv2", b3short(sh.key().as_bytes())));
    let v = run_child(&["build".into(), path.to_string_lossy().to_string(), sh.to_json().to_string()])?;
    if let Some(e) = v["error"].as_str() { return Err(format!("builder: {e}")); }
    let built = Built {
        expect: serde_json::from_value(v["expect"].clone()).map_err(|e| e.to_string())?,
        committed: serde_json::from_value(v["committed"].clone()).map_err(|e| e.to_string())?,
        frames: serde_json::from_value(v["frames"].clone()).map_err(|e| e.to_string())?,
        pending: serde_json::from_value(v["pending"].clone()).map_err(|e| e.to_string())?,
        emb_expect: v["emb_expect"].as_u64().unwrap_or(0) as usize,
        emb_committed: v["emb_committed"].as_u64().unwrap_or(0) as usize,
    };
    let bytes = std::fs::read(&path).map_err(|e| e.to_string())?;
    let o = run_child(&["observe".into(), path.to_string_lossy().to_string()])?;
    let _ = std::fs::remove_file(&path);
    if !o["open"]["error"].is_null() { return Err(format!("undamaged base does not open: {}", o["open"]["error"])); }
    let ideal: BTreeMap<String, String> = serde_json::from_value(o["open"]["active"].clone()).map_err(|e| e.to_string())?;
    if ideal.values().any(|d| d.starts_with("err:")) { return Err(format!("undamaged base has unreadable frames: {ideal:?}")); }
    // the builder's acknowledgements must be in that view
    for (u, d) in &built.expect {
        if !ideal.iter().any(|(k, v)| k.split_once('|').map(|x| x.1) == Some(u.as_str()) && v == d) {
            return Err(format!("undamaged base does not show acknowledged frame {u}"));
        }
    }
    if sh.rich && !ideal.keys().any(|k| k.ends_with("|mv2://c21/doc")) { return Err("undamaged base does not show the chunked document".into()); }
    if sh.rich && o["open"]["nactive"].as_u64().unwrap_or(0) < 5 { return Err("the long document was not stored as parent + chunk frames".into()); }
    let ideal_emb = o["open"]["emb"].as_u64().unwrap_or(0) as usize;
    let lay = layout(&bytes)?;
    Ok(Base { bytes, lay, built, ideal, ideal_emb })
}

/// the run of one case on the real code: damaged copy -> child
struct RealRun { what: Vec<String>, flags: String, stale_footer: bool, obs: Result<Value, String> }

fn run_real(dir: &Path, idx: usize, base: &Base, c: &Case) -> Option<RealRun> {
    let mut by = base.bytes.clone();
    let mut what = Vec::new();
    for d in &c.faults { what.push(apply_damage(&mut by, &base.lay, d)?); }
    let foot_damaged = c.faults.iter().any(|d| matches!(d, Damage::TocSum(_)) || matches!(d, Damage::Footer(p) if p % 4 != 3));
    let stale_footer = foot_damaged && memvid_core::footer::find_last_valid_footer(&by).is_some();
    let f = dir.join(format!("case-{idx}.mv2"));
    std::fs::write(&f, &by).ok()?;
    let obs = run_child(&["run".into(), f.to_string_lossy().to_string(), c.bits.to_string()]);
    let _ = std::fs::remove_file(&f);
    Some(RealRun { what, flags: flags_of(&base.lay, &c.faults), stale_footer, obs })
}

fn model_frames_toc(lay: &Layout) -> String {
    if lay.toc.frames.is_empty() { "-".into() } else { lay.toc.frames.iter().map(|f| format!("{}:{}:0", f.id, if f.status == FrameStatus::Active { 1 } else { 0 })).collect::<Vec<_>>().join(",") }
}
fn model_frames(b: &Built) -> String {
    if b.frames.is_empty() { "-".into() } else { b.frames.iter().enumerate().map(|(i, (a, d))| format!("{i}:{}:{d}", if *a { 1 } else { 0 })).collect::<Vec<_>>().join(",") }
}
fn model_pending(b: &Built) -> String { if b.pending.is_empty() { "-".into() } else { b.pending.join(",") } }

/// the part of a doctor observation the model predicts: `status | plan | ran`
fn real_line(d: &Value) -> String {
    let st = d["status"].as_str().unwrap_or("?");
    if st == "panic" { return "panic | - | -".into(); }
    if st.starts_with("err:") { return format!("error | {} | -", "?"); }
    let ran = d["ran"].as_str().unwrap_or(""); 
    format!("{st} | {} | {}", d["plan"].as_str().unwrap_or("?"), if ran.is_empty() { "-" } else { ran })
}

struct ModelRun { status: String, why: String, plan: String, ran: String, file: String, opens: bool, verify: String, logical: String }

fn ask_model(drv: &mut Driver, bits: u32, file: &str) -> Result<ModelRun, String> {
    let a = drv.ask(&format!("run 0 {bits} {file}"));
    let parts: Vec<&str> = a.split(" | ").collect();
    if parts.len() != 6 { return Err(a); }
    let sw: Vec<&str> = parts[0].split(' ').collect();
    let ov: Vec<&str> = parts[4].split(' ').collect();
    Ok(ModelRun {
        status: sw[0].into(), why: sw.get(1).unwrap_or(&"-").to_string(), plan: parts[1].into(), ran: parts[2].into(), file: parts[3].into(),
        opens: ov.first().map(|s| *s == "opens=1").unwrap_or(false), verify: ov.get(1).map(|s| s.trim_start_matches("verify=").to_string()).unwrap_or_default(),
        logical: parts[5].trim_start_matches("logical=").into(),
    })
}

impl ModelRun {
    fn line(&self) -> String {
        if self.status == "error" { return "error | ? | -".into(); }
        format!("{} | {} | {}", self.status, self.plan, self.ran)
    }
}

/// what `Why` of the model corresponds to in the report's additional findings
fn real_why(d: &Value) -> String {
    let extra: Vec<String> = d["extra"].as_array().map(|a| a.iter().filter_map(|x| x.as_str().map(|s| s.to_string())).collect()).unwrap_or_default();
    if extra.iter().any(|e| e.contains("WAL corrupted and recovery failed")) { "wal-recovery-failed".into() }
    else if extra.iter().any(|e| e.contains("Aggressive repair succeeded but file still corrupt")) { "repaired-still-corrupt".into() }
    else if extra.iter().any(|e| e.contains("Aggressive repair failed")) { "repair-failed".into() }
    else if extra.iter().any(|e| e.starts_with("lock_contention:")) { "open-other".into() }
    else { "-".into() }
}

fn evaluate(c: &Case, base: &Base, rr: &RealRun, drv: &mut Option<Driver>, sum: &mut Summary, known: &[String], verbose: bool) {
    let case_json = c.to_json();
    let dry = c.bits & 16 != 0;
    let forced = c.bits & 15 != 0;
    let v = match &rr.obs {
        Ok(v) => v.clone(),
        Err(e) => { sum.oracle_violation("doctor-child-died-or-hung", &format!("child process: {e}"), case_json); return; }
    };
    let has_wal = c.faults.iter().any(|d| matches!(d, Damage::Wal));
    let real_faults = c.faults.iter().filter(|d| !matches!(d, Damage::Footer(p) if p % 4 == 3)).count();
    let in_quantifier = !has_wal && real_faults <= 1 && !rr.stale_footer;
    let d1 = &v["d1"]; let o1 = &v["o1"]; let d2 = &v["d2"]; let o2 = &v["o2"]; let d2d = &v["d2d"];
    let st1 = d1["status"].as_str().unwrap_or("?").to_string();
    if verbose {
        println!("case {} opts={} flags={} ({})", c.fault_names(), c.bits, rr.flags, rr.what.join("; "));
        for k in ["d1", "unchanged", "o1", "d2", "o2", "d2d"] { println!("  impl {k}: {}", v[k]); }
    }
    for d in &c.faults { sum.branch(&format!("fault-{}", d.name())); }
    if c.faults.is_empty() { sum.branch("fault-none"); }
    if !base.built.pending.is_empty() { sum.branch("crash-left-pending"); }
    if c.shape.rich { sum.branch("chunked-document-and-empty-payload-frames"); if c.bits & 8 != 0 && c.bits & 16 == 0 { sum.branch("vacuum-over-empty-payload-frames"); } }
    if dry { sum.branch("dry-run"); }
    if c.bits & 8 != 0 { sum.branch("vacuum"); }
    if c.bits & 7 != 0 { sum.branch("forced-rebuild"); }
    sum.branch(&format!("status-{st1}"));
    if !in_quantifier { sum.branch("outside-quantifier"); }
    if rr.stale_footer { sum.branch("stale-footer-present"); }

    // ---------------------------------------------------------------- model
    let mut model_same = false;
    let mut m1: Option<ModelRun> = None;
    if let (Some(d), false) = (drv.as_mut(), rr.stale_footer) {
        // rich shapes: the model gets the committed TOC's frame list without contents (contents are the oracle's business)
        let file0 = format!("{} {} {}", if c.shape.rich { model_frames_toc(&base.lay) } else { model_frames(&base.built) }, model_pending(&base.built), rr.flags);
        match ask_model(d, c.bits, &file0) {
            Err(a) => { sum.disagreement("model driver answer unreadable", case_json.clone(), &a, ""); return; }
            Ok(m) => {
                if verbose { println!("  model d1: {} why={} file={} opens={} verify={} logical={}", m.line(), m.why, m.file, m.opens, m.verify, m.logical); }
                let mut diffs: Vec<String> = Vec::new();
                let rl = real_line(d1);
                if st1 != "panic" {
                    if rl != m.line() { diffs.push(format!("first run: impl [{rl}] model [{}]", m.line())); }
                    if m.status == "failed" && real_why(d1) != m.why { diffs.push(format!("failure reason: impl {} model {}", real_why(d1), m.why)); }
                    let real_opens = o1["open"]["error"].is_null();
                    if real_opens != m.opens { diffs.push(format!("opens after first run: impl {real_opens} model {}", m.opens)); }
                    let rv = o1["verify"].as_str().unwrap_or("?");
                    let rvc = if rv == "passed" { "passed" } else if rv.starts_with("failed") { "failed" } else { "error" };
                    // the model's verify takes the strict reading of a corrupt time index (Failed); the real check only
                    // sees damage that changes entry count, order or framing
                    let time_corrupt_left = m.file.split(' ').nth(2).map(|f| f.as_bytes().get(4) == Some(&b'c')).unwrap_or(false);
                    if rvc != m.verify && !(time_corrupt_left && m.verify == "failed" && rvc == "passed") { diffs.push(format!("verify after first run: impl {rv} model {}", m.verify)); }
                    if time_corrupt_left && rvc == "passed" { sum.branch("verify-misses-time-index-damage"); }
                    if real_opens && !c.shape.rich {
                        let ids = o1["open"]["ids"].as_str().unwrap_or("");
                        let ids = if ids.is_empty() { "-" } else { ids };
                        if ids != m.logical { diffs.push(format!("active frames after first run: impl {ids} model {}", m.logical)); }
                    }
                    if dry != v["unchanged"].as_bool().unwrap_or(false) && dry { diffs.push("dry run changed the file".into()); }
                    // second runs on the model's result
                    if !d2.is_null() { if let Ok(m2) = ask_model(d, c.bits, &m.file) {
                        if verbose { println!("  model d2: {} file={}", m2.line(), m2.file); }
                        let rl2 = real_line(d2);
                        if rl2 != m2.line() { diffs.push(format!("second run (same options): impl [{rl2}] model [{}]", m2.line())); }
                    } }
                    if !d2d.is_null() { if let Ok(m3) = ask_model(d, 0, &m.file) {
                        if verbose { println!("  model d2default: {}", m3.line()); }
                        let rl3 = real_line(d2d);
                        if rl3 != m3.line() { diffs.push(format!("second run (default options): impl [{rl3}] model [{}]", m3.line())); }
                    } }
                }
                if diffs.is_empty() { model_same = true; } else {
                    sum.disagreement(&diffs.join(" ;; "), case_json.clone(), &m.line(), &rl);
                }
                m1 = Some(m);
            }
        }
    }

    // ---------------------------------------------------------------- oracle (independent of the model)
    let mut fails: Vec<(&'static str, String)> = Vec::new();
    let act = |o: &Value| -> Option<BTreeMap<String, String>> { if o["open"]["error"].is_null() { serde_json::from_value(o["open"]["active"].clone()).ok() } else { None } };
    // "never removes or alters an active frame": every active frame (id, uri) with the digest of its canonical payload,
    // document parents reassembled from their chunks, against what opening the undamaged file shows
    let altered = |a: &BTreeMap<String, String>| -> Option<String> {
        if has_wal {
            // pending records are gone with the zeroed WAL (outside the quantifier): the committed acknowledgements must be there
            let lost: Vec<&String> = base.built.committed.iter().filter(|(u, d)| !a.iter().any(|(k, v)| k.split_once('|').map(|x| x.1) == Some(u.as_str()) && v == *d)).map(|(u, _)| u).collect();
            let unreadable: Vec<&String> = a.iter().filter(|(_, v)| v.starts_with("err:")).map(|(k, _)| k).collect();
            if lost.is_empty() && unreadable.is_empty() { None } else { Some(format!("committed frames lost/altered {lost:?}, unreadable {unreadable:?}")) }
        } else if a != &base.ideal {
            let lost: Vec<String> = base.ideal.iter().filter(|(k, d)| a.get(*k) != Some(*d)).map(|(k, _)| format!("{k}={}", a.get(k).cloned().unwrap_or_else(|| "absent".into()))).collect();
            let extra: Vec<&String> = a.keys().filter(|k| !base.ideal.contains_key(*k)).collect();
            Some(format!("frames lost/altered {lost:?}, unexpected {extra:?}"))
        } else { None }
    };
    if st1 == "panic" { fails.push(("doctor-panics", format!("Memvid::doctor panicked: {}", d1["msg"].as_str().unwrap_or("")))); }
    // preservation: whatever doctor reports, the acknowledged active frames are what a reader gets afterwards
    if let Some(a) = act(o1) {
        if let Some(w) = altered(&a) { fails.push(("active-frames-altered", format!("after doctor ({st1}) {w}"))); }
        let vec_fault = c.faults.iter().any(|d| matches!(d, Damage::Index(w, _) if w % 3 == 2));
        if !vec_fault && !has_wal && o1["open"]["emb"].as_u64().unwrap_or(0) as usize != base.ideal_emb {
            fails.push(("rebuild-vec-index-discards-embeddings", format!("{} of {} stored embeddings readable after doctor ({st1})", o1["open"]["emb"], base.ideal_emb)));
        }
    }
    if dry {
        if !v["unchanged"].as_bool().unwrap_or(false) && st1 != "panic" { fails.push(("dry-run-modified-file", "file bytes changed by a dry run".into())); }
        if st1 != "panic" && st1 != "clean" && st1 != "plan_only" { fails.push(("dry-run-status", format!("dry run reported {st1}"))); }
        if st1 == "clean" && (o1["verify"] != "passed" || act(o1).is_none()) { fails.push(("dry-run-clean-on-unhealthy-file", format!("dry run says clean, verify={} ", o1["verify"]))); }
    } else if in_quantifier && st1 != "panic" {
        // heals
        if st1 != "clean" && st1 != "healed" { fails.push(("not-healed", format!("doctor reported {st1} ({})", real_why(d1)))); }
        if act(o1).is_none() { fails.push(("not-healed", format!("file does not open after doctor: {}", o1["open"]["error"]))); }
        if o1["verify"] != "passed" { fails.push(("not-healed", format!("verify(deep) after doctor: {}", o1["verify"]))); }
        // idempotent: an immediate second run reports Clean (default options; with forced rebuilds/vacuum the same
        // options run again is all forced work: Healed, never Failed) and does not change what a reader sees
        let s2d = d2d["status"].as_str().unwrap_or("?");
        if s2d != "clean" { fails.push(("second-run-not-clean", format!("second run with default options reported {s2d}"))); }
        let s2 = d2["status"].as_str().unwrap_or("?");
        let want2 = if forced { "healed" } else { "clean" };
        if s2 != want2 { fails.push(("second-run-not-clean", format!("second run with the same options reported {s2}, expected {want2}"))); }
        if !o2.is_null() {
            match act(o2) {
                Some(a) => if let Some(w) = altered(&a) { fails.push(("active-frames-altered", format!("second doctor run: {w}"))); },
                None => fails.push(("not-healed", format!("file does not open after the second run: {}", o2["open"]["error"]))),
            }
            if o2["verify"] != "passed" { fails.push(("not-healed", format!("verify(deep) after the second run: {}", o2["verify"]))); }
        }
    }
    let nontrivial = !c.faults.is_empty() || !base.built.pending.is_empty();
    if fails.is_empty() {
        sum.branch("oracle-held");
    } else {
        // signature of the failure class
        let toc_sum = c.faults.iter().any(|d| matches!(d, Damage::TocSum(_)));
        let mut seen: Vec<String> = Vec::new();
        for (sig0, what) in &fails {
            let sig = if *sig0 == "not-healed" && toc_sum && base.built.pending.is_empty() { "toc-checksum-damage-not-healed" }
                else if *sig0 == "second-run-not-clean" && toc_sum && base.built.pending.is_empty() { "toc-checksum-damage-not-healed" } else { sig0 };
            if seen.iter().any(|s| s == sig) { continue; }
            seen.push(sig.to_string());
            // a recorded finding must be predicted by the model as well
            let predicted = model_same || match (sig, &m1) {
                ("rebuild-vec-index-discards-embeddings", Some(m)) => m.file.split(' ').nth(2).map(|f| f.as_bytes().get(6) == Some(&b'm')).unwrap_or(false),
                _ => false,
            };
            if predicted && known.iter().any(|k| k == sig) {
                sum.known_finding(sig, &format!("{} opts={}: {what}", c.fault_names(), c.bits), case_json.clone());
                sum.branch("known-finding-reproduced");
            } else {
                sum.oracle_violation(sig, &format!("{} opts={} flags={}: {what}", c.fault_names(), c.bits, rr.flags), case_json.clone());
            }
        }
    }
    let canon = format!("{}|{}|{}", c.shape.key(), c.faults.iter().map(|d| d.to_json().to_string()).collect::<Vec<_>>().join("+"), c.bits);
    sum.case(&canon, nontrivial, || json!({"shape": c.shape.to_json(), "faults": c.fault_names(), "opts": c.bits, "flags": rr.flags, "status": st1,
        "second_run_default": d2d["status"], "verify": o1["verify"]}));
}

fn run_all(cases: &[Case], dir: &Path, jobs: usize, drv: &mut Option<Driver>, sum: &mut Summary, known: &[String], verbose: bool) {
    // bases (one build per distinct shape)
    let mut bases: BTreeMap<String, Arc<Base>> = BTreeMap::new();
    let mut failed: Vec<String> = Vec::new();
    for c in cases {
        if bases.contains_key(&c.shape.key()) || failed.contains(&c.shape.key()) { continue; }
        match build_base(dir, &c.shape) {
            Ok(b) => { bases.insert(c.shape.key(), Arc::new(b)); }
            Err(e) => {
                // a shape that cannot be built silently removes coverage: report it as a broken tie, never skip it
                failed.push(c.shape.key());
                sum.disagreement(&format!("base file could not be built/observed: {e}"), c.shape.to_json(), "", &e);
            }
        }
    }
    let cases_arc: Arc<Vec<Case>> = Arc::new(cases.to_vec());
    let bases_arc = Arc::new(bases);
    // batches: the real runs of a batch in parallel, then its evaluation; stop early once enough has gone wrong
    let batch = (jobs.max(1) * 4).max(8);
    let mut start = 0usize;
    while start < cases.len() {
        let end = (start + batch).min(cases.len());
        let next = Arc::new(AtomicUsize::new(start));
        let results: Arc<Mutex<Vec<Option<RealRun>>>> = Arc::new(Mutex::new((start..end).map(|_| None).collect()));
        let mut hs = Vec::new();
        for _ in 0..jobs.max(1) {
            let (next, results, cases_arc, bases_arc, dir) = (next.clone(), results.clone(), cases_arc.clone(), bases_arc.clone(), dir.to_path_buf());
            hs.push(std::thread::spawn(move || loop {
                let i = next.fetch_add(1, Ordering::SeqCst);
                if i >= end { break; }
                let c = &cases_arc[i];
                let Some(b) = bases_arc.get(&c.shape.key()) else { continue };
                let r = run_real(&dir, i, b, c);
                results.lock().unwrap()[i - start] = r;
            }));
        }
        for h in hs { let _ = h.join(); }
        let mut results = results.lock().unwrap();
        for i in start..end {
            let c = &cases[i];
            let Some(b) = bases_arc.get(&c.shape.key()) else { continue };
            match results[i - start].take() {
                Some(rr) => evaluate(c, b, &rr, drv, sum, known, verbose),
                None => { sum.branch("structure-absent"); }
            }
        }
        if sum.oracle_violations.len() + sum.disagreements.len() >= 6 { break; }
        start = end;
    }
}

fn single_faults(rng: &mut Rng) -> Vec<Damage> {
    vec![Damage::HdrPtr(rng.below(6) as u8), Damage::HdrTocSum(rng.below(32) as u8), Damage::TocSum(rng.below(32) as u8),
         Damage::Footer(0), Damage::Footer(1), Damage::Footer(2), Damage::Footer(3),
         Damage::Index(0, rng.below(8) as u8), Damage::Index(1, rng.below(8) as u8), Damage::Index(2, 0)]
}

fn gen_shape(rng: &mut Rng) -> Shape {
    let n1 = rng.usize(1, 4);
    Shape { seed: rng.below(1 << 20), n1, n2: rng.usize(0, 2), ndel: if rng.chance(1, 3) { rng.usize(1, n1) } else { 0 },
            npend: if rng.chance(1, 2) { rng.usize(1, 3) } else { 0 }, pend_del: rng.chance(1, 4), lex: true, vec: rng.chance(2, 3), rich: rng.chance(1, 2) }
}

fn main() {
    let argv: Vec<String> = std::env::args().collect();
    if argv.get(1).map(|s| s.as_str()) == Some("child") { child_main(&argv); }
    let args = parse_args();
    let mut drv = if args.driver.to_str() == Some("none") || args.driver.as_os_str().is_empty() { None } else { Some(Driver::spawn(&args.driver).expect("spawn driver")) };
    let known: Vec<String> = args.extra.get("known").map(|s| s.split(',').map(|x| x.to_string()).collect()).unwrap_or_default();
    let mut sum = Summary::new("C21", &args,
        "real .mv2 files built through the public API in a child process (1-6 notes, optional embeddings, tombstones, one or two commits, \
         in 'rich' shapes also a chunked document (payload-less parent + chunk frames), a no_raw put and a payload-reusing update, \
         optionally leaked with 1-4 acknowledged uncommitted WAL records), damaged in one structure located through the header/TOC \
         (header footer_offset: 6 wrong values, header toc_checksum byte, TOC checksum byte, footer magic/len/hash/generation byte, \
         time / Tantivy / vec index segment) or, outside the quantifier, in two structures or the WAL region; Memvid::doctor with each of \
         the 32 option combinations in a child process, followed by verify(deep) + open on copies, a second run with the same options \
         and one with default options; every report (status, plan, phase statuses, failure reason), verify/open result and active \
         frame list compared with the Lean model fed the abstract condition; oracle: the canonical payload digest of EVERY active frame \
         (id, uri; documents reassembled from chunks) after each doctor run equals what opening the undamaged file shows; non-trivial = damaged or crash-left file; \
         distinct = shape + damage + options");
    sum.expect_branches(&["crash-left-pending", "fault-hdr-ptr", "fault-hdr-tocsum", "fault-toc-sum", "fault-footer-magic", "fault-footer-hash",
        "fault-index-time", "fault-index-lex", "fault-index-vec", "dry-run", "vacuum", "vacuum-over-empty-payload-frames", "forced-rebuild", "status-healed", "status-clean", "oracle-held"]);
    let dir = scratch();
    if args.mode == "replay" {
        let case = load_replay(args.replay_file.as_ref().expect("replay file"));
        let input = case.get("input").unwrap_or(&case);
        let c = Case::from_json(input);
        run_all(&[c], &dir, 1, &mut drv, &mut sum, &known, true);
        let _ = std::fs::remove_dir_all(&dir);
        if let Some(d) = drv.as_ref() { sum.model_requests = d.requests; }
        sum.finish(&args);
    }
    let mut rng = Rng::new(args.seed);
    let sh_clean = Shape { seed: 11, n1: 3, n2: 2, ndel: 1, npend: 0, pend_del: false, lex: true, vec: true, rich: true };
    let sh_pend = Shape { seed: 12, n1: 2, n2: 0, ndel: 0, npend: 2, pend_del: true, lex: true, vec: true, rich: false };
    let sh_plain = Shape { seed: 13, n1: 2, n2: 1, ndel: 0, npend: 1, pend_del: false, lex: true, vec: false, rich: true };
    // the payload-reusing update is the LAST committed operation (n2 = 0): the newest frame owns no bytes of its own —
    // seed C21-2 (payload end taken from the newest byte-owning frame) needs exactly this and was missed: every other
    // shape ends with a put
    let sh_upd_last = Shape { seed: 14, n1: 3, n2: 0, ndel: 0, npend: 0, pend_del: false, lex: true, vec: true, rich: true };
    let mut cases: Vec<Case> = Vec::new();
    // fixed corpus: the witnesses of the recorded defects first
    cases.push(Case { shape: sh_pend.clone(), faults: vec![], bits: 0 });                          // crash-left file, default options
    cases.push(Case { shape: sh_pend.clone(), faults: vec![Damage::HdrPtr(0)], bits: 0 });         // crash-left + header pointer
    cases.push(Case { shape: sh_clean.clone(), faults: vec![Damage::TocSum(5)], bits: 0 });        // TOC checksum byte
    cases.push(Case { shape: sh_clean.clone(), faults: vec![], bits: 4 });                         // forced vec rebuild on a healthy file
    cases.push(Case { shape: sh_clean.clone(), faults: vec![], bits: 0 });
    cases.push(Case { shape: sh_clean.clone(), faults: vec![Damage::HdrPtr(3), Damage::Footer(2)], bits: 0 }); // outside the quantifier
    cases.push(Case { shape: sh_plain.clone(), faults: vec![Damage::Wal], bits: 0 });               // outside the quantifier
    cases.push(Case { shape: sh_pend.clone(), faults: vec![Damage::TocSum(1)], bits: 16 });
    cases.push(Case { shape: sh_clean.clone(), faults: vec![Damage::Index(0, 3)], bits: 9 });       // vacuum + forced time rebuild
    cases.push(Case { shape: sh_plain.clone(), faults: vec![Damage::HdrPtr(3)], bits: 8 });         // vacuum over a chunked document + payload-reusing update
    cases.push(Case { shape: sh_upd_last.clone(), faults: vec![], bits: 1 });                      // forced time-index rebuild after a payload-less update
    cases.push(Case { shape: sh_upd_last.clone(), faults: vec![], bits: 7 });                      // all three rebuilds
    cases.push(Case { shape: sh_upd_last.clone(), faults: vec![Damage::Index(0, 3)], bits: 0 });   // damaged index segment: doctor rebuilds on its own
    let shapes_quick = [sh_clean.clone(), sh_pend.clone(), sh_plain.clone(), sh_upd_last.clone()];
    let n = if args.thorough { 320 } else { 10 };
    let mut shapes: Vec<Shape> = shapes_quick.to_vec();
    if args.thorough { for _ in 0..9 { shapes.push(gen_shape(&mut rng)); } }
    // every single fault and every option combination appears; the pairing is random
    let mut bits_cycle: Vec<u32> = (0..32).collect();
    rng.shuffle(&mut bits_cycle);
    for i in 0..n {
        let shape = rng.pick(&shapes).clone();
        let singles = single_faults(&mut rng);
        let faults: Vec<Damage> = match rng.below(20) {
            _ if i < singles.len() => vec![singles[i].clone()],
            0 => vec![],
            1 | 2 => { let a = rng.pick(&singles).clone(); let mut b = rng.pick(&singles).clone(); if rng.chance(1, 6) { b = Damage::Wal; } if a == b { vec![a] } else { vec![a, b] } }
            _ => vec![singles[i % singles.len()].clone()],
        };
        // every option combination appears; dry runs are thinned out (they do less)
        let mut bits = if rng.chance(1, 4) { 0 } else { bits_cycle[i % 32] };
        if bits & 16 != 0 && rng.chance(1, 2) { bits &= 15; }
        cases.push(Case { shape, faults, bits });
    }
    let jobs = if args.thorough { 6 } else { 4 };
    run_all(&cases, &dir, jobs, &mut drv, &mut sum, &known, false);
    let _ = std::fs::remove_dir_all(&dir);
    if let Some(d) = drv.as_ref() { sum.model_requests = d.requests; }
    sum.finish(&args);
}
