/-
  C15 — Timeline is complete, chronological and correctly filtered.

  Property theorems only.  Model: MvModel/Timeline.lean (mirror of src/memvid/timeline.rs build_timeline,
  the time-entry part of src/memvid/mutation.rs rebuild_indexes, and the sort / ordering check of
  src/io/time_index.rs).  Helper lemmas: MvProps/C15Lemmas.lean.

  The four clauses are stated once, for an arbitrary implementation `build` of build_timeline, so that the
  SAME statements are refuted for the code as it is today (`buildTimeline`) and proved for the code with
  /verif/fixes/C15.diff applied (`buildTimelineFixed`).

  Which frames are listed ("document frames" of the property text): active frames whose role is not
  DocumentChunk, i.e. Document and ExtractedImage frames (`listedRole`) — chunk frames are internal pieces of
  their parent document and are not listed by the indexed path of the code either.

  Hypotheses of every clause:
    * `DenseIds frames` — toc.frames[i].id = i (ids are assigned as toc.frames.len(); property C06);
    * the index is the one commit writes, `ti = some (timeIndexOf frames)`, or there is none
      (`ti = none`, the state after commit_skip_indexes).
-/
import MvProps.C15Lemmas
namespace Mv.Timeline

/-- an implementation of build_timeline: frame table → time index (if any) → query → (timestamp, id) list -/
abbrev Build := List Frame → Option (List Entry) → Query → List Entry

/-- the index states the property talks about -/
def CommittedIndex (frames : List Frame) (ti : Option (List Entry)) : Prop :=
  ti = some (timeIndexOf frames) ∨ ti = none

/-- complete: without a limit the result consists of exactly the listed frames within the bounds, each once -/
def CompleteStmt (build : Build) : Prop :=
  ∀ (frames : List Frame) (ti : Option (List Entry)) (q : Query), DenseIds frames → CommittedIndex frames ti →
    (build frames ti q.unlimited).Perm ((listedEntries frames).filter (inRange q)) ∧
    (build frames ti q.unlimited).Nodup

/-- chronological: strictly ordered by (timestamp, frame id), descending when `reverse`; and the reversed
    unlimited result is exactly the reverse of the forward one -/
def SortedStmt (build : Build) : Prop :=
  ∀ (frames : List Frame) (ti : Option (List Entry)) (q : Query), DenseIds frames → CommittedIndex frames ti →
    Chrono q.reverse (build frames ti q) ∧
    build frames ti { q with limit := none, reverse := true } = (build frames ti { q with limit := none, reverse := false }).reverse

/-- since / until are inclusive bounds on every returned entry (that nothing inside the bounds is lost is
    part of `CompleteStmt`) -/
def BoundsStmt (build : Build) : Prop :=
  ∀ (frames : List Frame) (ti : Option (List Entry)) (q : Query), DenseIds frames → CommittedIndex frames ti →
    ∀ e ∈ build frames ti q, (∀ s, q.since = some s → s ≤ e.ts) ∧ (∀ u, q.until = some u → e.ts ≤ u)

/-- a limit returns the first `n` entries of the unlimited result of the same query -/
def LimitPrefixStmt (build : Build) : Prop :=
  ∀ (frames : List Frame) (ti : Option (List Entry)) (q : Query) (n : Nat), DenseIds frames → CommittedIndex frames ti →
    build frames ti { q with limit := some n } = (build frames ti q.unlimited).take n

/-- the property at full strength -/
def C15_full (build : Build) : Prop :=
  CompleteStmt build ∧ SortedStmt build ∧ BoundsStmt build ∧ LimitPrefixStmt build

/-! ## the code as it is today violates the property -/

/-- the probe witness: extracted image ts=5 (id 0), documents ts=10 (id 1) and ts=1 (id 2) -/
def witnessFrames : List Frame :=
  [ { id := 0, ts := 5, role := .image, status := .active },
    { id := 1, ts := 10, role := .document, status := .active },
    { id := 2, ts := 1, role := .document, status := .active } ]

def qAll : Query := { limit := none, since := none, «until» := none, reverse := false }

theorem witness_dense : DenseIds witnessFrames := by
  intro i h
  have : i < 3 := h
  match i, this with
  | 0, _ => rfl
  | 1, _ => rfl
  | 2, _ => rfl

/-- what the current code returns on the witness: the image frame comes last (first when reversed) -/
theorem witness_unfixed_output :
    buildTimeline witnessFrames (some (timeIndexOf witnessFrames)) qAll = [⟨1, 2⟩, ⟨10, 1⟩, ⟨5, 0⟩] ∧
    buildTimeline witnessFrames (some (timeIndexOf witnessFrames)) { qAll with reverse := true } = [⟨5, 0⟩, ⟨10, 1⟩, ⟨1, 2⟩] := by
  decide

/-- ordering clause fails for the current code (committed index present) -/
theorem C15_counterexample_unfixed : ¬ SortedStmt buildTimeline := by
  intro h
  have h1 := (h witnessFrames (some (timeIndexOf witnessFrames)) qAll witness_dense (Or.inl rfl)).1
  rw [witness_unfixed_output.1] at h1
  revert h1
  unfold Chrono qAll Entry.lt
  decide

/-- without a time index (after commit_skip_indexes) the current code lists chunk frames too -/
def witnessNoIndex : List Frame :=
  [ { id := 0, ts := 4, role := .document, status := .active },
    { id := 1, ts := 2, role := .chunk, status := .active } ]

theorem C15_counterexample_noindex_unfixed : ¬ CompleteStmt buildTimeline := by
  intro h
  have hd : DenseIds witnessNoIndex := by
    intro i hi
    have : i < 2 := hi
    match i, this with
    | 0, _ => rfl
    | 1, _ => rfl
  have h1 := (h witnessNoIndex none qAll hd (Or.inr rfl)).1.length_eq
  revert h1
  decide

theorem C15_full_false_unfixed : ¬ C15_full buildTimeline := fun h => C15_counterexample_unfixed h.2.1

/-! ## the repaired code satisfies it -/

/-- normal form: sort the listed entries, keep those within the bounds, reverse if asked, cut at the limit -/
theorem buildTimelineFixed_eq {frames : List Frame} {ti : Option (List Entry)} (q : Query)
    (hd : DenseIds frames) (hti : CommittedIndex frames ti) :
    buildTimelineFixed frames ti q =
      match q.limit with
      | none => shaped q (sortE (listedEntries frames))
      | some n => (shaped q (sortE (listedEntries frames))).take n := by
  unfold buildTimelineFixed
  rw [rawEntriesFixed_eq hd ti hti, finish_eq hd]
  · rfl
  · intro e he
    exact listedEntries_fromActive e (mem_sortE.mp he)

private theorem sorted_all {frames : List Frame} : ∀ e ∈ sortE (listedEntries frames), FromActive frames e :=
  fun e he => listedEntries_fromActive e (mem_sortE.mp he)

private theorem sorted_strict {frames : List Frame} (hd : DenseIds frames) :
    (sortE (listedEntries frames)).Pairwise Entry.lt :=
  strict_of_sorted_nodup (sortE_sorted _) ((sortE_perm _).nodup_iff.mpr (hd.nodup_entries listedRole))

theorem C15_complete : CompleteStmt buildTimelineFixed := by
  intro frames ti q hd hti
  have e : buildTimelineFixed frames ti q.unlimited = shaped q (sortE (listedEntries frames)) := by
    unfold buildTimelineFixed
    rw [rawEntriesFixed_eq hd ti hti, finish_unlimited hd q _ sorted_all]
  rw [e]
  have hp := shaped_perm q (sortE_perm (listedEntries frames))
  refine ⟨hp, hp.nodup_iff.mpr ?_⟩
  exact (hd.nodup_entries listedRole).sublist List.filter_sublist

theorem C15_sorted : SortedStmt buildTimelineFixed := by
  intro frames ti q hd hti
  constructor
  · rw [buildTimelineFixed_eq q hd hti]
    have hc := shaped_chrono q (sorted_strict hd)
    cases q.limit with
    | none => exact hc
    | some n => exact chrono_take n hc
  · rw [buildTimelineFixed_eq _ hd hti, buildTimelineFixed_eq _ hd hti]
    rfl

theorem C15_bounds : BoundsStmt buildTimelineFixed := by
  intro frames ti q hd hti e he
  rw [buildTimelineFixed_eq q hd hti] at he
  have hm : e ∈ shaped q (sortE (listedEntries frames)) := by
    cases h : q.limit with
    | none => rw [h] at he; exact he
    | some n => rw [h] at he; exact List.mem_of_mem_take he
  exact inRange_bounds (mem_shaped hm).2

theorem C15_limit_prefix : LimitPrefixStmt buildTimelineFixed := by
  intro frames ti q n hd hti
  rw [buildTimelineFixed_eq _ hd hti, buildTimelineFixed_eq _ hd hti]
  rfl

theorem C15_full_fixed : C15_full buildTimelineFixed :=
  ⟨C15_complete, C15_sorted, C15_bounds, C15_limit_prefix⟩

/-- the answer does not depend on whether the time index is present (commit vs commit_skip_indexes) -/
theorem C15_index_independent (frames : List Frame) (q : Query) (hd : DenseIds frames) :
    buildTimelineFixed frames none q = buildTimelineFixed frames (some (timeIndexOf frames)) q := by
  rw [buildTimelineFixed_eq q hd (Or.inr rfl), buildTimelineFixed_eq q hd (Or.inl rfl)]

/-- the index commit writes passes read_track's ordering validation: `Memvid::timeline` does not fail -/
theorem C15_timeline_ok (frames : List Frame) (q : Query) :
    timelineFixed frames (some (timeIndexOf frames)) q = some (buildTimelineFixed frames (some (timeIndexOf frames)) q) := by
  unfold timelineFixed timeIndexOf
  simp only [readTrack_sortE]

/-- every listed frame inside the bounds is found, and at its place: the n-th entry of the unlimited
    forward result is the n-th smallest listed entry within the bounds (determinacy of the answer) -/
theorem C15_spec (frames : List Frame) (ti : Option (List Entry)) (q : Query) (hd : DenseIds frames)
    (hti : CommittedIndex frames ti) :
    buildTimelineFixed frames ti { q with limit := none, reverse := false } =
      sortE ((listedEntries frames).filter (inRange q)) := by
  rw [buildTimelineFixed_eq _ hd hti]
  show (sortE (listedEntries frames)).filter (inRange q) = _
  refine List.Perm.eq_of_pairwise (fun _ _ _ _ h1 h2 => Entry.le_antisymm h1 h2)
    ((sortE_sorted _).filter _) (sortE_sorted _) ?_
  exact ((sortE_perm _).filter _).trans (sortE_perm _).symm

/-! ## what remains true of the unrepaired code (committed index present) -/

theorem C15_unfixed_partial (frames : List Frame) (q : Query) (n : Nat) (hd : DenseIds frames) :
    let ti := some (timeIndexOf frames)
    (buildTimeline frames ti q.unlimited).Perm ((listedEntries frames).filter (inRange q)) ∧
    (∀ e ∈ buildTimeline frames ti q, (∀ s, q.since = some s → s ≤ e.ts) ∧ (∀ u, q.until = some u → e.ts ≤ u)) ∧
    buildTimeline frames ti { q with limit := some n } = (buildTimeline frames ti q.unlimited).take n := by
  have hp := rawIndexed_perm hd
  have hall : ∀ e ∈ rawEntries frames (some (timeIndexOf frames)), FromActive frames e :=
    fun e he => listedEntries_fromActive e (hp.mem_iff.mp he)
  refine ⟨?_, ?_, ?_⟩
  · show (finish frames q.unlimited _).Perm _
    rw [finish_unlimited hd q _ hall]
    exact shaped_perm q hp
  · intro e he
    have he' : e ∈ finish frames q (rawEntries frames (some (timeIndexOf frames))) := he
    have hm : e ∈ shaped q (rawEntries frames (some (timeIndexOf frames))) := by
      rcases finish_cases hd q _ hall with h | ⟨k, h⟩
      · rw [h] at he'; exact he'
      · rw [h] at he'; exact List.mem_of_mem_take he'
    exact inRange_bounds (mem_shaped hm).2
  · show finish frames _ _ = (finish frames q.unlimited _).take n
    rw [finish_limit hd q n _ hall, finish_unlimited hd q _ hall]

/-! ## limit before the active-frame filter: harmless with a committed index, wrong with a stale one -/

/-- MODEL-ONLY observation (both versions of the code): `take(limit)` runs before entries of inactive
    frames are skipped.  With an index that still lists a frame deleted since (not reachable through the
    API: every path that changes toc.frames rebuilds the index or drops it), a limited result is shorter
    than the prefix of the unlimited one. -/
theorem C15_stale_index_limit_not_prefix :
    ∃ (frames : List Frame) (stale : List Entry) (q : Query), DenseIds frames ∧
      buildTimelineFixed frames (some stale) { q with limit := some 1 } ≠
        (buildTimelineFixed frames (some stale) q.unlimited).take 1 := by
  refine ⟨[ { id := 0, ts := 1, role := .document, status := .deleted },
            { id := 1, ts := 2, role := .document, status := .active } ],
          [⟨1, 0⟩, ⟨2, 1⟩], qAll, ?_, by decide⟩
  intro i hi
  have : i < 2 := hi
  match i, this with
  | 0, _ => rfl
  | 1, _ => rfl

/-! ## non-vacuity: concrete instances -/

/-- a table with all three roles, a deleted and a superseded frame, equal and negative timestamps -/
def sampleFrames : List Frame :=
  [ { id := 0, ts := 5, role := .image, status := .active },
    { id := 1, ts := 10, role := .document, status := .active },
    { id := 2, ts := 10, role := .chunk, status := .active },
    { id := 3, ts := -7, role := .document, status := .deleted },
    { id := 4, ts := 5, role := .document, status := .active },
    { id := 5, ts := -3, role := .document, status := .superseded },
    { id := 6, ts := -3, role := .document, status := .active } ]

theorem sample_dense : DenseIds sampleFrames := by
  intro i hi
  have : i < 7 := hi
  match i, this with
  | 0, _ => rfl
  | 1, _ => rfl
  | 2, _ => rfl
  | 3, _ => rfl
  | 4, _ => rfl
  | 5, _ => rfl
  | 6, _ => rfl

example : timeIndexOf sampleFrames = [⟨-3, 6⟩, ⟨5, 4⟩, ⟨10, 1⟩] := by decide

example : buildTimelineFixed sampleFrames (some (timeIndexOf sampleFrames)) qAll
    = [⟨-3, 6⟩, ⟨5, 0⟩, ⟨5, 4⟩, ⟨10, 1⟩] := by decide

example : buildTimelineFixed sampleFrames none { limit := some 2, since := some 5, «until» := some 10, reverse := true }
    = [⟨10, 1⟩, ⟨5, 4⟩] := by decide

/-- the repaired code orders the probe witness -/
example : buildTimelineFixed witnessFrames (some (timeIndexOf witnessFrames)) qAll = [⟨1, 2⟩, ⟨5, 0⟩, ⟨10, 1⟩] := by decide

/-- the hypotheses of the clauses are satisfiable and the conclusions are about non-empty results -/
example : DenseIds sampleFrames ∧ CommittedIndex sampleFrames (some (timeIndexOf sampleFrames)) ∧
    (listedEntries sampleFrames).length = 4 := ⟨sample_dense, Or.inl rfl, by decide⟩

end Mv.Timeline
