//! C18 — read-only access never modifies the file and sees the last commit.
//!
//! impl  : real `.mv2` files built in-process (commit groups + pending puts/deletes; the snapshot is a
//!         copy of the file taken while the writable handle with pending log records is alive), optional
//!         plants (legacy lock bytes 80..140, catalog entry beyond the footer, legacy lex segment beyond
//!         the footer); `Memvid::open_read_only` + random read calls + `Memvid::verify` run in a CHILD
//!         process (this binary, mode `child`), for part of the cases under `strace`.
//! model : drv_c18 (MvModel/ReadOnly.lean) fed with the same file bytes and the TOC facts the real
//!         `Toc::decode` yields; compared: located footer, open result, header.footer_offset, generation,
//!         frame count, per-op outcomes, pending-record count, and the file image after the model's writes.
//! oracle: (independent of the model) file bytes before == after; zero write-class syscalls on the path;
//!         frame_count / frame texts / timeline / search results equal what the writable handle showed
//!         right after its last commit; pending records invisible; handle stays read-only and clean.
use memvid_core::types::{SegmentCommon, TantivySegmentDescriptor, Toc};
use memvid_core::verif_hooks as vh;
use memvid_core::{CommitFooter, Memvid, PutOptions, SearchRequest, TimelineQuery};
use mvh::*;
use std::collections::BTreeMap;
use std::path::{Path, PathBuf};
use std::process::Command;

const WORDS: &[&str] = &["kiwi", "zebra", "quartz", "walnut", "falcon", "lorem", "ipsum", "dolor", "amet", "tempor"];
const HEADER_SIZE: usize = 4096;
const FOOTER_SIZE: usize = 56;

// ------------------------------------------------------------------------------------------ case
#[derive(Clone, Debug)]
struct Doc { text: String, ts: i64 }

#[derive(Clone, Debug)]
struct Case {
    commits: Vec<Vec<Doc>>,
    pending: Vec<Doc>,
    pending_delete: Option<u64>,
    plant: String, // none | legacy | catalog | lexseg | legacy+catalog
    plant_arg: u64,
    ops: Vec<Vec<String>>,
    verify: Option<bool>,
    strace: bool,
}

fn doc_json(d: &Doc) -> Value { json!({"text": d.text, "ts": d.ts}) }
fn doc_of(v: &Value) -> Doc { Doc { text: v["text"].as_str().unwrap_or("").to_string(), ts: v["ts"].as_i64().unwrap_or(0) } }

impl Case {
    fn to_json(&self) -> Value {
        json!({
            "commits": self.commits.iter().map(|g| g.iter().map(doc_json).collect::<Vec<_>>()).collect::<Vec<_>>(),
            "pending": self.pending.iter().map(doc_json).collect::<Vec<_>>(),
            "pending_delete": self.pending_delete,
            "plant": self.plant, "plant_arg": self.plant_arg,
            "ops": self.ops, "verify": self.verify, "strace": self.strace,
        })
    }
    fn from_json(v: &Value) -> Case {
        Case {
            commits: v["commits"].as_array().map(|a| a.iter().map(|g| g.as_array().map(|d| d.iter().map(doc_of).collect()).unwrap_or_default()).collect()).unwrap_or_default(),
            pending: v["pending"].as_array().map(|a| a.iter().map(doc_of).collect()).unwrap_or_default(),
            pending_delete: v["pending_delete"].as_u64(),
            plant: v["plant"].as_str().unwrap_or("none").to_string(),
            plant_arg: v["plant_arg"].as_u64().unwrap_or(1),
            ops: v["ops"].as_array().map(|a| a.iter().map(|o| o.as_array().map(|x| x.iter().map(|s| s.as_str().unwrap_or("").to_string()).collect()).unwrap_or_default()).collect()).unwrap_or_default(),
            verify: v["verify"].as_bool(),
            strace: v["strace"].as_bool().unwrap_or(false),
        }
    }
}

// ------------------------------------------------------------------------------------------ child
fn search_req(q: &str) -> SearchRequest {
    SearchRequest {
        query: q.to_string(), top_k: 50, snippet_chars: 80, uri: None, scope: None, cursor: None,
        as_of_frame: None, as_of_ts: None, no_sketch: true, acl_context: None, acl_enforcement_mode: Default::default(),
    }
}

fn do_search(mem: &mut Memvid, q: &str) -> Result<Vec<u64>, String> {
    let r = mem.search(search_req(q)).map_err(|e| format!("{e}"))?;
    let mut ids: Vec<u64> = r.hits.iter().map(|h| h.frame_id).collect();
    ids.sort();
    ids.dedup();
    Ok(ids)
}

fn do_timeline(mem: &mut Memvid) -> Result<Vec<u64>, String> {
    let q = TimelineQuery::builder().limit(std::num::NonZeroU64::new(1000).unwrap()).build();
    mem.timeline(q).map(|v| v.iter().map(|e| e.frame_id).collect()).map_err(|e| format!("{e}"))
}

/// one read call on a handle → canonical JSON observation
fn run_op(mem: &mut Memvid, op: &[String]) -> Value {
    let name = op.first().map(|s| s.as_str()).unwrap_or("");
    let arg = op.get(1).cloned().unwrap_or_default();
    let r = guarded(std::panic::AssertUnwindSafe(|| match name {
        "frame_count" => json!({"count": mem.frame_count()}),
        "frame_by_id" => match mem.frame_by_id(arg.parse().unwrap_or(0)) {
            Ok(f) => json!({"found": true, "status": format!("{:?}", f.status)}),
            Err(e) => json!({"found": false, "err": format!("{e}")}),
        },
        "frame_text" => match mem.frame_text_by_id(arg.parse().unwrap_or(0)) {
            Ok(t) => json!({"found": true, "text": t}),
            Err(e) => json!({"found": false, "err": format!("{e}")}),
        },
        "search" => match do_search(mem, &arg) {
            Ok(ids) => json!({"ok": true, "hits": ids}),
            Err(e) => json!({"ok": false, "err": e}),
        },
        "timeline" => match do_timeline(mem) {
            Ok(ids) => json!({"ok": true, "ids": ids}),
            Err(e) => json!({"ok": false, "err": e}),
        },
        "stats" => match mem.stats() {
            Ok(s) => json!({"ok": true, "count": s.frame_count, "active": s.active_frame_count}),
            Err(e) => json!({"ok": false, "err": format!("{e}")}),
        },
        _ => json!({"bad_op": name}),
    }));
    match r {
        Ok(v) => v,
        Err(p) => json!({"panic": p}),
    }
}

fn child_main() {
    let argv: Vec<String> = std::env::args().collect();
    let path = PathBuf::from(&argv[2]);
    let spec: Value = serde_json::from_str(&std::fs::read_to_string(&argv[3]).expect("ops file")).expect("ops json");
    let ops: Vec<Vec<String>> = spec["ops"].as_array().map(|a| a.iter().map(|o| o.as_array().unwrap().iter().map(|s| s.as_str().unwrap().to_string()).collect()).collect()).unwrap_or_default();
    let opened = guarded(std::panic::AssertUnwindSafe(|| Memvid::open_read_only(&path)));
    match opened {
        Err(p) => println!("R {}", json!({"open": "panic", "msg": p})),
        Ok(Err(e)) => println!("R {}", json!({"open": "err", "msg": format!("{e}")})),
        Ok(Ok(mut mem)) => {
            let st = vh::verif_state(&mem);
            println!("R {}", json!({"open": "ok", "frames": st.toc_frame_count, "fo": st.hdr_footer_offset, "gen": st.generation,
                "read_only": st.read_only, "dirty": st.dirty, "lexen": st.lex_enabled, "tantivy": st.tantivy_attached,
                "wal_pending_bytes": st.wal_pending_bytes, "frame_count": mem.frame_count()}));
            for op in &ops {
                println!("R {}", run_op(&mut mem, op));
            }
            let st = vh::verif_state(&mem);
            println!("R {}", json!({"end": true, "read_only": st.read_only, "dirty": st.dirty, "frames": st.toc_frame_count, "fo": st.hdr_footer_offset}));
            drop(mem);
        }
    }
    if let Some(deep) = spec["verify"].as_bool() {
        let r = guarded(std::panic::AssertUnwindSafe(|| Memvid::verify(&path, deep)));
        match r {
            Err(p) => println!("R {}", json!({"verify": "panic", "msg": p})),
            Ok(Err(e)) => println!("R {}", json!({"verify": "err", "msg": format!("{e}")})),
            Ok(Ok(rep)) => {
                let checks: Vec<Value> = rep.checks.iter().map(|c| json!({"name": c.name, "status": format!("{:?}", c.status), "details": c.details})).collect();
                println!("R {}", json!({"verify": "ok", "overall": format!("{:?}", rep.overall_status), "checks": checks}));
            }
        }
    }
}

// ------------------------------------------------------------------------------------------ building files
/// what a writer left behind: the snapshot bytes (taken while the writable handle with pending log
/// records was alive) and the committed state as that handle showed it right after its last commit
struct Base {
    bytes: Vec<u8>,
    committed_count: u64,
    docs_committed: u64,
    committed_texts: Vec<Option<String>>,
    committed_status: Vec<String>,
    ref_timeline: Option<Vec<u64>>,
    ref_search: BTreeMap<String, Vec<u64>>,
    pending_records: u64,
}

struct Built {
    _dir: tempfile::TempDir,
    snap: PathBuf,
}

fn put_doc(mem: &mut Memvid, d: &Doc, uri: String) -> Result<(), String> {
    let opts = PutOptions { uri: Some(uri), search_text: Some(d.text.clone()), timestamp: Some(d.ts),
        auto_tag: false, extract_dates: false, extract_triplets: false, instant_index: false, ..Default::default() };
    mem.put_bytes_with_options(d.text.as_bytes(), opts).map(|_| ()).map_err(|e| format!("{e}"))
}

fn base_key(case: &Case) -> String {
    json!({"c": case.commits.iter().map(|g| g.iter().map(doc_json).collect::<Vec<_>>()).collect::<Vec<_>>(),
           "p": case.pending.iter().map(doc_json).collect::<Vec<_>>(), "d": case.pending_delete}).to_string()
}

fn build_base(case: &Case) -> Result<Base, String> {
    let dir = tempfile::tempdir().map_err(|e| format!("tempdir: {e}"))?;
    let wpath = dir.path().join("w.mv2");
    let mut mem = Memvid::create(&wpath).map_err(|e| format!("create: {e}"))?;
    mem.enable_lex().map_err(|e| format!("enable_lex: {e}"))?;
    let mut n = 0u64;
    for g in &case.commits {
        for d in g {
            put_doc(&mut mem, d, format!("mv2://c18/c{n}"))?;
            n += 1;
        }
        mem.commit().map_err(|e| format!("commit: {e}"))?;
    }
    // the committed state as the writable handle shows it right after its last commit
    let committed_count = mem.frame_count() as u64;
    let mut committed_texts = vec![];
    let mut committed_status = vec![];
    for i in 0..committed_count {
        committed_texts.push(mem.frame_text_by_id(i).ok());
        committed_status.push(mem.frame_by_id(i).map(|f| format!("{:?}", f.status)).unwrap_or_else(|_| "missing".into()));
    }
    let ref_timeline = do_timeline(&mut mem).ok();
    let mut ref_search = BTreeMap::new();
    let mut queries: Vec<String> = WORDS.iter().map(|w| w.to_string()).collect();
    for k in 0..n.max(1) { queries.push(format!("doc{k}x")); }
    for k in 0..case.pending.len().max(1) { queries.push(format!("pend{k}x")); }
    queries.push("nohit".into());
    for q in queries {
        if let Ok(ids) = do_search(&mut mem, &q) { ref_search.insert(q, ids); }
    }
    // pending state: log records only
    let mut pending_records = 0u64;
    for (i, d) in case.pending.iter().enumerate() {
        put_doc(&mut mem, d, format!("mv2://c18/p{i}"))?;
        pending_records += 1;
    }
    if let Some(id) = case.pending_delete {
        if id < committed_count && mem.delete_frame(id).is_ok() {
            pending_records += 1;
        }
    }
    // snapshot while the handle with pending records is alive (the copy carries no lock)
    let bytes = std::fs::read(&wpath).map_err(|e| format!("snapshot: {e}"))?;
    // dropping the handle commits the pending records into w.mv2, which is no longer looked at
    drop(mem);
    Ok(Base { bytes, committed_count, docs_committed: n, committed_texts, committed_status, ref_timeline, ref_search, pending_records })
}

type BaseCache = BTreeMap<String, std::rc::Rc<Base>>;

fn get_base(case: &Case, cache: &mut BaseCache) -> Result<std::rc::Rc<Base>, String> {
    let k = base_key(case);
    if let Some(b) = cache.get(&k) { return Ok(b.clone()); }
    let b = std::rc::Rc::new(build_base(case)?);
    cache.insert(k, b.clone());
    Ok(b)
}

fn materialise(base: &Base) -> Result<Built, String> {
    let dir = tempfile::tempdir().map_err(|e| format!("tempdir: {e}"))?;
    let snap = dir.path().join("snap.mv2");
    std::fs::write(&snap, &base.bytes).map_err(|e| format!("write snapshot: {e}"))?;
    Ok(Built { _dir: dir, snap })
}

struct Tail { footer_pos: usize, toc_off: usize, generation: u64 }

fn tail_of(bytes: &[u8]) -> Option<Tail> {
    let (fo, start, generation) = vh::locate_footer_window(bytes)?;
    let fp = fo + start;
    let f = CommitFooter::decode(&bytes[fp..fp + FOOTER_SIZE])?;
    Some(Tail { footer_pos: fp, toc_off: fp - f.toc_len as usize, generation })
}

fn prepare_toc_bytes(toc: &mut Toc) -> Result<(Vec<u8>, [u8; 32]), String> {
    toc.toc_checksum = [0u8; 32];
    let b = toc.encode().map_err(|e| format!("{e}"))?;
    let cs = Toc::calculate_checksum(&b);
    toc.toc_checksum = cs;
    Ok((toc.encode().map_err(|e| format!("{e}"))?, cs))
}

/// rewrite the tail of `bytes` with `toc` (TOC + footer at the old TOC offset, header checksum refreshed)
fn replace_toc(bytes: &mut Vec<u8>, tail: &Tail, toc: &mut Toc) -> Result<(), String> {
    let (tb, cs) = prepare_toc_bytes(toc)?;
    bytes.truncate(tail.toc_off);
    bytes.extend_from_slice(&tb);
    let footer = CommitFooter { toc_len: tb.len() as u64, toc_hash: *blake3::hash(&tb).as_bytes(), generation: tail.generation };
    bytes.extend_from_slice(&footer.encode());
    bytes[48..80].copy_from_slice(&cs);
    Ok(())
}

fn plant(case: &Case, path: &Path) -> Result<(), String> {
    if case.plant == "none" { return Ok(()); }
    let mut bytes = std::fs::read(path).map_err(|e| format!("{e}"))?;
    if case.plant.contains("catalog") || case.plant == "lexseg" {
        let tail = tail_of(&bytes).ok_or("no footer")?;
        let mut toc = Toc::decode(&bytes[tail.toc_off..tail.footer_pos]).map_err(|e| format!("toc: {e}"))?;
        let delta = case.plant_arg.max(1);
        if case.plant == "lexseg" {
            // a legacy lex segment beyond the footer while the catalog has no tantivy segment: the handle
            // looks at it (lex_storage) but `catalog_data_end` does not
            toc.segment_catalog.tantivy_segments.clear();
            toc.indexes.lex_segments.push(memvid_core::types::LexSegmentManifest {
                path: "zz-planted.seg".into(), bytes_offset: tail.footer_pos as u64 - 8, bytes_length: 8 + delta, checksum: [0u8; 32] });
        } else if toc.segment_catalog.tantivy_segments.is_empty() {
            // adding a descriptor lengthens the TOC: aim `delta` bytes beyond the NEW footer position
            toc.segment_catalog.tantivy_segments.push(TantivySegmentDescriptor::from_common(
                SegmentCommon::new(999, tail.toc_off as u64, 1, [0u8; 32]), "planted.seg".into()));
            let (tb, _) = prepare_toc_bytes(&mut toc)?;
            let new_fp = (tail.toc_off + tb.len()) as u64;
            let s = toc.segment_catalog.tantivy_segments.last_mut().unwrap();
            s.common.bytes_offset = new_fp - 8;
            s.common.bytes_length = 8 + delta;
        } else {
            let k = (case.plant_arg as usize) % toc.segment_catalog.tantivy_segments.len();
            let s = &mut toc.segment_catalog.tantivy_segments[k];
            if s.common.bytes_offset >= tail.footer_pos as u64 { s.common.bytes_offset = tail.footer_pos as u64 - 8; }
            s.common.bytes_length = tail.footer_pos as u64 + delta - s.common.bytes_offset;
        }
        replace_toc(&mut bytes, &tail, &mut toc)?;
    }
    if case.plant.contains("legacy") {
        let k = 80 + (case.plant_arg as usize % 60);
        bytes[k] = 0xAA;
        if case.plant_arg % 3 == 0 { for b in &mut bytes[80..140] { *b = 0x5C; } }
    }
    std::fs::write(path, &bytes).map_err(|e| format!("{e}"))
}

// ------------------------------------------------------------------------------------------ model side helpers
fn rle(bytes: &[u8]) -> String {
    if bytes.is_empty() { return "-".into(); }
    let mut parts: Vec<String> = vec![];
    let mut i = 0;
    let mut lit_start = 0;
    while i < bytes.len() {
        if bytes[i] == 0 {
            let mut j = i;
            while j < bytes.len() && bytes[j] == 0 { j += 1; }
            if j - i >= 24 {
                if lit_start < i { parts.push(hex::encode(&bytes[lit_start..i])); }
                parts.push(format!("z{}", j - i));
                lit_start = j;
            }
            i = j;
        } else {
            i += 1;
        }
    }
    if lit_start < bytes.len() { parts.push(hex::encode(&bytes[lit_start..])); }
    parts.join(",")
}

fn extents(v: &[(u64, u64)]) -> String {
    if v.is_empty() { "-".into() } else { v.iter().map(|(a, b)| format!("{a}:{b}")).collect::<Vec<_>>().join(";") }
}

struct View { frames: u64, tsegs: Vec<(u64, u64)>, lsegs: Vec<(u64, u64)>, line: String }

fn toc_view(toc: &Toc) -> Result<View, String> {
    let cat = &toc.segment_catalog;
    let lex = cat.lex_enabled || toc.indexes.lex.is_some() || !toc.indexes.lex_segments.is_empty() || !cat.tantivy_segments.is_empty();
    let tsegs: Vec<(u64, u64)> = cat.tantivy_segments.iter().map(|s| (s.common.bytes_offset, s.common.bytes_length)).collect();
    let mut by_path: BTreeMap<String, (u64, u64)> = BTreeMap::new();
    for s in &toc.indexes.lex_segments { by_path.insert(s.path.clone(), (s.bytes_offset, s.bytes_length)); }
    let lsegs: Vec<(u64, u64)> = by_path.values().cloned().collect();
    let mut other: Vec<(u64, u64)> = vec![];
    for s in &cat.lex_segments { other.push((s.common.bytes_offset, s.common.bytes_length)); }
    for s in &cat.vec_segments { other.push((s.common.bytes_offset, s.common.bytes_length)); }
    for s in &cat.time_segments { other.push((s.common.bytes_offset, s.common.bytes_length)); }
    if let Some(m) = &toc.indexes.lex { other.push((m.bytes_offset, m.bytes_length)); }
    if let Some(m) = &toc.indexes.vec { other.push((m.bytes_offset, m.bytes_length)); }
    if let Some(m) = &toc.time_index { other.push((m.bytes_offset, m.bytes_length)); }
    let mut t2 = toc.clone();
    let (enc, ecs) = prepare_toc_bytes(&mut t2)?;
    let line = format!("{} {} {} {} {} {} {} {}", toc.frames.len(), hex::encode(toc.toc_checksum), lex as u8,
        extents(&tsegs), extents(&lsegs), extents(&other), rle(&enc), hex::encode(ecs));
    Ok(View { frames: toc.frames.len() as u64, tsegs, lsegs, line })
}

fn field<'a>(s: &'a str, key: &str) -> Option<&'a str> {
    s.split(' ').find_map(|kv| kv.strip_prefix(key).and_then(|r| r.strip_prefix('=')))
}

/// apply the model's write list (`p:<off>:<hex>;t:<n>;…`) to an image
fn apply_writes(img: &mut Vec<u8>, ws: &str) -> Result<usize, String> {
    if ws == "-" { return Ok(0); }
    let mut n = 0;
    for w in ws.split(';') {
        let parts: Vec<&str> = w.split(':').collect();
        match parts.as_slice() {
            ["p", off, h] => {
                let off: usize = off.parse().map_err(|_| "off")?;
                let b = unhexw(h).ok_or("hex")?;
                if img.len() < off + b.len() { img.resize(off + b.len(), 0); }
                img[off..off + b.len()].copy_from_slice(&b);
            }
            ["t", nn] => { let nn: usize = nn.parse().map_err(|_| "len")?; img.resize(nn, 0); }
            _ => return Err(format!("bad write {w}")),
        }
        n += 1;
    }
    Ok(n)
}

fn diff_ranges(a: &[u8], b: &[u8]) -> Vec<(usize, usize)> {
    let mut out = vec![];
    let n = a.len().min(b.len());
    let mut i = 0;
    while i < n {
        if a[i] != b[i] {
            let s = i;
            while i < n && a[i] != b[i] { i += 1; }
            out.push((s, i));
        } else { i += 1; }
    }
    if a.len() != b.len() { out.push((n, a.len().max(b.len()))); }
    out
}

// ------------------------------------------------------------------------------------------ running the child
const WRITE_CLASS: &[&str] = &["write", "pwrite64", "pwritev", "pwritev2", "writev", "ftruncate", "truncate", "fallocate",
    "rename", "renameat", "renameat2", "unlink", "unlinkat", "mmap"];

struct ChildOut { lines: Vec<Value>, write_syscalls: Vec<String>, sync_syscalls: usize, straced: bool, status_ok: bool }

fn run_child(path: &Path, spec: &Value, strace: bool) -> ChildOut {
    let exe = std::env::current_exe().expect("current_exe");
    let dir = path.parent().unwrap();
    let spec_path = dir.join("ops.json");
    std::fs::write(&spec_path, spec.to_string()).expect("write ops");
    let trace_path = dir.join("trace.txt");
    let mut straced = false;
    let output = if strace {
        let r = Command::new("strace")
            .args(["--seccomp-bpf", "-f", "-y", "-qq", "-s", "0", "-o"]).arg(&trace_path)
            .args(["-e", "trace=write,pwrite64,pwritev,pwritev2,writev,ftruncate,truncate,fallocate,rename,renameat,renameat2,unlink,unlinkat,fsync,fdatasync,mmap"])
            .arg(&exe).arg("child").arg(path).arg(&spec_path).output();
        match r {
            Ok(o) => { straced = true; Some(o) }
            Err(_) => None,
        }
    } else { None };
    let output = match output {
        Some(o) => o,
        None => Command::new(&exe).arg("child").arg(path).arg(&spec_path).output().expect("spawn child"),
    };
    let lines: Vec<Value> = String::from_utf8_lossy(&output.stdout).lines()
        .filter_map(|l| l.strip_prefix("R ")).filter_map(|l| serde_json::from_str(l).ok()).collect();
    let mut write_syscalls = vec![];
    let mut sync_syscalls = 0;
    if straced {
        let p = path.display().to_string();
        for l in std::fs::read_to_string(&trace_path).unwrap_or_default().lines() {
            if !l.contains(&p) { continue; }
            // "<pid> name(args…) = ret"
            let rest = l.split_once(' ').map(|x| x.1.trim_start()).unwrap_or(l);
            let name = rest.split('(').next().unwrap_or("");
            if name == "fsync" || name == "fdatasync" { sync_syscalls += 1; continue; }
            if name == "mmap" {
                // only a shared writable mapping of the file can modify it
                if rest.contains("PROT_WRITE") && rest.contains("MAP_SHARED") { write_syscalls.push(l.to_string()); }
                continue;
            }
            if WRITE_CLASS.contains(&name) { write_syscalls.push(l.to_string()); }
        }
    }
    ChildOut { lines, write_syscalls, sync_syscalls, straced, status_ok: output.status.success() }
}

// ------------------------------------------------------------------------------------------ one case
#[derive(Default)]
struct Outcome {
    trace: Vec<String>,
    violations: Vec<(String, String)>,
    disagreements: Vec<(String, String, String)>,
    branches: Vec<String>,
    model_predicts_image: bool,
    skipped: Option<String>,
    nontrivial: bool,
}

fn model_op_line(op: &[String]) -> String {
    match op[0].as_str() {
        "frame_by_id" | "frame_text" => format!("op {} {}", op[0], op[1]),
        other => format!("op {other}"),
    }
}

fn run_case(case: &Case, cache: &mut BaseCache, drv: &mut Option<Driver>, verbose: bool) -> Outcome {
    let mut out = Outcome::default();
    let t_start = std::time::Instant::now();
    let base = match get_base(case, cache) {
        Ok(b) => b,
        Err(e) => { out.skipped = Some(format!("build failed: {e}")); return out; }
    };
    let built = match materialise(&base) {
        Ok(b) => b,
        Err(e) => { out.skipped = Some(format!("build failed: {e}")); return out; }
    };
    if let Err(e) = plant(case, &built.snap) { out.skipped = Some(format!("plant failed: {e}")); return out; }
    let before = std::fs::read(&built.snap).expect("read snap");
    if verbose { println!("[t] build+plant {:?}", t_start.elapsed()); }
    macro_rules! tr { ($($a:tt)*) => {{ let s = format!($($a)*); if verbose { println!("{s}"); } out.trace.push(s); }} }
    tr!("file: len={} committed_frames={} docs_committed={} pending_records={} plant={}", before.len(), base.committed_count, base.docs_committed, base.pending_records, case.plant);
    if !case.pending.is_empty() || case.pending_delete.is_some() { out.branches.push("pending-records-present".into()); }
    if !case.commits.is_empty() && base.committed_count > 0 { out.branches.push("committed-frames-present".into()); }
    out.branches.push(format!("plant-{}", case.plant));

    // ---- facts of the file (real decoder) and the theorem hypotheses on writer-made files
    let tail = tail_of(&before);
    let toc = tail.as_ref().and_then(|t| Toc::decode(&before[t.toc_off..t.footer_pos]).ok()).filter(|t| t.verify_checksum().is_ok());
    let view = toc.as_ref().and_then(|t| toc_view(t).ok());
    if case.plant == "none" {
        let legacy_zero = before[80..140].iter().all(|b| *b == 0);
        let fp = tail.as_ref().map(|t| t.footer_pos as u64).unwrap_or(0);
        let used: Vec<(u64, u64)> = view.as_ref().map(|v| if v.tsegs.is_empty() { v.lsegs.clone() } else { v.tsegs.clone() }).unwrap_or_default();
        let below = used.iter().all(|(o, l)| *l == 0 || o + l <= fp);
        let footer_at_end = tail.as_ref().map(|t| t.footer_pos + FOOTER_SIZE == before.len()).unwrap_or(false);
        if legacy_zero && below && footer_at_end { out.branches.push("writer-file-satisfies-hypotheses".into()); }
        else {
            out.disagreements.push(("a file written by this version breaks a hypothesis of C18_no_writes_current / C18_last_commit".into(),
                "legacy bytes zero, used segments end at or below the footer, footer is the file's tail".into(),
                format!("legacy_zero={legacy_zero} segments_below={below} footer_at_end={footer_at_end}")));
        }
        if !used.is_empty() { out.branches.push("embedded-lex-segments-present".into()); }
    }

    // ---- model: locate + open
    let mut model_open: Option<String> = None;
    let mut model_variant = String::new();
    if let Some(d) = drv.as_mut() {
        model_variant = d.ask("variant");
        let loc = d.ask(&format!("file {}", rle(&before)));
        let real_loc = match &tail {
            Some(t) => format!("located {} {} {} {} 0", t.footer_pos, t.toc_off, t.footer_pos - t.toc_off, t.generation),
            None => "none".into(),
        };
        tr!("locate: model={loc} impl={real_loc}");
        if loc != real_loc { out.disagreements.push(("footer location".into(), loc.clone(), real_loc)); }
        let line = match &view { Some(v) => format!("open code {}", v.line), None => "open code badtoc".into() };
        let ans = d.ask(&line);
        model_open = Some(ans);
    }

    // ---- implementation: the read-only session in a child process
    let spec = json!({"ops": case.ops, "verify": case.verify});
    if verbose { println!("[t] before child {:?}", t_start.elapsed()); }
    let ch = run_child(&built.snap, &spec, case.strace);
    if verbose { println!("[t] after child {:?}", t_start.elapsed()); }
    let after = std::fs::read(&built.snap).expect("read snap after");
    if ch.straced { out.branches.push("straced".into()); }
    let mut it = ch.lines.iter();
    let open_line = it.next().cloned().unwrap_or(json!({"open": "child-died"}));
    tr!("impl open: {open_line}   (child exit ok={})", ch.status_ok);
    let opened = open_line["open"] == "ok";
    if open_line["open"] == "panic" || open_line["open"] == "child-died" {
        out.violations.push(("read-only-open-panicked".into(), format!("open_read_only panicked/died: {open_line}")));
    }

    // ---- oracle 1: bytes unchanged
    let changed = after != before;
    if changed {
        let d = diff_ranges(&before, &after);
        let only_legacy = before.len() == after.len() && d.iter().all(|(a, b)| *a >= 80 && *b <= 140);
        let sig = if only_legacy { "legacy-lock-bytes-cleared-by-read-only-open" } else { "toc-footer-header-rewritten-by-read-only-open" };
        out.violations.push((sig.into(), format!("the read-only session changed the file: len {} -> {}, changed ranges {:?}", before.len(), after.len(), &d[..d.len().min(6)])));
    }
    // ---- oracle 2: no write-class syscall on the path
    if ch.straced {
        tr!("strace: {} write-class syscalls on the path, {} fsyncs", ch.write_syscalls.len(), ch.sync_syscalls);
        if !ch.write_syscalls.is_empty() && !changed {
            out.violations.push(("write-syscalls-on-read-only-path".into(), format!("{} write-class syscalls on the file although its bytes are unchanged; first: {}", ch.write_syscalls.len(), ch.write_syscalls[0])));
        }
        if changed && ch.write_syscalls.is_empty() {
            out.disagreements.push(("strace saw no write although the file changed".into(), "-".into(), "-".into()));
        }
    }

    // ---- model vs impl: open result, writes
    let mut final_writes = String::from("-");
    if let Some(mo) = &model_open {
        tr!("model open ({model_variant}): {}", if mo.len() > 300 { &mo[..300] } else { mo });
        let m_ok = mo.starts_with("ok ");
        if m_ok != opened && open_line["open"] != "panic" {
            out.disagreements.push(("open result".into(), mo.chars().take(200).collect(), open_line.to_string()));
        }
        if m_ok && opened {
            let m = format!("frames={} fo={} gen={} lexen={} tantivy={}", field(mo, "frames").unwrap_or("?"), field(mo, "fo").unwrap_or("?"),
                field(mo, "gen").unwrap_or("?"), field(mo, "lexen").unwrap_or("?"), field(mo, "tantivy").unwrap_or("?"));
            let i = format!("frames={} fo={} gen={} lexen={} tantivy={}", open_line["frames"], open_line["fo"], open_line["gen"],
                open_line["lexen"].as_bool().unwrap_or(false) as u8, open_line["tantivy"].as_bool().unwrap_or(false) as u8);
            if m != i { out.disagreements.push(("handle state after open".into(), m, i)); }
        }
        final_writes = field(mo, "writes").unwrap_or("-").to_string();
    }

    // ---- ops: impl observations, oracle 3, model outcomes
    let mut pending_token_seen = false;
    if opened {
        // oracle on the open itself
        if open_line["read_only"] != true || open_line["dirty"] != false {
            out.violations.push(("read-only-handle-not-clean".into(), format!("handle after open: {open_line}")));
        }
        if open_line["frame_count"].as_u64() != Some(base.committed_count) {
            out.violations.push(("read-only-handle-frame-count-differs-from-last-commit".into(),
                format!("frame_count {} on the read-only handle, {} frames at the last commit ({} pending log records)", open_line["frame_count"], base.committed_count, base.pending_records)));
        }
        if base.committed_count != base.docs_committed {
            out.disagreements.push(("generator assumption: one frame per committed doc".into(), base.docs_committed.to_string(), base.committed_count.to_string()));
        }
        for op in &case.ops {
            let obs = it.next().cloned().unwrap_or(json!({"missing": true}));
            tr!("op {:?}: impl {obs}", op);
            if obs.get("panic").is_some() {
                out.violations.push(("read-call-panicked".into(), format!("{op:?}: {obs}")));
            }
            let damaged = case.plant.contains("catalog") || case.plant == "lexseg";
            // oracle 3: what the handle shows = the state at the last commit
            match op[0].as_str() {
                "frame_count" => if obs["count"].as_u64() != Some(base.committed_count) {
                    out.violations.push(("read-only-handle-frame-count-differs-from-last-commit".into(), format!("{op:?}: {obs}, committed {}", base.committed_count)));
                },
                "stats" => if obs["count"].as_u64() != Some(base.committed_count) {
                    out.violations.push(("read-only-handle-frame-count-differs-from-last-commit".into(), format!("stats: {obs}, committed {}", base.committed_count)));
                },
                "frame_by_id" => {
                    let i: u64 = op[1].parse().unwrap_or(0);
                    let want = i < base.committed_count;
                    if obs["found"].as_bool() != Some(want) {
                        out.violations.push(("read-only-handle-frame-set-differs-from-last-commit".into(), format!("{op:?}: {obs}, committed {}", base.committed_count)));
                    } else if want && obs["status"].as_str() != Some(base.committed_status[i as usize].as_str()) {
                        out.violations.push(("read-only-handle-shows-pending-status-change".into(), format!("{op:?}: {obs}, status at the last commit {}", base.committed_status[i as usize])));
                    }
                    if i >= base.committed_count { out.branches.push("probe-beyond-committed".into()); }
                }
                "frame_text" => {
                    let i: u64 = op[1].parse().unwrap_or(0);
                    if i < base.committed_count {
                        let want = base.committed_texts[i as usize].clone();
                        let got = obs["text"].as_str().map(|s| s.to_string());
                        if want.is_some() && got != want {
                            out.violations.push(("read-only-handle-frame-content-differs-from-last-commit".into(), format!("{op:?}: {obs}, committed text {want:?}")));
                        }
                    } else {
                        if obs["found"].as_bool() != Some(false) {
                            out.violations.push(("read-only-handle-sees-uncommitted-state".into(), format!("{op:?}: {obs}, committed {}", base.committed_count)));
                        }
                        out.branches.push("probe-beyond-committed".into());
                    }
                }
                "timeline" => if !damaged {
                    if let (Some(want), Some(got)) = (&base.ref_timeline, obs["ids"].as_array()) {
                        let got: Vec<u64> = got.iter().filter_map(|x| x.as_u64()).collect();
                        if &got != want {
                            out.violations.push(("read-only-handle-timeline-differs-from-last-commit".into(), format!("timeline {got:?}, at the last commit {want:?}")));
                        }
                    }
                },
                "search" => {
                    if op[1].starts_with("pend") { pending_token_seen = true; }
                    if let Some(got) = obs["hits"].as_array() {
                        let got: Vec<u64> = got.iter().filter_map(|x| x.as_u64()).collect();
                        if got.iter().any(|id| *id >= base.committed_count) {
                            out.violations.push(("read-only-handle-sees-uncommitted-state".into(), format!("search {:?} returned {got:?}, committed {}", op[1], base.committed_count)));
                        }
                        if !damaged {
                            if let Some(want) = base.ref_search.get(&op[1]) {
                                if &got != want {
                                    out.violations.push(("read-only-handle-search-differs-from-last-commit".into(), format!("search {:?}: {got:?}, at the last commit {want:?}", op[1])));
                                }
                                if !want.is_empty() { out.branches.push("search-with-hits".into()); }
                            }
                        }
                    }
                }
                _ => {}
            }
            // model outcome
            if let (Some(d), Some(mo)) = (drv.as_mut(), &model_open) {
                if mo.starts_with("ok ") {
                    let m = d.ask(&model_op_line(op));
                    let mcanon = m.split(" nw=").next().unwrap_or("").to_string();
                    let icanon = match op[0].as_str() {
                        "frame_count" | "stats" => obs["count"].as_u64().map(|c| format!("count {c}")).unwrap_or("err".into()),
                        "frame_by_id" => format!("found {}", obs["found"].as_bool().unwrap_or(false) as u8),
                        "frame_text" => {
                            // a frame that exists may still fail to decode; the model only says whether the id is in range
                            let i: u64 = op[1].parse().unwrap_or(0);
                            if obs["found"] == true || i < base.committed_count { "found 1".into() } else { "found 0".into() }
                        }
                        "search" => if obs["ok"] == true { "ok".into() } else if obs["err"].as_str().map(|e| e.contains("ex")).unwrap_or(false) && !open_line["lexen"].as_bool().unwrap_or(true) { "err".into() } else { "ok".into() },
                        _ => "ok".into(),
                    };
                    if mcanon != icanon { out.disagreements.push((format!("op {op:?}"), m.clone(), obs.to_string())); }
                }
            }
        }
        let end = it.next().cloned().unwrap_or(json!({}));
        if end["end"] == true && (end["read_only"] != true || end["dirty"] != false) {
            out.violations.push(("read-only-handle-not-clean".into(), format!("handle at the end of the session: {end}")));
        }
        if let (Some(d), Some(mo)) = (drv.as_mut(), &model_open) {
            if mo.starts_with("ok ") {
                let c = d.ask("close");
                final_writes = field(&c, "writes").unwrap_or("-").to_string();
            }
        }
    }
    if pending_token_seen && !case.pending.is_empty() { out.branches.push("search-for-pending-only-token".into()); }

    // ---- model vs impl: the file image after the model's writes
    if model_open.is_some() {
        let mut img = before.clone();
        match apply_writes(&mut img, &final_writes) {
            Ok(n) => {
                out.model_predicts_image = img == after;
                tr!("model writes: {n}; image after model writes {} the real file", if img == after { "EQUALS" } else { "DIFFERS from" });
                if img != after {
                    out.disagreements.push(("file image after the session".into(),
                        format!("{n} writes, len {} b3 {}", img.len(), b3short(&img)), format!("len {} b3 {} diff {:?}", after.len(), b3short(&after), diff_ranges(&img, &after).iter().take(4).collect::<Vec<_>>())));
                }
                if n > 0 { out.branches.push("model-predicts-writes".into()); }
            }
            Err(e) => out.disagreements.push(("model write list unparsable".into(), e, "-".into())),
        }
    }

    // ---- verify phase (static `Memvid::verify` = a second read-only session)
    if let Some(_deep) = case.verify {
        let v = it.next().cloned().unwrap_or(json!({"verify": "missing"}));
        tr!("verify: {v}");
        out.branches.push("verify".into());
        if v["verify"] == "panic" { out.violations.push(("verify-panicked".into(), v.to_string())); }
        if v["verify"] == "ok" {
            let wal = v["checks"].as_array().and_then(|a| a.iter().find(|c| c["name"] == "WalPendingRecords").cloned()).unwrap_or(json!({}));
            let impl_pending: Option<u64> = if wal["status"] == "Passed" { Some(0) } else {
                wal["details"].as_str().and_then(|s| s.split(' ').next()).and_then(|n| n.parse().ok()) };
            // oracle: pending records are reported by verify (and only then) but never shown as frames
            let fc = v["checks"].as_array().and_then(|a| a.iter().find(|c| c["name"] == "FrameCountConsistency").cloned()).unwrap_or(json!({}));
            if fc["status"] != "Passed" { out.violations.push(("verify-frame-count-inconsistent".into(), fc.to_string())); }
            if let Some(p) = impl_pending {
                if (p > 0) != (base.pending_records > 0) {
                    out.violations.push(("verify-misreports-pending-records".into(), format!("verify reports {p} pending records, the writer left {}", base.pending_records)));
                }
                if p > 0 { out.branches.push("verify-reports-pending".into()); }
            }
            // model: second session on the file as it is now
            if let Some(d) = drv.as_mut() {
                let after_tail = tail_of(&after);
                let toc2 = after_tail.as_ref().and_then(|t| Toc::decode(&after[t.toc_off..t.footer_pos]).ok()).filter(|t| t.verify_checksum().is_ok());
                let _ = d.ask(&format!("file {}", rle(&after)));
                let line = match toc2.as_ref().and_then(|t| toc_view(t).ok()) { Some(v) => format!("open code {}", v.line), None => "open code badtoc".into() };
                let mo = d.ask(&line);
                if mo.starts_with("ok ") {
                    let mp = d.ask("op wal_pending");
                    let ms = d.ask("op stats");
                    let mcanon = mp.split(" nw=").next().unwrap_or("").to_string();
                    let icanon = match impl_pending { Some(p) => format!("count {p}"), None => "err".into() };
                    tr!("verify model: pending {mp}; stats {ms}");
                    if mcanon != icanon { out.disagreements.push(("pending records seen by verify".into(), mp, wal.to_string())); }
                    let _ = d.ask("close");
                } else {
                    out.disagreements.push(("verify: model open fails where the implementation opens".into(), mo.chars().take(200).collect(), v.to_string()));
                }
            }
        }
    }
    out.nontrivial = opened;
    out
}

fn account(sum: &mut Summary, case: &Case, out: &Outcome, known: &[String]) {
    let cj = case.to_json();
    if let Some(s) = &out.skipped { sum.notes.push(s.clone()); return; }
    for b in &out.branches { sum.branch(b); }
    for (what, m, i) in &out.disagreements { sum.disagreement(what, cj.clone(), m, i); }
    for (sig, what) in &out.violations {
        if known.iter().any(|k| k == sig) && out.model_predicts_image {
            sum.known_finding(sig, what, cj.clone());
        } else {
            sum.oracle_violation(sig, what, cj.clone());
        }
    }
    sum.case(&cj.to_string(), out.nontrivial, || json!({"case": cj, "trace": out.trace.iter().take(6).collect::<Vec<_>>()}));
}

// ------------------------------------------------------------------------------------------ generator
fn gen_doc(rng: &mut Rng, tag: &str) -> Doc {
    let n = rng.usize(3, 30);
    let mut words: Vec<String> = (0..n).map(|_| rng.pick(WORDS).to_string()).collect();
    words.insert(rng.usize(0, words.len()), tag.to_string());
    Doc { text: words.join(" "), ts: 1_700_000_000 + rng.i64(-100_000, 100_000) }
}

fn gen_ops(rng: &mut Rng, committed: u64, pending: usize) -> Vec<Vec<String>> {
    let n = rng.usize(2, 9);
    let mut ops = vec![];
    for _ in 0..n {
        let op: Vec<String> = match rng.below(9) {
            0 => vec!["frame_count".into()],
            1 => vec!["stats".into()],
            2 => vec!["timeline".into()],
            3 | 4 => {
                // ids around the committed boundary (pending frames would sit right behind it)
                let i = match rng.below(3) { 0 => rng.below(committed.max(1)), 1 => committed + rng.below(pending as u64 + 1), _ => committed.saturating_sub(1) };
                vec![if rng.bool() { "frame_text".into() } else { "frame_by_id".into() }, i.to_string()]
            }
            5 => vec!["search".into(), rng.pick(WORDS).to_string()],
            6 => vec!["search".into(), format!("doc{}x", rng.below(committed.max(1)))],
            _ => vec!["search".into(), if pending > 0 { format!("pend{}x", rng.below(pending as u64)) } else { "nohit".into() }],
        };
        ops.push(op);
    }
    ops
}

/// a writer history: commit groups, then pending puts / a pending delete
fn gen_base(rng: &mut Rng) -> Case {
    let groups = match rng.below(8) { 0 => 0, 1..=4 => 1, 5..=6 => 2, _ => 3 };
    let mut k = 0;
    let mut commits = vec![];
    for _ in 0..groups {
        let lo = if rng.chance(1, 6) { 0 } else { 1 };
        let n = rng.usize(lo, 4);
        let mut g = vec![];
        for _ in 0..n { g.push(gen_doc(rng, &format!("doc{k}x"))); k += 1; }
        commits.push(g);
    }
    let np = if rng.chance(1, 4) { 0 } else { rng.usize(1, 4) };
    let pending: Vec<Doc> = (0..np).map(|i| gen_doc(rng, &format!("pend{i}x"))).collect();
    let pending_delete = if k > 0 && rng.chance(1, 4) { Some(rng.below(k as u64)) } else { None };
    Case { commits, pending, pending_delete, plant: "none".into(), plant_arg: 1, ops: vec![], verify: None, strace: false }
}

/// a read-only session (plant + read calls) over a writer history
fn gen_variant(rng: &mut Rng, base: &Case, first: bool, strace: bool) -> Case {
    let k: usize = base.commits.iter().map(|g| g.len()).sum();
    let plant = if first { "none" } else { match rng.below(10) { 0 | 1 => "legacy", 2 | 3 => "catalog", 4 => "lexseg", 5 => "legacy+catalog", _ => "none" } }.to_string();
    let ops = gen_ops(rng, k as u64, base.pending.len());
    Case { plant, plant_arg: rng.range(1, 5000), ops, verify: if rng.chance(1, 2) { Some(rng.bool()) } else { None }, strace, ..base.clone() }
}

fn fixed_corpus() -> Vec<Case> {
    let d = |t: &str, ts: i64| Doc { text: t.to_string(), ts };
    let ops_all = |c: u64| -> Vec<Vec<String>> { vec![
        vec!["frame_count".into()], vec!["search".into(), "kiwi".into()], vec!["search".into(), "pend0x".into()], vec!["timeline".into()],
        vec!["frame_text".into(), "0".into()], vec!["frame_by_id".into(), c.to_string()], vec!["frame_text".into(), c.to_string()], vec!["stats".into()]] };
    let two = vec![d("doc0x kiwi zebra quartz", 1_700_000_010), d("doc1x walnut kiwi falcon", 1_700_000_020)];
    let pend = vec![d("pend0x kiwi lorem ipsum", 1_700_000_030), d("pend1x zebra dolor", 1_700_000_040)];
    let base = Case { commits: vec![two.clone()], pending: pend.clone(), pending_delete: None, plant: "none".into(), plant_arg: 1, ops: ops_all(2), verify: Some(true), strace: true };
    let three = vec![two.clone(), vec![d("doc2x amet tempor kiwi", 1_700_000_025)]];
    vec![
        Case { commits: vec![], pending: vec![], ops: ops_all(0), ..base.clone() },
        base.clone(),
        Case { commits: three, pending_delete: Some(1), ops: ops_all(3), ..base.clone() },
        Case { commits: vec![], ops: ops_all(0), ..base.clone() },
        // the two planted witnesses (fixes/C18.diff): legacy lock bytes; catalog entry beyond the footer
        Case { plant: "legacy".into(), plant_arg: 7, ..base.clone() },
        Case { plant: "catalog".into(), plant_arg: 1, ..base.clone() },
        Case { plant: "lexseg".into(), plant_arg: 16, verify: None, ..base.clone() },
        Case { plant: "legacy+catalog".into(), plant_arg: 300, verify: None, ..base.clone() },
        Case { commits: vec![], pending: vec![], plant: "catalog".into(), plant_arg: 40, ops: ops_all(0), verify: None, ..base.clone() },
    ]
}

fn main() {
    if std::env::args().nth(1).as_deref() == Some("child") {
        child_main();
        return;
    }
    let args = parse_args();
    let known: Vec<String> = args.extra.get("known").map(|k| k.split(',').map(|x| x.trim().to_string()).filter(|x| !x.is_empty() && x != "-").collect()).unwrap_or_default();
    let mut drv = if args.driver.as_os_str() == "none" { None } else {
        match Driver::spawn(&args.driver) {
            Ok(d) => Some(d),
            Err(e) => { eprintln!("cannot start driver {:?}: {e}", args.driver); std::process::exit(EXIT_ERROR); }
        }
    };
    let mut sum = Summary::new("C18", &args,
        "distinct (committed groups, pending records, plant, read-call sequence) cases whose read-only open succeeded");
    sum.expect_branches(&["pending-records-present", "committed-frames-present", "writer-file-satisfies-hypotheses", "embedded-lex-segments-present",
        "plant-none", "plant-legacy", "plant-catalog", "plant-lexseg", "probe-beyond-committed", "search-with-hits",
        "search-for-pending-only-token", "verify", "verify-reports-pending", "straced"]);

    if args.mode == "replay" {
        let case_v = load_replay(args.replay_file.as_ref().expect("replay file"));
        let input = case_v.get("input").cloned().unwrap_or(case_v);
        let case = Case::from_json(&input);
        println!("replay of {input}");
        let mut cache = BaseCache::new();
        let out = run_case(&case, &mut cache, &mut drv, true);
        for (sig, what) in &out.violations { println!("ORACLE VIOLATION [{sig}] {what}"); }
        for (what, m, i) in &out.disagreements { println!("DISAGREEMENT {what}\n   model: {m}\n   impl:  {i}"); }
        account(&mut sum, &case, &out, &known);
        sum.model_requests = drv.as_ref().map(|d| d.requests).unwrap_or(0);
        sum.finish(&args);
    }

    let mut rng = Rng::new(args.seed);
    let mut cache = BaseCache::new();
    for case in fixed_corpus() {
        let out = run_case(&case, &mut cache, &mut drv, false);
        account(&mut sum, &case, &out, &known);
    }
    let (bases, variants) = if args.thorough { (20, 6) } else { (3, 4) };
    let mut i = 0;
    for _ in 0..bases {
        let base = gen_base(&mut rng);
        for v in 0..variants {
            // every 3rd generated case runs under strace (all of the fixed corpus does)
            let case = gen_variant(&mut rng, &base, v == 0, i % 3 == 0);
            i += 1;
            let out = run_case(&case, &mut cache, &mut drv, false);
            account(&mut sum, &case, &out, &known);
        }
        if cache.len() > 8 { cache.clear(); }
    }
    sum.model_requests = drv.as_ref().map(|d| d.requests).unwrap_or(0);
    sum.finish(&args);
}
