//! C12 — ACL enforcement never leaks a denied frame.
//!
//! Streams:
//!  (A) decision level: random ACL metadata × caller contexts against the crate-private
//!      `normalize_scalar` / `parse_acl_list` / `parse_acl_metadata` / `normalize_acl_context` /
//!      `evaluate_acl_metadata` (through `verif_hooks`), compared with the Lean model (`drv_c12`) and
//!      with an independent Rust re-statement of the rule (the oracle's decision function);
//!  (B) end to end on real `.mv2` files: frames with ACL `extra_metadata`, then
//!      `apply_acl_to_search_hits` (hook), `search`, `vec_search_with_embedding_acl`,
//!      `search_adaptive_acl` and `ask` in no-ACL / Audit / Enforce mode.
//! Oracle (independent of the model): under Enforce every returned hit / citation / fragment
//! belongs to a frame the rule allows and no text returned (hit text, context, fragments, answer)
//! contains the unique marker of a denied frame; Enforce without a tenant is an error; Audit equals
//! the no-ACL answer.
use memvid_core::types::{
    ACL_READ_GROUPS_KEY, ACL_READ_PRINCIPALS_KEY, ACL_READ_ROLES_KEY, ACL_TENANT_ID_KEY, ACL_VISIBILITY_KEY,
    AclContext, AclEnforcementMode, AdaptiveConfig, AskMode, AskRequest, AskResponse, PutOptions, SearchHit,
    SearchRequest, SearchResponse, VecEmbedder,
};
use memvid_core::verif_hooks as vh;
use memvid_core::{Memvid, find_adaptive_cutoff};
use mvh::*;
use serde::{Deserialize, Serialize};
use std::collections::{BTreeMap, BTreeSet};

// ------------------------------------------------------------------------------------------
// plain data

#[derive(Clone, Debug, Serialize, Deserialize, PartialEq)]
struct Ctx {
    present: bool,
    tenant: Option<String>,
    subject: Option<String>,
    roles: Vec<String>,
    groups: Vec<String>,
}

impl Ctx {
    fn absent() -> Ctx { Ctx { present: false, tenant: None, subject: None, roles: vec![], groups: vec![] } }
    fn to_acl(&self) -> Option<AclContext> {
        self.present.then(|| AclContext {
            tenant_id: self.tenant.clone(), subject_id: self.subject.clone(),
            roles: self.roles.clone(), group_ids: self.groups.clone(),
        })
    }
    fn wire(&self) -> String {
        format!("{} {} {} {} {}", if self.present { 1 } else { 0 }, wopt(self.tenant.as_deref()),
            wopt(self.subject.as_deref()), wlist(&self.roles), wlist(&self.groups))
    }
}

type Meta = BTreeMap<String, String>;

#[derive(Clone, Debug, Serialize, Deserialize)]
struct FrameDef {
    text: String,
    uri: Option<String>,
    ts: i64,
    meta: Meta,
    emb: Option<Vec<f32>>,
}

#[derive(Clone, Debug, Serialize, Deserialize)]
#[serde(tag = "op")]
enum Op {
    Apply { ids: Vec<u64> },
    Search { query: String, top_k: usize, as_of_ts: Option<i64> },
    Vec { emb: Vec<f32>, top_k: usize },
    Adaptive { emb: Vec<f32>, enabled: bool, max_results: usize, min_results: usize },
    Ask { question: String, top_k: usize, mode: String, context_only: bool, embedder: bool, adaptive: bool },
}

#[derive(Clone, Debug, Serialize, Deserialize)]
#[serde(tag = "kind")]
enum Case {
    Scalar { value: Option<String> },
    List { value: Option<String> },
    Eval { meta: Meta, ctx: Ctx },
    E2e { frames: Vec<FrameDef>, vec: bool, ctx: Ctx, op: Op },
}

// ------------------------------------------------------------------------------------------
// wire helpers
fn wstr(s: &str) -> String { hexw(s.as_bytes()) }
fn wopt(s: Option<&str>) -> String { match s { None => "~".into(), Some(s) => wstr(s) } }
fn wlist(l: &[String]) -> String {
    if l.is_empty() { ".".into() } else { l.iter().map(|s| wstr(s)).collect::<Vec<_>>().join(",") }
}
fn wset(l: &[String]) -> String {
    let s: BTreeSet<&String> = l.iter().collect();
    if s.is_empty() { ".".into() } else { s.iter().map(|s| wstr(s)).collect::<Vec<_>>().join(",") }
}
fn wmeta(m: &Meta) -> String {
    if m.is_empty() { ".".into() } else { m.iter().map(|(k, v)| format!("{}:{}", wstr(k), wstr(v))).collect::<Vec<_>>().join(",") }
}
fn wids(ids: &[u64]) -> String {
    if ids.is_empty() { ".".into() } else { ids.iter().map(|i| i.to_string()).collect::<Vec<_>>().join(",") }
}
fn whits(h: &[(u64, usize)]) -> String {
    if h.is_empty() { ".".into() } else { h.iter().map(|(f, r)| format!("{f}:{r}")).collect::<Vec<_>>().join(",") }
}

// ------------------------------------------------------------------------------------------
// the rule, restated independently (serde_json::Value instead of typed deserialisation, own
// lower-casing); used only by the oracle
fn o_norm(v: Option<&str>) -> Option<String> {
    let t = v?.trim();
    if t.is_empty() { return None; }
    let u = match serde_json::from_str::<Value>(t) {
        Ok(Value::String(s)) => s.trim().to_string(),
        _ => t.to_string(),
    };
    if u.is_empty() { return None; }
    Some(u.chars().map(|c| if ('A'..='Z').contains(&c) { ((c as u8) + 32) as char } else { c }).collect())
}

fn o_list(meta: &Meta, key: &str) -> Result<BTreeSet<String>, ()> {
    let Some(raw) = meta.get(key) else { return Ok(BTreeSet::new()) };
    match serde_json::from_str::<Value>(raw) {
        Ok(Value::Array(items)) => {
            let mut out = BTreeSet::new();
            for it in items {
                match it {
                    Value::String(s) => { out.insert(o_norm(Some(&s)).ok_or(())?); }
                    _ => return Err(()),
                }
            }
            Ok(out)
        }
        _ => Err(()),
    }
}

struct ONorm { tenant: String, subject: Option<String>, roles: BTreeSet<String>, groups: BTreeSet<String> }

fn o_ctx(c: &Ctx) -> Option<ONorm> {
    if !c.present { return None; }
    let tenant = o_norm(c.tenant.as_deref())?;
    Some(ONorm {
        tenant,
        subject: c.subject.as_deref().and_then(|s| o_norm(Some(s))),
        roles: c.roles.iter().filter_map(|r| o_norm(Some(r))).collect(),
        groups: c.groups.iter().filter_map(|g| o_norm(Some(g))).collect(),
    })
}

/// decision of the rule for a caller with a tenant
fn o_decide(meta: &Meta, n: &ONorm) -> &'static str {
    let Some(tenant) = o_norm(meta.get(ACL_TENANT_ID_KEY).map(String::as_str)) else { return "deny:missing-metadata" };
    let Some(vis) = o_norm(meta.get(ACL_VISIBILITY_KEY).map(String::as_str)) else { return "deny:missing-metadata" };
    if vis != "public" && vis != "restricted" { return "deny:missing-metadata"; }
    let (Ok(roles), Ok(groups), Ok(principals)) =
        (o_list(meta, ACL_READ_ROLES_KEY), o_list(meta, ACL_READ_GROUPS_KEY), o_list(meta, ACL_READ_PRINCIPALS_KEY))
    else { return "deny:missing-metadata" };
    if tenant != n.tenant { return "deny:cross-tenant"; }
    if vis == "public" { return "allow"; }
    let p = n.subject.as_ref().is_some_and(|s| principals.contains(s));
    let r = n.roles.iter().any(|x| roles.contains(x));
    let g = n.groups.iter().any(|x| groups.contains(x));
    if p || r || g { "allow" } else { "deny:restricted" }
}

// ------------------------------------------------------------------------------------------
// generators

const WS: &[&str] = &[" ", "\t", "\n", "\r", "\u{a0}", "\u{2003}", "\u{3000}", "\u{85}", "\u{1680}", "\u{2028}", "\u{b}", "\u{c}"];
const NOT_WS: &[&str] = &["\u{200b}", "\u{feff}", "\u{180e}", "\u{1c}", "\u{0}"];
const WORDS: &[&str] = &["t1", "T1", "t2", "Tenant-A", "tenant-a", "admin", "Admin", "ANALYST", "eng", "Ops", "user-123",
    "USER-123", "É", "é", "İx", "ß", "K", "k", "public", "restricted", "Public", "RESTRICTED", "a b", "x\"y", "x\\y", "😀"];

fn pk<'a>(rng: &mut Rng, xs: &[&'a str]) -> &'a str { xs[rng.below(xs.len() as u64) as usize] }

fn pad(rng: &mut Rng, s: &str) -> String {
    let mut o = String::new();
    for _ in 0..rng.below(3) { o.push_str(pk(rng, WS)); }
    o.push_str(s);
    for _ in 0..rng.below(3) { o.push_str(pk(rng, WS)); }
    o
}

/// JSON string literal for `s` with random escape styles (all inside what serde_json accepts)
fn json_quote(rng: &mut Rng, s: &str) -> String {
    let mut o = String::from("\"");
    for c in s.chars() {
        let style = rng.below(6);
        match c {
            '"' => o.push_str("\\\""),
            '\\' => o.push_str("\\\\"),
            '/' if style == 0 => o.push_str("\\/"),
            '\n' => o.push_str("\\n"),
            '\r' => o.push_str("\\r"),
            '\t' => o.push_str("\\t"),
            '\u{8}' => o.push_str("\\b"),
            '\u{c}' => o.push_str("\\f"),
            c if (c as u32) < 0x20 => o.push_str(&format!("\\u{:04x}", c as u32)),
            c if style == 1 => {
                let mut buf = [0u16; 2];
                for u in c.encode_utf16(&mut buf) {
                    if rng.bool() { o.push_str(&format!("\\u{:04x}", u)); } else { o.push_str(&format!("\\u{:04X}", u)); }
                }
            }
            c => o.push(c),
        }
    }
    o.push('"');
    o
}

/// near-JSON that serde_json must reject (or accept in a surprising way)
fn json_malformed(rng: &mut Rng) -> String {
    let pool: &[&str] = &[
        "\"abc", "abc\"", "\"a\"b", "\"a\" \"b\"", "\"\\x41\"", "\"\\u12\"", "\"\\u12G4\"", "\"\\ud800\"", "\"\\udc00\"",
        "\"\\ud800\\u0041\"", "\"\\ud800x\"", "\"\\ud800\\n\"", "\"\\ud83d\\ude00\"", "\"\\uD83D\\uDE00\"", "\"\\ud83d\\ud83d\"",
        "\"a\u{1}b\"", "\"a\tb\"", "\"a\\tb\"", "'abc'", "\"\"", "\" \"", "\"\\u0020\"", "\"\\u00a0x\\u00A0\"", "\"\\u0000\"",
        "null", "true", "12", "[\"a\"]", "{\"a\":1}", "\"a\"\u{a0}", "\u{feff}\"a\"", "\"\\", "\"\\u", "\"\\ud83d\\", "\"\\ud83d\\u",
        "\"\\ud83d\\ude0\"", "\"é\\u00e9\\u00C9\"", "\"\\/\\b\\f\"", "\"\\\"q\\\"\"", "\"\\\\\"",
    ];
    (pk(rng, pool)).to_string()
}

fn gen_scalar(rng: &mut Rng) -> Option<String> {
    match rng.below(16) {
        0 => None,
        1 => Some(String::new()),
        2 => Some((0..rng.usize(1, 3)).map(|_| pk(rng, WS)).collect()),
        3 | 4 => { let w = pk(rng, WORDS); Some(pad(rng, w)) }
        5 | 6 => { let w = pk(rng, WORDS); let q = json_quote(rng, w); Some(pad(rng, &q)) }
        7 => { let w0 = pk(rng, WORDS); let w = pad(rng, w0); let q = json_quote(rng, &w); Some(pad(rng, &q)) }   // white space inside the quotes
        8 => { let w = pk(rng, WORDS); let q = json_quote(rng, w); let qq = json_quote(rng, &q); Some(qq) }  // doubly quoted
        9 | 10 => { let m = json_malformed(rng); Some(pad(rng, &m)) }
        11 => { let w = pk(rng, WORDS); Some(format!("{}{}{}", pk(rng, NOT_WS), w, pk(rng, NOT_WS))) }
        12 => { let w: String = (0..rng.usize(1, 3)).map(|_| pk(rng, NOT_WS)).collect(); Some(json_quote(rng, &w)) }
        _ => {
            // random soup over the characters the parsers care about
            let alpha: Vec<char> = "\"\"\\\\/bfnrtu0123dDcCeEaAfF [],xX\u{a0}\u{1}é😀".chars().collect();
            Some((0..rng.usize(1, 10)).map(|_| *rng.pick(&alpha)).collect())
        }
    }
}

fn gen_list_raw(rng: &mut Rng, pool: &[&str]) -> String {
    match rng.below(14) {
        0 => "[]".into(),
        1 => pad(rng, "[ ]"),
        2 => { // malformed arrays
            let p: &[&str] = &["eng,ops", "[\"a\",]", "[,\"a\"]", "[1]", "[null]", "[\"a\" \"b\"]", "null", "\"a\"", "{}", "[[\"a\"]]",
                "[\"a\"] x", "[\"a\"", "[", "", " ", "[\"a\",,\"b\"]", "[\"a\"]]", "[\"\"]", "[\" \"]", "[\"\\\"\\\"\"]", "[\"a\",\"\\ud800\"]",
                "[\"a\"\u{a0}]", "\u{a0}[\"a\"]", "[\"a\"]\u{a0}", "[true]", "[\"a\",1]"];
            (pk(rng, p)).to_string()
        }
        _ => {
            let n = rng.usize(1, 4);
            let mut o = String::new();
            if rng.chance(1, 5) { o.push_str(pk(rng, &[" ", "\n", "\t", "\r"])); }
            o.push('[');
            for i in 0..n {
                if i > 0 { o.push(','); }
                if rng.chance(1, 4) { o.push_str(pk(rng, &[" ", "\n", "\t", "\r"])); }
                let w = pk(rng, pool);
                let item = match rng.below(8) {
                    0 => pad(rng, w),
                    1 => json_quote(rng, w),          // item that is itself a JSON string literal
                    _ => w.to_string(),
                };
                o.push_str(&json_quote(rng, &item));
                if rng.chance(1, 4) { o.push_str(pk(rng, &[" ", "\n", "\t", "\r"])); }
            }
            o.push(']');
            if rng.chance(1, 5) { o.push_str(pk(rng, &[" ", "\n", "\t", "\r"])); }
            o
        }
    }
}

const TENANTS: &[&str] = &["t1", "T1", "t2", "tenant-a", "Tenant-A", "É"];
const ROLES: &[&str] = &["admin", "Admin", "analyst", "viewer", "ops"];
const GROUPS: &[&str] = &["eng", "ENG", "ops", "sales"];
const PRINCIPALS: &[&str] = &["user-123", "USER-123", "bob", "alice"];

fn gen_scalar_from(rng: &mut Rng, pool: &[&str]) -> String {
    let w = pk(rng, pool);
    match rng.below(10) {
        0 => pad(rng, w),
        1 => json_quote(rng, w),
        2 => { let q = json_quote(rng, w); pad(rng, &q) }
        3 => { let p = pad(rng, w); json_quote(rng, &p) }
        _ => w.to_string(),
    }
}

fn gen_meta(rng: &mut Rng) -> Meta {
    let mut m = Meta::new();
    match rng.below(12) {
        0 => {}                                                               // missing tenant
        1 => { m.insert(ACL_TENANT_ID_KEY.into(), gen_scalar(rng).unwrap_or_default()); }
        2 => { m.insert(pk(rng, &["ACL_TENANT_ID", "acl_tenant_id ", "acl_tenantid", "tenant_id"]).to_string(), "t1".into()); }
        _ => { m.insert(ACL_TENANT_ID_KEY.into(), gen_scalar_from(rng, TENANTS)); }
    }
    match rng.below(12) {
        0 => {}
        1 => { m.insert(ACL_VISIBILITY_KEY.into(), gen_scalar(rng).unwrap_or_default()); }
        2 => { m.insert(ACL_VISIBILITY_KEY.into(), pk(rng, &["private", "publi", "public!", "restricted ", "\"Restricted\"", "pub lic", "publıc"]).to_string()); }
        3..=6 => { m.insert(ACL_VISIBILITY_KEY.into(), gen_scalar_from(rng, &["public", "Public", "PUBLIC"])); }
        _ => { m.insert(ACL_VISIBILITY_KEY.into(), gen_scalar_from(rng, &["restricted", "Restricted", "RESTRICTED"])); }
    }
    for (key, pool) in [(ACL_READ_ROLES_KEY, ROLES), (ACL_READ_GROUPS_KEY, GROUPS), (ACL_READ_PRINCIPALS_KEY, PRINCIPALS)] {
        if rng.chance(3, 5) { m.insert(key.into(), gen_list_raw(rng, pool)); }
    }
    if rng.chance(1, 4) { m.insert("acl_resource_id".into(), "res-1".into()); }
    if rng.chance(1, 6) { m.insert("note".into(), "[\"admin\"]".into()); }
    m
}

fn gen_ctx(rng: &mut Rng) -> Ctx {
    if rng.chance(1, 14) { return Ctx::absent(); }
    let tenant = match rng.below(14) {
        0 => None,
        1 => Some(pk(rng, &["", " ", "\"\"", "\" \"", "\u{a0}", "\"\\u0020\""]).to_string()),
        2 => gen_scalar(rng),
        _ => Some(gen_scalar_from(rng, TENANTS)),
    };
    let subject = match rng.below(4) { 0 => None, 1 => gen_scalar(rng), _ => Some(gen_scalar_from(rng, PRINCIPALS)) };
    let roles = (0..rng.below(3)).map(|_| if rng.chance(1, 8) { gen_scalar(rng).unwrap_or_default() } else { gen_scalar_from(rng, ROLES) }).collect();
    let groups = (0..rng.below(3)).map(|_| if rng.chance(1, 8) { gen_scalar(rng).unwrap_or_default() } else { gen_scalar_from(rng, GROUPS) }).collect();
    Ctx { present: true, tenant, subject, roles, groups }
}

/// metadata for the end-to-end corpora: mostly valid, tenant t1/t2, so that contexts both hit and miss
fn gen_meta_e2e(rng: &mut Rng) -> Meta {
    if rng.chance(1, 5) { return gen_meta(rng); }
    if rng.chance(1, 10) { return Meta::new(); }
    let mut m = Meta::new();
    m.insert(ACL_TENANT_ID_KEY.into(), gen_scalar_from(rng, &["t1", "T1", "t2"]));
    let vis = if rng.chance(2, 5) { "public" } else { "restricted" };
    m.insert(ACL_VISIBILITY_KEY.into(), gen_scalar_from(rng, &[vis]));
    for (key, pool) in [(ACL_READ_ROLES_KEY, ROLES), (ACL_READ_GROUPS_KEY, GROUPS), (ACL_READ_PRINCIPALS_KEY, PRINCIPALS)] {
        if rng.chance(1, 2) {
            let n = rng.usize(0, 2);
            let items: Vec<String> = (0..n).map(|_| pk(rng, pool).to_string()).collect();
            m.insert(key.into(), serde_json::to_string(&items).unwrap());
        }
    }
    m
}

fn gen_ctx_e2e(rng: &mut Rng) -> Ctx {
    if rng.chance(1, 6) { return gen_ctx(rng); }
    if rng.chance(1, 8) {
        // callers without a usable tenant
        let mut c = gen_ctx(rng);
        match rng.below(3) { 0 => return Ctx::absent(), 1 => c.tenant = None, _ => c.tenant = Some(pk(rng, &["", " ", "\"\"", "\" \"", "\u{a0}"]).to_string()) }
        c.present = true;
        return c;
    }
    Ctx {
        present: true,
        tenant: Some(gen_scalar_from(rng, &["t1", "t1", "T1", "t2"])),
        subject: if rng.bool() { Some(pk(rng, PRINCIPALS).to_string()) } else { None },
        roles: (0..rng.below(3)).map(|_| pk(rng, ROLES).to_string()).collect(),
        groups: (0..rng.below(3)).map(|_| pk(rng, GROUPS).to_string()).collect(),
    }
}

fn marker(i: usize) -> String { format!("zqx{i:03}w") }

const TOPICS: &[&str] = &["alpha", "beta", "gamma", "budget", "deploy"];

fn gen_emb(rng: &mut Rng) -> Vec<f32> { (0..4).map(|_| (rng.below(2001) as f32 - 1000.0) / 1000.0).collect() }

fn gen_frames(rng: &mut Rng, vec: bool) -> Vec<FrameDef> {
    let n = rng.usize(3, 10);
    (0..n).map(|i| {
        let mut words: Vec<String> = vec!["memo".into(), marker(i)];
        for _ in 0..rng.usize(2, 5) { words.push(pk(rng, TOPICS).to_string()); }
        words.push(format!("note{}", i));
        if rng.chance(1, 3) { words.push("the current budget is".into()); words.push(format!("{}", 100 + i)); }
        let uri = match rng.below(8) {
            0 => None,
            1 => Some(format!("mv2://correction/{i}")),
            _ => Some(format!("mv2://doc/{i}")),
        };
        FrameDef {
            text: words.join(" "),
            uri,
            ts: 1_700_000_000 + (rng.below(1000) as i64) * 86_400,
            meta: gen_meta_e2e(rng),
            emb: if vec && rng.chance(5, 6) { Some(gen_emb(rng)) } else { None },
        }
    }).collect()
}

fn gen_op(rng: &mut Rng, n: usize, vec: bool) -> Op {
    let kind = rng.below(if vec { 10 } else { 6 });
    match kind {
        0 => Op::Apply { ids: (0..rng.usize(0, 8)).map(|_| rng.below(n as u64 + 2)).collect() },
        1 | 2 => {
            let query = match rng.below(6) {
                0 => format!("{} OR {}", pk(rng, TOPICS), pk(rng, TOPICS)),
                1 => "memo".to_string(),
                2 => marker(rng.usize(0, n - 1)),
                _ => pk(rng, TOPICS).to_string(),
            };
            Op::Search { query, top_k: rng.usize(1, n + 3), as_of_ts: if rng.chance(1, 8) { Some(-5) } else { None } }
        }
        3..=5 => {
            let question = match rng.below(8) {
                0 => format!("what is the latest {}", pk(rng, TOPICS)),
                1 => format!("compare {} and {} over time", pk(rng, TOPICS), pk(rng, TOPICS)),
                2 => format!("how many {} memos are there in total", pk(rng, TOPICS)),
                3 => "what is the current budget".to_string(),
                4 => "xylophone quartz".to_string(),                                  // no hit: timeline fallback
                5 => format!("{}s", pk(rng, TOPICS)),                                // plural: expanded query fallback
                _ => format!("{} {}", pk(rng, TOPICS), pk(rng, TOPICS)),
            };
            Op::Ask {
                question, top_k: if rng.bool() { n + 2 } else { rng.usize(1, 6) },
                mode: pk(rng, &["lex", "sem", "hybrid"]).to_string(), context_only: rng.chance(1, 3),
                embedder: vec && rng.chance(2, 3), adaptive: vec && rng.chance(1, 4),
            }
        }
        6 | 7 => Op::Vec { emb: gen_emb(rng), top_k: if rng.chance(1, 8) { 0 } else { rng.usize(1, n + 2) } },
        _ => Op::Adaptive { emb: gen_emb(rng), enabled: rng.chance(3, 4), max_results: rng.usize(1, n + 2), min_results: rng.usize(0, 3) },
    }
}

// ------------------------------------------------------------------------------------------
// stream A: decision level

fn run_scalar(v: &Option<String>, drv: &mut Option<Driver>, sum: &mut Summary) {
    let imp = match vh::acl_normalize_scalar(v.as_deref()) { None => "none".to_string(), Some(s) => format!("some {}", wstr(&s)) };
    let ora = match o_norm(v.as_deref()) { None => "none".to_string(), Some(s) => format!("some {}", wstr(&s)) };
    let case = serde_json::to_value(Case::Scalar { value: v.clone() }).unwrap();
    if let Some(v) = v {
        let t = v.trim();
        if t.starts_with('"') && serde_json::from_str::<String>(t).is_ok() { sum.branch("scalar-json-unwrapped"); }
        else if t.starts_with('"') { sum.branch("scalar-quote-but-not-json"); }
        if t.contains("\\u") && serde_json::from_str::<String>(t).is_ok() { sum.branch("scalar-unicode-escape"); }
    }
    sum.branch(if imp == "none" { "scalar-none" } else { "scalar-some" });
    if imp != ora {
        sum.oracle_violation("normalize-scalar-differs-from-rule", &format!("impl={imp} rule={ora}"), case.clone());
    }
    if let Some(d) = drv {
        let model = d.ask(&format!("ns {}", wopt(v.as_deref())));
        if model != imp { sum.disagreement("normalize_scalar vs model", case.clone(), &model, &imp); }
        // the JSON string parser on its own (no trim around it)
        if let Some(v) = v {
            let imp_j = match serde_json::from_str::<String>(v) { Ok(s) => format!("some {}", wstr(&s)), Err(_) => "none".into() };
            let model_j = d.ask(&format!("jstr {}", wstr(v)));
            if model_j != imp_j { sum.disagreement("serde_json::from_str::<String> vs model parseJsonString", case.clone(), &model_j, &imp_j); }
        }
    }
    sum.case(&format!("scalar|{v:?}"), v.as_deref().is_some_and(|s| !s.trim().is_empty()), || json!({"scalar": v, "impl": imp}));
}

fn run_list(v: &Option<String>, drv: &mut Option<Driver>, sum: &mut Summary) {
    let imp = match vh::acl_parse_list(v.as_deref()) { None => "err".to_string(), Some(l) => format!("ok {}", wset(&l)) };
    let mut m = Meta::new();
    if let Some(v) = v { m.insert("k".into(), v.clone()); }
    let ora = match o_list(&m, "k") { Err(()) => "err".to_string(), Ok(s) => format!("ok {}", wset(&s.into_iter().collect::<Vec<_>>())) };
    let case = serde_json::to_value(Case::List { value: v.clone() }).unwrap();
    sum.branch(if imp == "err" { "list-rejected" } else if imp == "ok ." { "list-empty" } else { "list-some" });
    if imp != ora { sum.oracle_violation("parse-acl-list-differs-from-rule", &format!("impl={imp} rule={ora}"), case.clone()); }
    if let Some(d) = drv {
        let model = d.ask(&format!("list {}", wopt(v.as_deref())));
        if model != imp { sum.disagreement("parse_acl_list vs model", case.clone(), &model, &imp); }
    }
    sum.case(&format!("list|{v:?}"), v.is_some(), || json!({"list": v, "impl": imp}));
}

fn run_eval(meta: &Meta, ctx: &Ctx, drv: &mut Option<Driver>, sum: &mut Summary) {
    let case = serde_json::to_value(Case::Eval { meta: meta.clone(), ctx: ctx.clone() }).unwrap();
    let imp = vh::acl_evaluate(meta, ctx.present, ctx.tenant.as_deref(), ctx.subject.as_deref(), &ctx.roles, &ctx.groups);
    let on = o_ctx(ctx);
    let ora = match &on { None => "allow", Some(n) => o_decide(meta, n) };
    let imp_p = match vh::acl_parse_metadata(meta) {
        None => "err".to_string(),
        Some((t, v, r, g, p)) => format!("ok {} {} {} {} {}", wstr(&t), v, wset(&r), wset(&g), wset(&p)),
    };
    let imp_c = match vh::acl_normalize_context(ctx.present, ctx.tenant.as_deref(), ctx.subject.as_deref(), &ctx.roles, &ctx.groups) {
        None => "none".to_string(),
        Some((t, s, r, g)) => format!("some {} {} {} {}", wstr(&t), wopt(s.as_deref()), wset(&r), wset(&g)),
    };
    if on.is_none() { sum.branch("eval-no-tenant-context"); } else { sum.branch(&format!("eval-{imp}")); }
    if imp_p == "err" { sum.branch("meta-rejected"); } else { sum.branch("meta-parsed"); }
    if imp != ora {
        sum.oracle_violation("decision-differs-from-rule", &format!("impl={imp} rule={ora}"), case.clone());
    }
    if (imp_c == "none") != on.is_none() {
        sum.oracle_violation("context-normalisation-differs-from-rule", &format!("impl={imp_c}"), case.clone());
    }
    if let Some(d) = drv {
        let model = d.ask(&format!("eval {} {}", wmeta(meta), ctx.wire()));
        if model != imp { sum.disagreement("evaluate_acl_metadata vs model", case.clone(), &model, &imp); }
        let model_p = d.ask(&format!("pmeta {}", wmeta(meta)));
        if model_p != imp_p { sum.disagreement("parse_acl_metadata vs model", case.clone(), &model_p, &imp_p); }
        let model_c = d.ask(&format!("nctx {}", ctx.wire()));
        if model_c != imp_c { sum.disagreement("normalize_acl_context vs model", case.clone(), &model_c, &imp_c); }
    }
    sum.case(&format!("eval|{}|{}", wmeta(meta), ctx.wire()), on.is_some(), || json!({"meta": meta, "ctx": ctx, "impl": imp}));
}

// ------------------------------------------------------------------------------------------
// stream B: end to end

struct Stub;
impl VecEmbedder for Stub {
    fn embed_query(&self, text: &str) -> memvid_core::Result<Vec<f32>> {
        let h = blake3::hash(text.as_bytes());
        Ok(h.as_bytes()[..4].iter().map(|b| (*b as f32 - 127.5) / 127.5).collect())
    }
    fn embedding_dimension(&self) -> usize { 4 }
}

struct World {
    _dir: tempfile::TempDir,
    mem: Memvid,
    metas: Vec<Meta>,     // as stored (frame_by_id), index = frame id
    markers: Vec<String>, // marker of frame i
}

fn build_world(frames: &[FrameDef], vec: bool) -> Result<World, String> {
    // RAM-backed scratch space when available: commits fsync, and the machine may be busy
    let dir = tempfile::tempdir_in("/dev/shm").or_else(|_| tempfile::tempdir()).map_err(|e| e.to_string())?;
    let path = dir.path().join("c12.mv2");
    let t0 = std::time::Instant::now();
    let timing = std::env::var("C12_TIMING").is_ok();
    let mut mem = Memvid::create(&path).map_err(|e| format!("create: {e}"))?;
    if timing { eprintln!("  create {:?}", t0.elapsed()); }
    mem.enable_lex().map_err(|e| format!("enable_lex: {e}"))?;
    if timing { eprintln!("  enable_lex {:?}", t0.elapsed()); }
    if vec { mem.enable_vec().map_err(|e| format!("enable_vec: {e}"))?; }
    for (i, f) in frames.iter().enumerate() {
        let mut o = PutOptions::default();
        o.timestamp = Some(f.ts);
        o.uri = f.uri.clone();
        o.title = Some(format!("doc {i}"));
        o.extra_metadata = f.meta.clone();
        o.auto_tag = false;
        o.extract_dates = false;
        o.extract_triplets = false;
        o.instant_index = false;
        let r = match &f.emb {
            Some(e) => mem.put_with_embedding_and_options(f.text.as_bytes(), e.clone(), o),
            None => mem.put_bytes_with_options(f.text.as_bytes(), o),
        };
        r.map_err(|e| format!("put {i}: {e}"))?;
    }
    if timing { eprintln!("  puts {:?}", t0.elapsed()); }
    mem.commit().map_err(|e| format!("commit: {e}"))?;
    if timing { eprintln!("  commit {:?}", t0.elapsed()); }
    let fc = mem.stats().map_err(|e| format!("stats: {e}"))?.frame_count;
    if fc != frames.len() as u64 { return Err(format!("harness assumption broken: {} puts but frame_count {fc}", frames.len())); }
    let mut metas = Vec::new();
    for (i, f) in frames.iter().enumerate() {
        let fr = mem.frame_by_id(i as u64).map_err(|e| format!("frame_by_id {i}: {e}"))?;
        for (k, v) in &f.meta {
            if fr.extra_metadata.get(k) != Some(v) { return Err(format!("harness assumption broken: frame {i} metadata key {k:?} not stored as given")); }
        }
        metas.push(fr.extra_metadata.clone());
    }
    Ok(World { _dir: dir, mem, metas, markers: (0..frames.len()).map(marker).collect() })
}

fn mode_of(enforce: bool) -> AclEnforcementMode { if enforce { AclEnforcementMode::Enforce } else { AclEnforcementMode::Audit } }

fn search_req(query: &str, top_k: usize, as_of_ts: Option<i64>, ctx: Option<AclContext>, enforce: bool) -> SearchRequest {
    SearchRequest {
        query: query.to_string(), top_k, snippet_chars: 120, uri: None, scope: None, cursor: None,
        as_of_frame: None, as_of_ts, no_sketch: false, acl_context: ctx, acl_enforcement_mode: mode_of(enforce),
    }
}

fn canon_search(r: &SearchResponse) -> Value {
    let mut v = serde_json::to_value(r).unwrap();
    v.as_object_mut().unwrap().remove("elapsed_ms");
    v
}

fn hit_pairs(h: &[SearchHit]) -> Vec<(u64, usize)> { h.iter().map(|x| (x.frame_id, x.rank)).collect() }

struct Checker<'a> {
    w: &'a World,
    on: Option<ONorm>,
    case: Value,
    known: &'a BTreeSet<String>,
}

impl Checker<'_> {
    fn allowed(&self, fid: u64) -> bool {
        match (&self.on, self.w.metas.get(fid as usize)) {
            (Some(n), Some(m)) => o_decide(m, n) == "allow",
            (Some(_), None) => false,
            (None, _) => true,
        }
    }
    fn denied_markers(&self) -> Vec<&String> {
        (0..self.w.metas.len()).filter(|i| !self.allowed(*i as u64)).map(|i| &self.w.markers[i]).collect()
    }
    /// no denied frame id among `ids`, no denied frame's marker inside `texts`
    fn no_leak(&self, what: &str, ids: &[u64], texts: &[&str], sum: &mut Summary) {
        for id in ids {
            if !self.allowed(*id) {
                let why = self.w.metas.get(*id as usize).map(|m| o_decide(m, self.on.as_ref().unwrap())).unwrap_or("deny:no-frame");
                sum.oracle_violation("enforce-returned-denied-frame", &format!("{what}: frame {id} is returned although the rule says {why}"), self.case.clone());
                return;
            }
        }
        for mk in self.denied_markers() {
            for t in texts {
                if t.contains(mk.as_str()) {
                    sum.oracle_violation("enforce-text-of-denied-frame", &format!("{what}: returned text contains the marker {mk} of a denied frame"), self.case.clone());
                    return;
                }
            }
        }
    }
    /// Enforce without a usable tenant must be an error that names the ACL context
    fn needs_tenant<T>(&self, what: &str, r: &Result<T, memvid_core::MemvidError>, sum: &mut Summary) {
        match r {
            Err(e) if e.to_string().contains("acl_context") => sum.branch("enforce-without-tenant-error"),
            Err(e) => sum.branch(&format!("enforce-without-tenant-other-error:{}", e.to_string().chars().take(30).collect::<String>())),
            Ok(_) => {
                let sig = "enforce-without-tenant-accepted";
                let msg = format!("{what}: Enforce without a tenant returned Ok instead of an error");
                if self.known.contains(sig) { sum.known_finding(sig, &msg, self.case.clone()); }
                else { sum.oracle_violation(sig, &msg, self.case.clone()); }
            }
        }
    }
}

fn texts_of(h: &[SearchHit]) -> Vec<&str> {
    let mut v: Vec<&str> = Vec::new();
    for x in h { v.push(&x.text); if let Some(c) = &x.chunk_text { v.push(c); } v.push(&x.uri); if let Some(t) = &x.title { v.push(t); } }
    v
}

fn load_model_frames(w: &World, d: &mut Driver) {
    d.ask("reset");
    for (i, m) in w.metas.iter().enumerate() { d.ask(&format!("frame {i} {}", wmeta(m))); }
}

fn run_e2e_op(w: &mut World, ctx: &Ctx, op: &Op, case: Value, drv: &mut Option<Driver>, sum: &mut Summary, known: &BTreeSet<String>) {
    let on = o_ctx(ctx);
    let has_tenant = on.is_some();
    let acl = ctx.to_acl();
    let canon = format!("{}", case);
    let mut nontrivial = false;
    // the checker borrows the world immutably; the API calls need it mutably → compute outputs first
    match op {
        Op::Apply { ids } => {
            let enf = vh::acl_apply(&w.mem, ids, ctx.present, ctx.tenant.as_deref(), ctx.subject.as_deref(), &ctx.roles, &ctx.groups, true);
            let aud = vh::acl_apply(&w.mem, ids, ctx.present, ctx.tenant.as_deref(), ctx.subject.as_deref(), &ctx.roles, &ctx.groups, false);
            let ck = Checker { w, on, case: case.clone(), known };
            let show = |r: &Result<(Vec<(u64, usize)>, [usize; 4]), String>| match r {
                Ok((h, s)) => format!("ok {} {} {} {} {}", whits(h), s[0], s[1], s[2], s[3]),
                Err(e) if e.contains("acl_context.tenant_id is required") => "err tenant-required".to_string(),
                Err(e) if e.contains("acl_context is required") => "err context-required".to_string(),
                Err(e) => format!("err other {e}"),
            };
            let (se, sa) = (show(&enf), show(&aud));
            if has_tenant {
                match &enf {
                    Ok((h, _)) => {
                        let expect: Vec<(u64, usize)> = ids.iter().filter(|i| ck.allowed(**i)).enumerate().map(|(k, i)| (*i, k + 1)).collect();
                        if *h != expect {
                            sum.oracle_violation("apply-enforce-not-the-filtered-list", &format!("apply_acl_to_search_hits returned {} but the rule keeps {}", whits(h), whits(&expect)), case.clone());
                        }
                        if h.len() < ids.len() { sum.branch("apply-enforce-dropped-some"); nontrivial = true; }
                        if h.is_empty() && !ids.is_empty() { sum.branch("apply-enforce-dropped-all"); }
                        if ids.iter().any(|i| *i as usize >= w.metas.len()) { sum.branch("apply-unknown-frame-id"); }
                    }
                    Err(e) => sum.oracle_violation("enforce-with-tenant-failed", &format!("apply: {e}"), case.clone()),
                }
            } else if enf.is_ok() {
                sum.oracle_violation("enforce-without-tenant-accepted", "apply_acl_to_search_hits: Enforce without a tenant returned Ok", case.clone());
            } else { sum.branch("enforce-without-tenant-error"); }
            match &aud {
                Ok((h, _)) => {
                    let same: Vec<(u64, usize)> = ids.iter().enumerate().map(|(k, i)| (*i, k + 1)).collect();
                    if *h != same { sum.oracle_violation("audit-changed-hits", &format!("apply audit returned {}", whits(h)), case.clone()); }
                    else { sum.branch("audit-identity"); }
                }
                Err(e) => sum.oracle_violation("audit-failed", &format!("apply: {e}"), case.clone()),
            }
            if let Some(d) = drv {
                let me = d.ask(&format!("apply enforce {} {}", ctx.wire(), wids(ids)));
                let ma = d.ask(&format!("apply audit {} {}", ctx.wire(), wids(ids)));
                if me != se { sum.disagreement("apply_acl_to_search_hits(Enforce) vs model", case.clone(), &me, &se); }
                if ma != sa { sum.disagreement("apply_acl_to_search_hits(Audit) vs model", case.clone(), &ma, &sa); }
            }
        }
        Op::Search { query, top_k, as_of_ts } => {
            let none = w.mem.search(search_req(query, *top_k, *as_of_ts, None, false));
            let aud = w.mem.search(search_req(query, *top_k, *as_of_ts, acl.clone(), false));
            let enf = w.mem.search(search_req(query, *top_k, *as_of_ts, acl.clone(), true));
            let ck = Checker { w, on, case: case.clone(), known };
            let Ok(none) = none else { sum.branch("search-base-error"); sum.case(&canon, false, || json!({})); return; };
            if as_of_ts.is_some() { sum.branch("search-early-empty-response"); }
            match &aud {
                Ok(a) if canon_search(a) == canon_search(&none) => sum.branch("audit-identity"),
                Ok(a) => sum.oracle_violation("audit-differs-from-no-acl", &format!("search: audit hits {} vs no-ACL hits {}", whits(&hit_pairs(&a.hits)), whits(&hit_pairs(&none.hits))), case.clone()),
                Err(e) => sum.oracle_violation("audit-failed", &format!("search: {e}"), case.clone()),
            }
            if has_tenant {
                match &enf {
                    Ok(e) => {
                        let ids: Vec<u64> = e.hits.iter().map(|h| h.frame_id).collect();
                        let mut texts = texts_of(&e.hits); texts.push(&e.context);
                        ck.no_leak("search", &ids, &texts, sum);
                        if e.total_hits != e.hits.len() { sum.oracle_violation("enforce-total-hits-counts-denied", &format!("search: total_hits {} but {} hits", e.total_hits, e.hits.len()), case.clone()); }
                        if e.hits.len() < none.hits.len() { sum.branch("search-enforce-dropped-some"); nontrivial = true; }
                        if !e.hits.is_empty() { sum.branch("search-enforce-kept-some"); }
                        if let Some(d) = drv {
                            let base: Vec<u64> = none.hits.iter().map(|h| h.frame_id).collect();
                            let m = d.ask(&format!("search enforce {} engine {}", ctx.wire(), wids(&base)));
                            let imp = format!("ok {} {} ctx={}", whits(&hit_pairs(&e.hits)), e.total_hits, wids(&ids));
                            if m != imp { sum.disagreement("search(Enforce) vs model on the no-ACL hit list", case.clone(), &m, &imp); }
                        }
                    }
                    Err(e) => sum.oracle_violation("enforce-with-tenant-failed", &format!("search: {e}"), case.clone()),
                }
            } else {
                ck.needs_tenant("search", &enf, sum);
                if let Some(d) = drv {
                    let pre = if as_of_ts.is_some() { "early" } else { "engine" };
                    let base: Vec<u64> = none.hits.iter().map(|h| h.frame_id).collect();
                    let m = d.ask(&format!("search enforce {} {pre} {}", ctx.wire(), wids(&base)));
                    let imp = match &enf { Ok(e) => format!("ok {} {} ctx=.", whits(&hit_pairs(&e.hits)), e.total_hits), Err(e) if e.to_string().contains("tenant_id is required") => "err tenant-required".into(), Err(e) if e.to_string().contains("acl_context is required") => "err context-required".into(), Err(e) => format!("err other {e}") };
                    if m != imp { sum.disagreement("search(Enforce, no tenant) vs model", case.clone(), &m, &imp); }
                }
            }
        }
        Op::Vec { emb, top_k } => {
            let none = w.mem.vec_search_with_embedding_acl("q", emb, *top_k, 120, None, None, AclEnforcementMode::Audit);
            let aud = w.mem.vec_search_with_embedding_acl("q", emb, *top_k, 120, None, acl.as_ref(), AclEnforcementMode::Audit);
            let enf = w.mem.vec_search_with_embedding_acl("q", emb, *top_k, 120, None, acl.as_ref(), AclEnforcementMode::Enforce);
            let ck = Checker { w, on, case: case.clone(), known };
            let Ok(none) = none else { sum.branch("vec-base-error"); sum.case(&canon, false, || json!({})); return; };
            let early = none.hits.is_empty();
            if early { sum.branch("vec-early-empty-response"); }
            match &aud {
                Ok(a) if canon_search(a) == canon_search(&none) => sum.branch("audit-identity"),
                Ok(_) => sum.oracle_violation("audit-differs-from-no-acl", "vec search: audit response differs from the no-ACL response", case.clone()),
                Err(e) => sum.oracle_violation("audit-failed", &format!("vec search: {e}"), case.clone()),
            }
            if has_tenant {
                match &enf {
                    Ok(e) => {
                        let ids: Vec<u64> = e.hits.iter().map(|h| h.frame_id).collect();
                        let mut texts = texts_of(&e.hits); texts.push(&e.context);
                        ck.no_leak("vec search", &ids, &texts, sum);
                        if e.hits.len() < none.hits.len() { sum.branch("vec-enforce-dropped-some"); nontrivial = true; }
                        if !e.hits.is_empty() { sum.branch("vec-enforce-kept-some"); }
                        if let Some(d) = drv {
                            let base: Vec<u64> = none.hits.iter().map(|h| h.frame_id).collect();
                            let m = d.ask(&format!("vec enforce {} {} {}", ctx.wire(), if early { "novec" } else { "conv" }, wids(&base)));
                            let imp = format!("ok {} {} ctx={}", whits(&hit_pairs(&e.hits)), e.total_hits, wids(&ids));
                            if m != imp { sum.disagreement("vec_search_with_embedding_acl(Enforce) vs model on the no-ACL hit list", case.clone(), &m, &imp); }
                        }
                    }
                    Err(e) => sum.oracle_violation("enforce-with-tenant-failed", &format!("vec search: {e}"), case.clone()),
                }
            } else {
                ck.needs_tenant("vec_search_with_embedding_acl", &enf, sum);
                if let Some(d) = drv {
                    let base: Vec<u64> = none.hits.iter().map(|h| h.frame_id).collect();
                    let m = d.ask(&format!("vec enforce {} {} {}", ctx.wire(), if early { "novec" } else { "conv" }, wids(&base)));
                    let imp = match &enf { Ok(e) => format!("ok {} {} ctx=.", whits(&hit_pairs(&e.hits)), e.total_hits), Err(e) if e.to_string().contains("tenant_id is required") => "err tenant-required".into(), Err(e) if e.to_string().contains("acl_context is required") => "err context-required".into(), Err(e) => format!("err other {e}") };
                    if m != imp { sum.disagreement("vec_search_with_embedding_acl(Enforce, no tenant) vs model", case.clone(), &m, &imp); }
                }
            }
        }
        Op::Adaptive { emb, enabled, max_results, min_results } => {
            let mut cfg = AdaptiveConfig::default();
            cfg.enabled = *enabled; cfg.max_results = *max_results; cfg.min_results = *min_results;
            let none = w.mem.search_adaptive_acl("q", emb, cfg.clone(), 120, None, None, AclEnforcementMode::Audit);
            let aud = w.mem.search_adaptive_acl("q", emb, cfg.clone(), 120, None, acl.as_ref(), AclEnforcementMode::Audit);
            let enf = w.mem.search_adaptive_acl("q", emb, cfg.clone(), 120, None, acl.as_ref(), AclEnforcementMode::Enforce);
            let venf = w.mem.vec_search_with_embedding_acl("q", emb, *max_results, 120, None, acl.as_ref(), AclEnforcementMode::Enforce);
            let ck = Checker { w, on, case: case.clone(), known };
            let Ok(none) = none else { sum.branch("adaptive-base-error"); sum.case(&canon, false, || json!({})); return; };
            match &aud {
                Ok(a) if serde_json::to_value(&a.results).unwrap() == serde_json::to_value(&none.results).unwrap() => sum.branch("audit-identity"),
                Ok(_) => sum.oracle_violation("audit-differs-from-no-acl", "adaptive search: audit results differ from the no-ACL results", case.clone()),
                Err(e) => sum.oracle_violation("audit-failed", &format!("adaptive search: {e}"), case.clone()),
            }
            if has_tenant {
                match (&enf, &venf) {
                    (Ok(e), Ok(v)) => {
                        let ids: Vec<u64> = e.results.iter().map(|h| h.frame_id).collect();
                        ck.no_leak("adaptive search", &ids, &texts_of(&e.results), sum);
                        if e.results.len() < none.results.len() { sum.branch("adaptive-enforce-dropped-some"); nontrivial = true; }
                        if let Some(d) = drv {
                            // the cut-off is an input of the model: taken from the public find_adaptive_cutoff on the filtered scores
                            let scores: Vec<f32> = v.hits.iter().filter_map(|h| h.score).collect();
                            let k = if !*enabled || v.hits.is_empty() || scores.is_empty() { "~".to_string() } else { find_adaptive_cutoff(&scores, &cfg).0.to_string() };
                            if k != "~" { sum.branch("adaptive-cutoff-applied"); }
                            let base: Vec<u64> = v.hits.iter().map(|h| h.frame_id).collect();
                            // the filter already ran inside vec search: feed the filtered list through a context that allows all of it
                            let m = d.ask(&format!("adaptive audit 0 ~ ~ . . {} {} {k}", if base.is_empty() { "novec" } else { "conv" }, wids(&base)));
                            let imp = format!("ok {}", whits(&hit_pairs(&e.results)));
                            if m != imp { sum.disagreement("search_adaptive_acl(Enforce) vs model cut of the filtered vector hits", case.clone(), &m, &imp); }
                        }
                    }
                    (Err(e), _) => sum.oracle_violation("enforce-with-tenant-failed", &format!("adaptive search: {e}"), case.clone()),
                    _ => {}
                }
            } else {
                ck.needs_tenant("search_adaptive_acl", &enf, sum);
            }
        }
        Op::Ask { question, top_k, mode, context_only, embedder, adaptive } => {
            let mk = |ctx: Option<AclContext>, enforce: bool| AskRequest {
                question: question.clone(), top_k: *top_k, snippet_chars: 120, uri: None, scope: None, cursor: None,
                start: None, end: None, context_only: *context_only,
                mode: match mode.as_str() { "lex" => AskMode::Lex, "sem" => AskMode::Sem, _ => AskMode::Hybrid },
                as_of_frame: None, as_of_ts: None,
                adaptive: if *adaptive { Some(AdaptiveConfig::default()) } else { None },
                acl_context: ctx, acl_enforcement_mode: mode_of(enforce),
            };
            let stub = Stub;
            let emb: Option<&Stub> = if *embedder { Some(&stub) } else { None };
            let none = w.mem.ask(mk(None, false), emb);
            let aud = w.mem.ask(mk(acl.clone(), false), emb);
            let enf = w.mem.ask(mk(acl.clone(), true), emb);
            let ck = Checker { w, on, case: case.clone(), known };
            let Ok(none) = none else { sum.branch("ask-base-error"); sum.case(&canon, false, || json!({})); return; };
            sum.branch(&format!("ask-retriever-{:?}", none.retriever));
            let idset = |r: &AskResponse| { let mut v: Vec<u64> = r.retrieval.hits.iter().map(|h| h.frame_id).collect(); v.sort(); v };
            match &aud {
                Ok(a) => {
                    // fusion breaks score ties by HashMap order: compare the hit SETS, and only when no truncation can occur
                    let n = w.metas.len();
                    let comparable = *top_k >= n;
                    if comparable && idset(a) != idset(&none) {
                        sum.oracle_violation("audit-differs-from-no-acl", &format!("ask: audit frames {:?} vs no-ACL frames {:?}", idset(a), idset(&none)), case.clone());
                    } else if a.retrieval.hits.len() != none.retrieval.hits.len() {
                        sum.oracle_violation("audit-differs-from-no-acl", &format!("ask: audit returns {} hits, no-ACL {}", a.retrieval.hits.len(), none.retrieval.hits.len()), case.clone());
                    } else { sum.branch("audit-identity"); }
                }
                Err(e) => sum.oracle_violation("audit-failed", &format!("ask: {e}"), case.clone()),
            }
            if has_tenant {
                match &enf {
                    Ok(e) => {
                        let mut ids: Vec<u64> = e.retrieval.hits.iter().map(|h| h.frame_id).collect();
                        let hit_ids = ids.clone();
                        ids.extend(e.citations.iter().map(|c| c.frame_id));
                        ids.extend(e.context_fragments.iter().map(|f| f.frame_id));
                        let mut texts = texts_of(&e.retrieval.hits);
                        texts.push(&e.retrieval.context);
                        for f in &e.context_fragments { texts.push(&f.text); texts.push(&f.uri); }
                        for c in &e.citations { texts.push(&c.uri); }
                        if let Some(a) = &e.answer { texts.push(a); }
                        ck.no_leak("ask", &ids, &texts, sum);
                        // citations and fragments are derived from the filtered hits, in order
                        let frag_ids: Vec<u64> = e.context_fragments.iter().map(|f| f.frame_id).collect();
                        if frag_ids != hit_ids { sum.oracle_violation("ask-fragments-not-from-filtered-hits", &format!("fragments {frag_ids:?} vs hits {hit_ids:?}"), case.clone()); }
                        let cit_ids: Vec<u64> = e.citations.iter().map(|c| c.frame_id).collect();
                        if !*context_only && cit_ids != hit_ids { sum.oracle_violation("ask-citations-not-from-filtered-hits", &format!("citations {cit_ids:?} vs hits {hit_ids:?}"), case.clone()); }
                        if *context_only && !cit_ids.is_empty() { sum.oracle_violation("ask-citations-not-from-filtered-hits", "context_only response carries citations", case.clone()); }
                        if e.retrieval.total_hits != e.retrieval.hits.len() { sum.oracle_violation("enforce-total-hits-counts-denied", &format!("ask: total_hits {} but {} hits", e.retrieval.total_hits, e.retrieval.hits.len()), case.clone()); }
                        if e.retrieval.hits.len() < none.retrieval.hits.len() { sum.branch("ask-enforce-dropped-some"); nontrivial = true; }
                        if !e.retrieval.hits.is_empty() { sum.branch("ask-enforce-kept-some"); }
                        if !e.citations.is_empty() { sum.branch("ask-citations-present"); }
                        if let Some(d) = drv {
                            // structure after the ACL step: model `ask` on the surviving list must reproduce ranks/citations/fragments
                            let m = d.ask(&format!("ask audit 0 ~ ~ . . {} ranked {}", if *context_only { 1 } else { 0 }, wids(&hit_ids)));
                            let cit = if e.citations.is_empty() { ".".to_string() } else { e.citations.iter().map(|c| format!("{}:{}", c.index, c.frame_id)).collect::<Vec<_>>().join(",") };
                            let frag = if e.context_fragments.is_empty() { ".".to_string() } else { e.context_fragments.iter().map(|f| format!("{}:{}", f.rank, f.frame_id)).collect::<Vec<_>>().join(",") };
                            let imp = format!("ok {} {} ctx={} cit={cit} frag={frag}", whits(&hit_pairs(&e.retrieval.hits)), e.retrieval.total_hits, wids(&hit_ids));
                            if m != imp { sum.disagreement("ask(Enforce) response structure vs model", case.clone(), &m, &imp); }
                        }
                    }
                    Err(e) => sum.oracle_violation("enforce-with-tenant-failed", &format!("ask: {e}"), case.clone()),
                }
            } else {
                ck.needs_tenant("ask", &enf, sum);
            }
        }
    }
    sum.case(&canon, nontrivial, || case.clone());
}

/// the two character tables of the model against the standard library, over every Unicode scalar value
fn char_tables(drv: &mut Option<Driver>, sum: &mut Summary) {
    let Some(d) = drv else { return };
    let rust_ws: Vec<String> = (0..=0x10FFFFu32).filter_map(char::from_u32).filter(|c| c.is_whitespace()).map(|c| (c as u32).to_string()).collect();
    let rust_lower: Vec<String> = (0..=0x10FFFFu32).filter_map(char::from_u32).filter(|c| c.to_ascii_lowercase() != *c)
        .map(|c| format!("{}:{}", c as u32, c.to_ascii_lowercase() as u32)).collect();
    let (m_ws, m_lower) = (d.ask("wsset"), d.ask("lowerset"));
    if m_ws != rust_ws.join(",") { sum.disagreement("char::is_whitespace (all scalar values) vs model isWs", json!({"kind": "char-table"}), &m_ws, &rust_ws.join(",")); }
    if m_lower != rust_lower.join(",") { sum.disagreement("char::to_ascii_lowercase (all scalar values) vs model lowerChar", json!({"kind": "char-table"}), &m_lower, &rust_lower.join(",")); }
    sum.branch("char-tables-exhaustive");
    sum.case("char-tables", true, || json!({"white_space_code_points": rust_ws.len(), "lowercased_code_points": rust_lower.len()}));
}

fn run_case(c: &Case, drv: &mut Option<Driver>, sum: &mut Summary, known: &BTreeSet<String>) {
    match c {
        Case::Scalar { value } => run_scalar(value, drv, sum),
        Case::List { value } => run_list(value, drv, sum),
        Case::Eval { meta, ctx } => run_eval(meta, ctx, drv, sum),
        Case::E2e { frames, vec, ctx, op } => {
            match build_world(frames, *vec) {
                Ok(mut w) => {
                    if let Some(d) = drv { load_model_frames(&w, d); }
                    run_e2e_op(&mut w, ctx, op, serde_json::to_value(c).unwrap(), drv, sum, known);
                }
                Err(e) => { sum.notes.push(format!("world not built: {e}")); sum.branch("world-build-failed"); }
            }
        }
    }
}

fn corpus() -> Vec<Case> {
    let s = |x: &str| Some(x.to_string());
    let m = |kv: &[(&str, &str)]| -> Meta { kv.iter().map(|(k, v)| (k.to_string(), v.to_string())).collect() };
    let c = |t: Option<&str>, sub: Option<&str>, r: &[&str], g: &[&str]| Ctx { present: true, tenant: t.map(String::from), subject: sub.map(String::from), roles: r.iter().map(|x| x.to_string()).collect(), groups: g.iter().map(|x| x.to_string()).collect() };
    let restricted = m(&[("acl_tenant_id", "tenant-a"), ("acl_visibility", "restricted"), ("acl_read_roles", "[\"admin\",\"analyst\"]"), ("acl_read_groups", "[\"eng\"]"), ("acl_read_principals", "[\"user-123\"]")]);
    let mut v = vec![
        Case::Scalar { value: None }, Case::Scalar { value: s("") }, Case::Scalar { value: s(" \"Restricted\" ") },
        Case::Scalar { value: s("\"\\ud83d\\ude00\"") }, Case::Scalar { value: s("\"\\ud800\"") }, Case::Scalar { value: s("\" \"") },
        Case::Scalar { value: s("\"\\\"Admin\\\"\"") }, Case::Scalar { value: s("\u{a0}X\u{3000}") },
        Case::List { value: None }, Case::List { value: s("[]") }, Case::List { value: s("eng,ops") }, Case::List { value: s("[\"a\",]") },
        Case::List { value: s("[\"\"]") }, Case::List { value: s(" [ \"A\" , \"\\\"b\\\"\" ] ") },
        Case::Eval { meta: restricted.clone(), ctx: c(Some("tenant-b"), Some("user-123"), &["viewer"], &["eng"]) },
        Case::Eval { meta: restricted.clone(), ctx: c(Some("Tenant-A"), Some("user-123"), &["viewer"], &[]) },
        Case::Eval { meta: restricted.clone(), ctx: c(Some("tenant-a"), Some("bob"), &["viewer"], &["sales"]) },
        Case::Eval { meta: restricted.clone(), ctx: c(Some("tenant-a"), None, &["ADMIN"], &[]) },
        Case::Eval { meta: Meta::new(), ctx: c(Some("tenant-a"), None, &[], &[]) },
        Case::Eval { meta: m(&[("acl_tenant_id", "tenant-a"), ("acl_visibility", "\"Public\"")]), ctx: c(Some("\"TENANT-A\""), None, &[], &[]) },
        Case::Eval { meta: m(&[("acl_tenant_id", "tenant-a"), ("acl_visibility", "public"), ("acl_read_groups", "eng,ops")]), ctx: c(Some("tenant-a"), None, &[], &[]) },
        Case::Eval { meta: restricted.clone(), ctx: c(None, Some("user-123"), &[], &[]) },
        Case::Eval { meta: restricted.clone(), ctx: Ctx::absent() },
    ];
    // end to end: a fixed small world; every entry point; a caller with a tenant and callers without one
    let frames: Vec<FrameDef> = (0..5).map(|i| FrameDef {
        text: format!("memo {} alpha beta budget note{i} the current budget is {}", marker(i), 100 + i),
        uri: Some(if i == 4 { format!("mv2://correction/{i}") } else { format!("mv2://doc/{i}") }),
        ts: 1_700_000_000 + i as i64 * 86_400,
        meta: match i {
            0 => m(&[("acl_tenant_id", "t1"), ("acl_visibility", "public")]),
            1 => m(&[("acl_tenant_id", "t2"), ("acl_visibility", "public")]),
            2 => m(&[("acl_tenant_id", "T1"), ("acl_visibility", "\"restricted\""), ("acl_read_roles", "[\"Admin\"]")]),
            3 => m(&[("acl_tenant_id", "t1"), ("acl_visibility", "restricted"), ("acl_read_groups", "eng")]),
            _ => Meta::new(),
        },
        emb: Some(vec![1.0, i as f32 * 0.25, 0.0, 0.5]),
    }).collect();
    let ops = vec![
        Op::Apply { ids: vec![0, 1, 2, 3, 4, 7, 0] },
        Op::Search { query: "alpha".into(), top_k: 8, as_of_ts: None },
        Op::Search { query: "alpha".into(), top_k: 8, as_of_ts: Some(-5) },
        Op::Vec { emb: vec![1.0, 0.5, 0.0, 0.5], top_k: 5 },
        Op::Vec { emb: vec![1.0, 0.5, 0.0, 0.5], top_k: 0 },
        Op::Adaptive { emb: vec![1.0, 0.5, 0.0, 0.5], enabled: true, max_results: 5, min_results: 1 },
        Op::Adaptive { emb: vec![1.0, 0.5, 0.0, 0.5], enabled: true, max_results: 0, min_results: 1 },
        Op::Ask { question: "what is the current budget".into(), top_k: 8, mode: "hybrid".into(), context_only: false, embedder: true, adaptive: false },
        Op::Ask { question: "xylophone quartz".into(), top_k: 8, mode: "lex".into(), context_only: true, embedder: false, adaptive: false },
    ];
    for ctx in [c(Some("t1"), None, &["admin"], &[]), c(None, Some("bob"), &[], &[]), Ctx::absent()] {
        for op in &ops {
            v.push(Case::E2e { frames: frames.clone(), vec: true, ctx: ctx.clone(), op: op.clone() });
        }
    }
    v
}

fn main() {
    let args = parse_args();
    let mut drv: Option<Driver> = if args.driver.as_os_str() == "none" { None } else { Some(Driver::spawn(&args.driver).expect("spawn driver")) };
    let known: BTreeSet<String> = args.extra.get("known").map(|s| s.split(',').filter(|x| !x.is_empty() && *x != "-").map(String::from).collect()).unwrap_or_default();
    let mut sum = Summary::new("C12", &args,
        "stream A: scalars / allow-lists / (metadata × caller context) drawn from valid, JSON-quoted (random escape styles, \\uXXXX, surrogate pairs), \
         padded (12 Unicode white-space characters), mixed-case, doubly quoted, malformed JSON and random character soup, against normalize_scalar / \
         parse_acl_list / parse_acl_metadata / normalize_acl_context / evaluate_acl_metadata; stream B: real .mv2 files (3-10 frames, random ACL \
         extra_metadata, optional embeddings, correction URIs) × caller contexts × {apply_acl_to_search_hits, search, vec search, adaptive, ask} in \
         no-ACL / Audit / Enforce; non-trivial = caller has a tenant (A) or Enforce dropped at least one hit (B); distinct = canonical case text");
    sum.expect_branches(&["scalar-json-unwrapped", "scalar-quote-but-not-json", "scalar-unicode-escape", "list-rejected", "list-some", "list-empty",
        "eval-allow", "eval-deny:cross-tenant", "eval-deny:missing-metadata", "eval-deny:restricted", "eval-no-tenant-context", "meta-rejected",
        "apply-enforce-dropped-some", "apply-unknown-frame-id", "search-enforce-dropped-some", "search-enforce-kept-some", "vec-enforce-dropped-some",
        "adaptive-enforce-dropped-some", "ask-enforce-dropped-some", "ask-enforce-kept-some", "ask-citations-present", "audit-identity",
        "enforce-without-tenant-error", "search-early-empty-response", "vec-early-empty-response"]);
    if args.mode == "replay" {
        let case = load_replay(args.replay_file.as_ref().expect("replay file"));
        let input = case.get("input").unwrap_or(&case);
        let c: Case = serde_json::from_value(input.clone()).expect("replay input is not a C12 case");
        println!("case : {}", serde_json::to_string(&c).unwrap());
        run_case(&c, &mut drv, &mut sum, &known);
        println!("oracle violations: {}", serde_json::to_string(&sum.oracle_violations).unwrap());
        println!("disagreements    : {}", serde_json::to_string(&sum.disagreements).unwrap());
        println!("known findings   : {:?}", sum.known.keys().collect::<Vec<_>>());
        sum.finish(&args);
    }
    let t0 = std::time::Instant::now();
    let timing = std::env::var("C12_TIMING").is_ok();
    char_tables(&mut drv, &mut sum);
    // fixed corpus first; its end-to-end cases share one world (they all carry the same frames)
    let mut shared: Option<(String, World)> = None;
    for c in corpus() {
        if let Case::E2e { frames, vec, ctx, op } = &c {
            let key = serde_json::to_string(&(frames, vec)).unwrap();
            if shared.as_ref().map(|(k, _)| k != &key).unwrap_or(true) {
                match build_world(frames, *vec) {
                    Ok(w) => { if let Some(d) = &mut drv { load_model_frames(&w, d); } shared = Some((key, w)); }
                    Err(e) => { sum.notes.push(format!("world not built: {e}")); sum.branch("world-build-failed"); continue; }
                }
            }
            let w = &mut shared.as_mut().unwrap().1;
            run_e2e_op(w, ctx, op, serde_json::to_value(&c).unwrap(), &mut drv, &mut sum, &known);
        } else {
            run_case(&c, &mut drv, &mut sum, &known);
        }
    }
    drop(shared);
    if timing { eprintln!("corpus done {:?}", t0.elapsed()); }
    let mut rng = Rng::new(args.seed);
    let (n_scalar, n_list, n_eval, n_worlds, ops_per_world) = if args.thorough { (20000, 8000, 30000, 120, 24) } else { (3000, 1500, 5000, 12, 16) };
    for _ in 0..n_scalar { let v = gen_scalar(&mut rng); run_scalar(&v, &mut drv, &mut sum); }
    for _ in 0..n_list {
        let v = if rng.chance(1, 20) { None } else if rng.chance(1, 6) { gen_scalar(&mut rng) } else { Some(gen_list_raw(&mut rng, WORDS)) };
        run_list(&v, &mut drv, &mut sum);
    }
    for _ in 0..n_eval { let m = gen_meta(&mut rng); let c = gen_ctx(&mut rng); run_eval(&m, &c, &mut drv, &mut sum); }
    if timing { eprintln!("stream A done {:?}", t0.elapsed()); }
    for _ in 0..n_worlds {
        if timing { eprintln!("world {:?}", t0.elapsed()); }
        let vec = rng.chance(2, 3);
        let frames = gen_frames(&mut rng, vec);
        let mut w = match build_world(&frames, vec) {
            Ok(w) => w,
            Err(e) => { sum.notes.push(format!("world not built: {e}")); sum.branch("world-build-failed"); continue; }
        };
        if let Some(d) = &mut drv { load_model_frames(&w, d); }
        for _ in 0..ops_per_world {
            let ctx = gen_ctx_e2e(&mut rng);
            let op = gen_op(&mut rng, frames.len(), vec);
            let case = serde_json::to_value(Case::E2e { frames: frames.clone(), vec, ctx: ctx.clone(), op: op.clone() }).unwrap();
            run_e2e_op(&mut w, &ctx, &op, case, &mut drv, &mut sum, &known);
        }
    }
    if let Some(d) = &drv { sum.model_requests = d.requests; }
    sum.finish(&args);
}
