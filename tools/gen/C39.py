#!/usr/bin/env python3
"""C39: sketch constants (variant sizes, flags, magic, header size) and the numeric literals
inside build_term_filter / term_filter_maybe_contains / compute_token_weights / generate_sketch /
read_sketch_track, all from src/types/sketch_track.rs."""
import re
from common import *


def fn_body(src, name):
    """comment-free text of `fn name ... { ... }` (brace matched)"""
    s = strip_comments(src)
    m = re.search(r"\bfn\s+" + re.escape(name) + r"\b", s)
    if not m:
        raise TranslateError(f"fn {name} not found")
    i = s.find("{", m.end())
    depth, j = 0, i
    while j < len(s):
        if s[j] == "{":
            depth += 1
        elif s[j] == "}":
            depth -= 1
            if depth == 0:
                return s[m.start():j + 1]
        j += 1
    raise TranslateError(f"fn {name}: unbalanced braces")


def need(pattern, text, what, flags=re.S):
    m = re.search(pattern, text, flags)
    if not m:
        raise TranslateError(f"shape not found: {what}")
    return m


def num(s):
    return int(s.replace("_", ""))


def run():
    src = read("src/types/sketch_track.rs")
    out = []
    magic = const_bytes(src, "SKETCH_TRACK_MAGIC")
    out.append(f"def SKETCH_TRACK_MAGIC : List UInt8 := {lean_bytes(magic)}")
    for n in ["SKETCH_TRACK_VERSION", "TERM_FILTER_SIZE_SMALL", "TERM_FILTER_SIZE_MEDIUM", "TERM_FILTER_SIZE_LARGE",
              "TOP_TERMS_COUNT_SMALL", "TOP_TERMS_COUNT_MEDIUM", "TOP_TERMS_COUNT_LARGE",
              "ENTRY_SIZE_SMALL", "ENTRY_SIZE_MEDIUM", "ENTRY_SIZE_LARGE",
              "HAS_SIMHASH", "HAS_TERM_FILTER", "HAS_TOP_TERMS", "HAS_MINHASH", "SHORT_TEXT"]:
        out.append(f"def {n} : Nat := {const_int(src, n)}")
    out.append(f"def HEADER_SIZE : Nat := {const_int(src, 'SIZE')}")

    # SketchFlags::all() = HAS_SIMHASH | HAS_TERM_FILTER | HAS_TOP_TERMS
    allb = fn_body(src, "all")
    names = re.findall(r"Self::(\w+)", need(r"Self\((.*?)\)", allb, "SketchFlags::all body").group(1))
    if not names:
        raise TranslateError("SketchFlags::all: no flag names")
    out.append("def FLAGS_ALL_NAMES : List String := " + lean_str_list(names))
    val = 0
    for n in names:
        val |= const_int(src, n)
    out.append(f"def FLAGS_ALL : Nat := {val}")

    # the three bit positions of the Bloom filter: hash, hash >> S2, hash >> S3  (mod filter_bits)
    shifts = {}
    for fn, var in [("build_term_filter", "hash"), ("term_filter_maybe_contains", "token_hash")]:
        b = fn_body(src, fn)
        need(r"let\s+filter_bits\s*=\s*\w+(?:\.len\(\))?\s*\*\s*8\s*;", b, f"{fn}: filter_bits = bytes * 8")
        need(r"let\s+h1\s*=\s*usize::try_from\(\s*" + var + r"\s*%\s*\(filter_bits as u64\)\)", b, f"{fn}: h1")
        s2 = num(need(r"let\s+h2\s*=\s*usize::try_from\(\(\s*" + var + r"\s*>>\s*(\d+)\)\s*%\s*\(filter_bits as u64\)\)", b, f"{fn}: h2").group(1))
        s3 = num(need(r"let\s+h3\s*=\s*usize::try_from\(\(\s*" + var + r"\s*>>\s*(\d+)\)\s*%\s*\(filter_bits as u64\)\)", b, f"{fn}: h3").group(1))
        for k in ("h1", "h2", "h3"):
            if fn == "build_term_filter":
                need(r"filter\[" + k + r"\s*/\s*8\]\s*\|=\s*1\s*<<\s*\(" + k + r"\s*%\s*8\)", b, f"{fn}: set bit {k}")
            else:
                need(r"filter\[" + k + r"\s*/\s*8\]\s*&\s*\(1\s*<<\s*\(" + k + r"\s*%\s*8\)\)\s*!=\s*0", b, f"{fn}: test bit {k}")
        shifts[fn] = (s2, s3)
    out.append(f"def BUILD_SHIFT2 : Nat := {shifts['build_term_filter'][0]}")
    out.append(f"def BUILD_SHIFT3 : Nat := {shifts['build_term_filter'][1]}")
    out.append(f"def TEST_SHIFT2 : Nat := {shifts['term_filter_maybe_contains'][0]}")
    out.append(f"def TEST_SHIFT3 : Nat := {shifts['term_filter_maybe_contains'][1]}")

    # tokenizer: minimum token length in bytes
    tb = fn_body(src, "tokenize_for_sketch")
    need(r"\.nfkc\(\)\.collect::<String>\(\)\.to_lowercase\(\)", tb, "tokenizer: nfkc + to_lowercase")
    need(r"\.split\(\|c:\s*char\|\s*!c\.is_alphanumeric\(\)\)", tb, "tokenizer: split on non-alphanumeric")
    out.append("def MIN_TOKEN_LEN : Nat := " + str(num(need(r'\.filter\(\|s\|\s*s\.len\(\)\s*>=\s*(\d+)\)', tb, 'tokenizer: min len').group(1))))

    # weights: count.min(CAP) * idf * SCALE, weight.max(MINW); sort weight desc then hash asc
    wb = fn_body(src, "compute_token_weights")
    out.append("def TF_CAP : Nat := " + str(num(need(r'count\.min\((\d+)\)', wb, 'weights: tf cap').group(1))))
    out.append("def WEIGHT_SCALE : Nat := " + str(num(need(r'capped_tf\s*\*\s*idf\s*\*\s*(\d+)\.0', wb, 'weights: scale').group(1))))
    out.append("def WEIGHT_MIN : Nat := " + str(num(need(r'weight\.max\((\d+)\)', wb, 'weights: min').group(1))))
    need(r"sort_by\(\|a,\s*b\|\s*b\.1\.cmp\(&a\.1\)\.then_with\(\|\|\s*a\.0\.cmp\(&b\.0\)\)\)", wb, "weights: sort order")
    need(r"\.unwrap_or\(1\.0\)", wb, "weights: default idf 1.0")

    tt = fn_body(src, "extract_top_terms")
    out.append("def TOP_FOLD_SHIFT : Nat := " + str(num(need(r'\(\*h\s*\^\s*\(\*h\s*>>\s*(\d+)\)\)\s*as\s*u32', tt, 'top terms fold').group(1))))

    gb = fn_body(src, "generate_sketch")
    m = need(r"\(\(token_count\s*/\s*(\d+)\)\.min\((\d+)\)\)\s*as\s*u16", gb, "generate: length hint")
    out.append(f"def LENGTH_BUCKET : Nat := {num(m.group(1))}")
    out.append(f"def LENGTH_HINT_MAX : Nat := {num(m.group(2))}")
    out.append("def SHORT_TEXT_TOKENS : Nat := " + str(num(need(r'if\s+token_count\s*<\s*(\d+)\s*\{\s*flags\.set\(SketchFlags::SHORT_TEXT\)', gb, 'generate: short text threshold').group(1))))
    need(r"term_weight_sum\.min\(u32::from\(u16::MAX\)\)\s*as\s*u16", gb, "generate: weight sum saturates at u16::MAX")

    # small reader resets; reader arithmetic (plain `*`/`+` = overflow panic in debug builds)
    fs = fn_body(src, "from_small_bytes")
    need(r"term_weight_sum:\s*0\s*,\s*flags:\s*SketchFlags::all\(\)\s*,\s*length_hint:\s*0", fs, "from_small_bytes resets")
    rb = fn_body(src, "read_sketch_track")
    plain = re.search(r"SketchTrackHeader::SIZE as u64\s*\+\s*header\.entry_count\s*\*\s*u64::from\(header\.entry_size\)", rb)
    checked = "checked_mul" in rb and "checked_add" in rb
    if not plain and not checked:
        raise TranslateError("read_sketch_track: expected_length computation not recognised")
    out.append(f"def READER_CHECKED_ARITH : Bool := {'true' if (checked and not plain) else 'false'}")
    need(r"if\s+length\s*<\s*expected_length", rb, "reader: length validation")
    need(r"for\s+frame_id\s+in\s+0\.\.header\.entry_count", rb, "reader: ids are 0..entry_count")
    return emit("C39", "\n".join(out) + "\n")


main(run)
