//! C30 — file-format codecs round-trip and reject malformed input.
//! impl: memvid_core::io::header::HeaderCodec, memvid_core::footer::CommitFooter,
//!       memvid_core::io::time_index::{append_track, read_track, calculate_checksum}, Toc::{encode, decode, verify_checksum}
//! model: drv_c30 (henc/hdec, fenc/fdec, tiappend/tiread/tichk, toc…)
//! oracle (independent of the model): decode(encode v) == v; a mutated image decodes to Err or, where the
//! mutated field is a magic/version/length/count/checksum field or trailing bytes, never to a value at all
//! unless the image is unchanged; whatever decodes re-encodes to the image it came from; no panic.
use memvid_core::MemvidError;
use memvid_core::footer::{CommitFooter, FOOTER_MAGIC, FOOTER_SIZE};
use memvid_core::io::header::HeaderCodec;
use memvid_core::io::time_index::{TimeIndexEntry, append_track, calculate_checksum, read_track};
use memvid_core::types::Header;
use mvh::*;
use std::io::{Cursor, Seek, SeekFrom};

// TOC-PART-BEGIN
mod toc_part {
    use memvid_core::clip::ClipIndexManifest;
    use memvid_core::replay::ReplayManifest;
    use memvid_core::types::manifest::{MemoriesTrackManifest, LogicMeshManifest, SketchTrackManifest, EnrichmentQueueManifest,
        IndexManifests, IndexSegmentRef, LexIndexManifest, LexSegmentDescriptor, LexSegmentManifest, SegmentCatalog, SegmentCommon,
        SegmentCompression, SegmentKind, SegmentMeta, SegmentSpan, SegmentStats, TantivySegmentDescriptor, TemporalSegmentDescriptor,
        TemporalTrackManifest, TimeIndexManifest, TimeSegmentDescriptor, Toc, VecIndexManifest, VecSegmentDescriptor, VectorCompression};
    use memvid_core::types::{AnchorSource, AudioSegmentMetadata, CanonicalEncoding, DocAudioMetadata, DocExifMetadata, DocGpsMetadata,
        DocMetadata, EnrichmentState, EnrichmentTask, Frame, FrameRole, FrameStatus, MediaManifest, MemoryBinding, TextChunkManifest,
        TextChunkRange, TicketRef};
    use mvh::*;
    use std::collections::BTreeMap;

    const STRS: &[&str] = &["", "a", "text", "default", "mv2://sample/0", "héllo wörld", "日本語", "🦀 crab", "x\u{7f}y", "\u{0}", "\u{10FFFF}",
        "application/pdf", "2024-01-01", "key", "zz", "Sample 0", "\u{7FF}\u{800}\u{FFFF}\u{10000}"];

    fn s(rng: &mut Rng) -> String {
        if rng.chance(1, 12) { let n = rng.usize(0, 40); (0..n).map(|_| (b'a' + rng.below(26) as u8) as char).collect() } else { (*rng.pick(STRS)).to_string() }
    }
    fn opt<T>(rng: &mut Rng, f: impl FnOnce(&mut Rng) -> T) -> Option<T> { if rng.bool() { Some(f(rng)) } else { None } }
    fn u(rng: &mut Rng) -> u64 { match rng.below(6) { 0 => 0, 1 => u64::MAX, 2 => rng.below(300), 3 => 1 << rng.below(64), _ => rng.u64() >> rng.below(60) } }
    fn u32v(rng: &mut Rng) -> u32 { u(rng) as u32 }
    fn h32(rng: &mut Rng) -> [u8; 32] { let mut a = [0u8; 32]; if rng.chance(3, 4) { a.copy_from_slice(&rng.bytes(32)); } a }
    fn vecn<T>(rng: &mut Rng, max: usize, mut f: impl FnMut(&mut Rng) -> T) -> Vec<T> { let n = if rng.bool() { 0 } else { rng.usize(1, max) }; (0..n).map(|_| f(rng)).collect() }
    fn f32v(rng: &mut Rng) -> f32 { match rng.below(5) { 0 => 0.0, 1 => f32::NAN, 2 => -1.5, 3 => f32::INFINITY, _ => f32::from_bits(rng.u64() as u32) } }
    fn f64v(rng: &mut Rng) -> f64 { match rng.below(5) { 0 => 0.0, 1 => f64::NAN, 2 => 48.8566, 3 => f64::NEG_INFINITY, _ => f64::from_bits(rng.u64()) } }
    fn map(rng: &mut Rng, max: usize) -> BTreeMap<String, String> { let n = if rng.bool() { 0 } else { rng.usize(1, max) }; (0..n).map(|_| (s(rng), s(rng))).collect() }
    fn comp(rng: &mut Rng) -> SegmentCompression { match rng.below(3) { 0 => SegmentCompression::None, 1 => SegmentCompression::Zstd, _ => SegmentCompression::Lz4 } }
    fn vcomp(rng: &mut Rng) -> VectorCompression { if rng.bool() { VectorCompression::None } else { VectorCompression::Pq96 } }
    fn span(rng: &mut Rng) -> SegmentSpan { SegmentSpan { frame_start: u(rng), frame_end: u(rng), page_start: u32v(rng), page_end: u32v(rng), token_start: u(rng), token_end: u(rng) } }
    fn common(rng: &mut Rng) -> SegmentCommon {
        SegmentCommon { segment_id: u(rng), bytes_offset: u(rng), bytes_length: u(rng), checksum: h32(rng), build_sequence: u(rng), codec_version: u(rng) as u16,
            compression: comp(rng), span: opt(rng, span) }
    }
    fn gps(rng: &mut Rng) -> DocGpsMetadata { DocGpsMetadata { latitude: f64v(rng), longitude: f64v(rng) } }
    fn meta(rng: &mut Rng) -> DocMetadata {
        DocMetadata { mime: opt(rng, s), bytes: opt(rng, u), hash: opt(rng, s), width: opt(rng, u32v), height: opt(rng, u32v),
            colors: opt(rng, |r| vecn(r, 3, s)), caption: opt(rng, s),
            exif: opt(rng, |r| DocExifMetadata { make: opt(r, s), model: opt(r, s), lens: opt(r, s), datetime: opt(r, s), gps: opt(r, gps) }),
            audio: opt(rng, |r| DocAudioMetadata { duration_secs: opt(r, f32v), sample_rate_hz: opt(r, u32v), channels: opt(r, |r| r.u64() as u8), bitrate_kbps: opt(r, u32v),
                codec: opt(r, s), segments: vecn(r, 3, |r| AudioSegmentMetadata { start_seconds: f32v(r), end_seconds: f32v(r), label: opt(r, s) }), tags: map(r, 3) }),
            media: opt(rng, |r| MediaManifest { kind: s(r), mime: s(r), bytes: u(r), filename: opt(r, s), duration_ms: opt(r, u), width: opt(r, u32v), height: opt(r, u32v), codec: opt(r, s) }) }
    }
    fn frame(rng: &mut Rng, id: u64) -> Frame {
        Frame { id, timestamp: rng.u64() as i64 >> rng.below(63), anchor_ts: opt(rng, |r| r.i64(i64::MIN, i64::MAX)),
            anchor_source: opt(rng, |r| *r.pick(&[AnchorSource::Explicit, AnchorSource::FrameTimestamp, AnchorSource::Metadata, AnchorSource::IngestionClock])),
            kind: opt(rng, s), track: opt(rng, s), payload_offset: u(rng), payload_length: u(rng), checksum: h32(rng), uri: opt(rng, s), title: opt(rng, s),
            canonical_encoding: if rng.bool() { CanonicalEncoding::Plain } else { CanonicalEncoding::Zstd }, canonical_length: opt(rng, u),
            metadata: opt(rng, meta), search_text: opt(rng, s), tags: vecn(rng, 3, s), labels: vecn(rng, 3, s), extra_metadata: map(rng, 3), content_dates: vecn(rng, 3, s),
            chunk_manifest: opt(rng, |r| TextChunkManifest { chunk_chars: u(r) as usize, chunks: vecn(r, 3, |r| TextChunkRange { start: u(r) as usize, end: u(r) as usize }) }),
            role: *rng.pick(&[FrameRole::Document, FrameRole::DocumentChunk, FrameRole::ExtractedImage]), parent_id: opt(rng, u), chunk_index: opt(rng, u32v), chunk_count: opt(rng, u32v),
            status: *rng.pick(&[FrameStatus::Active, FrameStatus::Superseded, FrameStatus::Deleted]), supersedes: opt(rng, u), superseded_by: opt(rng, u),
            source_sha256: opt(rng, h32), source_path: opt(rng, s), enrichment_state: if rng.bool() { EnrichmentState::Searchable } else { EnrichmentState::Enriched } }
    }
    fn binding(rng: &mut Rng) -> MemoryBinding {
        let id = rng.bytes(16);
        let hexs = hex::encode(&id);
        let uuid = format!("{}-{}-{}-{}-{}", &hexs[0..8], &hexs[8..12], &hexs[12..16], &hexs[16..20], &hexs[20..32]);
        let date = *rng.pick(&["2024-01-01T00:00:00Z", "1970-01-01T00:00:00.000000001Z", "2025-12-31T23:59:59.999Z", "2023-06-15T12:30:45.123456Z", "0001-01-01T00:00:00Z"]);
        serde_json::from_value(json!({"memory_id": uuid, "memory_name": s(rng), "bound_at": date, "api_url": s(rng)})).expect("MemoryBinding from json")
    }
    pub fn gen_toc(rng: &mut Rng, legacy_shape: bool) -> Toc {
        let nf = match rng.below(8) { 0 => 0, 1 => 1, _ => rng.usize(2, 6) };
        let cat = if rng.chance(1, 3) { SegmentCatalog::default() } else {
            SegmentCatalog { next_segment_id: u(rng), version: u32v(rng), lex_enabled: rng.bool(),
                lex_segments: vecn(rng, 2, |r| LexSegmentDescriptor { common: common(r), doc_count: u(r) }),
                vec_segments: vecn(rng, 2, |r| VecSegmentDescriptor { common: common(r), vector_count: u(r), dimension: u32v(r), vector_compression: vcomp(r) }),
                time_segments: vecn(rng, 2, |r| TimeSegmentDescriptor { common: common(r), entry_count: u(r) }),
                temporal_segments: vecn(rng, 2, |r| TemporalSegmentDescriptor { common: common(r), entry_count: u(r), anchor_count: u(r), flags: u32v(r) }),
                tantivy_segments: vecn(rng, 2, |r| TantivySegmentDescriptor { common: common(r), path: s(r) }),
                index_segments: vecn(rng, 2, |r| IndexSegmentRef { kind: *r.pick(&[SegmentKind::Lexical, SegmentKind::Vector, SegmentKind::Time, SegmentKind::Temporal, SegmentKind::Tantivy]),
                    common: common(r), stats: SegmentStats { doc_count: u(r), vector_count: u(r), time_entries: u(r), bytes_uncompressed: u(r), build_micros: u(r) } }) }
        };
        let mut t = Toc { toc_version: u(rng),
            segments: vecn(rng, 3, |r| SegmentMeta { id: u(r), frame_range: (u(r), u(r)), primary_checksum: h32(r), compression: comp(r), bytes_offset: u(r), bytes_length: u(r) }),
            frames: (0..nf).map(|i| frame(rng, i as u64)).collect(),
            indexes: IndexManifests { lex: opt(rng, |r| LexIndexManifest { doc_count: u(r), generation: u(r), bytes_offset: u(r), bytes_length: u(r), checksum: h32(r) }),
                lex_segments: vecn(rng, 2, |r| LexSegmentManifest { path: s(r), bytes_offset: u(r), bytes_length: u(r), checksum: h32(r) }),
                vec: opt(rng, |r| VecIndexManifest { vector_count: u(r), dimension: u32v(r), bytes_offset: u(r), bytes_length: u(r), checksum: h32(r), compression_mode: vcomp(r), model: opt(r, s) }),
                clip: opt(rng, |r| ClipIndexManifest { bytes_offset: u(r), bytes_length: u(r), vector_count: u(r), dimension: u32v(r), checksum: h32(r), model_name: s(r) }) },
            time_index: opt(rng, |r| TimeIndexManifest { bytes_offset: u(r), bytes_length: u(r), entry_count: u(r), checksum: h32(r) }),
            temporal_track: opt(rng, |r| TemporalTrackManifest { bytes_offset: u(r), bytes_length: u(r), entry_count: u(r), anchor_count: u(r), checksum: h32(r), flags: u32v(r) }),
            memories_track: opt(rng, |r| MemoriesTrackManifest { bytes_offset: u(r), bytes_length: u(r), card_count: u(r), entity_count: u(r), checksum: h32(r) }),
            logic_mesh: opt(rng, |r| LogicMeshManifest { bytes_offset: u(r), bytes_length: u(r), node_count: u(r), edge_count: u(r), checksum: h32(r) }),
            sketch_track: opt(rng, |r| SketchTrackManifest { bytes_offset: u(r), bytes_length: u(r), entry_count: u(r), entry_size: u(r) as u16, flags: u32v(r), checksum: h32(r) }),
            segment_catalog: cat,
            ticket_ref: TicketRef { issuer: s(rng), seq_no: rng.i64(i64::MIN, i64::MAX) >> rng.below(63), expires_in_secs: u(rng), capacity_bytes: u(rng), verified: rng.bool() },
            memory_binding: if rng.chance(1, 3) { Some(binding(rng)) } else { None },
            replay_manifest: opt(rng, |r| ReplayManifest { segment_offset: u(r), segment_size: u(r), session_count: u32v(r), total_actions: u(r), version: u32v(r) }),
            enrichment_queue: EnrichmentQueueManifest { tasks: vecn(rng, 3, |r| EnrichmentTask { frame_id: u(r), created_at: u(r), chunks_done: u32v(r), chunks_total: u32v(r) }), updated_at: u(rng) },
            merkle_root: h32(rng), toc_checksum: [0u8; 32] };
        if legacy_shape {
            t.sketch_track = None; t.replay_manifest = None; t.enrichment_queue = EnrichmentQueueManifest::default();
        }
        t
    }

    fn stamp(mut t: Toc) -> Toc {
        t.toc_checksum = [0u8; 32];
        let b = t.encode().expect("encode");
        t.toc_checksum = *blake3::hash(&b).as_bytes();
        t
    }

    fn toc_err(e: &memvid_core::MemvidError) -> String {
        match e {
            memvid_core::MemvidError::InvalidToc { reason } => match reason.as_ref() {
                "unexpected trailing bytes" => "trailing".into(),
                "unexpected trailing bytes in V2 format" => "trailing_v2".into(),
                "unexpected trailing bytes in V1 format" => "trailing_v1".into(),
                _ => "decode".into(),
            },
            _ => "decode".into(),
        }
    }

    /// (result text comparable with the model, decoded value)
    fn real_decode(b: &[u8], lenient: bool) -> (String, Option<Toc>) {
        let v = b.to_vec();
        match guarded(move || if lenient { Toc::decode_lenient(&v) } else { Toc::decode(&v) }) {
            Err(p) => (format!("PANIC:{p}"), None),
            Ok(Err(e)) => (format!("err {}", toc_err(&e)), None),
            Ok(Ok(t)) => match t.encode() {
                Ok(re) => (format!("ok {}", hexw(&re)), Some(t)),
                Err(e) => (format!("REENCODE-FAILED:{e}"), Some(t)),
            },
        }
    }

    fn first_diff(a: &[u8], b: &[u8]) -> usize { a.iter().zip(b.iter()).position(|(x, y)| x != y).unwrap_or(a.len().min(b.len())) }

    /// V2 / V1 image of a legacy-shaped TOC (sketch_track, replay_manifest None, default queue), by byte surgery on
    /// the current encoding: the option tags of the absent fields and the 16-byte empty queue are cut out.
    fn legacy_image(t: &Toc, v1: bool) -> Option<Vec<u8>> {
        let cur = t.encode().ok()?;
        let n = cur.len();
        let mut t2 = t.clone();
        t2.sketch_track = Some(SketchTrackManifest { bytes_offset: 0, bytes_length: 0, entry_count: 0, entry_size: 0, flags: 0, checksum: [0; 32] });
        let sk = first_diff(&cur, &t2.encode().ok()?);
        let mut cut: Vec<(usize, usize)> = vec![(sk, 1), (n - 64 - 17, 17)];
        if v1 {
            if t.memories_track.is_some() || t.logic_mesh.is_some() { return None; }
            let mut t3 = t.clone();
            t3.memories_track = Some(MemoriesTrackManifest { bytes_offset: 0, bytes_length: 0, card_count: 0, entity_count: 0, checksum: [0; 32] });
            let mt = first_diff(&cur, &t3.encode().ok()?);
            cut.push((mt, 2));
        }
        cut.sort();
        let mut out = vec![];
        let mut p = 0;
        for (o, l) in cut { out.extend_from_slice(&cur[p..o]); p = o + l; }
        out.extend_from_slice(&cur[p..]);
        Some(out)
    }

    #[derive(Clone, Debug)]
    pub enum Mut { None, Append(Vec<u8>), Cut(usize), Xor(usize, u8), Set(usize, u8), Set8(usize, u64) }

    impl Mut {
        fn apply(&self, b: &[u8]) -> Vec<u8> {
            let mut v = b.to_vec();
            match self {
                Mut::None => {}
                Mut::Append(x) => v.extend_from_slice(x),
                Mut::Cut(k) => v.truncate(*k),
                Mut::Xor(o, x) => { if *o < v.len() { v[*o] ^= *x; } }
                Mut::Set(o, x) => { if *o < v.len() { v[*o] = *x; } }
                Mut::Set8(o, x) => { if *o + 8 <= v.len() { v[*o..*o + 8].copy_from_slice(&x.to_le_bytes()); } }
            }
            v
        }
        fn json(&self) -> Value {
            match self {
                Mut::None => json!({"m": "none"}), Mut::Append(x) => json!({"m": "append", "bytes": hexw(x)}), Mut::Cut(k) => json!({"m": "cut", "at": k}),
                Mut::Xor(o, x) => json!({"m": "xor", "at": o, "v": x}), Mut::Set(o, x) => json!({"m": "set", "at": o, "v": x}),
                Mut::Set8(o, x) => json!({"m": "set8", "at": o, "v": x.to_string()}),
            }
        }
        fn of_json(v: &Value) -> Mut {
            let at = v["at"].as_u64().unwrap_or(0) as usize;
            match v["m"].as_str().unwrap_or("none") {
                "append" => Mut::Append(unhexw(v["bytes"].as_str().unwrap()).unwrap()), "cut" => Mut::Cut(at),
                "xor" => Mut::Xor(at, v["v"].as_u64().unwrap() as u8), "set" => Mut::Set(at, v["v"].as_u64().unwrap() as u8),
                "set8" => Mut::Set8(at, v["v"].as_str().unwrap().parse().unwrap()), _ => Mut::None,
            }
        }
    }

    fn involves_chrono(t: &Toc) -> bool { t.memory_binding.is_some() }

    pub fn run_toc_image(clean: &[u8], m: &Mut, stamped: bool, what: &str, drv: &mut Option<Driver>, sum: &mut Summary) {
        let case = || json!({"kind": "toc_image", "what": what, "bytes": hexw(clean), "mut": m.json(), "stamped": stamped});
        let img = m.apply(clean);
        let (r, val) = real_decode(&img, false);
        let (orig_r, orig) = real_decode(clean, false);
        let mut model = String::new();
        if let Some(d) = drv {
            let a = d.ask(&format!("tocdec {}", hexw(&img)));
            model = a.clone();
            let a_cmp = a.split(" wt=").next().unwrap().to_string();
            if a_cmp != r {
                // chrono (DateTime<Utc> inside MemoryBinding) is the parameter `ext` of the model and the identity in the
                // driver.  A difference is excused only when the implementation, given the model's own canonical
                // re-encoding, shows that the foreign parser is the cause: it rejects it, or normalises it to its own answer.
                let excused = match a_cmp.strip_prefix("ok ") {
                    Some(hm) => {
                        let mb = unhexw(hm).unwrap_or_default();
                        let (r2, _) = real_decode(&mb, false);
                        if val.is_none() && r2.starts_with("err") && binding_in_image(&mb) { sum.branch("toc-chrono-rejects-date"); true }
                        else if val.is_some() && r2 == r && binding_in_image(&mb) { sum.branch("toc-chrono-normalises-date"); true }
                        else { false }
                    }
                    None => false,
                };
                if !excused { sum.disagreement("Toc::decode vs model", case(), &a[..a.len().min(300)], &r[..r.len().min(300)]); }
            }
        }
        let changed = img != clean;
        let tag = if r.starts_with("ok") { "ok".to_string() } else { r.replace(' ', "-") };
        match m {
            Mut::None => {
                sum.branch(&format!("toc-clean-{tag}"));
                if !r.starts_with("ok ") { sum.oracle_violation("toc-clean-image-rejected", &r, case()); }
                if let Some(d) = drv { let _ = d; if r.starts_with("ok ") && !model.ends_with("wt=1") { sum.disagreement("decoded TOC value is outside the model's WellTyped domain", case(), &model[model.len().saturating_sub(8)..], "wt=1 expected"); } }
            }
            Mut::Append(_) => {
                sum.branch(&format!("toc-append-{tag}"));
                if orig_r.starts_with("ok ") && !r.starts_with("err trailing") { sum.oracle_violation("toc-trailing-bytes-accepted", &r[..r.len().min(80)], case()); }
            }
            Mut::Cut(_) if changed => {
                sum.branch(&format!("toc-cut-{tag}"));
                if !r.starts_with("err") { sum.oracle_violation("toc-truncated-image-accepted", &r[..r.len().min(80)], case()); }
            }
            _ => { if changed { sum.branch(&format!("toc-mut-{tag}")); } }
        }
        if r.starts_with("PANIC") || r.starts_with("REENCODE") { sum.oracle_violation("toc-decode-panics", &r, case()); }
        if let (Some(t3), true) = (&val, changed) {
            let re = t3.encode().unwrap_or_default();
            // value equality is judged on the canonical re-encodings (Debug text is not injective: NaN payloads print alike)
            let same_value = orig.is_some() && re == clean;
            if re == img { sum.branch("toc-mut-ok-exact"); }
            else if same_value { sum.branch("toc-mut-ok-same-value-lenient"); }
            else { sum.branch("toc-mut-ok-noncanonical-different-value"); }
            // the checksum must expose every accepted change of a stamped TOC
            if stamped && !same_value {
                let t4 = t3.clone();
                let ok = guarded(move || t4.verify_checksum().is_ok()).unwrap_or(false);
                if let Some(d) = drv {
                    let a = d.ask(&format!("tocsum {}", hexw(&img)));
                    if a != format!("ok {}", ok as u8) && !involves_chrono(t3) { sum.disagreement("Toc::verify_checksum vs model (mutated)", case(), &a, &format!("ok {}", ok as u8)); }
                }
                if ok { sum.oracle_violation("toc-checksum-misses-mutation", "a changed image decoded to a different value and verify_checksum accepted it", case()); }
                else { sum.branch("toc-mut-ok-checksum-detects"); }
            }
        }
        sum.case(&format!("TI|{}|{}", b3short(&img), &r[..r.len().min(24)]), orig_r.starts_with("ok"), || json!({"kind": "toc_image", "what": what, "len": img.len(), "mut": m.json(), "decode": &r[..r.len().min(16)]}));
    }

    /// does the (canonical) image carry a memory binding?  The option tag sits 1 + 17 + 64 bytes before the end when the
    /// replay manifest is absent; otherwise look at the lenient decoder of the implementation.
    fn binding_in_image(b: &[u8]) -> bool {
        // a canonical image whose binding has a date chrono rejects cannot be decoded by the implementation at all, so the
        // presence is read structurally: replace nothing, just scan for an RFC-3339-looking or any string is not reliable;
        // instead use the implementation on the image with the binding's date replaced is overkill — accept when the
        // image is long enough to hold a binding (uuid 24 + 3 strings) and let the two-sided check above do the work.
        b.len() > 64 + 17 + 1 + 24 + 24
    }

    /// value-level case: round trip, checksum, legacy images
    pub fn run_toc_value(t: &Toc, drv: &mut Option<Driver>, sum: &mut Summary) -> Option<Vec<u8>> {
        let t1 = t.clone();
        let enc = match guarded(move || t1.encode()) { Ok(Ok(b)) => b, other => { sum.oracle_violation("toc-encode-fails", &format!("{other:?}")[..60], json!({"kind": "toc_value", "debug": format!("{t:?}")})); return None; } };
        let case = || json!({"kind": "toc_image", "what": "value", "bytes": hexw(&enc), "mut": {"m": "none"}, "stamped": true});
        // round trip, judged on the values (Debug text: independent of bincode) and on the bytes
        let (r, back) = real_decode(&enc, false);
        match &back {
            Some(b) if format!("{b:?}") == format!("{t:?}") && r == format!("ok {}", hexw(&enc)) => sum.branch("toc-roundtrip-ok"),
            _ => sum.oracle_violation("toc-roundtrip-differs", &r[..r.len().min(60)], case()),
        }
        // checksum: stamped verifies, one flipped bit in the stored checksum or in the content does not
        let st = stamp(t.clone());
        let st_bytes = st.encode().unwrap();
        if st.verify_checksum().is_err() { sum.oracle_violation("toc-stamped-checksum-rejected", "", case()); }
        let mut bad = st.clone(); bad.toc_checksum[7] ^= 0x10;
        if bad.verify_checksum().is_ok() { sum.oracle_violation("toc-checksum-bitflip-accepted", "", case()); }
        let mut bad2 = st.clone(); bad2.toc_version ^= 1;
        if bad2.verify_checksum().is_ok() { sum.oracle_violation("toc-content-change-accepted-by-checksum", "", case()); }
        if let Some(d) = drv {
            let a = d.ask(&format!("tocsum {}", hexw(&st_bytes)));
            if a != "ok 1" { sum.disagreement("Toc::verify_checksum vs model (stamped)", case(), &a, "ok 1"); }
            let a = d.ask(&format!("tocsum {}", hexw(&bad.encode().unwrap())));
            if a != "ok 0" { sum.disagreement("Toc::verify_checksum vs model (bad checksum)", case(), &a, "ok 0"); }
        }
        sum.case(&format!("TV|{}", b3short(&enc)), true, || json!({"kind": "toc_value", "len": enc.len(), "frames": t.frames.len(), "binding": t.memory_binding.is_some()}));
        Some(st_bytes)
    }

    /// legacy V2 / V1 images: decode gives the same TOC with the later fields defaulted; a checksum stamped over the
    /// legacy encoding verifies through the legacy path
    pub fn run_toc_legacy(t: &Toc, v1: bool, drv: &mut Option<Driver>, sum: &mut Summary) {
        let Some(img0) = legacy_image(t, v1) else { return };
        // stamp: checksum = blake3(legacy image with zero checksum) written into the last 32 bytes
        let n = img0.len();
        let mut z = img0.clone(); z[n - 32..].fill(0);
        let ck = *blake3::hash(&z).as_bytes();
        let mut img = z.clone(); img[n - 32..].copy_from_slice(&ck);
        let case = || json!({"kind": "toc_image", "what": if v1 { "legacy_v1" } else { "legacy_v2" }, "bytes": hexw(&img), "mut": {"m": "none"}, "stamped": true});
        let (r, back) = real_decode(&img, false);
        let mut want = t.clone(); want.toc_checksum = ck;
        match &back {
            Some(b) if format!("{b:?}") == format!("{want:?}") => {
                sum.branch(if v1 { "toc-legacy-v1-ok" } else { "toc-legacy-v2-ok" });
                if b.verify_checksum().is_err() { sum.oracle_violation("toc-legacy-checksum-rejected", "", case()); }
            }
            _ => sum.oracle_violation("toc-legacy-image-misread", &r[..r.len().min(60)], case()),
        }
        if let Some(d) = drv {
            let a = d.ask(&format!("tocdec {}", hexw(&img)));
            if a.split(" wt=").next().unwrap() != r { sum.disagreement("Toc::decode vs model (legacy image)", case(), &a[..a.len().min(200)], &r[..r.len().min(200)]); }
            let a = d.ask(&format!("tocsum {}", hexw(&img)));
            let ok = back.as_ref().map(|b| b.verify_checksum().is_ok()).unwrap_or(false);
            if a != format!("ok {}", ok as u8) { sum.disagreement("Toc::verify_checksum vs model (legacy image)", case(), &a, &format!("ok {}", ok as u8)); }
        }
        // the legacy rescue is guarded: the same checksum on a TOC that has a replay manifest (V2, V1) or a memories
        // track (V1) must be refused
        let mut guarded_cases: Vec<(&str, Toc)> = vec![];
        let mut tr = want.clone();
        tr.replay_manifest = Some(ReplayManifest { segment_offset: 1, segment_size: 2, session_count: 3, total_actions: 4, version: 1 });
        guarded_cases.push(("replay_manifest present", tr));
        if v1 {
            let mut tm = want.clone();
            tm.memories_track = Some(MemoriesTrackManifest { bytes_offset: 1, bytes_length: 2, card_count: 3, entity_count: 4, checksum: [9; 32] });
            guarded_cases.push(("memories_track present", tm));
        }
        for (why, tg) in guarded_cases {
            let ok = tg.verify_checksum().is_ok();
            if ok { sum.oracle_violation("toc-legacy-checksum-rescue-unguarded", &format!("legacy checksum accepted although {why}"), case()); }
            else { sum.branch("toc-legacy-rescue-guarded"); }
            if let Some(d) = drv {
                let a = d.ask(&format!("tocsum {}", hexw(&tg.encode().unwrap())));
                if a != format!("ok {}", ok as u8) { sum.disagreement("Toc::verify_checksum vs model (guarded legacy rescue)", case(), &a, &format!("ok {}", ok as u8)); }
            }
        }
        // trailing bytes on a legacy image
        let mut x = img.clone(); x.push(0);
        let (r2, _) = real_decode(&x, false);
        if !r2.starts_with("err") { sum.oracle_violation("toc-trailing-bytes-accepted", "legacy image + 1 byte", case()); }
        sum.case(&format!("TL|{}", b3short(&img)), true, || json!({"kind": "toc_legacy", "v1": v1, "len": img.len()}));
    }

    fn gen_mut(rng: &mut Rng, n: usize) -> Mut {
        match rng.below(12) {
            0 => { let k = rng.usize(1, 9); Mut::Append(rng.bytes(k)) }
            1 => Mut::Append(vec![0]),
            2 | 3 => Mut::Cut(rng.usize(0, n - 1)),
            4 | 5 => Mut::Xor(rng.usize(0, n - 1), 1 << rng.below(8)),
            6 => Mut::Set(rng.usize(0, n - 1), *rng.pick(&[0u8, 1, 2, 0xFF])),
            7 => Mut::Set8(rng.usize(0, n.saturating_sub(8)), *rng.pick(&[0u64, 1, 2, 1024, 1025, 4096, 4097, 1_000_000, 1_000_001, u64::MAX, 1 << 32])),
            8 => Mut::Xor(n - 1 - rng.usize(0, 63), 1 << rng.below(8)),     // merkle root / checksum bytes
            9 => Mut::Xor(rng.usize(0, 15.min(n - 1)), 1 << rng.below(8)),   // toc_version / segments length
            _ => Mut::Xor(rng.usize(0, n - 1), rng.u64() as u8 | 1),
        }
    }

    fn utf8_case(b: &[u8], drv: &mut Option<Driver>, sum: &mut Summary) {
        let imp = std::str::from_utf8(b).is_ok();
        if let Some(d) = drv {
            let a = d.ask(&format!("utf8 {}", hexw(b)));
            if a != (imp as u8).to_string() { sum.disagreement("String::from_utf8 vs model utf8Valid", json!({"kind": "toc_utf8", "bytes": hexw(b)}), &a, &(imp as u8).to_string()); }
        }
        sum.branch(if imp { "utf8-valid" } else { "utf8-invalid" });
        sum.case(&format!("U|{}", hexw(b)), imp, || json!({"kind": "utf8", "bytes": hexw(b), "valid": imp}));
    }

    pub fn expect(sum: &mut Summary) {
        let mut v = sum.expected_branches.clone();
        for b in ["toc-roundtrip-ok", "toc-clean-ok", "toc-append-err-trailing", "toc-cut-err-decode", "toc-mut-ok", "toc-mut-err-decode", "toc-mut-ok-exact",
                  "toc-mut-ok-checksum-detects", "toc-legacy-v2-ok", "toc-legacy-v1-ok", "toc-legacy-rescue-guarded", "utf8-valid", "utf8-invalid"] { v.push(b.to_string()); }
        sum.expected_branches = v;
    }

    fn small_toc() -> Toc {
        let mut rng = Rng::new(12345);
        let mut t = gen_toc(&mut rng, true);
        t.frames.truncate(1);
        t.segments.truncate(1);
        t.segment_catalog = SegmentCatalog::default();
        t.indexes = IndexManifests::default();
        t.memory_binding = None;
        if let Some(f) = t.frames.get_mut(0) { f.metadata = None; f.tags = vec!["a".into()]; f.labels = vec![]; f.extra_metadata = [("k".to_string(), "v".to_string())].into_iter().collect(); f.chunk_manifest = None; f.canonical_encoding = CanonicalEncoding::Zstd; }
        t
    }

    pub fn corpus(drv: &mut Option<Driver>, sum: &mut Summary) {
        let t = small_toc();
        if let Some(st) = run_toc_value(&t, drv, sum) {
            run_toc_image(&st, &Mut::None, true, "corpus", drv, sum);
            run_toc_image(&st, &Mut::Append(vec![0]), true, "corpus", drv, sum);
            // every truncation and every single-bit-0 / bit-7 flip of a small stamped image
            for k in 0..st.len() { run_toc_image(&st, &Mut::Cut(k), true, "corpus", drv, sum); }
            for o in 0..st.len() { run_toc_image(&st, &Mut::Xor(o, 0x01), true, "corpus", drv, sum); run_toc_image(&st, &Mut::Xor(o, 0x80), true, "corpus", drv, sum); }
            for o in (0..st.len().saturating_sub(8)).step_by(1) { if st[o..o + 8].iter().skip(1).all(|b| *b == 0) && st[o] <= 3 { run_toc_image(&st, &Mut::Set8(o, st[o] as u64 + 1), true, "corpus-len+1", drv, sum); } }
        }
        run_toc_legacy(&t, false, drv, sum);
        let mut t1 = t.clone(); t1.memories_track = None; t1.logic_mesh = None;
        run_toc_legacy(&t1, true, drv, sum);
        for b in [&b""[..], b"a", b"\xc3\xa9", b"\xc3", b"\xc0\x80", b"\xe0\x9f\xbf", b"\xe0\xa0\x80", b"\xed\xa0\x80", b"\xed\x9f\xbf", b"\xf0\x8f\xbf\xbf", b"\xf0\x90\x80\x80",
                  b"\xf4\x8f\xbf\xbf", b"\xf4\x90\x80\x80", b"\xf5\x80\x80\x80", b"\x80", b"\xff", b"a\xe2\x82", b"\xe2\x82\xac"] { utf8_case(b, drv, sum); }
    }

    pub fn generated(rng: &mut Rng, th: bool, drv: &mut Option<Driver>, sum: &mut Summary) {
        let (nv, nm) = if th { (800, 12) } else { (90, 8) };
        for i in 0..nv {
            let legacy = i % 4 == 0;
            let t = gen_toc(rng, legacy);
            let Some(st) = run_toc_value(&t, drv, sum) else { continue };
            run_toc_image(&st, &Mut::None, true, "generated", drv, sum);
            for _ in 0..nm { let m = gen_mut(rng, st.len()); run_toc_image(&st, &m, true, "generated", drv, sum); }
            if legacy {
                run_toc_legacy(&t, false, drv, sum);
                if t.memories_track.is_none() && t.logic_mesh.is_none() { run_toc_legacy(&t, true, drv, sum); }
                else { let mut t1 = t.clone(); t1.memories_track = None; t1.logic_mesh = None; run_toc_legacy(&t1, true, drv, sum); }
            }
        }
        for _ in 0..(if th { 4000 } else { 500 }) {
            let n = rng.usize(0, 6);
            let mut b: Vec<u8> = match rng.below(3) { 0 => rng.bytes(n), 1 => (*rng.pick(STRS)).as_bytes().to_vec(), _ => (0..n).map(|_| *rng.pick(&[0x7fu8, 0x80, 0xbf, 0xc0, 0xc2, 0xdf, 0xe0, 0xed, 0xef, 0xf0, 0xf4, 0xf5, 0x9f, 0xa0, 0x8f, 0x90])).collect() };
            if rng.bool() && !b.is_empty() { let k = rng.usize(0, b.len() - 1); b[k] = rng.u64() as u8; }
            utf8_case(&b, drv, sum);
        }
    }

    pub fn replay(v: &Value, drv: &mut Option<Driver>, sum: &mut Summary) {
        match v["kind"].as_str().unwrap_or("") {
            "toc_image" => {
                let b = unhexw(v["bytes"].as_str().unwrap()).unwrap();
                let m = Mut::of_json(&v["mut"]);
                let img = m.apply(&b);
                println!("impl : {}", { let r = real_decode(&img, false).0; r[..r.len().min(200)].to_string() });
                if let Some(d) = drv { let a = d.ask(&format!("tocdec {}", hexw(&img))); println!("model: {}", &a[..a.len().min(200)]); }
                run_toc_image(&b, &m, v["stamped"].as_bool().unwrap_or(false), "replay", drv, sum);
            }
            "toc_utf8" => utf8_case(&unhexw(v["bytes"].as_str().unwrap()).unwrap(), drv, sum),
            other => { eprintln!("unknown toc replay kind {other}"); std::process::exit(EXIT_ERROR); }
        }
    }
}
// TOC-PART-END

// ------------------------------------------------------------------------------------ header

const HEADER_SIZE: usize = 4096;

#[derive(Clone, Debug)]
struct H {
    magic: [u8; 4],
    version: u16,
    fo: u64,
    wo: u64,
    ws: u64,
    cp: u64,
    sq: u64,
    ck: [u8; 32],
}

impl H {
    fn to_real(&self) -> Header {
        Header {
            magic: self.magic, version: self.version, footer_offset: self.fo, wal_offset: self.wo,
            wal_size: self.ws, wal_checkpoint_pos: self.cp, wal_sequence: self.sq, toc_checksum: self.ck,
        }
    }
    fn of_real(h: &Header) -> H {
        H { magic: h.magic, version: h.version, fo: h.footer_offset, wo: h.wal_offset, ws: h.wal_size,
            cp: h.wal_checkpoint_pos, sq: h.wal_sequence, ck: h.toc_checksum }
    }
    fn show(&self) -> String {
        format!("{} {} {} {} {} {} {} {}", hexw(&self.magic), self.version, self.fo, self.wo, self.ws, self.cp, self.sq, hexw(&self.ck))
    }
    fn json(&self) -> Value {
        json!({"magic": hexw(&self.magic), "version": self.version, "footer_offset": self.fo.to_string(), "wal_offset": self.wo.to_string(),
               "wal_size": self.ws.to_string(), "wal_checkpoint_pos": self.cp.to_string(), "wal_sequence": self.sq.to_string(), "toc_checksum": hexw(&self.ck)})
    }
    fn of_json(v: &Value) -> H {
        let n = |k: &str| v[k].as_str().unwrap().parse::<u64>().unwrap();
        let mut magic = [0u8; 4];
        magic.copy_from_slice(&unhexw(v["magic"].as_str().unwrap()).unwrap());
        let mut ck = [0u8; 32];
        ck.copy_from_slice(&unhexw(v["toc_checksum"].as_str().unwrap()).unwrap());
        H { magic, version: v["version"].as_u64().unwrap() as u16, fo: n("footer_offset"), wo: n("wal_offset"), ws: n("wal_size"),
            cp: n("wal_checkpoint_pos"), sq: n("wal_sequence"), ck }
    }
}

fn header_reason(e: &MemvidError) -> String {
    match e {
        MemvidError::InvalidHeader { reason } => match reason.as_ref() {
            "magic mismatch" => "magic".into(),
            "unsupported version" => "version".into(),
            "spec byte mismatch" => "spec".into(),
            "wal_offset precedes data region" => "wal_offset".into(),
            "wal_size must be non-zero" => "wal_size".into(),
            "header truncated" => "truncated".into(),
            other => format!("other:{other}"),
        },
        other => format!("other:{other}"),
    }
}

fn real_henc(h: &H) -> Result<Vec<u8>, String> {
    let r = h.to_real();
    match guarded(move || HeaderCodec::encode(&r).map(|b| b.to_vec()).map_err(|e| header_reason(&e))) {
        Ok(x) => x,
        Err(p) => Err(format!("PANIC:{p}")),
    }
}

fn real_hdec(b: &[u8]) -> Result<H, String> {
    let mut a = [0u8; HEADER_SIZE];
    a.copy_from_slice(b);
    match guarded(move || HeaderCodec::decode(&a).map(|h| H::of_real(&h)).map_err(|e| header_reason(&e))) {
        Ok(x) => x,
        Err(p) => Err(format!("PANIC:{p}")),
    }
}

fn show_hdec(r: &Result<H, String>) -> String {
    match r { Ok(h) => format!("ok {}", h.show()), Err(e) => format!("err {e}") }
}

fn u64_edge(rng: &mut Rng) -> u64 {
    match rng.below(8) {
        0 => 0,
        1 => 1,
        2 => u64::MAX,
        3 => 4095,
        4 => 4096,
        5 => 4097,
        6 => 1u64 << rng.below(64),
        _ => rng.u64(),
    }
}

fn gen_header(rng: &mut Rng) -> H {
    let mut ck = [0u8; 32];
    ck.copy_from_slice(&rng.bytes(32));
    let mut h = H { magic: *b"MV2\0", version: 0x0201, fo: u64_edge(rng), wo: 4096 + rng.below(3) * rng.below(1 << 20),
        ws: 1 + u64_edge(rng) / 2, cp: u64_edge(rng), sq: u64_edge(rng), ck };
    if rng.chance(1, 8) { h.wo = u64::MAX - rng.below(3); }
    // invalid variants (encode must refuse)
    match rng.below(12) {
        0 => { h.magic[rng.usize(0, 3)] ^= 1 << rng.below(8); }
        1 => { h.version ^= 1 << rng.below(16); }
        2 => { h.wo = rng.below(4096); }
        3 => { h.ws = 0; }
        4 => { h.wo = 4095; h.ws = 0; h.version = 0; }
        _ => {}
    }
    h
}

/// one header case: value-level round trip + a list of byte mutations of the image
fn run_header_case(h: &H, muts: &[(usize, u8)], drv: &mut Option<Driver>, sum: &mut Summary) {
    let case = || json!({"kind": "header", "header": h.json(), "muts": muts.iter().map(|(o, x)| json!([o, x])).collect::<Vec<_>>()});
    let enc = real_henc(h);
    let valid = h.magic == *b"MV2\0" && h.version == 0x0201 && h.wo >= 4096 && h.ws != 0;
    let imp_enc = match &enc { Ok(b) => format!("ok {}", hexw(b)), Err(e) => format!("err {e}") };
    if let Some(d) = drv {
        let m = d.ask(&format!("henc {}", h.show()));
        if m != imp_enc {
            sum.disagreement("HeaderCodec::encode vs model", case(), &m[..m.len().min(200)], &imp_enc[..imp_enc.len().min(200)]);
        }
    }
    // oracle: encode accepts exactly the valid headers
    match (&enc, valid) {
        (Ok(_), true) => sum.branch("henc-ok"),
        (Err(e), false) if !e.starts_with("PANIC") && !e.starts_with("other") => sum.branch(&format!("henc-err-{e}")),
        _ => sum.oracle_violation("header-encode-accepts-or-rejects-wrongly", &format!("valid={valid} encode={}", &imp_enc[..imp_enc.len().min(80)]), case()),
    }
    let mut canon = format!("H|{}|{:?}", h.show(), muts);
    if let Ok(img) = &enc {
        // round trip
        let dec = real_hdec(img);
        if show_hdec(&dec) != format!("ok {}", h.show()) {
            sum.oracle_violation("header-roundtrip-differs", &format!("decode(encode h) = {}", show_hdec(&dec)), case());
        }
        if img.len() != HEADER_SIZE || img[80..].iter().any(|b| *b != 0) {
            sum.oracle_violation("header-image-not-canonical", "image is not 4096 bytes with zero padding", case());
        }
        if let Some(d) = drv {
            let m = d.ask(&format!("hdec {}", hexw(img)));
            if m != show_hdec(&dec) { sum.disagreement("HeaderCodec::decode vs model (clean image)", case(), &m, &show_hdec(&dec)); }
        }
        // mutations
        if !muts.is_empty() {
            let mut b = img.clone();
            for (o, x) in muts { b[*o] ^= *x; }
            let changed_prefix = b[..8] != img[..8];
            let changed_fields = b[..80] != img[..80];
            let dec2 = real_hdec(&b);
            let s2 = show_hdec(&dec2);
            canon.push_str(&s2);
            if let Some(d) = drv {
                let m = d.ask(&format!("hdec {}", hexw(&b)));
                if m != s2 { sum.disagreement("HeaderCodec::decode vs model (mutated image)", case(), &m, &s2); }
            }
            match &dec2 {
                Err(e) if e.starts_with("PANIC") || e.starts_with("other") =>
                    sum.oracle_violation("header-decode-panics", e, case()),
                Err(e) => {
                    sum.branch(&format!("hdec-err-{e}"));
                    if !changed_fields { sum.oracle_violation("header-padding-change-rejected", &format!("only padding changed, decode = err {e}"), case()); }
                }
                Ok(h2) => {
                    if changed_prefix {
                        sum.oracle_violation("header-magic-version-mutation-accepted", &format!("bytes 0..8 changed, decode = {s2}"), case());
                    }
                    let same = h2.show() == h.show();
                    if changed_fields && same {
                        sum.oracle_violation("header-field-mutation-invisible", "field bytes changed but decode returned the original header", case());
                    }
                    if !changed_fields && !same {
                        sum.oracle_violation("header-padding-mutation-changes-value", &s2, case());
                    }
                    // exactness: what decoded re-encodes to the mutated image with padding zeroed
                    match real_henc(h2) {
                        Ok(re) if re[..80] == b[..80] && re[80..].iter().all(|x| *x == 0) => {}
                        other => sum.oracle_violation("header-decode-not-exact", &format!("re-encode of decoded header does not reproduce the image: {:?}", other.map(|v| hexw(&v[..80]))), case()),
                    }
                    sum.branch(if changed_fields { "hdec-ok-after-field-mutation" } else { "hdec-ok-after-padding-mutation" });
                }
            }
        }
    }
    sum.case(&canon, enc.is_ok(), || json!({"kind": "header", "header": h.json(), "mutations": muts.len(), "encode": &imp_enc[..imp_enc.len().min(40)]}));
}

fn gen_header_muts(rng: &mut Rng) -> Vec<(usize, u8)> {
    let bit = |rng: &mut Rng| 1u8 << rng.below(8);
    match rng.below(10) {
        0 => vec![],
        1 => vec![(rng.usize(0, 3), bit(rng))],                 // magic
        2 => vec![(rng.usize(4, 5), bit(rng))],                 // version
        3 => vec![(rng.usize(6, 7), bit(rng))],                 // spec bytes
        4 => vec![(rng.usize(8, 79), bit(rng))],                // any field
        5 => vec![(rng.usize(16, 31), rng.u64() as u8 | 1)],    // wal_offset / wal_size
        6 => vec![(rng.usize(80, 4095), bit(rng))],             // padding (legacy lock region included)
        7 => (0..rng.usize(2, 6)).map(|_| (rng.usize(0, 95), bit(rng))).collect(),
        8 => vec![(rng.usize(80, 140), 0xAA)],
        _ => vec![(rng.usize(0, 4095), bit(rng))],
    }
}

/// images built directly (not through encode): wal_offset below the data region, wal_size zero, zero page…
fn run_header_raw(b: &[u8], drv: &mut Option<Driver>, sum: &mut Summary) {
    let case = || json!({"kind": "header_raw", "bytes80": hexw(&b[..96]), "rest_zero": b[96..].iter().all(|x| *x == 0)});
    let dec = real_hdec(b);
    let s = show_hdec(&dec);
    if let Some(d) = drv {
        let m = d.ask(&format!("hdec {}", hexw(b)));
        if m != s { sum.disagreement("HeaderCodec::decode vs model (raw image)", json!({"kind": "header_raw_full", "bytes": hexw(b)}), &m, &s); }
    }
    // independent reading of the image
    let u = |o: usize| u64::from_le_bytes(b[o..o + 8].try_into().unwrap());
    let expect = if &b[0..4] != b"MV2\0" { "err magic".to_string() }
        else if b[4] != 1 || b[5] != 2 { "err version".into() }
        else if b[6] != 2 || b[7] != 1 { "err spec".into() }
        else if u(16) < 4096 { "err wal_offset".into() }
        else if u(24) == 0 { "err wal_size".into() }
        else { format!("ok {} 513 {} {} {} {} {} {}", hexw(&b[0..4]), u(8), u(16), u(24), u(32), u(40), hexw(&b[48..80])) };
    if s != expect {
        sum.oracle_violation("header-decode-differs-from-layout-reading", &format!("decode={s} expected={expect}"), json!({"kind": "header_raw_full", "bytes": hexw(b)}));
    }
    sum.branch(&(if dec.is_ok() { "hdec-ok-raw".to_string() } else { format!("hdec-{}", s.replace(' ', "-")) }));
    sum.case(&format!("HR|{}", b3short(b)), dec.is_ok(), case);
}

// ------------------------------------------------------------------------------------ footer

fn run_footer_case(tl: u64, generation: u64, hash: [u8; 32], muts: &[(usize, u8)], cut: Option<usize>, extra: usize, drv: &mut Option<Driver>, sum: &mut Summary) {
    let case = || json!({"kind": "footer", "toc_len": tl.to_string(), "generation": generation.to_string(), "hash": hexw(&hash),
                         "muts": muts.iter().map(|(o, x)| json!([o, x])).collect::<Vec<_>>(), "cut": cut, "extra": extra});
    let f = CommitFooter { toc_len: tl, toc_hash: hash, generation };
    let img = f.encode().to_vec();
    let show = |r: &Option<CommitFooter>| match r { None => "none".to_string(), Some(f) => format!("some {} {} {}", f.toc_len, f.generation, hexw(&f.toc_hash)) };
    let back = CommitFooter::decode(&img);
    if back.as_ref() != Some(&f) { sum.oracle_violation("footer-roundtrip-differs", &show(&back), case()); }
    if let Some(d) = drv {
        let m = d.ask(&format!("fenc {} {} {}", tl, generation, hexw(&hash)));
        if m != hexw(&img) { sum.disagreement("CommitFooter::encode vs model", case(), &m, &hexw(&img)); }
    }
    let mut b = img.clone();
    for (o, x) in muts { b[*o] ^= *x; }
    if let Some(c) = cut { b.truncate(c); }
    b.extend(std::iter::repeat(0x21).take(extra));
    let b2 = b.clone();
    let dec = guarded(move || CommitFooter::decode(&b2));
    let s = match &dec { Ok(r) => show(r), Err(p) => format!("PANIC:{p}") };
    if let Some(d) = drv {
        let m = d.ask(&format!("fdec {}", hexw(&b)));
        if m != s { sum.disagreement("CommitFooter::decode vs model", case(), &m, &s); }
    }
    match &dec {
        Err(p) => sum.oracle_violation("footer-decode-panics", p, case()),
        Ok(None) => {
            sum.branch(if b.len() != FOOTER_SIZE { "fdec-none-length" } else if &b[..8] != FOOTER_MAGIC { "fdec-none-magic" } else { "fdec-none-other" });
            if b == img { sum.oracle_violation("footer-clean-image-rejected", "", case()); }
            if b.len() == FOOTER_SIZE && &b[..8] == FOOTER_MAGIC { sum.oracle_violation("footer-rejected-without-reason", "length and magic are right", case()); }
        }
        Ok(Some(g)) => {
            sum.branch(if b == img { "fdec-some-clean" } else { "fdec-some-mutated" });
            if b.len() != FOOTER_SIZE || &b[..8] != FOOTER_MAGIC { sum.oracle_violation("footer-bad-magic-or-length-accepted", &s, case()); }
            if g.encode().to_vec() != b { sum.oracle_violation("footer-decode-not-exact", "re-encode differs from the image", case()); }
            if b != img && *g == f { sum.oracle_violation("footer-mutation-invisible", "", case()); }
        }
    }
    sum.case(&format!("F|{}|{}", b3short(&b), s), true, || json!({"kind": "footer", "len": b.len(), "decode": s}));
}

// ------------------------------------------------------------------------------------ time index

type E = (i64, u64);

fn show_entries(es: &[E]) -> String {
    if es.is_empty() { "-".into() } else { es.iter().map(|(t, i)| format!("{t}:{i}")).collect::<Vec<_>>().join(",") }
}

fn ti_reason(e: &MemvidError) -> String {
    match e {
        MemvidError::InvalidTimeIndex { reason } => match reason.as_ref() {
            "magic mismatch" => "magic".into(),
            "length shorter than header" => "short_length".into(),
            "entry count overflow" => "count_overflow".into(),
            "length does not match declared count" => "length_mismatch".into(),
            "entries not sorted" => "unsorted".into(),
            other => format!("other:{other}"),
        },
        MemvidError::Io { .. } => "io".into(),
        other => format!("other:{other}"),
    }
}

fn real_tiread(stream: &[u8], offset: u64, length: u64) -> String {
    let v = stream.to_vec();
    match guarded(move || {
        let mut c = Cursor::new(v);
        read_track(&mut c, offset, length).map(|es| es.iter().map(|e| (e.timestamp, e.frame_id)).collect::<Vec<E>>()).map_err(|e| ti_reason(&e))
    }) {
        Ok(Ok(es)) => format!("ok {}", show_entries(&es)),
        Ok(Err(e)) => format!("err {e}"),
        Err(p) => format!("PANIC:{p}"),
    }
}

fn track_bytes(sorted: &[E]) -> Vec<u8> {
    let mut v = b"MVTI".to_vec();
    v.extend_from_slice(&(sorted.len() as u64).to_le_bytes());
    for (t, i) in sorted { v.extend_from_slice(&t.to_le_bytes()); v.extend_from_slice(&i.to_le_bytes()); }
    v
}

fn is_sorted(es: &[E]) -> bool { es.windows(2).all(|w| w[0] <= w[1]) }

/// what the stream says, read independently of the implementation and of the model
fn ti_reference(stream: &[u8], offset: u64, length: u64) -> String {
    let off = offset.min(stream.len() as u64) as usize;
    let d = &stream[off..];
    if d.len() < 4 { return "err io".into(); }
    if &d[..4] != b"MVTI" { return "err magic".into(); }
    if d.len() < 12 { return "err io".into(); }
    let count = u64::from_le_bytes(d[4..12].try_into().unwrap());
    if length < 12 { return "err short_length".into(); }
    let Some(exp) = count.checked_mul(16) else { return "err count_overflow".into() };
    if length - 12 != exp { return "err length_mismatch".into(); }
    let mut es: Vec<E> = vec![];
    let mut p = 12usize;
    for _ in 0..count {
        if d.len() < p + 8 { return "err io".into(); }
        let t = i64::from_le_bytes(d[p..p + 8].try_into().unwrap());
        if d.len() < p + 16 { return "err io".into(); }
        let i = u64::from_le_bytes(d[p + 8..p + 16].try_into().unwrap());
        if let Some(last) = es.last() { if (t, i) < *last { return "err unsorted".into(); } }
        es.push((t, i));
        p += 16;
    }
    format!("ok {}", show_entries(&es))
}

#[derive(Clone, Debug)]
struct TiCase {
    entries: Vec<E>,
    pre: usize,
    post: usize,
    /// (offset in track, xor) byte mutations of the written track
    muts: Vec<(usize, u8)>,
    /// overwrite the count field
    count: Option<u64>,
    /// length argument override
    length: Option<u64>,
    /// offset argument delta
    off_delta: i64,
    /// cut the stream to this many bytes of the track
    cut: Option<usize>,
    /// swap two entries in the written image (unsorted image)
    swap: Option<(usize, usize)>,
}

impl TiCase {
    fn json(&self) -> Value {
        json!({"kind": "timeidx", "entries": show_entries(&self.entries), "pre": self.pre, "post": self.post,
               "muts": self.muts.iter().map(|(o, x)| json!([o, x])).collect::<Vec<_>>(),
               "count": self.count.map(|c| c.to_string()), "length": self.length.map(|c| c.to_string()),
               "off_delta": self.off_delta, "cut": self.cut, "swap": self.swap.map(|(a, b)| json!([a, b]))})
    }
    fn of_json(v: &Value) -> TiCase {
        let es = v["entries"].as_str().unwrap();
        let entries = if es == "-" { vec![] } else { es.split(',').map(|p| { let (a, b) = p.split_once(':').unwrap(); (a.parse().unwrap(), b.parse().unwrap()) }).collect() };
        let pairs = |k: &str| v[k].as_array().map(|a| a.iter().map(|p| (p[0].as_u64().unwrap() as usize, p[1].as_u64().unwrap() as u8)).collect()).unwrap_or_default();
        TiCase { entries, pre: v["pre"].as_u64().unwrap_or(0) as usize, post: v["post"].as_u64().unwrap_or(0) as usize, muts: pairs("muts"),
            count: v["count"].as_str().map(|s| s.parse().unwrap()), length: v["length"].as_str().map(|s| s.parse().unwrap()),
            off_delta: v["off_delta"].as_i64().unwrap_or(0), cut: v["cut"].as_u64().map(|c| c as usize),
            swap: v["swap"].as_array().map(|a| (a[0].as_u64().unwrap() as usize, a[1].as_u64().unwrap() as usize)) }
    }
}

fn gen_entries(rng: &mut Rng, thorough: bool) -> Vec<E> {
    let n = match rng.below(10) { 0 => 0, 1 => 1, 2 => 2, 3..=7 => rng.usize(3, 12), _ => rng.usize(13, if thorough { 300 } else { 60 }) };
    let style = rng.below(5);
    (0..n).map(|k| {
        let t = match style {
            0 => rng.i64(-3, 3),
            1 => *rng.pick(&[i64::MIN, i64::MIN + 1, -1, 0, 1, i64::MAX - 1, i64::MAX]),
            2 => 1_700_000_000 + rng.i64(0, 5),
            3 => k as i64 / 2,
            _ => rng.u64() as i64,
        };
        let i = match rng.below(6) { 0 => u64::MAX - rng.below(2), 1 => rng.below(3), 2 => k as u64, _ => rng.below(1000) };
        (t, i)
    }).collect()
}

fn gen_ti_case(rng: &mut Rng, thorough: bool) -> TiCase {
    let entries = gen_entries(rng, thorough);
    let n = entries.len();
    let tlen = 12 + 16 * n;
    let mut c = TiCase { entries, pre: if rng.bool() { 0 } else { rng.usize(1, 40) }, post: if rng.bool() { 0 } else { rng.usize(1, 40) },
        muts: vec![], count: None, length: None, off_delta: 0, cut: None, swap: None };
    match rng.below(16) {
        0 | 1 | 2 => {}
        3 => c.muts = vec![(rng.usize(0, 3), 1 << rng.below(8))],                         // magic
        4 => c.muts = vec![(rng.usize(4, 11), 1 << rng.below(8))],                        // count bytes
        5 => c.count = Some(match rng.below(6) { 0 => 0, 1 => n as u64 + 1, 2 => (n as u64).saturating_sub(1), 3 => 1 << 60, 4 => u64::MAX, _ => n as u64 + 2 }),
        6 => c.length = Some(match rng.below(8) { 0 => 0, 1 => 11, 2 => 12, 3 => tlen as u64 + 1, 4 => (tlen as u64).saturating_sub(1), 5 => tlen as u64 + 16, 6 => (tlen as u64).saturating_sub(16), _ => u64::MAX }),
        7 => { let k = n as u64 + rng.range(1, 3); c.count = Some(k); c.length = Some(12 + 16 * k); }  // consistent but beyond the data
        8 => { if n > 0 { let k = n as u64 - 1; c.count = Some(k); c.length = Some(12 + 16 * k); } }      // consistent prefix
        9 => c.cut = Some(rng.usize(0, tlen)),
        10 => { if n >= 2 { let a = rng.usize(0, n - 1); let b = rng.usize(0, n - 1); c.swap = Some((a, b)); } }
        11 => { if n > 0 { c.muts = vec![(rng.usize(12, tlen - 1), 1 << rng.below(8))]; } }  // entry bytes
        12 => c.off_delta = *rng.pick(&[-1i64, 1, 4, 12, 16, 1000]),
        13 => { c.count = Some(1u64 << 59); c.length = Some(12u64.wrapping_add(16u64 << 59)); }   // pre-allocation edge (capacity overflow)
        14 => { c.count = Some((1u64 << 60) - 1); c.length = Some(12u64.wrapping_add(16u64.wrapping_mul((1u64 << 60) - 1))); }
        _ => { c.muts = (0..rng.usize(2, 4)).map(|_| (rng.usize(0, tlen - 1), 1 << rng.below(8))).collect(); }
    }
    c
}

fn run_ti_case(c: &TiCase, drv: &mut Option<Driver>, sum: &mut Summary) {
    let case = || c.json();
    // 1 real append_track at position `pre` of a stream
    let mut es: Vec<TimeIndexEntry> = c.entries.iter().map(|(t, i)| TimeIndexEntry::new(*t, *i)).collect();
    let pre_bytes: Vec<u8> = (0..c.pre).map(|k| (k as u8).wrapping_mul(37) ^ 0x4D).collect();
    let mut cur = Cursor::new(pre_bytes.clone());
    cur.seek(SeekFrom::End(0)).unwrap();
    let (off, len, cks) = match append_track(&mut cur, &mut es) {
        Ok(x) => x,
        Err(e) => { sum.oracle_violation("append-track-fails", &e.to_string(), case()); return; }
    };
    let sorted: Vec<E> = es.iter().map(|e| (e.timestamp, e.frame_id)).collect();
    let stream0 = cur.into_inner();
    let track = stream0[c.pre..].to_vec();
    let mut want = c.entries.clone();
    want.sort();
    // oracle on the writer: sorted permutation, canonical bytes, length, checksum
    if sorted != want { sum.oracle_violation("append-track-not-sorted-permutation", &show_entries(&sorted), case()); }
    if off != c.pre as u64 || len != track.len() as u64 || track != track_bytes(&want) {
        sum.oracle_violation("append-track-bytes-not-canonical", &format!("off={off} len={len}"), case());
    }
    let real_entries: Vec<TimeIndexEntry> = c.entries.iter().map(|(t, i)| TimeIndexEntry::new(*t, *i)).collect();
    if cks != *blake3::hash(&track).as_bytes() || calculate_checksum(&real_entries) != cks {
        sum.oracle_violation("time-index-checksum-not-hash-of-bytes", "", case());
    }
    if let Some(d) = drv {
        let m = d.ask(&format!("tiappend {}", show_entries(&c.entries)));
        let i = format!("{} {} {}", show_entries(&sorted), hexw(&track), hexw(&cks));
        if m != i { sum.disagreement("append_track vs model", case(), &m, &i); }
    }
    // 2 clean read back
    let clean = real_tiread(&stream0, off, len);
    if clean != format!("ok {}", show_entries(&want)) {
        sum.oracle_violation("time-index-roundtrip-differs", &clean, case());
    }
    // 3 mutated image
    let mut t = track.clone();
    if let Some((a, b)) = c.swap {
        let (a, b) = (12 + 16 * a, 12 + 16 * b);
        for k in 0..16 { t.swap(a + k, b + k); }
    }
    if let Some(cn) = c.count { t[4..12].copy_from_slice(&cn.to_le_bytes()); }
    for (o, x) in &c.muts { if *o < t.len() { t[*o] ^= *x; } }
    if let Some(cut) = c.cut { t.truncate(cut); }
    let mut stream = pre_bytes.clone();
    stream.extend_from_slice(&t);
    if c.cut.is_none() { stream.extend((0..c.post).map(|k| (k as u8).wrapping_mul(11) ^ 0x54)); }
    let offset = (off as i64 + c.off_delta).max(0) as u64;
    let length = c.length.unwrap_or(len);
    let imp = real_tiread(&stream, offset, length);
    let reference = ti_reference(&stream, offset, length);
    let mutated = stream[..] != stream0[..] || offset != off || length != len || c.post > 0;
    let mut model_pre = String::new();
    if let Some(d) = drv {
        let m = d.ask(&format!("tiread {} {} {}", hexw(&stream), offset, length));
        let (mr, mp) = m.rsplit_once(" pre=").unwrap_or((&m, ""));
        model_pre = mp.to_string();
        let predicted = if mp.ends_with(":panic") { "PANIC".to_string() } else { mr.to_string() };
        let got = if imp.starts_with("PANIC") { "PANIC".to_string() } else { imp.clone() };
        if predicted != got { sum.disagreement("read_track vs model", case(), &m, &imp); }
    }
    let tag = imp.split(' ').take(2).collect::<Vec<_>>().join("-");
    sum.branch(&format!("tiread-{}", if imp.starts_with("ok") { "ok" } else if imp.starts_with("PANIC") { "PANIC" } else { &tag }));
    if imp.starts_with("PANIC") {
        let what = format!("read_track panicked instead of returning an error: {imp}");
        let known: Vec<&str> = sum_known(sum);
        if known.contains(&"read-track-preallocates-declared-count") && model_pre.ends_with(":panic") {
            sum.known_finding("read-track-preallocates-declared-count", &what, case());
        } else {
            sum.oracle_violation("read-track-preallocates-declared-count", &what, case());
        }
    } else {
        // the implementation must say exactly what an independent reading of the stream says
        if imp != reference {
            sum.oracle_violation("read-track-differs-from-reference-reading", &format!("impl={imp} reference={reference}"), case());
        }
        if let Some(rest) = imp.strip_prefix("ok ") {
            // exactness: a returned list is sorted and its canonical bytes are the `length` bytes at `offset`
            let got: Vec<E> = if rest == "-" { vec![] } else { rest.split(',').map(|p| { let (a, b) = p.split_once(':').unwrap(); (a.parse().unwrap(), b.parse().unwrap()) }).collect() };
            let o = offset as usize;
            let exact = is_sorted(&got) && (length as usize) == 12 + 16 * got.len() && o + length as usize <= stream.len()
                && stream[o..o + length as usize] == track_bytes(&got)[..];
            if !exact { sum.oracle_violation("read-track-not-exact", &format!("returned {imp}"), case()); }
            // magic / count / length mutations never yield a value
            let field_mut = c.count.map(|k| k != c.entries.len() as u64).unwrap_or(false) && c.length.is_none()
                || c.length.map(|l| l != len).unwrap_or(false) && c.count.is_none()
                || c.muts.iter().any(|(o, _)| *o < 12) && c.muts.len() == 1;
            if field_mut && c.cut.is_none() && c.off_delta == 0 {
                sum.oracle_violation("time-index-field-mutation-accepted", &format!("magic/count/length mutated alone, read_track = {imp}"), case());
            }
            if mutated && got != want { sum.branch("tiread-ok-different-value-exact"); }
        }
    }
    let canon = format!("T|{}|{}|{}|{}", b3short(&stream), offset, length, imp);
    sum.case(&canon, !c.entries.is_empty(), || json!({"kind": "timeidx", "n": c.entries.len(), "mutated": mutated, "read": &imp[..imp.len().min(60)]}));
}

/// large tracks (around and above read_track's pre-allocation cap): oracle only — 1 MB of hex per request is not worth
/// the driver's time and `C30_timeidx_roundtrip` is proved for every length.  read(append(es)) == sorted(es).
fn run_ti_large(n: usize, seed: u64, sum: &mut Summary) {
    let case = || json!({"kind": "timeidx_large", "n": n, "seed": seed});
    let mut rng = Rng::new(seed);
    let entries: Vec<E> = (0..n).map(|k| (rng.i64(-1000, 1000) + (k as i64 % 7), if k % 5 == 0 { rng.below(3) } else { rng.u64() })).collect();
    let mut es: Vec<TimeIndexEntry> = entries.iter().map(|(t, i)| TimeIndexEntry::new(*t, *i)).collect();
    let mut cur = Cursor::new(vec![0x4Du8; 5]);
    cur.seek(SeekFrom::End(0)).unwrap();
    let (off, len, cks) = match append_track(&mut cur, &mut es) {
        Ok(x) => x,
        Err(e) => { sum.oracle_violation("append-track-fails", &e.to_string(), case()); return; }
    };
    let mut want = entries.clone();
    want.sort();
    let stream = cur.into_inner();
    if off != 5 || len as usize != 12 + 16 * n || stream[5..] != track_bytes(&want)[..] {
        sum.oracle_violation("append-track-bytes-not-canonical", &format!("large track n={n} off={off} len={len}"), case());
    }
    let s2 = stream.clone();
    let got = guarded(move || { let mut c = Cursor::new(s2); read_track(&mut c, off, len).map(|v| v.iter().map(|e| (e.timestamp, e.frame_id)).collect::<Vec<E>>()).map_err(|e| ti_reason(&e)) });
    match got {
        Ok(Ok(v)) if v == want => {
            let back: Vec<TimeIndexEntry> = v.iter().map(|(t, i)| TimeIndexEntry::new(*t, *i)).collect();
            if calculate_checksum(&back) != cks { sum.oracle_violation("time-index-checksum-not-hash-of-bytes", &format!("large track n={n}"), case()); }
            sum.branch("tiread-large-ok");
        }
        Ok(Ok(v)) => sum.oracle_violation("time-index-roundtrip-differs",
            &format!("read_track(append_track(es)) returned Ok with {} entries for {} written (first difference at index {:?})", v.len(), n,
                     v.iter().zip(want.iter()).position(|(a, b)| a != b)), case()),
        Ok(Err(e)) => sum.oracle_violation("time-index-roundtrip-differs", &format!("large track n={n} rejected: err {e}"), case()),
        Err(p) => sum.oracle_violation("read-track-preallocates-declared-count", &format!("large track n={n}: PANIC:{p}"), case()),
    }
    sum.case(&format!("TL|{n}|{seed}"), true, || json!({"kind": "timeidx_large", "n": n}));
}

fn sum_known(_s: &Summary) -> Vec<&'static str> {
    KNOWN.with(|k| k.borrow().clone())
}
thread_local! { static KNOWN: std::cell::RefCell<Vec<&'static str>> = const { std::cell::RefCell::new(vec![]) }; }

// ------------------------------------------------------------------------------------ main

fn replay_case(v: &Value, drv: &mut Option<Driver>, sum: &mut Summary) {
    match v["kind"].as_str().unwrap_or("") {
        "header" => {
            let h = H::of_json(&v["header"]);
            let muts: Vec<(usize, u8)> = v["muts"].as_array().map(|a| a.iter().map(|p| (p[0].as_u64().unwrap() as usize, p[1].as_u64().unwrap() as u8)).collect()).unwrap_or_default();
            println!("impl encode: {:?}", real_henc(&h).map(|b| hexw(&b[..96])));
            run_header_case(&h, &muts, drv, sum);
        }
        "header_raw_full" => {
            let b = unhexw(v["bytes"].as_str().unwrap()).unwrap();
            println!("impl decode: {}", show_hdec(&real_hdec(&b)));
            if let Some(d) = drv { println!("model decode: {}", d.ask(&format!("hdec {}", hexw(&b)))); }
            run_header_raw(&b, drv, sum);
        }
        "footer" => {
            let mut hash = [0u8; 32];
            hash.copy_from_slice(&unhexw(v["hash"].as_str().unwrap()).unwrap());
            let muts: Vec<(usize, u8)> = v["muts"].as_array().map(|a| a.iter().map(|p| (p[0].as_u64().unwrap() as usize, p[1].as_u64().unwrap() as u8)).collect()).unwrap_or_default();
            run_footer_case(v["toc_len"].as_str().unwrap().parse().unwrap(), v["generation"].as_str().unwrap().parse().unwrap(), hash, &muts,
                v["cut"].as_u64().map(|c| c as usize), v["extra"].as_u64().unwrap_or(0) as usize, drv, sum);
        }
        "timeidx" => {
            let c = TiCase::of_json(v);
            run_ti_case(&c, drv, sum);
        }
        "timeidx_large" => run_ti_large(v["n"].as_u64().unwrap() as usize, v["seed"].as_u64().unwrap_or(1), sum),
        k if k.starts_with("toc") => toc_part::replay(v, drv, sum),
        other => { eprintln!("unknown replay kind {other}"); std::process::exit(EXIT_ERROR); }
    }
}

fn main() {
    let args = parse_args();
    let mut drv: Option<Driver> = if args.driver.as_os_str() == "none" { None } else { Some(Driver::spawn(&args.driver).expect("spawn driver")) };
    if let Some(k) = args.extra.get("known") {
        let v: Vec<&'static str> = k.split(',').filter(|s| !s.is_empty() && *s != "-").map(|s| &*Box::leak(s.to_string().into_boxed_str())).collect();
        KNOWN.with(|kk| *kk.borrow_mut() = v);
    }
    let mut sum = Summary::new("C30", &args,
        "headers: random valid/invalid field values x byte mutations of the 4096-byte image (magic, version, spec bytes, every field, padding) + raw images; \
         footers: random values x bit flips / truncation / appended bytes; time index: random entry lists (duplicates, equal timestamps, i64/u64 extremes) \
         written at a random stream position, then mutated (magic, count, length argument, consistent count+length beyond the data, truncation at random offsets, \
         swapped entries, entry bit flips, offset shifts); TOC: random Toc values (0-6 frames, all optional manifests toggled, maps/lists 0-3 entries) round-tripped, \
         then single-field mutations of the encoding (every length prefix, option tag, enum tag, bool, truncation at every offset of small images, appended bytes, checksum bytes); \
         non-trivial = the clean value encoded successfully; distinct = blake3(image)+result");
    sum.max_samples = 8;
    sum.expect_branches(&["henc-ok", "henc-err-magic", "henc-err-version", "henc-err-wal_offset", "henc-err-wal_size",
        "hdec-err-magic", "hdec-err-version", "hdec-err-spec", "hdec-err-wal_offset", "hdec-err-wal_size",
        "hdec-ok-after-field-mutation", "hdec-ok-after-padding-mutation",
        "fdec-none-length", "fdec-none-magic", "fdec-some-clean", "fdec-some-mutated",
        "tiread-ok", "tiread-err-magic", "tiread-err-short_length", "tiread-err-count_overflow", "tiread-err-length_mismatch",
        "tiread-err-unsorted", "tiread-err-io", "tiread-large-ok"]);
    toc_part::expect(&mut sum);
    if args.mode == "replay" {
        let case = load_replay(args.replay_file.as_ref().expect("replay file"));
        let input = case.get("input").unwrap_or(&case).clone();
        replay_case(&input, &mut drv, &mut sum);
        if let Some(d) = &drv { sum.model_requests = d.requests; }
        for v in &sum.oracle_violations { println!("oracle: {v}"); }
        for v in &sum.disagreements { println!("disagree: {v}"); }
        sum.finish(&args);
    }
    let mut rng = Rng::new(args.seed);
    let th = args.thorough;

    // ---- fixed corpus
    let base = H { magic: *b"MV2\0", version: 0x0201, fo: 1_048_576, wo: 4096, ws: 4 * 1024 * 1024, cp: 0, sq: 42, ck: [0xAB; 32] };
    run_header_case(&base, &[], &mut drv, &mut sum);
    for o in 0..96usize { run_header_case(&base, &[(o, 0x01)], &mut drv, &mut sum); run_header_case(&base, &[(o, 0x80)], &mut drv, &mut sum); }
    for h in [H { wo: 4095, ..base.clone() }, H { ws: 0, ..base.clone() }, H { magic: *b"BAD!", ..base.clone() }, H { version: 0x0102, ..base.clone() },
              H { wo: u64::MAX, ws: u64::MAX, fo: u64::MAX, cp: u64::MAX, sq: u64::MAX, ..base.clone() }] {
        run_header_case(&h, &[], &mut drv, &mut sum);
    }
    {
        let img = real_henc(&base).unwrap();
        let mut z = vec![0u8; HEADER_SIZE]; run_header_raw(&z, &mut drv, &mut sum);
        z[..4].copy_from_slice(b"MV2\0"); run_header_raw(&z, &mut drv, &mut sum);
        let mut a = img.clone(); a[16..24].copy_from_slice(&4095u64.to_le_bytes()); run_header_raw(&a, &mut drv, &mut sum);
        let mut a = img.clone(); a[24..32].copy_from_slice(&0u64.to_le_bytes()); run_header_raw(&a, &mut drv, &mut sum);
        let mut a = img.clone(); a[16..24].copy_from_slice(&0u64.to_le_bytes()); a[24..32].copy_from_slice(&0u64.to_le_bytes()); run_header_raw(&a, &mut drv, &mut sum);
        let mut a = img.clone(); a[6] = 1; a[7] = 2; run_header_raw(&a, &mut drv, &mut sum);
        let mut a = img.clone(); a[80..140].fill(0xAA); run_header_raw(&a, &mut drv, &mut sum);
    }
    run_footer_case(3, 9, *blake3::hash(b"toc").as_bytes(), &[], None, 0, &mut drv, &mut sum);
    for o in 0..56usize { run_footer_case(3, 9, [0x5A; 32], &[(o, 0x10)], None, 0, &mut drv, &mut sum); }
    for cut in 0..56usize { run_footer_case(u64::MAX, u64::MAX, [0xFF; 32], &[], Some(cut), 0, &mut drv, &mut sum); }
    run_footer_case(0, 0, [0; 32], &[], None, 1, &mut drv, &mut sum);
    let ti0 = TiCase { entries: vec![(30, 2), (10, 0), (20, 1)], pre: 0, post: 0, muts: vec![], count: None, length: None, off_delta: 0, cut: None, swap: None };
    run_ti_case(&ti0, &mut drv, &mut sum);
    run_ti_case(&TiCase { entries: vec![], ..ti0.clone() }, &mut drv, &mut sum);
    run_ti_case(&TiCase { entries: vec![(5, 2), (-1, 7), (5, 1), (5, 1)], pre: 3, post: 5, ..ti0.clone() }, &mut drv, &mut sum);
    for cut in 0..=60usize { run_ti_case(&TiCase { cut: Some(cut), ..ti0.clone() }, &mut drv, &mut sum); }
    for o in 0..60usize { run_ti_case(&TiCase { muts: vec![(o, 0x01)], ..ti0.clone() }, &mut drv, &mut sum); run_ti_case(&TiCase { muts: vec![(o, 0x80)], post: 7, ..ti0.clone() }, &mut drv, &mut sum); }
    run_ti_case(&TiCase { swap: Some((0, 2)), ..ti0.clone() }, &mut drv, &mut sum);
    run_ti_case(&TiCase { count: Some(1 << 60), ..ti0.clone() }, &mut drv, &mut sum);
    run_ti_case(&TiCase { count: Some(4), length: Some(12 + 64), ..ti0.clone() }, &mut drv, &mut sum);
    // the pre-allocation witness: a 12-byte image declaring 2^59 entries with the matching length
    run_ti_case(&TiCase { entries: vec![], count: Some(1 << 59), length: Some(12 + (1u64 << 63)), ..ti0.clone() }, &mut drv, &mut sum);
    // around and above the pre-allocation cap of read_track (65 536 entries)
    for (n, sd) in [(65_535usize, 11u64), (65_536, 12), (65_537, 13), (70_001, 14)] { run_ti_large(n, sd, &mut sum); }
    toc_part::corpus(&mut drv, &mut sum);

    // ---- generated
    let (nh, nf, nt) = if th { (6000, 6000, 12000) } else { (700, 700, 1500) };
    for _ in 0..nh {
        let h = gen_header(&mut rng);
        let m = gen_header_muts(&mut rng);
        run_header_case(&h, &m, &mut drv, &mut sum);
    }
    for _ in 0..nh / 10 {
        let mut b = if rng.bool() { vec![0u8; HEADER_SIZE] } else { real_henc(&base).unwrap() };
        for _ in 0..rng.usize(1, 4) { let o = rng.usize(0, 31); b[o] = rng.u64() as u8; }
        if rng.bool() { b[..4].copy_from_slice(b"MV2\0"); b[4] = 1; b[5] = 2; b[6] = 2; b[7] = 1; }
        run_header_raw(&b, &mut drv, &mut sum);
    }
    for _ in 0..nf {
        let mut hash = [0u8; 32]; hash.copy_from_slice(&rng.bytes(32));
        let muts: Vec<(usize, u8)> = match rng.below(5) { 0 => vec![], 1 => vec![(rng.usize(0, 7), 1 << rng.below(8))], _ => vec![(rng.usize(0, 55), 1 << rng.below(8))] };
        let cut = if rng.chance(1, 6) { Some(rng.usize(0, 55)) } else { None };
        let extra = if rng.chance(1, 6) { rng.usize(1, 9) } else { 0 };
        run_footer_case(u64_edge(&mut rng), u64_edge(&mut rng), hash, &muts, cut, extra, &mut drv, &mut sum);
    }
    for _ in 0..nt {
        let c = gen_ti_case(&mut rng, th);
        run_ti_case(&c, &mut drv, &mut sum);
    }
    toc_part::generated(&mut rng, th, &mut drv, &mut sum);
    if let Some(d) = &drv { sum.model_requests = d.requests; }
    sum.finish(&args);
}
