/-
  C09 — Lexical search finds every matching document (recall).
  Property theorems only.  Models: MvModel/Recall.lean (sketch pre-filter decision, composition),
  MvModel/Filter.lean (C11), MvModel/Page.lean (C16), MvModel/Sketch.lean (C39), MvModel/Query.lean (C32);
  helper lemmas: MvProps/C09Lemmas.lean.

  The property as worded ("k ≤ top_k matching frames are all hit, with the default options and with
  the pre-filter disabled") is FALSE for the code as it is, for three independent reasons, each
  reproduced on the real code on every run and recorded in /verif/known_findings.jsonl:
    1. the sketch pre-filter rejects an entry whose SimHash is more than 32 bits from the query's,
       also when the entry's term filter says the query word may be there (`C09_counterexample`,
       `C09_witness_real`): design-level finding `sketch-hamming-cut-drops-matching-frames`;
    2. `top_k` counts snippets, not frames (`C09_snippet_budget_counterexample`): finding
       `top-k-counts-snippets-not-frames` (same root as C16's finding);
    3. a frame the post-filter culls is never returned (`C09_culled_never_found`); the case met in
       practice is a chunked parent document one of whose chunk frames was deleted: finding
       `chunked-document-with-deleted-chunk-is-culled`.
  What is TRUE and proved: recall with the pre-filter off (`C09_recall_nosketch`, `_k`, `_no_track`,
  under the engine assumptions E1–E3), recall of every frame whose sketch entry passes the two tests
  (`C09_recall_sketch_partial`: the pre-filter decision is the only thing in the default path that can
  lose a frame the `no_sketch` path finds), which frames the pre-filter hides
  (`C09_dropped_never_found`), recall for every threshold that makes the Hamming cut void
  (`C09_nocut`: the evaluated, not proposed, repair `hamming_threshold: 64`), and that a write+read of
  the sketch track does not change the decision (`C09_reopen_same_verdict`).
-/
import MvProps.C09Lemmas
import MvModel.Query
namespace Mv.Recall
open Mv.Sketch Mv.Gen.C09

/-! ## the search as the theorems see it -/

/-- with no date range, no time travel and a text query, `Memvid::search` is `try_tantivy_search` on the
    filter the sketch stage leaves -/
theorem hitFramesAt_eq (thr : Nat) (W : World) (order : List Entry → List Entry) (q : QSketch) (t : Track)
    (topK : Nat) (noSketch : Bool) :
    hitFramesAt thr W order q t { topK := topK, noSketch := noSketch } =
      match Filter.sketchStage .repaired none (sketchIn order q t true noSketch thr topK) with
      | none => []
      | some flt => searchWith W topK flt := by
  unfold hitFramesAt Filter.search Filter.candidateFilter Filter.combine Filter.replayIn searchWith
  simp only [Filter.dateStage, Filter.temporalStage, Filter.replayStage, Option.isSome, Bool.or_self,
    Bool.false_eq_true, ↓reduceIte, Option.bind]
  cases Filter.sketchStage .repaired none (sketchIn order q t true noSketch thr topK) with
  | none => rfl
  | some flt => rfl

theorem docLimit_none_ge (topK : Nat) : max topK 1 ≤ Filter.docLimit topK 0 none := by
  have h4 : Mv.Gen.C11.DOC_LIMIT_MULT = 4 := by decide
  simp only [Filter.docLimit, h4]
  omega

theorem rank_le_budget (W : World) (rank : List Nat) (topK : Nat) (hP : PostOK W rank) (hB : Budget W rank topK) :
    rank.length ≤ max topK 1 := by
  have := length_le_totalSlices W.docs rank (fun f hf => by
    obtain ⟨d, hd, _, s, hs, _⟩ := hP.keep f hf
    exact ⟨d, hd, List.length_pos_of_mem hs⟩)
  unfold Budget at hB
  omega

/-! ## 1. pre-filter off: recall holds (E1–E3) -/

/-- **C09_recall_nosketch** — engine assumptions E1–E3 (`EngineOK`), the post-filter keeps the engine's
    matches and the re-sort permutes (`PostOK`), all their snippets fit `top_k` (`Budget`; with one snippet
    per document this is `k ≤ top_k`, see `C09_recall_nosketch_k`), request with `no_sketch`: every active
    frame whose text holds the query word is hit.  Whatever the sketch track, the threshold and the
    score order are. -/
theorem C09_recall_nosketch (thr : Nat) (W : World) (order : List Entry → List Entry) (q : QSketch) (t : Track)
    (rank matching : List Nat) (topK : Nat)
    (hE : EngineOK W.engine rank matching) (hP : PostOK W rank) (hB : Budget W rank topK) :
    ∀ f ∈ matching, f ∈ hitFramesAt thr W order q t { topK := topK, noSketch := true } := by
  intro f hf
  rw [hitFramesAt_eq]
  have hs : sketchIn order q t true true thr topK = none := by simp [sketchIn]
  rw [hs]
  show f ∈ searchWith W topK none
  apply core W rank matching topK none hE hP hB _ f hf rfl
  have h1 : (rank.filter (Filter.passes none)).length ≤ rank.length := (List.filter_sublist).length_le
  have h2 := rank_le_budget W rank topK hP hB
  have h3 := docLimit_none_ge topK
  omega

/-- the same for a memory without sketches (the stage is skipped whatever `no_sketch` says) -/
theorem C09_recall_no_track (thr : Nat) (W : World) (order : List Entry → List Entry) (q : QSketch) (v : Variant)
    (rank matching : List Nat) (topK : Nat) (noSketch : Bool)
    (hE : EngineOK W.engine rank matching) (hP : PostOK W rank) (hB : Budget W rank topK) :
    ∀ f ∈ matching, f ∈ hitFramesAt thr W order q ⟨v, []⟩ { topK := topK, noSketch := noSketch } := by
  intro f hf
  rw [hitFramesAt_eq]
  have hs : sketchIn order q ⟨v, []⟩ true noSketch thr topK = none := by simp [sketchIn]
  rw [hs]
  show f ∈ searchWith W topK none
  apply core W rank matching topK none hE hP hB _ f hf rfl
  have h1 : (rank.filter (Filter.passes none)).length ≤ rank.length := (List.filter_sublist).length_le
  have h2 := rank_le_budget W rank topK hP hB
  have h3 := docLimit_none_ge topK
  omega

/-- the literal hypothesis `k ≤ top_k`, for documents with one snippet each -/
theorem C09_recall_nosketch_k (thr : Nat) (W : World) (order : List Entry → List Entry) (q : QSketch) (t : Track)
    (rank matching : List Nat) (topK : Nat)
    (hE : EngineOK W.engine rank matching) (hP : PostOK W rank)
    (h1 : ∀ f ∈ rank, ∀ d, W.docs f = some d → d.slices.length = 1) (hk : rank.length ≤ topK) :
    ∀ f ∈ matching, f ∈ hitFramesAt thr W order q t { topK := topK, noSketch := true } :=
  C09_recall_nosketch thr W order q t rank matching topK hE hP (budget_of_single W rank topK h1 hk)

/-- "a frame whose text contains the word passes `evaluate`": `TextTerm::matches` is a substring test on
    the lower-cased text, so any occurrence of the lower-cased word satisfies the parsed one-word query -/
theorem containsSub_infix (pre n post : Query.Str) : Query.containsSub (pre ++ n ++ post) n = true := by
  induction pre with
  | nil =>
    cases hn : n ++ post with
    | nil =>
      have h1 : n = [] := (List.append_eq_nil_iff.mp hn).1
      have h2 : post = [] := (List.append_eq_nil_iff.mp hn).2
      subst h1; subst h2
      simp [Query.containsSub]
    | cons c cs =>
      simp only [List.nil_append, hn, Query.containsSub]
      rw [← hn]
      simp
  | cons c pre ih =>
    simp only [List.cons_append, Query.containsSub]
    simp only [List.append_assoc] at ih
    simp [ih]

theorem C09_whole_word_passes_evaluate (T : Query.Tables) (cfg : Query.Cfg) (d : Query.Doc) (w pre post : Query.Str)
    (hc : d.content = pre ++ Query.lower w ++ post) :
    Query.Expr.eval T cfg d (.term (.word w)) = true := by
  simp only [Query.Expr.eval, Query.Term.eval, hc]
  exact containsSub_infix pre (Query.lower w) post

/-! ## 2. pre-filter on: a frame is found iff its sketch entry passes (or nothing passes at all) -/

theorem mem_findCandidates (order : List Entry → List Entry) (q : QSketch) (t : Track) (thr maxC : Nat)
    (hperm : ∀ l, (order l).Perm l) (hfew : (t.entries.filter (passes q thr)).length ≤ maxC)
    (e : Entry) (he : e ∈ t.entries) (hp : passes q thr e = true) :
    e.frameId ∈ findCandidates order q t thr maxC := by
  unfold findCandidates
  have hlen : (order (t.entries.filter (passes q thr))).length ≤ maxC := by
    rw [(hperm _).length_eq]; exact hfew
  rw [List.take_of_length_le hlen]
  exact List.mem_map.mpr ⟨e, (hperm _).mem_iff.mpr (List.mem_filter.mpr ⟨he, hp⟩), rfl⟩

/-- **C09_recall_sketch_partial** — default options (pre-filter ON, any threshold `thr`).  Under E1–E3,
    `PostOK`, `Budget`, a score order that permutes, and no truncation at `max_candidates`: a matching
    frame that has a sketch entry passing the two tests of `score_entry` (term-filter overlap and
    Hamming distance) is hit — whatever happens to the other frames.  So the pre-filter DECISION is the
    only way the default search can lose a matching frame. -/
theorem C09_recall_sketch_partial (thr : Nat) (W : World) (order : List Entry → List Entry) (q : QSketch) (t : Track)
    (rank matching : List Nat) (topK : Nat)
    (hE : EngineOK W.engine rank matching) (hP : PostOK W rank) (hB : Budget W rank topK)
    (hperm : ∀ l, (order l).Perm l)
    (hfew : (t.entries.filter (passes q thr)).length ≤ maxCandidates topK)
    (f : Nat) (hf : f ∈ matching)
    (hpass : ∃ e ∈ t.entries, e.frameId = f ∧ passes q thr e = true) :
    f ∈ hitFramesAt thr W order q t { topK := topK, noSketch := false } := by
  obtain ⟨e, he, hef, hp⟩ := hpass
  rw [hitFramesAt_eq]
  have hne : t.entries.isEmpty = false := by
    cases hh : t.entries with
    | nil => rw [hh] at he; cases he
    | cons _ _ => rfl
  have hs : sketchIn order q t true false thr topK = some (findCandidates order q t thr (maxCandidates topK)) := by
    simp [sketchIn, hne]
  rw [hs]
  have hfc : f ∈ findCandidates order q t thr (maxCandidates topK) :=
    hef ▸ mem_findCandidates order q t thr _ hperm hfew e he hp
  have hce : (findCandidates order q t thr (maxCandidates topK)).isEmpty = false := Filter.isEmpty_false_of_mem hfc
  simp only [Filter.sketchStage, hce, Bool.false_eq_true, ↓reduceIte]
  obtain ⟨F, hF⟩ : ∃ F, F = Filter.toSet (findCandidates order q t thr (maxCandidates topK)) := ⟨_, rfl⟩
  rw [← hF]
  have hfF : f ∈ F := by rw [hF]; exact (Filter.mem_toSet _ _).mpr hfc
  apply core W rank matching topK (some F) hE hP hB _ f hf (by simpa [Filter.passes] using hfF)
  -- the engine's document limit does not bind
  have hnd : (rank.filter (Filter.passes (some F))).Nodup := List.Nodup.sublist List.filter_sublist hE.nodup
  have h1 : (rank.filter (Filter.passes (some F))).length ≤ F.length :=
    nodup_subset_length F _ hnd (fun x hx => by simpa [Filter.passes] using (List.mem_filter.mp hx).2)
  have h2 : (rank.filter (Filter.passes (some F))).length ≤ rank.length := (List.filter_sublist).length_le
  have h3 := rank_le_budget W rank topK hP hB
  have h4 : Mv.Gen.C11.DOC_LIMIT_MULT = 4 := by decide
  simp only [Filter.docLimit, h4]
  omega

/-- `Post` built from a `World` only selects and reorders, provided `docs` labels documents with their frame -/
theorem post_selects (W : World) (topK : Nat) (hd : ∀ f d, W.docs f = some d → d.frame = f)
    (hperm : ∀ l, (W.reorder l).Perm l) : Filter.Selects (post W topK) := by
  constructor
  · intro l a ha
    simp only [post, List.mem_map] at ha
    obtain ⟨h, hh, rfl⟩ := ha
    -- a hit of the page comes from a document of the evaluated list
    have hsub : ∀ (ev : List Page.Doc) (k : Nat), ∀ x ∈ (Page.page ev 0 k).hits, ∃ d ∈ ev, x.frame = d.frame := by
      intro ev k x hx
      rw [Page.page_closed ev 0 k (Nat.zero_le _)] at hx
      simp only [List.drop_zero] at hx
      have hf := (Page.takeHits_facts (max k 1) (Page.flat ev)).2.2.1
      have hx' : x ∈ (Page.flat ev).filterMap (fun y => Page.clip y.1 y.2) := by
        rw [hf]; exact List.mem_append_left _ hx
      obtain ⟨y, hy', hc⟩ := List.mem_filterMap.mp hx'
      unfold Page.flat at hy'
      obtain ⟨d, hd', hm⟩ := List.mem_flatMap.mp hy'
      obtain ⟨s, _, rfl⟩ := List.mem_map.mp hm
      exact ⟨d, hd', clip_frame d s x hc⟩
    obtain ⟨d, hdin, hfr⟩ := hsub _ topK h hh
    obtain ⟨f, hfl, hdf⟩ := List.mem_filterMap.mp hdin
    rw [hfr, hd f d hdf]
    exact hfl
  · intro l a ha
    exact (hperm l).mem_iff.mp ha

theorem engineOK_E1 {E : Filter.Engine} {rank matching : List Nat} (hE : EngineOK E rank matching) : Filter.E1 E := by
  intro F lim hits h a ha
  rw [hE.e12] at h
  cases h
  have := (List.mem_filter.1 (List.mem_of_mem_take ha)).2
  simpa [Filter.passes] using this

/-- **C09_dropped_never_found** — the other direction (needs only E1): when the pre-filter produced a
    non-empty candidate set, a frame outside it is in no hit.  Together with
    `C09_recall_sketch_partial`: with the pre-filter applied, a matching frame is returned exactly when
    its entry passes — which is what the harness checks case by case against the real search. -/
theorem C09_dropped_never_found (thr : Nat) (W : World) (order : List Entry → List Entry) (q : QSketch) (t : Track)
    (rank matching : List Nat) (topK : Nat)
    (hE : EngineOK W.engine rank matching) (hd : ∀ f d, W.docs f = some d → d.frame = f)
    (hperm : ∀ l, (W.reorder l).Perm l) (htrack : t.entries ≠ [])
    (hne : findCandidates order q t thr (maxCandidates topK) ≠ [])
    (f : Nat) (hnot : f ∉ findCandidates order q t thr (maxCandidates topK)) :
    f ∉ hitFramesAt thr W order q t { topK := topK, noSketch := false } := by
  intro hin
  have hw := Filter.search_within_filter .repaired W.engine (post W topK) (engineOK_E1 hE)
    (post_selects W topK hd hperm) W.frames _ f hin
  unfold Filter.candidateFilter at hw
  have h4 := ((Filter.C11_filter_is_intersection _ _ _ _ f).mp hw).2.2.2
  have hnee : t.entries.isEmpty = false := by
    cases hh : t.entries with
    | nil => exact absurd hh htrack
    | cons _ _ => rfl
  simp only [sketchIn, hnee, Bool.not_false, Bool.and_self, ↓reduceIte, Filter.sketchOk] at h4
  rcases h4 with h | h
  · exact hne h
  · exact hnot h

/-- **C09_culled_never_found** — why `PostOK.keep` is needed: a frame the post-filter culls (`docs f = none`:
    stale id, `evaluate` false, no snippet, or — the recorded finding — a chunked parent document whose
    chunk context cannot be resolved after one of its chunk frames was deleted) is in no hit, whatever
    the engine returns, unless the legacy fall-back index lists it. -/
theorem C09_culled_never_found (thr : Nat) (W : World) (order : List Entry → List Entry) (q : QSketch) (t : Track)
    (topK : Nat) (noSketch : Bool) (hd : ∀ f d, W.docs f = some d → d.frame = f)
    (hperm : ∀ l, (W.reorder l).Perm l) (hlex : W.engine.lexMatches = [])
    (f : Nat) (hf : W.docs f = none) :
    f ∉ hitFramesAt thr W order q t { topK := topK, noSketch := noSketch } := by
  intro hin
  have hsel := post_selects W topK hd hperm
  have hkeep : ∀ (flt : Option (List Nat)), f ∈ searchWith W topK flt → (post W topK).keep f = true := by
    intro flt h
    unfold searchWith at h
    have hfb : ∀ x, x ∈ Filter.lexFallback W.engine (post W topK) flt → False := by
      intro x hx
      have := (Filter.mem_lexFallback hsel hx).1
      rw [hlex] at this
      cases this
    cases ht : Filter.tryTantivy W.engine (post W topK) flt topK 0 with
    | none => rw [ht] at h; exact (hfb f h).elim
    | some hits =>
      rw [ht] at h
      simp only at h
      unfold Filter.tryTantivy at ht
      cases he : W.engine.tantivy flt (Filter.docLimit topK 0 flt) with
      | none => rw [he] at ht; cases ht
      | some eh =>
        rw [he] at ht
        simp only at ht
        by_cases h0 : eh.isEmpty = true
        · simp only [h0, if_true] at ht
          by_cases hl : W.engine.hasLex = true
          · simp only [hl, if_true, Option.some.injEq] at ht
            subst ht; exact (hfb f h).elim
          · simp only [hl, Bool.false_eq_true, ↓reduceIte, Option.some.injEq] at ht
            subst ht; cases h
        · simp only [h0, Bool.false_eq_true, ↓reduceIte] at ht
          by_cases h1 : ((post W topK).order (eh.filter (post W topK).keep)).isEmpty = true
          · simp only [h1, if_true, Option.some.injEq] at ht
            subst ht; exact (hfb f h).elim
          · simp only [h1, Bool.false_eq_true, ↓reduceIte, Option.some.injEq] at ht
            subst ht
            have h2 := hsel.2 _ _ (hsel.1 _ _ h)
            exact (List.mem_filter.1 h2).2
  rw [hitFramesAt_eq] at hin
  cases hs : Filter.sketchStage .repaired none (sketchIn order q t true noSketch thr topK) with
  | none => rw [hs] at hin; cases hin
  | some flt =>
    rw [hs] at hin
    have := hkeep flt hin
    simp [post, hf] at this

/-! ## 3. the evaluated repair: a threshold that makes the Hamming cut void -/

theorem popcount_le (n : Nat) : popcount n ≤ SIMHASH_BITS := by
  unfold popcount
  have := List.length_filter_le (fun i => n.testBit i) (List.range SIMHASH_BITS)
  simpa using this

/-- with `hamming_threshold ≥ 64` the second rejection of `score_entry` never fires: the decision is the
    term-filter overlap alone -/
theorem verdict_nocut (q : QSketch) (thr : Nat) (hthr : SIMHASH_BITS ≤ thr) (e : Entry)
    (hov : maybeOverlaps e.termFilter q.termFilter = true) : passes q thr e = true := by
  have hs : HAMMING_CUT_STRICT = true := by decide
  have hc : cut thr (hamming e.simhash q.simhash) = false := by
    have := popcount_le (e.simhash ^^^ q.simhash)
    unfold cut hamming
    rw [hs]
    simp only [if_true]
    exact decide_eq_false (by omega)
  simp [passes, verdict, hov, hc]

/-- a search instance: everything a one-word search depends on -/
structure Inst where
  W : World
  /-- the engine's ranking of the documents that match the query -/
  rank : List Nat
  /-- active frames whose searchable text holds the query word as a whole word -/
  matching : List Nat
  t : Track
  q : QSketch
  order : List Entry → List Entry
  topK : Nat

/-- the hypotheses of the property, at their most favourable: E1–E3; the post-filter keeps the engine's
    matches; ONE snippet per document and no more matches than `top_k` (so `k ≤ top_k` is the literal
    bound); the score order and the re-sort permute; every matching frame has a sketch entry whose term
    filter overlaps the query's (what `generate_sketch` guarantees: `C39_overlap`,
    `C09_generated_sketch_overlaps`); no more entries than `max_candidates` (corpora of ≤ 500 frames) -/
structure Inst.Valid (I : Inst) : Prop where
  engine : EngineOK I.W.engine I.rank I.matching
  post : PostOK I.W I.rank
  single : ∀ f ∈ I.rank, ∀ d, I.W.docs f = some d → d.slices.length = 1
  k_le : I.rank.length ≤ I.topK
  order_perm : ∀ l, (I.order l).Perm l
  faithful : ∀ f ∈ I.matching, ∃ e ∈ I.t.entries, e.frameId = f ∧ maybeOverlaps e.termFilter I.q.termFilter = true
  small : I.t.entries.length ≤ SKETCH_CAND_FLOOR

/-- the property for Hamming threshold `thr`: every matching frame is hit, pre-filter on or off -/
def C09_full_at (thr : Nat) : Prop :=
  ∀ I : Inst, I.Valid → ∀ noSketch : Bool, ∀ f ∈ I.matching,
    f ∈ hitFramesAt thr I.W I.order I.q I.t { topK := I.topK, noSketch := noSketch }

/-- **the property as stated** (the threshold `Memvid::search` passes: 32) -/
def C09_full : Prop := C09_full_at SKETCH_HAMMING

/-- **C09_nocut** — for every threshold ≥ 64 the property holds (the evaluated one-line repair
    `hamming_threshold: 64`: the SimHash test no longer rejects anything, the term filter alone
    decides, and it has no false negatives) -/
theorem C09_nocut (thr : Nat) (hthr : SIMHASH_BITS ≤ thr) : C09_full_at thr := by
  intro I hv noSketch f hf
  have hB := budget_of_single I.W I.rank I.topK hv.single hv.k_le
  cases noSketch with
  | true => exact C09_recall_nosketch thr I.W I.order I.q I.t I.rank I.matching I.topK hv.engine hv.post hB f hf
  | false =>
    obtain ⟨e, he, hef, hov⟩ := hv.faithful f hf
    apply C09_recall_sketch_partial thr I.W I.order I.q I.t I.rank I.matching I.topK hv.engine hv.post hB
      hv.order_perm _ f hf ⟨e, he, hef, verdict_nocut I.q thr hthr e hov⟩
    have h1 : (I.t.entries.filter (passes I.q thr)).length ≤ I.t.entries.length := List.length_filter_le _ _
    have h2 := hv.small
    unfold maxCandidates
    omega

/-- what `Inst.Valid.faithful` rests on: the entry `generate_sketch` makes for a text containing token `w`
    overlaps the filter of any query containing `w` (C39, clause 1) -/
theorem C09_generated_sketch_overlaps (hash : Bytes → Nat) (frameId : Nat) (doc query : List Bytes) (v : Variant)
    (e : Entry) (w : Bytes) (hg : generateSketch hash wtNoIdf frameId doc v = some e)
    (hwd : w ∈ doc) (hwq : w ∈ query) :
    maybeOverlaps e.termFilter (QSketch.ofTokens hash query v).termFilter = true := by
  have hqne : query.isEmpty = false := by cases query <;> simp_all
  have hq : queryFilter hash query v = some (QSketch.ofTokens hash query v).termFilter := by
    simp only [queryFilter, QSketch.ofTokens, hqne, Bool.false_eq_true, ↓reduceIte]
    exact buildFilter_eq _ _ (filterSize_pos v)
  exact C39_overlap hash wtNoIdf frameId doc query v e _ w hg hq hwd hwq

/-! ## 4. the property as stated is false: the Hamming cut -/

/-- two frames; frame 0 holds the query word (its filter contains the query's bits) but its SimHash is
    64 bits from the query's; frame 1 does not hold the word, shares one filter bit, SimHash equal to the
    query's.  The pre-filter keeps {1}; the engine, restricted to {1}, has nothing to return. -/
def wE0 : Entry :=
  { frameId := 0, simhash := 2 ^ 64 - 1, termFilter := [7] ++ zeros 15, topTerms := [0, 0], termWeightSum := 0, flags := 7, lengthHint := 0 }
def wE1 : Entry :=
  { frameId := 1, simhash := 0, termFilter := [1] ++ zeros 15, topTerms := [0, 0], termWeightSum := 0, flags := 7, lengthHint := 0 }

def witnessInst : Inst where
  W := { engine := Filter.idealEngine [0]
         docs := fun f => if f = 0 then some { frame := 0, chunkStart := 0, chunkLen := 100, slices := [(0, 80)] } else none
         reorder := id
         frames := [] }
  rank := [0]
  matching := [0]
  t := ⟨.small, [wE0, wE1]⟩
  q := { simhash := 0, termFilter := [7] ++ zeros 15, topTerms := [5], tokenCount := 1 }
  order := id
  topK := 10

theorem witnessInst_valid : witnessInst.Valid where
  engine := { e12 := fun _ _ => rfl, e3 := by decide, nodup := by decide }
  post := { keep := by decide, perm := fun l => List.Perm.refl l }
  single := by decide
  k_le := by decide
  order_perm := fun l => List.Perm.refl l
  faithful := by decide
  small := by decide

example : witnessInst.t.entries.map (verdict witnessInst.q SKETCH_HAMMING) = [.tooFar, .pass] := by decide

/-- non-vacuity of the hypotheses of `C09_recall_nosketch`, `C09_recall_sketch_partial` (at threshold 64 the
    entry of frame 0 passes), `C09_dropped_never_found` (at threshold 32 the candidate list is `[1]`, frame 0
    is outside) and `C09_nocut`: the witness world satisfies all of them -/
example : EngineOK witnessInst.W.engine [0] [0] ∧ PostOK witnessInst.W [0] ∧ Budget witnessInst.W [0] 10 :=
  ⟨witnessInst_valid.engine, witnessInst_valid.post, by unfold Budget; decide⟩
example : ∃ e ∈ witnessInst.t.entries, e.frameId = 0 ∧ passes witnessInst.q 64 e = true := by decide
example : findCandidates id witnessInst.q witnessInst.t SKETCH_HAMMING (maxCandidates 10) = [1] := by decide

/-- the constants the statements above were read against (the finding describes THIS tree: a changed
    threshold or candidate bound stops the build and the finding has to be re-examined) -/
theorem C09_constants : SKETCH_HAMMING = 32 ∧ SKETCH_CAND_MULT = 10 ∧ SKETCH_CAND_FLOOR = 500 ∧
    HAMMING_CUT_STRICT = true ∧ SIMHASH_BITS = 64 := by decide

/-- **C09_counterexample** — with the default options the frame that holds the word is not returned. -/
theorem C09_counterexample : ¬ C09_full := by
  intro h
  have := h witnessInst witnessInst_valid false 0 (by decide)
  revert this
  decide

/-- **C09_cut_refuted** — not an accident of the number 32: for EVERY threshold below 64 the property is
    false (same instance: the entry of the frame that holds the word is 64 bits away). -/
theorem C09_cut_refuted (thr : Nat) (hthr : thr < SIMHASH_BITS) : ¬ C09_full_at thr := by
  intro hfull
  have h0 := hfull witnessInst witnessInst_valid false 0 (by decide)
  have hs : HAMMING_CUT_STRICT = true := by decide
  have hb : SIMHASH_BITS = 64 := by decide
  have hp0 : passes witnessInst.q thr wE0 = false := by
    have ho : maybeOverlaps wE0.termFilter witnessInst.q.termFilter = true := by decide
    have hh : hamming wE0.simhash witnessInst.q.simhash = 64 := by decide
    have hc : cut thr 64 = true := by
      unfold cut; rw [hs]; simp only [if_true]; exact decide_eq_true (by omega)
    simp [passes, verdict, ho, hh, hc]
  have hp1 : passes witnessInst.q thr wE1 = true := by
    have ho : maybeOverlaps wE1.termFilter witnessInst.q.termFilter = true := by decide
    have hh : hamming wE1.simhash witnessInst.q.simhash = 0 := by decide
    have hc : cut thr 0 = false := by
      unfold cut; rw [hs]; simp only [if_true]; exact decide_eq_false (by omega)
    simp [passes, verdict, ho, hh, hc]
  have hc : findCandidates id witnessInst.q witnessInst.t thr (maxCandidates 10) = [1] := by
    have he : witnessInst.t.entries = [wE0, wE1] := rfl
    have hm : maxCandidates 10 = 500 := by decide
    simp only [findCandidates, he, List.filter_cons, hp0, hp1, List.filter_nil, Bool.false_eq_true, ↓reduceIte, id, hm]
    decide
  have hd : ∀ f d, witnessInst.W.docs f = some d → d.frame = f := by
    intro f d h
    by_cases hf : f = 0
    · subst hf; simp [witnessInst] at h; rw [← h]
    · simp [witnessInst, hf] at h
  exact C09_dropped_never_found thr witnessInst.W id witnessInst.q witnessInst.t [0] [0] 10
    witnessInst_valid.engine hd (fun l => List.Perm.refl l) (by decide) (by rw [hc]; decide) 0 (by rw [hc]; decide) h0

/-- **C09_full_iff** — the property holds for exactly the thresholds that make the Hamming cut void -/
theorem C09_full_iff (thr : Nat) : C09_full_at thr ↔ SIMHASH_BITS ≤ thr := by
  constructor
  · intro h
    by_cases hc : SIMHASH_BITS ≤ thr
    · exact hc
    · exact absurd h (C09_cut_refuted thr (by omega))
  · exact C09_nocut thr

/-- the same instance is fine with `no_sketch` (and with any threshold ≥ 64): the loss is the cut's -/
example : hitFrames witnessInst.W id witnessInst.q witnessInst.t { topK := 10, noSketch := true } = [0] ∧
    hitFrames witnessInst.W id witnessInst.q witnessInst.t { topK := 10, noSketch := false } = [] ∧
    hitFramesAt 64 witnessInst.W id witnessInst.q witnessInst.t { topK := 10, noSketch := false } = [0] := by decide

/-- **C09_witness_real** — the numbers of the recorded witness (two documents of 14 and 11 words put through
    `Memvid::put_bytes` + `commit`; query "zorvex"; values read from the real sketch track and from
    `QuerySketch::from_query`, reproduced by the harness's fixed corpus on every run): frame 0 holds the
    word, its term filter contains the query's three bits, its SimHash is 33 bits away → rejected;
    frame 1 does not hold the word, shares a filter bit, 28 bits away → the only candidate; the search
    returns nothing. -/
def realQuery : QSketch :=
  { simhash := 3893096811404497208, termFilter := [0, 0, 0, 0, 0, 0, 0, 1, 0, 0, 0, 0, 0, 0x10, 0, 1], topTerms := [1375707092], tokenCount := 1 }
def realTrack : Track := ⟨.small,
  [ { frameId := 0, simhash := 1381419553193718811,
      termFilter := [0x29, 0x48, 0x49, 0x17, 0x0b, 0x20, 0x5e, 0x01, 0x8a, 0x26, 0xec, 0xa0, 0x03, 0x53, 0xd8, 0xf9],
      topTerms := [0, 0], termWeightSum := 0, flags := 7, lengthHint := 0 },
    { frameId := 1, simhash := 4253026363721345147,
      termFilter := [0x29, 0x88, 0x60, 0x31, 0xcb, 0x2a, 0x5e, 0xd0, 0x08, 0x26, 0xec, 0xa5, 0x03, 0x43, 0x7d, 0xef],
      topTerms := [0, 0], termWeightSum := 0, flags := 7, lengthHint := 0 } ]⟩

theorem C09_witness_real :
    hamming 1381419553193718811 realQuery.simhash = 33 ∧ hamming 4253026363721345147 realQuery.simhash = 28 ∧
    realTrack.entries.map (verdict realQuery SKETCH_HAMMING) = [.tooFar, .pass] ∧
    findCandidates id realQuery realTrack SKETCH_HAMMING (maxCandidates 10) = [1] ∧
    hitFrames { witnessInst.W with docs := fun f => if f = 0 then some { frame := 0, chunkStart := 0, chunkLen := 251, slices := [(0, 199)] } else none }
      id realQuery realTrack { topK := 10, noSketch := false } = [] ∧
    hitFrames { witnessInst.W with docs := fun f => if f = 0 then some { frame := 0, chunkStart := 0, chunkLen := 251, slices := [(0, 199)] } else none }
      id realQuery realTrack { topK := 10, noSketch := true } = [0] := by
  decide

/-! ## 5. … and `top_k` counts snippets, not frames -/

/-- the property with the literal bound `k ≤ top_k` but documents that may have several snippets, even
    with the pre-filter off -/
def C09_full_nosketch_multi : Prop :=
  ∀ (W : World) (rank matching : List Nat) (topK : Nat) (q : QSketch) (t : Track),
    EngineOK W.engine rank matching → PostOK W rank → rank.length ≤ topK →
    ∀ f ∈ matching, f ∈ hitFrames W id q t { topK := topK, noSketch := true }

/-- **C09_snippet_budget_counterexample** — two matching documents, `top_k = 2`; the first document has
    two snippets (two occurrences further apart than the snippet window), they fill the page and the
    second document gets no hit (it is announced through `next_cursor` only). -/
theorem C09_snippet_budget_counterexample : ¬ C09_full_nosketch_multi := by
  intro h
  let W : World :=
    { engine := Filter.idealEngine [0, 1]
      docs := fun f => if f = 0 then some { frame := 0, chunkStart := 0, chunkLen := 1000, slices := [(0, 200), (600, 800)] }
                       else if f = 1 then some { frame := 1, chunkStart := 0, chunkLen := 300, slices := [(0, 200)] } else none
      reorder := id, frames := [] }
  have := h W [0, 1] [0, 1] 2 ⟨0, [], [], 0⟩ ⟨.small, []⟩
    { e12 := fun _ _ => rfl, e3 := by decide, nodup := by decide }
    { keep := by decide, perm := fun l => List.Perm.refl l } (by decide) 1 (by decide)
  revert this
  decide

/-! ## 6. reopen does not change the decision -/

example : witnessInst.t.entries.map (·.termFilter.length) = [Variant.small.filterSize, Variant.small.filterSize] := by decide

/-- **C09_reopen_same_verdict** — the Small and Medium on-disk entries keep the SimHash and (for a filter of
    the variant's size, which every generated sketch has) the whole term filter: the entry read back after
    `write_sketch_track` + `read_sketch_track` gets the same verdict, whatever id the reader gives it. -/
theorem C09_reopen_same_verdict (q : QSketch) (thr : Nat) (v : Variant) (hv : v ≠ .large) (i : Nat) (e : Entry)
    (hl : e.termFilter.length = v.filterSize) :
    verdict q thr (normEntry v i e) = verdict q thr e := by
  have hf : (normEntry v i e).termFilter = e.termFilter := by
    cases v
    · exact (smallFilter_eq_self_iff _).mpr hl
    · exact (padTake_eq_self_iff _ _ _).mpr hl
    · exact absurd rfl hv
  have hs : (normEntry v i e).simhash = e.simhash := by cases v <;> rfl
  simp only [verdict, hf, hs]

end Mv.Recall
