/-
  C42 — Vacuum compacts without changing content.

  Model: the shared Core model (MvModel/Core.lean) with `Memvid::vacuum` stated as a VARIANT
  (MvModel/Vacuum.lean: `vacuumV v`, `stepV v`, `runV v`; `VacVariant.repaired` = /repo with
  /verif/fixes/C42.diff, `VacVariant.unrepaired` = the function as the Core model mirrors it).
  Reference: MvModel/Spec.lean (`abs`, `specRun`).  Helper development: MvProps/C42Lemmas.lean.

  Every theorem quantifies over ALL reachable handles: either over every `m` with the Core invariant
  `Inv m` (which every reachable state satisfies, `C42V_reachable`), or over all operation lists of any length
  with arbitrary trace inputs (stored lengths, footers, automatic checkpoints, WAL growth).

  What the token-level model can and cannot see.  `canon` (= `frame_canonical_bytes`) reads a frame's
  payload through its `(off, len)` pointer and assumes the bytes there are the ones that were stored.  The
  compaction loop REWRITES payloads and the index rebuild then writes the indexes from `dataEnd` on, so
  "reads are unchanged" has two halves: the pointers still name the same payloads (`C42V_vacuum_reads`), and
  nothing is written over them afterwards (`C42V_vacuum_layout`: active payloads are pairwise disjoint and end
  at or before `dataEnd`, where the index region starts).  The second half is FALSE for the unrepaired code
  (`C42_unrepaired_counterexample`), and that is exactly the corruption the harness replays on the real file.
-/
import MvProps.C42Lemmas
namespace Mv.Core

/-! ## Reachable states -/

/-- every state of every history (with any variant of vacuum) satisfies the Core invariant, has the lexical
    index enabled, and refines the reference run of the acknowledged operations -/
theorem C42V_reachable (v : VacVariant) (ops : List Op) :
    Inv (runV v Mem.create ops) ∧ (runV v Mem.create ops).lexEnabled = true ∧
    abs (runV v Mem.create ops) = specRun [] (traceV v Mem.create ops) :=
  ⟨(runV_refines v Mem.create ops create_inv).1, runV_lexEnabled v Mem.create ops rfl,
   (runV_refines v Mem.create ops create_inv).2⟩

theorem runV_append (v : VacVariant) (m : Mem) (ops : List Op) (op : Op) :
    runV v m (ops ++ [op]) = (stepV v (runV v m ops) op).1 := by
  induction ops generalizing m with
  | nil => rfl
  | cons o os ih => exact ih (stepV v m o).1

/-! ## 1. The frame table: ids, metadata, status, content tokens -/

/-- **C42 (table).**  `vacuum` succeeds, and the committed table it leaves IS the reference table of the
    acknowledged operations (pending records included: it commits first): every frame keeps its id, URI,
    timestamp, kind, track, tags, labels, role, supersedes / superseded_by, chunk fields, manifest, content
    token — and its STATUS, so inactive frames stay inactive and active ones stay active.  The abstract
    state does not move. -/
theorem C42V_vacuum_table (v : VacVariant) (m : Mem) (a b : Nat) (hi : Inv m) :
    (m.vacuumV v a b).2 = Out.ok ∧ (m.vacuumV v a b).1.frames.map view = abs m ∧
    abs (m.vacuumV v a b).1 = abs m ∧ Inv (m.vacuumV v a b).1 :=
  ⟨(vacuumV_sim v m a b hi).2.2, (vacuumV_sim v m a b hi).2.1, vacuumV_abs v m a b hi, (vacuumV_sim v m a b hi).1.inv⟩

theorem rebuildIndexes_frames (m : Mem) (embs : List VecEnt) (ins : List Nat) (ft : Nat) :
    (m.rebuildIndexes embs ins ft).frames = m.frames := by
  unfold Mem.rebuildIndexes
  split
  · rfl
  · show ((Mem.rebuildLex { m with dataEnd := m.payloadEnd, time := some (timeEntries m.frames) } ins ft).rebuildVec embs).frames = _
    rw [(rebuildVec_keeps _ _).1, (rebuildLex_keeps _ _ _).1]

theorem compactFramesV_frames (v : VacVariant) (m : Mem) : (m.compactFramesV v).frames = (compact m.frames 0).1 := by
  unfold Mem.compactFramesV; split <;> rfl

/-- the table after `vacuum` is the compaction of the table its leading commit produced -/
theorem vacuumV_frames (v : VacVariant) (m : Mem) (a b : Nat) (hi : Inv m) :
    (m.vacuumV v a b).1.frames = (compact (m.commit a).1.frames 0).1 := by
  rw [vacuumV_eq v m a b hi]
  have h : (m.vacRebuilt v a b).frames = (compact (m.commit a).1.frames 0).1 := by
    unfold Mem.vacRebuilt; rw [rebuildIndexes_frames, compactFramesV_frames]
  cases v.checkpoints <;> cases v.persistsSketch <;> exact h

/-! ## 2. Reads -/

/-- **C42 (reads).**  Frame by frame: what `frame_canonical_bytes` returns for an ACTIVE frame after the vacuum
    is what it returned on the table the leading commit produced — also for a chunked document (whose bytes
    are the concatenation of its active chunks in `(chunk_index, id)` order, active or not itself); the frame
    keeps its view (id, metadata, status, content token), parent, stored length and encoding. -/
theorem C42V_vacuum_reads (v : VacVariant) (m : Mem) (a b : Nat) (hi : Inv m) (i : Nat) (f : Frame)
    (h : (m.commit a).1.frames[i]? = some f) (hf : f.status = .active ∨ isManifestDoc f = true) :
    ∃ f', (m.vacuumV v a b).1.frames[i]? = some f' ∧ view f' = view f ∧ f'.parent = f.parent ∧
      (f.status = .active → f'.len = f.len) ∧ f'.zstd = f.zstd ∧
      canon (m.vacuumV v a b).1.frames f' = canon (m.commit a).1.frames f := by
  rw [vacuumV_frames v m a b hi]
  obtain ⟨f', h', _⟩ := compact_getElem (m.commit a).1.frames 0 i f h
  obtain ⟨v1, v2, _, v4, v5, _⟩ := compact_view_at _ 0 i f f' h h'
  exact ⟨f', h', v1, v2, v5, v4, compact_canon _ 0 i f f' h h' hf⟩

/-- **C42 (inactive stays inactive).**  A superseded or deleted frame keeps its status and no longer owns
    stored bytes. -/
theorem C42V_inactive_stays_inactive (v : VacVariant) (m : Mem) (a b : Nat) (hi : Inv m) (i : Nat) (f : Frame)
    (h : (m.commit a).1.frames[i]? = some f) (hf : f.status ≠ .active) :
    ∃ f', (m.vacuumV v a b).1.frames[i]? = some f' ∧ f'.status = f.status ∧ f'.supersededBy = f.supersededBy ∧
      f'.len = 0 := by
  rw [vacuumV_frames v m a b hi]
  obtain ⟨f', h', _⟩ := compact_getElem (m.commit a).1.frames 0 i f h
  obtain ⟨v1, _, _, _, _, v6⟩ := compact_view_at _ 0 i f f' h h'
  exact ⟨f', h', view_status v1, congrArg SFrame.supersededBy v1, (v6 hf).1⟩

/-! ## 3. Layout: nothing is written over a compacted payload -/

/-- the stored bytes of the active frames are where the pointers say: every active payload ends at or before
    `dataEnd` (from where `rebuild_indexes` writes the time index, the Tantivy segments, the vector index, …),
    inactive frames own no bytes, and two active payloads never overlap (the later frame starts at or after
    the end of the earlier one) -/
def PayloadsSafe (m : Mem) : Prop :=
  (∀ f ∈ m.frames, f.status = .active → f.off + f.len ≤ m.dataEnd) ∧
  (∀ f ∈ m.frames, f.status ≠ .active → f.len = 0) ∧
  m.frames.Pairwise (fun x y => x.status = .active → y.status = .active → x.off + x.len ≤ y.off)

theorem compactFramesV_ends (v : VacVariant) (m : Mem) (hv : v.setsPayloadEnd = true) :
    (m.compactFramesV v).payloadEnd = (compact m.frames 0).2 ∧ (m.compactFramesV v).lexEnabled = m.lexEnabled ∧
    (m.compactFramesV v).engine = false ∧ (m.compactFramesV v).tantivyDirty = false ∧
    (m.compactFramesV v).vec = m.vec ∧ (m.compactFramesV v).vecEnabled = m.vecEnabled := by
  unfold Mem.compactFramesV; rw [if_pos hv]; exact ⟨rfl, rfl, rfl, rfl, rfl, rfl⟩

theorem compactFramesV_idx (v : VacVariant) (m : Mem) :
    (m.compactFramesV v).lexEnabled = m.lexEnabled ∧
    (m.compactFramesV v).engine = false ∧ (m.compactFramesV v).tantivyDirty = false ∧
    (m.compactFramesV v).vec = m.vec ∧ (m.compactFramesV v).vecEnabled = m.vecEnabled ∧
    (m.compactFramesV v).dirty = m.dirty ∧ (m.compactFramesV v).pendingInserts = m.pendingInserts ∧
    (m.compactFramesV v).sketch = m.sketch := by
  unfold Mem.compactFramesV; split <;> exact ⟨rfl, rfl, rfl, rfl, rfl, rfl, rfl, rfl⟩

/-- **C42 (layout).**  With `cached_payload_end = cursor` in `vacuum` (the repair): after the vacuum the active
    payloads are packed from the data start in id order, pairwise disjoint, and the payload region — hence
    the start of the rebuilt index region — ends exactly behind the last of them: `payloadEnd = dataEnd =`
    the sum of the active stored lengths. -/
theorem C42V_vacuum_layout (v : VacVariant) (hv : v.setsPayloadEnd = true) (m : Mem) (a b : Nat) (hi : Inv m)
    (hl : m.lexEnabled = true) :
    PayloadsSafe (m.vacuumV v a b).1 ∧
    (m.vacuumV v a b).1.dataEnd = activeLen (m.commit a).1.frames ∧
    (m.vacuumV v a b).1.payloadEnd = activeLen (m.commit a).1.frames := by
  have hfr := vacuumV_frames v m a b hi
  have hl' : ((m.commit a).1.compactFramesV v).lexEnabled = true := by
    rw [(compactFramesV_idx v _).1, commit_lexEnabled]; exact hl
  obtain ⟨_, _, r3, r4, _⟩ := rebuildIndexes_nil ((m.commit a).1.compactFramesV v) b hl'
  have hpe : ((m.commit a).1.compactFramesV v).payloadEnd = activeLen (m.commit a).1.frames := by
    rw [(compactFramesV_ends v _ hv).1, compact_snd]; omega
  have hde : (m.vacuumV v a b).1.dataEnd = activeLen (m.commit a).1.frames := by
    rw [vacuumV_eq v m a b hi]
    have : (m.vacRebuilt v a b).dataEnd = activeLen (m.commit a).1.frames := by
      unfold Mem.vacRebuilt; rw [r4, hpe]
    cases v.checkpoints <;> cases v.persistsSketch <;> exact this
  have hpe' : (m.vacuumV v a b).1.payloadEnd = activeLen (m.commit a).1.frames := by
    rw [vacuumV_eq v m a b hi]
    have : (m.vacRebuilt v a b).payloadEnd = activeLen (m.commit a).1.frames := by
      unfold Mem.vacRebuilt; rw [r3, hpe]
    cases v.checkpoints <;> cases v.persistsSketch <;> exact this
  refine ⟨⟨?_, ?_, ?_⟩, hde, hpe'⟩
  · intro f hf ha
    rw [hfr] at hf
    have := (compact_bounds (m.commit a).1.frames 0 f hf ha).2
    rw [compact_snd] at this
    rw [hde]; omega
  · intro f hf ha
    rw [hfr] at hf
    exact (compact_inactive (m.commit a).1.frames 0 f hf ha).2
  · rw [hfr]; exact compact_disjoint _ 0

/-! ## 4. Indexes: time index, vector index, lexical engine -/

/-- **C42 (indexes).**  After the vacuum
    * the time index lists exactly the active documents of the reference table, in `(timestamp, id)` order;
    * the in-memory vector index is the one the leading commit left, restricted to active frames — no
      vector of an active frame is dropped, none is added — and the persisted index is the same list;
    * the lexical engine (rebuilt from scratch) holds every active frame with index text exactly once. -/
theorem C42V_vacuum_indexes (v : VacVariant) (m : Mem) (a b : Nat) (hi : Inv m) (hl : m.lexEnabled = true) :
    (m.vacuumV v a b).1.time = some (specTime (abs m)) ∧
    (m.vacuumV v a b).1.vec = vecAfter (m.commit a).1 ∧
    (m.vacuumV v a b).1.pVec = vecAfter (m.commit a).1 ∧
    (m.vacuumV v a b).1.lexDocs = fullLexRebuild (m.commit a).1.frames := by
  obtain ⟨i1, i2, i3, i4, i5, _⟩ := compactFramesV_idx v (m.commit a).1
  have hl' : ((m.commit a).1.compactFramesV v).lexEnabled = true := by rw [i1, commit_lexEnabled]; exact hl
  obtain ⟨_, _, _, _, r5, r6, r7, _, _, _, _, r12⟩ := rebuildIndexes_nil ((m.commit a).1.compactFramesV v) b hl'
  have hva : vecAfter ((m.commit a).1.compactFramesV v) = vecAfter (m.commit a).1 := by
    unfold vecAfter
    rw [i4, i5, compactFramesV_frames]
    have : ∀ id, isActive (compact (m.commit a).1.frames 0).1 id = isActive (m.commit a).1.frames id :=
      fun id => isActive_view (view_compact _ 0) id
    simp only [this]
  have ht : timeEntries ((m.commit a).1.compactFramesV v).frames = specTime (abs m) := by
    rw [timeEntries_eq_specTime, compactFramesV_frames, view_compact, commit_frames m a hi]
  have hd : fullLexRebuild ((m.commit a).1.compactFramesV v).frames = fullLexRebuild (m.commit a).1.frames := by
    rw [compactFramesV_frames, fullLexRebuild_compact]
  rw [vacuumV_eq v m a b hi]
  have h : (m.vacRebuilt v a b).time = some (specTime (abs m)) ∧ (m.vacRebuilt v a b).vec = vecAfter (m.commit a).1 ∧
      (m.vacRebuilt v a b).pVec = vecAfter (m.commit a).1 ∧
      (m.vacRebuilt v a b).lexDocs = fullLexRebuild (m.commit a).1.frames := by
    unfold Mem.vacRebuilt
    exact ⟨by rw [r5, ht], by rw [r6, hva], by rw [r7, hva], by rw [r12 i2 i3, hd]⟩
  cases v.checkpoints <;> cases v.persistsSketch <;> exact h

/-- a time index that was in step with the table before is UNCHANGED -/
theorem C42V_time_unchanged (v : VacVariant) (m : Mem) (a b : Nat) (hi : Inv m) (hl : m.lexEnabled = true)
    (hs : (m.commit a).1.time = some (timeEntries (m.commit a).1.frames)) :
    (m.vacuumV v a b).1.time = (m.commit a).1.time := by
  rw [(C42V_vacuum_indexes v m a b hi hl).1, hs, timeEntries_eq_specTime, commit_frames m a hi]

/-- a vector index that holds only active frames (what `remove_frame_from_indexes` maintains) is UNCHANGED -/
theorem C42V_vec_unchanged (v : VacVariant) (m : Mem) (a b : Nat) (hi : Inv m) (hl : m.lexEnabled = true)
    (l : List VecEnt) (hv : (m.commit a).1.vec = some l) (he : (m.commit a).1.vecEnabled = true)
    (ha : ∀ e ∈ l, isActive (m.commit a).1.frames e.id = true) :
    (m.vacuumV v a b).1.vec = some l := by
  rw [(C42V_vacuum_indexes v m a b hi hl).2.1]
  unfold vecAfter
  rw [he, hv]
  simp only [if_true, Option.getD_some, Option.some.injEq]
  exact List.filter_eq_self.mpr ha

/-- membership form: a vector is in the index after the vacuum iff it was there and its frame is active -/
theorem C42V_vec_mem (v : VacVariant) (m : Mem) (a b : Nat) (hi : Inv m) (hl : m.lexEnabled = true) (e : VecEnt) :
    e ∈ ((m.vacuumV v a b).1.vec).getD [] ↔
      (m.commit a).1.vecEnabled = true ∧ e ∈ ((m.commit a).1.vec).getD [] ∧ isActive (m.commit a).1.frames e.id = true := by
  rw [(C42V_vacuum_indexes v m a b hi hl).2.1]
  unfold vecAfter
  cases hve : (m.commit a).1.vecEnabled
  · simp
  · simp [List.mem_filter]

/-! ## 5. The file is left clean, and reopening it changes nothing -/

/-- **C42 (clean).**  The repaired vacuum leaves no WAL record pending (`Memvid::verify`'s
    `WalPendingRecords` check passes, the doctor's planner accepts the file), nothing dirty, and the sketch
    track persisted again behind the rebuilt indexes. -/
theorem C42V_vacuum_clean (m : Mem) (a b : Nat) (hi : Inv m) :
    (m.vacuumV .repaired a b).1.pending = [] ∧ (m.vacuumV .repaired a b).1.pendingInserts = 0 ∧
    (m.vacuumV .repaired a b).1.dirty = false ∧
    ((m.vacuumV .repaired a b).1.sketch ≠ [] → (m.vacuumV .repaired a b).1.pSketch = (m.vacuumV .repaired a b).1.sketch) := by
  rw [vacuumV_eq .repaired m a b hi]
  refine ⟨rfl, rfl, rfl, ?_⟩
  intro hne
  show (m.vacRebuilt .repaired a b).persistSketch.pSketch = (m.vacRebuilt .repaired a b).sketch
  have hne' : (m.vacRebuilt .repaired a b).sketch ≠ [] := hne
  unfold Mem.persistSketch
  simp [hne']

/-- **C42 (reopen).**  Dropping the handle after the repaired vacuum and opening the file again gives the very
    same frame table — same pointers, same reads. -/
theorem C42V_reopen_after_vacuum (m : Mem) (a b c d : Nat) (hi : Inv m) :
    ((m.vacuumV .repaired a b).1.reopen c d).1.frames = (m.vacuumV .repaired a b).1.frames := by
  obtain ⟨hp, _, hd, _⟩ := C42V_vacuum_clean m a b hi
  unfold Mem.reopen Mem.dropHandle
  rw [hd]
  simp only [Bool.false_eq_true, if_false]
  unfold Mem.openFrom Mem.recoverWal
  have : (m.vacuumV .repaired a b).1.openLoad.loadTracks.pending = [] := hp
  rw [this]
  simp only [List.isEmpty_nil, if_true]
  rw [(flushTantivy_keeps _ d).1]
  rfl

theorem C42V_reads_after_reopen (m : Mem) (a b c d : Nat) (hi : Inv m) (f : Frame) :
    canon ((m.vacuumV .repaired a b).1.reopen c d).1.frames f = canon (m.vacuumV .repaired a b).1.frames f := by
  rw [C42V_reopen_after_vacuum m a b c d hi]

/-! ## 6. Whole histories -/

/-- **C42 (histories).**  After ANY history that ends in a vacuum — whatever came before: puts, chunked
    documents, deletes, updates with and without payload (shared stored ranges), skip-index commits, crashes,
    earlier vacuums, doctor runs — the frame table equals the reference run of the acknowledged operations. -/
theorem C42V_history_table (v : VacVariant) (ops : List Op) (a b : Nat) :
    (runV v Mem.create (ops ++ [.vacuum a b])).frames.map view =
      specRun [] (traceV v Mem.create (ops ++ [.vacuum a b])) := by
  obtain ⟨hi, _, _⟩ := C42V_reachable v ops
  have hr := (C42V_reachable v (ops ++ [Op.vacuum a b])).2.2
  rw [← hr, runV_append]
  show (Mem.vacuumV v (runV v Mem.create ops) a b).1.frames.map view = abs (Mem.vacuumV v (runV v Mem.create ops) a b).1
  rw [(C42V_vacuum_table v _ a b hi).2.1, (C42V_vacuum_table v _ a b hi).2.2.1]

/-- full strength of the layout clause, per variant of the code -/
def C42V_layout_full (v : VacVariant) : Prop :=
  ∀ (ops : List Op) (a b : Nat), PayloadsSafe (runV v Mem.create (ops ++ [.vacuum a b]))

/-- **C42 (layout, histories).**  With the repair no history can make a vacuum write its indexes over an
    active payload. -/
theorem C42V_layout : C42V_layout_full .repaired := by
  intro ops a b
  obtain ⟨hi, hl, _⟩ := C42V_reachable .repaired ops
  rw [runV_append]
  exact (C42V_vacuum_layout .repaired rfl _ a b hi hl).1

/-! ## 7. The unrepaired code: counterexample (replayed on the real file by the harness corpus) -/

def wPut : PutArgs := { ts := 101, content := "223b2e341819a531", len := 82, plen := 82, zstd := true }
/-- put; commit; two payload-less updates of frame 0 before the next commit (both are accepted: frame 0 is
    still active); commit — frames 1 and 2 are active and SHARE the 82 stored bytes of frame 0 -/
def wHistory : List Op :=
  [.put wPut {}, .commit 4379, .update 0 { tags := ["x"] } { ft := 4379 }, .update 0 { tags := ["y"] } { ft := 4379 },
   .commit 5568]

/-- the unrepaired vacuum writes frame 1 to +0..82 and frame 2 to +82..164 but leaves the payload end at +82:
    `rebuild_indexes` starts the time index at +82, inside frame 2's payload -/
theorem C42_unrepaired_counterexample : ¬ C42V_layout_full .unrepaired := by
  intro h
  have h1 := (h wHistory 5568 5568).1
  revert h1
  decide

/-- … and leaves the Lex record of its Tantivy flush pending in the WAL (`verify` = Failed) -/
theorem C42_unrepaired_leaves_wal_record :
    (runV .unrepaired Mem.create (wHistory ++ [.vacuum 5568 5568])).pending ≠ [] := by decide

/-- the Core model (= the repaired code) on the same history: the index region starts at +164, behind frame 2 -/
example : (run Mem.create (wHistory ++ [.vacuum 5568 5568])).dataEnd = 164 ∧
    (runV .unrepaired Mem.create (wHistory ++ [.vacuum 5568 5568])).dataEnd = 82 := by decide

/-! ## Non-vacuity -/

example : Inv (runV .repaired Mem.create wHistory) ∧ (runV .repaired Mem.create wHistory).lexEnabled = true :=
  ⟨(C42V_reachable .repaired wHistory).1, (C42V_reachable .repaired wHistory).2.1⟩

/-- the same history with the repaired vacuum: frames 1 and 2 get their own copies at +0 and +82, the payload
    region and the index start move to +164, nothing is pending, both versions read the stored content -/
example : let m := runV .repaired Mem.create (wHistory ++ [.vacuum 5568 5568])
    m.frames.map (fun f => (f.id, f.status, f.off, f.len, canon m.frames f)) =
      [(0, .superseded, 0, 0, "err"), (1, .active, 0, 82, "223b2e341819a531"), (2, .active, 82, 82, "223b2e341819a531")] ∧
    m.payloadEnd = 164 ∧ m.dataEnd = 164 ∧ m.pending = [] ∧ m.time = some [(101, 1), (101, 2)] := by decide

example : PayloadsSafe (runV .repaired Mem.create (wHistory ++ [.vacuum 5568 5568])) := C42V_layout wHistory 5568 5568

/-- a chunked document, a deleted embedded frame, a payload update: the hypotheses of the read theorem hold for an
    active chunked document, and the conclusions are checked by evaluation too -/
def nvChunks : List ChunkArg := [{ content := "c1", len := 5, emb := none }, { content := "c2", len := 6, emb := none }]
def nvHistory : List Op :=
  [.put { ts := 5, content := "aa", len := 10, plen := 10, emb := some (3, "e0") } {},
   .put { ts := 6, uri := some "mv2://d", content := "E", len := 0, plen := 30, chunks := nvChunks } {},
   .put { ts := 7, content := "dd", len := 9, plen := 9 } {},
   .commit 40, .delete 0 {}, .update 4 { payload := some ("bb", 7, 7, []) } {}]

example : ∃ f, ((runV .repaired Mem.create nvHistory).commit 60).1.frames[1]? = some f ∧ isManifestDoc f = true ∧
    f.status = .active := by decide
example : let m := runV .repaired Mem.create (nvHistory ++ [.vacuum 60 70])
    m.frames.map (fun f => (f.id, f.status, f.off, f.len, canon m.frames f)) =
      [(0, .deleted, 0, 0, "err"), (1, .active, 0, 0, "cat:c1+c2"), (2, .active, 0, 5, "c1"), (3, .active, 5, 6, "c2"),
       (4, .superseded, 0, 0, "err"), (5, .active, 11, 7, "bb")] ∧
    m.vec = some [] ∧ m.time = some [(6, 1), (7, 5)] ∧ m.payloadEnd = 18 := by decide

/-! ## 8. THE PROPERTY, over the Core model's own `vacuum` / `step` / `run`
    (`vacuumV .repaired = Mem.vacuum`, `runV .repaired = run` by `rfl`: MvProps/C42Lemmas.lean) -/

/-- /repo's `fn vacuum` has the three repaired statements (generated flags): reverting the repair breaks this -/
theorem C42_code_is_repaired : codeVacuum = VacVariant.repaired := by decide

/-- every state of every history satisfies the Core invariant, has the lexical index enabled, and refines the
    reference run of the acknowledged operations -/
theorem C42_reachable (ops : List Op) :
    Inv (run Mem.create ops) ∧ (run Mem.create ops).lexEnabled = true ∧
    abs (run Mem.create ops) = specRun [] (trace Mem.create ops) := by
  have h := C42V_reachable .repaired ops
  rwa [runV_repaired, traceV_repaired] at h

/-- **C42 (table).**  `vacuum` succeeds and the committed table it leaves IS the reference table of the acknowledged
    operations: every frame keeps id, URI, timestamp, kind, track, tags, labels, role, supersedes / superseded_by,
    chunk fields, manifest, content token and STATUS (inactive stays inactive); the abstract state does not move. -/
theorem C42_vacuum_table (m : Mem) (a b : Nat) (hi : Inv m) :
    (m.vacuum a b).2 = Out.ok ∧ (m.vacuum a b).1.frames.map view = abs m ∧
    abs (m.vacuum a b).1 = abs m ∧ Inv (m.vacuum a b).1 := C42V_vacuum_table .repaired m a b hi

/-- **C42 (reads).**  For every active frame and every chunked document `frame_canonical_bytes` returns after the
    vacuum what it returned on the table the vacuum's leading commit produced; view, parent, stored length and
    encoding are kept. -/
theorem C42_vacuum_reads (m : Mem) (a b : Nat) (hi : Inv m) (i : Nat) (f : Frame)
    (h : (m.commit a).1.frames[i]? = some f) (hf : f.status = .active ∨ isManifestDoc f = true) :
    ∃ f', (m.vacuum a b).1.frames[i]? = some f' ∧ view f' = view f ∧ f'.parent = f.parent ∧
      (f.status = .active → f'.len = f.len) ∧ f'.zstd = f.zstd ∧
      canon (m.vacuum a b).1.frames f' = canon (m.commit a).1.frames f := C42V_vacuum_reads .repaired m a b hi i f h hf

/-- **C42 (inactive stays inactive).** -/
theorem C42_inactive_stays_inactive (m : Mem) (a b : Nat) (hi : Inv m) (i : Nat) (f : Frame)
    (h : (m.commit a).1.frames[i]? = some f) (hf : f.status ≠ .active) :
    ∃ f', (m.vacuum a b).1.frames[i]? = some f' ∧ f'.status = f.status ∧ f'.supersededBy = f.supersededBy ∧
      f'.len = 0 := C42V_inactive_stays_inactive .repaired m a b hi i f h hf

/-- **C42 (layout).**  After the vacuum the active payloads are packed from the data start, pairwise disjoint, and
    the payload region — hence the start of the rebuilt index region — ends exactly behind the last of them. -/
theorem C42_vacuum_layout (m : Mem) (a b : Nat) (hi : Inv m) (hl : m.lexEnabled = true) :
    PayloadsSafe (m.vacuum a b).1 ∧
    (m.vacuum a b).1.dataEnd = activeLen (m.commit a).1.frames ∧
    (m.vacuum a b).1.payloadEnd = activeLen (m.commit a).1.frames := C42V_vacuum_layout .repaired rfl m a b hi hl

/-- **C42 (indexes).**  Time index = active documents of the reference table in `(ts, id)` order; in-memory and
    persisted vector index = the pre-vacuum index restricted to active frames; lexical engine = every active
    frame with index text, once. -/
theorem C42_vacuum_indexes (m : Mem) (a b : Nat) (hi : Inv m) (hl : m.lexEnabled = true) :
    (m.vacuum a b).1.time = some (specTime (abs m)) ∧
    (m.vacuum a b).1.vec = vecAfter (m.commit a).1 ∧
    (m.vacuum a b).1.pVec = vecAfter (m.commit a).1 ∧
    (m.vacuum a b).1.lexDocs = fullLexRebuild (m.commit a).1.frames := C42V_vacuum_indexes .repaired m a b hi hl

theorem C42_time_unchanged (m : Mem) (a b : Nat) (hi : Inv m) (hl : m.lexEnabled = true)
    (hs : (m.commit a).1.time = some (timeEntries (m.commit a).1.frames)) :
    (m.vacuum a b).1.time = (m.commit a).1.time := C42V_time_unchanged .repaired m a b hi hl hs

theorem C42_vec_unchanged (m : Mem) (a b : Nat) (hi : Inv m) (hl : m.lexEnabled = true)
    (l : List VecEnt) (hv : (m.commit a).1.vec = some l) (he : (m.commit a).1.vecEnabled = true)
    (ha : ∀ e ∈ l, isActive (m.commit a).1.frames e.id = true) :
    (m.vacuum a b).1.vec = some l := C42V_vec_unchanged .repaired m a b hi hl l hv he ha

theorem C42_vec_mem (m : Mem) (a b : Nat) (hi : Inv m) (hl : m.lexEnabled = true) (e : VecEnt) :
    e ∈ ((m.vacuum a b).1.vec).getD [] ↔
      (m.commit a).1.vecEnabled = true ∧ e ∈ ((m.commit a).1.vec).getD [] ∧ isActive (m.commit a).1.frames e.id = true :=
  C42V_vec_mem .repaired m a b hi hl e

/-- **C42 (clean).**  No WAL record pending (`verify`'s WalPendingRecords check passes), nothing dirty, the sketch
    track persisted again behind the rebuilt indexes. -/
theorem C42_vacuum_clean (m : Mem) (a b : Nat) (hi : Inv m) :
    (m.vacuum a b).1.pending = [] ∧ (m.vacuum a b).1.pendingInserts = 0 ∧ (m.vacuum a b).1.dirty = false ∧
    ((m.vacuum a b).1.sketch ≠ [] → (m.vacuum a b).1.pSketch = (m.vacuum a b).1.sketch) := C42V_vacuum_clean m a b hi

/-- **C42 (reopen).**  Drop + open after the vacuum gives the very same frame table, hence the same reads. -/
theorem C42_reopen_after_vacuum (m : Mem) (a b c d : Nat) (hi : Inv m) :
    ((m.vacuum a b).1.reopen c d).1.frames = (m.vacuum a b).1.frames := C42V_reopen_after_vacuum m a b c d hi

theorem C42_reads_after_reopen (m : Mem) (a b c d : Nat) (hi : Inv m) (f : Frame) :
    canon ((m.vacuum a b).1.reopen c d).1.frames f = canon (m.vacuum a b).1.frames f :=
  C42V_reads_after_reopen m a b c d hi f

/-- **C42 (histories).**  After ANY history that ends in a vacuum the frame table equals the reference run of the
    acknowledged operations. -/
theorem C42_history_table (ops : List Op) (a b : Nat) :
    (run Mem.create (ops ++ [.vacuum a b])).frames.map view = specRun [] (trace Mem.create (ops ++ [.vacuum a b])) := by
  have h := C42V_history_table .repaired ops a b
  rwa [runV_repaired, traceV_repaired] at h

/-- **C42 (layout, histories).**  No history can make a vacuum write its indexes over an active payload. -/
theorem C42_layout (ops : List Op) (a b : Nat) : PayloadsSafe (run Mem.create (ops ++ [.vacuum a b])) := by
  have h := C42V_layout ops a b
  rwa [runV_repaired] at h

example : PayloadsSafe (run Mem.create (wHistory ++ [.vacuum 5568 5568])) := C42_layout wHistory 5568 5568
example : Inv (run Mem.create wHistory) := (C42_reachable wHistory).1

end Mv.Core
