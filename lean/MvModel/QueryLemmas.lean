/-
  Lemmas about the query model (`MvModel/Query.lean`) used by the C32 property theorems.

  Part A  the parser's fuel is a termination device only: results do not depend on it once it
          exceeds `4·|tokens| + 3` (`Mono`, `Shrink`, `Suff`), which yields fuel-free unfolding
          equations for `pOr`, `pAnd`, … (the parser run with `parseFuel`).
-/
import MvModel.Query
namespace Mv.Query
open Mv.Gen.C32

/-! ### Part A: fuel -/

/-- "not the fuel error" -/
def NF (x : PRes) : Prop := x ≠ .error .fuel

@[simp] theorem bindP_error (e : Err) (k : Expr → List Token → PRes) : bindP (.error e) k = .error e := rfl
@[simp] theorem bindP_ok (e : Expr) (r : List Token) (k : Expr → List Token → PRes) :
    bindP (.ok (e, r)) k = k e r := rfl

theorem NF_ok (p : Expr × List Token) : NF (.ok p) := by intro h; cases h
theorem NF_error {e : Err} (h : e ≠ .fuel) : NF (.error e) := by
  intro h'; cases h'; exact h rfl

theorem bindP_congr {x : PRes} {k k' : Expr → List Token → PRes}
    (h : ∀ e r, x = .ok (e, r) → k e r = k' e r) : bindP x k = bindP x k' := by
  cases x with
  | error e => rfl
  | ok p => obtain ⟨e, r⟩ := p; exact h e r rfl

/-- if a sequenced step did not run out of fuel, it is unchanged by replacing both halves with
    versions that agree wherever those did not run out of fuel -/
theorem bindP_mono {x x' : PRes} {k k' : Expr → List Token → PRes}
    (hnf : NF (bindP x k)) (hx : NF x → x' = x) (hk : ∀ e r, NF (k e r) → k' e r = k e r) :
    bindP x' k' = bindP x k := by
  cases x with
  | error e =>
    have : NF (.error e : PRes) := by simpa using hnf
    rw [hx this]; rfl
  | ok p =>
    obtain ⟨e, r⟩ := p
    rw [hx (NF_ok _)]
    simp only [bindP_ok] at hnf ⊢
    exact hk e r hnf

/-- one more unit of fuel changes nothing once the result is not the fuel error -/
structure Mono (T : Tables) (lim : Option Nat) (n : Nat) : Prop where
  or : ∀ dep ts, NF (parseOr T lim n dep ts) → parseOr T lim (n+1) dep ts = parseOr T lim n dep ts
  orL : ∀ dep acc ts, NF (orLoop T lim n dep acc ts) → orLoop T lim (n+1) dep acc ts = orLoop T lim n dep acc ts
  and : ∀ dep ts, NF (parseAnd T lim n dep ts) → parseAnd T lim (n+1) dep ts = parseAnd T lim n dep ts
  andL : ∀ dep acc ts, NF (andLoop T lim n dep acc ts) → andLoop T lim (n+1) dep acc ts = andLoop T lim n dep acc ts
  not : ∀ dep ts, NF (parseNot T lim n dep ts) → parseNot T lim (n+1) dep ts = parseNot T lim n dep ts
  prim : ∀ dep ts, NF (parsePrimary T lim n dep ts) → parsePrimary T lim (n+1) dep ts = parsePrimary T lim n dep ts

theorem mono (T : Tables) (lim : Option Nat) : ∀ n, Mono T lim n := by
  intro n
  induction n with
  | zero =>
    constructor <;> intros <;> rename_i h <;> exact absurd (by simp [parseOr, orLoop, parseAnd, andLoop, parseNot, parsePrimary]) h
  | succ n ih =>
    constructor
    · intro dep ts h
      rw [parseOr] at h ⊢
      rw [parseOr]
      exact bindP_mono h (ih.and dep ts) (fun e r => ih.orL dep e r)
    · intro dep acc ts h
      by_cases hts : ∃ r, ts = Token.or :: r
      · obtain ⟨r, rfl⟩ := hts
        rw [orLoop.eq_2] at h ⊢
        rw [orLoop.eq_2]
        exact bindP_mono h (ih.and dep r) (fun e r' => ih.orL dep _ r')
      · have hne : ∀ r, ts = Token.or :: r → False := fun r hr => hts ⟨r, hr⟩
        rw [orLoop.eq_3 _ _ _ _ _ _ hne, orLoop.eq_3 _ _ _ _ _ _ hne]
    · intro dep ts h
      rw [parseAnd] at h ⊢
      rw [parseAnd]
      exact bindP_mono h (ih.not dep ts) (fun e r => ih.andL dep e r)
    · intro dep acc ts h
      rcases ts with _ | ⟨t, r⟩
      · simp only [andLoop]
      · cases t <;> simp only [andLoop] at h ⊢ <;>
          first
            | exact bindP_mono h (ih.not dep _) (fun e r' => ih.andL dep _ r')
            | rfl
    · intro dep ts h
      by_cases hts : ∃ r, ts = Token.not :: r
      · obtain ⟨r, rfl⟩ := hts
        rw [parseNot.eq_2] at h ⊢
        rw [parseNot.eq_2]
        split
        · rfl
        · rename_i htd
          simp only [htd] at h
          exact bindP_mono h (ih.not (dep+1) r) (fun e r' _ => rfl)
      · have hne : ∀ r, ts = Token.not :: r → False := fun r hr => hts ⟨r, hr⟩
        rw [parseNot.eq_3 _ _ _ _ _ hne] at h ⊢
        rw [parseNot.eq_3 _ _ _ _ _ hne]
        exact ih.prim dep ts h
    · intro dep ts h
      by_cases hts : ∃ r, ts = Token.lparen :: r
      · obtain ⟨r, rfl⟩ := hts
        rw [parsePrimary.eq_2] at h ⊢
        rw [parsePrimary.eq_2]
        split
        · rfl
        · rename_i htd
          simp only [htd] at h
          exact bindP_mono h (ih.or (dep+1) r) (fun e r' _ => rfl)
      · have hne : ∀ r, ts = Token.lparen :: r → False := fun r hr => hts ⟨r, hr⟩
        rw [parsePrimary.eq_3 _ _ _ _ _ hne, parsePrimary.eq_3 _ _ _ _ _ hne]

/-- "`r` is what is left of `ts` after consuming at least `k` tokens" -/
def Consumed (k : Nat) (ts r : List Token) : Prop := r <:+ ts ∧ r.length + k ≤ ts.length

theorem Consumed.refl (ts : List Token) : Consumed 0 ts ts := ⟨List.suffix_refl _, by omega⟩

theorem Consumed.trans {a b c : List Token} {j k : Nat} (h1 : Consumed j a b) (h2 : Consumed k b c) :
    Consumed (j + k) a c := ⟨h2.1.trans h1.1, by have := h1.2; have := h2.2; omega⟩

theorem Consumed.weaken {a b : List Token} {j k : Nat} (h : Consumed j a b) (hk : k ≤ j) : Consumed k a b :=
  ⟨h.1, by have := h.2; omega⟩

theorem Consumed.cons {a b : List Token} {k : Nat} (t : Token) (h : Consumed k a b) : Consumed (k+1) (t :: a) b :=
  ⟨h.1.trans (List.suffix_cons t a), by have := h.2; simp only [List.length_cons]; omega⟩

theorem bindP_ok_inv {x : PRes} {k : Expr → List Token → PRes} {e : Expr} {r : List Token}
    (h : bindP x k = .ok (e, r)) : ∃ e' r', x = .ok (e', r') ∧ k e' r' = .ok (e, r) := by
  cases x with
  | error e0 => cases h
  | ok p => obtain ⟨e', r'⟩ := p; exact ⟨e', r', rfl, h⟩

theorem parseAtom_consumed (T : Tables) {ts : List Token} {e : Expr} {r : List Token}
    (h : parseAtom T ts = .ok (e, r)) : Consumed 1 ts r := by
  unfold parseAtom at h
  split at h
  · cases h; exact (Consumed.refl _).cons _
  · cases h; exact (Consumed.refl _).cons _
  · split at h
    · cases h
    · cases h; exact (Consumed.refl _).cons _
  · split at h
    · cases h
    · cases h; exact (Consumed.refl _).cons _
  · cases h
  · cases h

/-- every successful parser step returns a suffix of its input; the non-loop steps consume at
    least one token -/
structure Shrink (T : Tables) (lim : Option Nat) (n : Nat) : Prop where
  or : ∀ dep ts e r, parseOr T lim n dep ts = .ok (e, r) → Consumed 1 ts r
  orL : ∀ dep acc ts e r, orLoop T lim n dep acc ts = .ok (e, r) → Consumed 0 ts r
  and : ∀ dep ts e r, parseAnd T lim n dep ts = .ok (e, r) → Consumed 1 ts r
  andL : ∀ dep acc ts e r, andLoop T lim n dep acc ts = .ok (e, r) → Consumed 0 ts r
  not : ∀ dep ts e r, parseNot T lim n dep ts = .ok (e, r) → Consumed 1 ts r
  prim : ∀ dep ts e r, parsePrimary T lim n dep ts = .ok (e, r) → Consumed 1 ts r

theorem shrink (T : Tables) (lim : Option Nat) : ∀ n, Shrink T lim n := by
  intro n
  induction n with
  | zero =>
    constructor <;> intros <;> rename_i h <;>
      simp [parseOr, orLoop, parseAnd, andLoop, parseNot, parsePrimary] at h
  | succ n ih =>
    constructor
    · intro dep ts e r h
      rw [parseOr] at h
      obtain ⟨e', r', h1, h2⟩ := bindP_ok_inv h
      exact ((ih.and _ _ _ _ h1).trans (ih.orL _ _ _ _ _ h2))
    · intro dep acc ts e r h
      by_cases hts : ∃ r, ts = Token.or :: r
      · obtain ⟨r0, rfl⟩ := hts
        rw [orLoop.eq_2] at h
        obtain ⟨e', r', h1, h2⟩ := bindP_ok_inv h
        exact (((ih.and _ _ _ _ h1).trans (ih.orL _ _ _ _ _ h2)).cons _).weaken (by omega)
      · have hne : ∀ r, ts = Token.or :: r → False := fun r hr => hts ⟨r, hr⟩
        rw [orLoop.eq_3 _ _ _ _ _ _ hne] at h
        cases h; exact Consumed.refl _
    · intro dep ts e r h
      rw [parseAnd] at h
      obtain ⟨e', r', h1, h2⟩ := bindP_ok_inv h
      exact ((ih.not _ _ _ _ h1).trans (ih.andL _ _ _ _ _ h2))
    · intro dep acc ts e r h
      rcases ts with _ | ⟨t, r0⟩
      · simp only [andLoop] at h; cases h; exact Consumed.refl _
      · cases t <;> simp only [andLoop] at h <;>
          first
            | (cases h; exact Consumed.refl _)
            | (obtain ⟨e', r', h1, h2⟩ := bindP_ok_inv h
               first
                 | exact (((ih.not _ _ _ _ h1).trans (ih.andL _ _ _ _ _ h2)).cons _).weaken (by omega)
                 | exact ((ih.not _ _ _ _ h1).trans (ih.andL _ _ _ _ _ h2)).weaken (by omega))
    · intro dep ts e r h
      by_cases hts : ∃ r, ts = Token.not :: r
      · obtain ⟨r0, rfl⟩ := hts
        rw [parseNot.eq_2] at h
        split at h
        · cases h
        · obtain ⟨e', r', h1, h2⟩ := bindP_ok_inv h
          cases h2
          exact ((ih.not _ _ _ _ h1).cons _).weaken (by omega)
      · have hne : ∀ r, ts = Token.not :: r → False := fun r hr => hts ⟨r, hr⟩
        rw [parseNot.eq_3 _ _ _ _ _ hne] at h
        exact ih.prim _ _ _ _ h
    · intro dep ts e r h
      by_cases hts : ∃ r, ts = Token.lparen :: r
      · obtain ⟨r0, rfl⟩ := hts
        rw [parsePrimary.eq_2] at h
        split at h
        · cases h
        · obtain ⟨e', r', h1, h2⟩ := bindP_ok_inv h
          unfold closeParen at h2
          split at h2
          · cases h2
            exact (((ih.or _ _ _ _ h1).trans ((Consumed.refl _).cons _)).cons _).weaken (by omega)
          · cases h2
      · have hne : ∀ r, ts = Token.lparen :: r → False := fun r hr => hts ⟨r, hr⟩
        rw [parsePrimary.eq_3 _ _ _ _ _ hne] at h
        exact parseAtom_consumed T h

theorem bindP_NF {x : PRes} {k : Expr → List Token → PRes}
    (hx : NF x) (hk : ∀ e r, x = .ok (e, r) → NF (k e r)) : NF (bindP x k) := by
  cases x with
  | error e => exact hx
  | ok p => obtain ⟨e, r⟩ := p; exact hk e r rfl

theorem parseAtom_NF (T : Tables) (ts : List Token) : NF (parseAtom T ts) := by
  unfold parseAtom
  split
  · exact NF_ok _
  · exact NF_ok _
  · rename_i f v r
    split
    · rename_i e he
      unfold fromPair at he
      split at he
      · cases he
      · cases he; simp [NF]
    · exact NF_ok _
  · rename_i f s e r
    split
    · rename_i e he
      unfold fromDateRange at he
      split at he
      · cases he; simp [NF]
      · cases he
    · exact NF_ok _
  · simp [NF]
  · simp [NF]

/-- the fuel never runs out once it exceeds `4·|tokens| + rank` -/
structure Suff (T : Tables) (lim : Option Nat) (n : Nat) : Prop where
  or : ∀ dep ts, 4 * ts.length + 3 < n → NF (parseOr T lim n dep ts)
  orL : ∀ dep acc ts, 4 * ts.length + 3 < n → NF (orLoop T lim n dep acc ts)
  and : ∀ dep ts, 4 * ts.length + 2 < n → NF (parseAnd T lim n dep ts)
  andL : ∀ dep acc ts, 4 * ts.length + 2 < n → NF (andLoop T lim n dep acc ts)
  not : ∀ dep ts, 4 * ts.length + 1 < n → NF (parseNot T lim n dep ts)
  prim : ∀ dep ts, 4 * ts.length < n → NF (parsePrimary T lim n dep ts)

theorem suff (T : Tables) (lim : Option Nat) : ∀ n, Suff T lim n := by
  intro n
  induction n with
  | zero => constructor <;> intros <;> omega
  | succ n ih =>
    have sh := shrink T lim n
    constructor
    · intro dep ts hn
      rw [parseOr]
      refine bindP_NF (ih.and _ _ (by omega)) (fun e r h => ih.orL _ _ _ ?_)
      have := (sh.and _ _ _ _ h).2; omega
    · intro dep acc ts hn
      by_cases hts : ∃ r, ts = Token.or :: r
      · obtain ⟨r0, rfl⟩ := hts
        simp only [List.length_cons] at hn
        rw [orLoop.eq_2]
        refine bindP_NF (ih.and _ _ (by omega)) (fun e r h => ih.orL _ _ _ ?_)
        have := (sh.and _ _ _ _ h).2; omega
      · have hne : ∀ r, ts = Token.or :: r → False := fun r hr => hts ⟨r, hr⟩
        rw [orLoop.eq_3 _ _ _ _ _ _ hne]; exact NF_ok _
    · intro dep ts hn
      rw [parseAnd]
      refine bindP_NF (ih.not _ _ (by omega)) (fun e r h => ih.andL _ _ _ ?_)
      have := (sh.not _ _ _ _ h).2; omega
    · intro dep acc ts hn
      rcases ts with _ | ⟨t, r0⟩
      · simp only [andLoop]; exact NF_ok _
      · simp only [List.length_cons] at hn
        cases t <;> simp only [andLoop] <;>
          first
            | exact NF_ok _
            | (refine bindP_NF (ih.not _ _ (by (try simp only [List.length_cons]); omega)) (fun e r h => ih.andL _ _ _ ?_)
               have := (sh.not _ _ _ _ h).2
               (try simp only [List.length_cons] at this)
               omega)
    · intro dep ts hn
      by_cases hts : ∃ r, ts = Token.not :: r
      · obtain ⟨r0, rfl⟩ := hts
        simp only [List.length_cons] at hn
        rw [parseNot.eq_2]
        split
        · simp [NF]
        · exact bindP_NF (ih.not _ _ (by omega)) (fun e r _ => NF_ok _)
      · have hne : ∀ r, ts = Token.not :: r → False := fun r hr => hts ⟨r, hr⟩
        rw [parseNot.eq_3 _ _ _ _ _ hne]
        exact ih.prim _ _ (by omega)
    · intro dep ts hn
      by_cases hts : ∃ r, ts = Token.lparen :: r
      · obtain ⟨r0, rfl⟩ := hts
        simp only [List.length_cons] at hn
        rw [parsePrimary.eq_2]
        split
        · simp [NF]
        · refine bindP_NF (ih.or _ _ (by omega)) (fun e r _ => ?_)
          unfold closeParen
          split <;> simp [NF]
      · have hne : ∀ r, ts = Token.lparen :: r → False := fun r hr => hts ⟨r, hr⟩
        rw [parsePrimary.eq_3 _ _ _ _ _ hne]
        exact parseAtom_NF T ts

/-- fuel irrelevance: two fuels that both avoid the fuel error give the same result -/
theorem mono_le (T : Tables) (lim : Option Nat) {n m : Nat} (h : n ≤ m) :
    (∀ dep ts, NF (parseOr T lim n dep ts) → parseOr T lim m dep ts = parseOr T lim n dep ts) ∧
    (∀ dep acc ts, NF (orLoop T lim n dep acc ts) → orLoop T lim m dep acc ts = orLoop T lim n dep acc ts) ∧
    (∀ dep ts, NF (parseAnd T lim n dep ts) → parseAnd T lim m dep ts = parseAnd T lim n dep ts) ∧
    (∀ dep acc ts, NF (andLoop T lim n dep acc ts) → andLoop T lim m dep acc ts = andLoop T lim n dep acc ts) ∧
    (∀ dep ts, NF (parseNot T lim n dep ts) → parseNot T lim m dep ts = parseNot T lim n dep ts) ∧
    (∀ dep ts, NF (parsePrimary T lim n dep ts) → parsePrimary T lim m dep ts = parsePrimary T lim n dep ts) := by
  induction h with
  | refl => exact ⟨fun _ _ _ => rfl, fun _ _ _ _ => rfl, fun _ _ _ => rfl, fun _ _ _ _ => rfl, fun _ _ _ => rfl, fun _ _ _ => rfl⟩
  | @step m _ ih =>
    have mm := mono T lim m
    obtain ⟨i1, i2, i3, i4, i5, i6⟩ := ih
    refine ⟨?_, ?_, ?_, ?_, ?_, ?_⟩
    · intro dep ts hnf; rw [mm.or _ _ (by rw [i1 _ _ hnf]; exact hnf), i1 _ _ hnf]
    · intro dep acc ts hnf; rw [mm.orL _ _ _ (by rw [i2 _ _ _ hnf]; exact hnf), i2 _ _ _ hnf]
    · intro dep ts hnf; rw [mm.and _ _ (by rw [i3 _ _ hnf]; exact hnf), i3 _ _ hnf]
    · intro dep acc ts hnf; rw [mm.andL _ _ _ (by rw [i4 _ _ _ hnf]; exact hnf), i4 _ _ _ hnf]
    · intro dep ts hnf; rw [mm.not _ _ (by rw [i5 _ _ hnf]; exact hnf), i5 _ _ hnf]
    · intro dep ts hnf; rw [mm.prim _ _ (by rw [i6 _ _ hnf]; exact hnf), i6 _ _ hnf]

/-! the parser with sufficient fuel, and its fuel-free unfolding equations -/

def pOr (T : Tables) (lim : Option Nat) (dep : Nat) (ts : List Token) : PRes := parseOr T lim (parseFuel ts) dep ts
def pOrLoop (T : Tables) (lim : Option Nat) (dep : Nat) (acc : Expr) (ts : List Token) : PRes := orLoop T lim (parseFuel ts) dep acc ts
def pAnd (T : Tables) (lim : Option Nat) (dep : Nat) (ts : List Token) : PRes := parseAnd T lim (parseFuel ts) dep ts
def pAndLoop (T : Tables) (lim : Option Nat) (dep : Nat) (acc : Expr) (ts : List Token) : PRes := andLoop T lim (parseFuel ts) dep acc ts
def pNot (T : Tables) (lim : Option Nat) (dep : Nat) (ts : List Token) : PRes := parseNot T lim (parseFuel ts) dep ts
def pPrimary (T : Tables) (lim : Option Nat) (dep : Nat) (ts : List Token) : PRes := parsePrimary T lim (parseFuel ts) dep ts

theorem parseOr_fuel (T : Tables) (lim : Option Nat) {n : Nat} (dep : Nat) (ts : List Token)
    (h : 4 * ts.length + 3 < n) : parseOr T lim n dep ts = pOr T lim dep ts := by
  unfold pOr parseFuel
  rcases Nat.le_total n (4 * ts.length + 4) with hle | hle
  · exact ((mono_le T lim hle).1 dep ts ((suff T lim n).or dep ts h)).symm
  · exact (mono_le T lim hle).1 dep ts ((suff T lim _).or dep ts (by omega))

theorem orLoop_fuel (T : Tables) (lim : Option Nat) {n : Nat} (dep : Nat) (acc : Expr) (ts : List Token)
    (h : 4 * ts.length + 3 < n) : orLoop T lim n dep acc ts = pOrLoop T lim dep acc ts := by
  unfold pOrLoop parseFuel
  rcases Nat.le_total n (4 * ts.length + 4) with hle | hle
  · exact ((mono_le T lim hle).2.1 dep acc ts ((suff T lim n).orL dep acc ts h)).symm
  · exact (mono_le T lim hle).2.1 dep acc ts ((suff T lim _).orL dep acc ts (by omega))

theorem parseAnd_fuel (T : Tables) (lim : Option Nat) {n : Nat} (dep : Nat) (ts : List Token)
    (h : 4 * ts.length + 2 < n) : parseAnd T lim n dep ts = pAnd T lim dep ts := by
  unfold pAnd parseFuel
  rcases Nat.le_total n (4 * ts.length + 4) with hle | hle
  · exact ((mono_le T lim hle).2.2.1 dep ts ((suff T lim n).and dep ts h)).symm
  · exact (mono_le T lim hle).2.2.1 dep ts ((suff T lim _).and dep ts (by omega))

theorem andLoop_fuel (T : Tables) (lim : Option Nat) {n : Nat} (dep : Nat) (acc : Expr) (ts : List Token)
    (h : 4 * ts.length + 2 < n) : andLoop T lim n dep acc ts = pAndLoop T lim dep acc ts := by
  unfold pAndLoop parseFuel
  rcases Nat.le_total n (4 * ts.length + 4) with hle | hle
  · exact ((mono_le T lim hle).2.2.2.1 dep acc ts ((suff T lim n).andL dep acc ts h)).symm
  · exact (mono_le T lim hle).2.2.2.1 dep acc ts ((suff T lim _).andL dep acc ts (by omega))

theorem parseNot_fuel (T : Tables) (lim : Option Nat) {n : Nat} (dep : Nat) (ts : List Token)
    (h : 4 * ts.length + 1 < n) : parseNot T lim n dep ts = pNot T lim dep ts := by
  unfold pNot parseFuel
  rcases Nat.le_total n (4 * ts.length + 4) with hle | hle
  · exact ((mono_le T lim hle).2.2.2.2.1 dep ts ((suff T lim n).not dep ts h)).symm
  · exact (mono_le T lim hle).2.2.2.2.1 dep ts ((suff T lim _).not dep ts (by omega))

theorem parsePrimary_fuel (T : Tables) (lim : Option Nat) {n : Nat} (dep : Nat) (ts : List Token)
    (h : 4 * ts.length < n) : parsePrimary T lim n dep ts = pPrimary T lim dep ts := by
  unfold pPrimary parseFuel
  rcases Nat.le_total n (4 * ts.length + 4) with hle | hle
  · exact ((mono_le T lim hle).2.2.2.2.2 dep ts ((suff T lim n).prim dep ts h)).symm
  · exact (mono_le T lim hle).2.2.2.2.2 dep ts ((suff T lim _).prim dep ts (by omega))

theorem pOr_consumed {T lim dep ts e r} (h : pOr T lim dep ts = .ok (e, r)) : Consumed 1 ts r := (shrink T lim _).or _ _ _ _ h
theorem pOrLoop_consumed {T lim dep acc ts e r} (h : pOrLoop T lim dep acc ts = .ok (e, r)) : Consumed 0 ts r := (shrink T lim _).orL _ _ _ _ _ h
theorem pAnd_consumed {T lim dep ts e r} (h : pAnd T lim dep ts = .ok (e, r)) : Consumed 1 ts r := (shrink T lim _).and _ _ _ _ h
theorem pAndLoop_consumed {T lim dep acc ts e r} (h : pAndLoop T lim dep acc ts = .ok (e, r)) : Consumed 0 ts r := (shrink T lim _).andL _ _ _ _ _ h
theorem pNot_consumed {T lim dep ts e r} (h : pNot T lim dep ts = .ok (e, r)) : Consumed 1 ts r := (shrink T lim _).not _ _ _ _ h
theorem pPrimary_consumed {T lim dep ts e r} (h : pPrimary T lim dep ts = .ok (e, r)) : Consumed 1 ts r := (shrink T lim _).prim _ _ _ _ h

theorem pOr_eq (T : Tables) (lim : Option Nat) (dep : Nat) (ts : List Token) :
    pOr T lim dep ts = bindP (pAnd T lim dep ts) (fun e r => pOrLoop T lim dep e r) := by
  unfold pOr parseFuel
  rw [parseOr, parseAnd_fuel T lim dep ts (by omega)]
  refine bindP_congr (fun e r h => orLoop_fuel T lim dep e r ?_)
  have := (pAnd_consumed h).2; omega

theorem pOrLoop_or (T : Tables) (lim : Option Nat) (dep : Nat) (acc : Expr) (r : List Token) :
    pOrLoop T lim dep acc (.or :: r) =
      bindP (pAnd T lim dep r) (fun e r' => pOrLoop T lim dep (pushOr acc e) r') := by
  unfold pOrLoop parseFuel
  simp only [List.length_cons]
  rw [orLoop.eq_2, parseAnd_fuel T lim dep r (by omega)]
  refine bindP_congr (fun e r' h => orLoop_fuel T lim dep _ r' ?_)
  have := (pAnd_consumed h).2; omega

theorem pOrLoop_stop (T : Tables) (lim : Option Nat) (dep : Nat) (acc : Expr) (ts : List Token)
    (h : ∀ r, ts = Token.or :: r → False) : pOrLoop T lim dep acc ts = .ok (acc, ts) := by
  unfold pOrLoop parseFuel
  rw [orLoop.eq_3 _ _ _ _ _ _ h]

theorem pAnd_eq (T : Tables) (lim : Option Nat) (dep : Nat) (ts : List Token) :
    pAnd T lim dep ts = bindP (pNot T lim dep ts) (fun e r => pAndLoop T lim dep e r) := by
  unfold pAnd parseFuel
  rw [parseAnd, parseNot_fuel T lim dep ts (by omega)]
  refine bindP_congr (fun e r h => andLoop_fuel T lim dep e r ?_)
  have := (pNot_consumed h).2; omega

theorem pAndLoop_and (T : Tables) (lim : Option Nat) (dep : Nat) (acc : Expr) (r : List Token) :
    pAndLoop T lim dep acc (.and :: r) =
      bindP (pNot T lim dep r) (fun e r' => pAndLoop T lim dep (pushAnd acc e) r') := by
  unfold pAndLoop parseFuel
  simp only [List.length_cons]
  rw [andLoop.eq_2, parseNot_fuel T lim dep r (by omega)]
  refine bindP_congr (fun e r' h => andLoop_fuel T lim dep _ r' ?_)
  have := (pNot_consumed h).2; omega

/-- the token list makes `parse_term`'s loop stop: end of input, `OR`, or `)` -/
def StopAnd (ts : List Token) : Prop := ts = [] ∨ (∃ r, ts = .or :: r) ∨ (∃ r, ts = .rparen :: r)

theorem pAndLoop_stop (T : Tables) (lim : Option Nat) (dep : Nat) (acc : Expr) (ts : List Token)
    (h : StopAnd ts) : pAndLoop T lim dep acc ts = .ok (acc, ts) := by
  unfold pAndLoop parseFuel
  rcases h with rfl | ⟨r, rfl⟩ | ⟨r, rfl⟩ <;> simp only [andLoop]

/-- a token that starts an operand (so juxtaposition means AND) -/
def Operand (t : Token) : Prop := t ≠ .and ∧ t ≠ .or ∧ t ≠ .rparen

theorem pAndLoop_implicit (T : Tables) (lim : Option Nat) (dep : Nat) (acc : Expr) (t : Token) (r : List Token)
    (h : Operand t) :
    pAndLoop T lim dep acc (t :: r) =
      bindP (pNot T lim dep (t :: r)) (fun e r' => pAndLoop T lim dep (pushAnd acc e) r') := by
  unfold pAndLoop parseFuel
  rw [andLoop.eq_6 _ _ _ _ _ _ _ (fun hh => h.1 hh) (fun hh => h.2.1 hh) (fun hh => h.2.2 hh),
    parseNot_fuel T lim dep (t :: r) (by omega)]
  refine bindP_congr (fun e r' hh => andLoop_fuel T lim dep _ r' ?_)
  have := (pNot_consumed hh).2; omega

theorem pNot_not (T : Tables) (lim : Option Nat) (dep : Nat) (r : List Token) :
    pNot T lim dep (.not :: r) =
      if tooDeep lim dep then .error .tooDeep
      else bindP (pNot T lim (dep + 1) r) (fun e r' => .ok (.not e, r')) := by
  unfold pNot parseFuel
  simp only [List.length_cons]
  rw [parseNot.eq_2, parseNot_fuel T lim (dep+1) r (by omega)]
  rfl

theorem pNot_other (T : Tables) (lim : Option Nat) (dep : Nat) (ts : List Token)
    (h : ∀ r, ts = Token.not :: r → False) : pNot T lim dep ts = pPrimary T lim dep ts := by
  unfold pNot parseFuel
  rw [parseNot.eq_3 _ _ _ _ _ h, parsePrimary_fuel T lim dep ts (by omega)]

theorem pPrimary_lparen (T : Tables) (lim : Option Nat) (dep : Nat) (r : List Token) :
    pPrimary T lim dep (.lparen :: r) =
      if tooDeep lim dep then .error .tooDeep
      else bindP (pOr T lim (dep + 1) r) closeParen := by
  unfold pPrimary parseFuel
  simp only [List.length_cons]
  rw [parsePrimary.eq_2, parseOr_fuel T lim (dep+1) r (by omega)]

theorem pPrimary_other (T : Tables) (lim : Option Nat) (dep : Nat) (ts : List Token)
    (h : ∀ r, ts = Token.lparen :: r → False) : pPrimary T lim dep ts = parseAtom T ts := by
  unfold pPrimary parseFuel
  rw [parsePrimary.eq_3 _ _ _ _ _ h]

theorem parseTokens_eq (T : Tables) (lim : Option Nat) (ts : List Token) :
    parseTokens T lim ts = match pOr T lim 0 ts with | .error e => .error e | .ok (e, _) => .ok e := rfl

/-- the parser never reports the fuel error (`Parser::parse_expression` terminates) -/
theorem pOr_NF (T : Tables) (lim : Option Nat) (dep : Nat) (ts : List Token) : NF (pOr T lim dep ts) :=
  (suff T lim _).or dep ts (by unfold parseFuel; omega)

end Mv.Query
