/-
  Part C of the C32 lemmas: the lexer.
  * its fuel is a termination device only (`lex_nil`, `lex_cons`, `lex_NF`);
  * how the pieces of printed queries are tokenised (`LexesTo`, `lex_joinSp`).
-/
import MvModel.Query
namespace Mv.Query
open Mv.Gen.C32

/-! ### helpers on the scanning primitives -/

theorem scanWord_append_eq (T : Tables) (s : Str) : (scanWord T s).1 ++ (scanWord T s).2 = s := by
  induction s with
  | nil => rfl
  | cons c cs ih =>
    unfold scanWord
    split
    · rfl
    · simp only [List.cons_append, ih]

theorem scanWord_length (T : Tables) (s : Str) : (scanWord T s).1.length + (scanWord T s).2.length = s.length := by
  have := congrArg List.length (scanWord_append_eq T s)
  simpa using this

/-- scanning over a run without break characters -/
theorem scanWord_prefix (T : Tables) (w s : Str) (hw : ∀ c ∈ w, isBreak T c = false) :
    scanWord T (w ++ s) = (w ++ (scanWord T s).1, (scanWord T s).2) := by
  induction w with
  | nil => rfl
  | cons c cs ih =>
    have hc : isBreak T c = false := hw c (List.mem_cons_self ..)
    have ih' := ih (fun d hd => hw d (List.mem_cons_of_mem _ hd))
    simp only [List.cons_append]
    rw [scanWord]
    simp only [hc, Bool.false_eq_true, if_false, ih']

/-- a break character (or the end) stops the scan at once -/
theorem scanWord_stop (T : Tables) (s : Str) (h : s = [] ∨ ∃ c r, s = c :: r ∧ isBreak T c = true) :
    scanWord T s = ([], s) := by
  rcases h with rfl | ⟨c, r, rfl, hc⟩
  · rfl
  · rw [scanWord]; simp only [hc, if_true]

theorem splitAtChar_eq (d : Char) : ∀ (s a b : Str), splitAtChar d s = some (a, b) → s = a ++ d :: b := by
  intro s
  induction s with
  | nil => intro a b h; cases h
  | cons c cs ih =>
    intro a b h
    unfold splitAtChar at h
    split at h
    · rename_i hcd
      cases h; subst hcd; rfl
    · split at h
      · cases h
      · rename_i a' b' heq
        cases h
        rw [ih a' b heq]; rfl

/-- splitting at the first `d` when it is known where it is -/
theorem splitAtChar_append (d : Char) (a b : Str) (ha : d ∉ a) : splitAtChar d (a ++ d :: b) = some (a, b) := by
  induction a with
  | nil => simp [splitAtChar]
  | cons c cs ih =>
    have hc : c ≠ d := fun h => ha (h ▸ List.mem_cons_self ..)
    have ih' := ih (fun hd => ha (List.mem_cons_of_mem _ hd))
    simp only [List.cons_append]
    rw [splitAtChar]
    simp only [hc, if_false, ih']

theorem splitAtChar_none (d : Char) (a : Str) (ha : d ∉ a) : splitAtChar d a = none := by
  induction a with
  | nil => rfl
  | cons c cs ih =>
    have hc : c ≠ d := fun h => ha (h ▸ List.mem_cons_self ..)
    rw [splitAtChar]
    simp only [hc, if_false, ih (fun hd => ha (List.mem_cons_of_mem _ hd))]

/-! ### lexer steps consume input; none reports the fuel error -/

theorem readDateRange_shrink (T : Tables) (f rem : Str) (t : Token) (rest : Str)
    (h : readDateRange T f rem = .ok (t, rest)) : rest.length < rem.length := by
  unfold readDateRange at h
  split at h
  · cases h
  · rename_i contents rest' heq
    have := splitAtChar_eq _ _ _ _ heq
    split at h
    · split at h
      · cases h; subst this; simp only [List.length_append, List.length_cons]; omega
      · cases h
    · cases h

theorem readField_shrink (T : Tables) (f rem : Str) (t : Token) (rest : Str)
    (h : readField T f rem = .ok (t, rest)) : rest.length ≤ rem.length := by
  unfold readField at h
  split at h
  · cases h; simp
  · rename_i c rem'
    split at h
    · split at h
      · cases h
      · rename_i v rest' heq
        cases h
        have := splitAtChar_eq _ _ _ _ heq
        subst this; simp only [List.length_append, List.length_cons]; omega
    · split at h
      · have := readDateRange_shrink T f rem' t rest h
        simp only [List.length_cons]; omega
      · cases h
        have := scanWord_length T (c :: rem')
        omega

theorem readFieldOrWord_shrink (T : Tables) (c : Char) (cs : Str) (hc : isBreak T c = false) (t : Token) (rest : Str)
    (h : readFieldOrWord T (c :: cs) = .ok (t, rest)) : rest.length ≤ cs.length := by
  unfold readFieldOrWord at h
  have hlen := scanWord_length T (c :: cs)
  have h1 : 1 ≤ (scanWord T (c :: cs)).1.length := by
    rw [scanWord]; simp only [hc, Bool.false_eq_true, if_false, List.length_cons]; omega
  simp only [List.length_cons] at hlen
  split at h
  · rename_i pfx after heq
    have hs := splitAtChar_eq _ _ _ _ heq
    have hl : (scanWord T (c :: cs)).1.length = pfx.length + (1 + after.length) := by
      rw [hs]; simp; omega
    split at h
    · have := readField_shrink T _ _ _ _ h
      simp only [List.length_append] at this
      omega
    · cases h; omega
  · cases h; omega

theorem lexStep_cons (T : Tables) (c : Char) (cs : Str) :
    lexStep T (c :: cs) =
      if T.isWs c then .ok (none, cs)
      else if c = '(' then .ok (some .lparen, cs)
      else if c = ')' then .ok (some .rparen, cs)
      else if c = '"' then
        match splitAtChar '"' cs with
        | none => .error .unterminatedQuote
        | some (v, rest) => .ok (some (.phrase v), rest)
      else match readFieldOrWord T (c :: cs) with
        | .error e => .error e
        | .ok (t, rest) => .ok (some t, rest) := rfl

theorem lexStep_shrink (T : Tables) (c : Char) (cs : Str) (t : Option Token) (rest : Str)
    (h : lexStep T (c :: cs) = .ok (t, rest)) : rest.length ≤ cs.length := by
  rw [lexStep_cons] at h
  split at h
  · cases h; omega
  · rename_i hws
    split at h
    · cases h; omega
    · rename_i hl
      split at h
      · cases h; omega
      · rename_i hr
        split at h
        · split at h
          · cases h
          · rename_i v rest' heq
            cases h
            have := splitAtChar_eq _ _ _ _ heq
            subst this; simp only [List.length_append, List.length_cons]; omega
        · split at h
          · cases h
          · rename_i t' rest' heq
            cases h
            refine readFieldOrWord_shrink T c cs ?_ t' rest heq
            simp only [isBreak, Bool.or_eq_false_iff, beq_eq_false_iff_ne, ne_eq]
            exact ⟨⟨by simpa using hws, hl⟩, hr⟩

theorem readField_ne_fuel (T : Tables) (f rem : Str) : readField T f rem ≠ .error .fuel := by
  unfold readField
  split
  · intro h; cases h
  · split
    · split <;> (intro h; cases h)
    · split
      · unfold readDateRange
        split
        · intro h; cases h
        · split
          · split <;> (intro h; cases h)
          · intro h; cases h
      · intro h; cases h

theorem lexStep_ne_fuel (T : Tables) (s : Str) : lexStep T s ≠ .error .fuel := by
  cases s with
  | nil => intro h; cases h
  | cons c cs =>
  rw [lexStep_cons]
  · split
    · intro h; cases h
    · split
      · intro h; cases h
      · split
        · intro h; cases h
        · split
          · split <;> (intro h; cases h)
          · split
            · rename_i e heq
              intro h
              injection h with h; subst h
              unfold readFieldOrWord at heq
              split at heq
              · split at heq
                · exact readField_ne_fuel T _ _ heq
                · cases heq
              · cases heq
            · intro h; cases h

/-- any two sufficient fuels give the same token list -/
theorem lexAux_fuel (T : Tables) : ∀ (n m : Nat) (s : Str), s.length < n → s.length < m →
    lexAux T n s = lexAux T m s := by
  intro n
  induction n with
  | zero => intro m s h; omega
  | succ n ih =>
    intro m s hn hm
    cases m with
    | zero => omega
    | succ m =>
      cases s with
      | nil => rfl
      | cons c cs =>
        simp only [lexAux]
        cases hstep : lexStep T (c :: cs) with
        | error e => rfl
        | ok p =>
          obtain ⟨t, rest⟩ := p
          have := lexStep_shrink T c cs t rest hstep
          simp only [List.length_cons] at hn hm
          simp only [ih m rest (by omega) (by omega)]

/-- `tokenize` terminates: the model's fuel error is unreachable -/
theorem lexAux_ne_fuel (T : Tables) : ∀ (n : Nat) (s : Str), s.length < n → lexAux T n s ≠ .error .fuel := by
  intro n
  induction n with
  | zero => intro s h; omega
  | succ n ih =>
    intro s hn
    cases s with
    | nil => intro h; cases h
    | cons c cs =>
      simp only [lexAux]
      cases hstep : lexStep T (c :: cs) with
      | error e =>
        intro h; injection h with h; subst h
        exact lexStep_ne_fuel T _ hstep
      | ok p =>
        obtain ⟨t, rest⟩ := p
        have hl := lexStep_shrink T c cs t rest hstep
        simp only [List.length_cons] at hn
        have := ih rest (by omega)
        simp only []
        cases hr : lexAux T n rest with
        | error e => intro h; injection h with h; subst h; exact this hr
        | ok ts => intro h; cases h

theorem lex_ne_fuel (T : Tables) (s : Str) : lex T s ≠ .error .fuel :=
  lexAux_ne_fuel T _ s (Nat.lt_succ_self _)

theorem lex_nil (T : Tables) : lex T [] = .ok [] := rfl

/-- fuel-free unfolding of `tokenize` -/
theorem lex_cons (T : Tables) (c : Char) (cs : Str) :
    lex T (c :: cs) =
      match lexStep T (c :: cs) with
      | .error e => .error e
      | .ok (t, rest) =>
        match lex T rest with
        | .error e => .error e
        | .ok ts => .ok (consOpt t ts) := by
  unfold lex
  simp only [List.length_cons, lexAux]
  cases hstep : lexStep T (c :: cs) with
  | error e => rfl
  | ok p =>
    obtain ⟨t, rest⟩ := p
    have := lexStep_shrink T c cs t rest hstep
    simp only []
    rw [lexAux_fuel T (cs.length + 1) (rest.length + 1) rest (by omega) (by omega)]
    rfl

/-! ### how printed pieces are tokenised -/

/-- what may follow a printed piece: the end of the text or the separating space -/
def EndOk (rest : Str) : Prop := rest = [] ∨ ∃ r, rest = ' ' :: r

/-- the piece of text `piece`, followed by the end or a space, is read as the token `tok` -/
def LexesTo (T : Tables) (piece : Str) (tok : Token) : Prop :=
  piece ≠ [] ∧ ∀ rest, EndOk rest → lexStep T (piece ++ rest) = .ok (some tok, rest)

def LexAll (T : Tables) : List Str → List Token → Prop
  | [], [] => True
  | s :: ss, t :: ts => LexesTo T s t ∧ LexAll T ss ts
  | _, _ => False

theorem LexAll.append {T : Tables} : ∀ {a : List Str} {b : List Token} {c : List Str} {d : List Token},
    LexAll T a b → LexAll T c d → LexAll T (a ++ c) (b ++ d) := by
  intro a
  induction a with
  | nil => intro b c d h1 h2; cases b with
    | nil => simpa using h2
    | cons _ _ => exact absurd h1 id
  | cons s ss ih => intro b c d h1 h2; cases b with
    | nil => exact absurd h1 id
    | cons t ts => exact ⟨h1.1, ih h1.2 h2⟩

theorem LexAll.single {T : Tables} {s : Str} {t : Token} (h : LexesTo T s t) : LexAll T [s] [t] := ⟨h, trivial⟩

theorem lexStep_space (T : Tables) (hT : T.Sane) (r : Str) : lexStep T (' ' :: r) = .ok (none, r) := by
  rw [lexStep_cons]; simp only [hT.ws_space, if_true]

/-- tokenising a text made of pieces separated by single spaces -/
theorem lex_joinSp (T : Tables) (hT : T.Sane) : ∀ (ss : List Str) (ts : List Token), LexAll T ss ts →
    lex T (joinSp ss) = .ok ts := by
  intro ss
  induction ss with
  | nil => intro ts h; cases ts with
    | nil => rfl
    | cons _ _ => exact absurd h id
  | cons s ss ih =>
    intro ts h
    cases ts with
    | nil => exact absurd h id
    | cons t ts =>
      obtain ⟨⟨hne, hstep⟩, hrest⟩ := h
      obtain ⟨c, cs, rfl⟩ := List.exists_cons_of_ne_nil hne
      cases ss with
      | nil =>
        cases ts with
        | cons _ _ => exact absurd hrest id
        | nil =>
          have := hstep [] (Or.inl rfl)
          simp only [List.append_nil] at this
          simp only [joinSp]
          rw [lex_cons, this]
          simp only [lex_nil, consOpt]
      | cons s2 ss2 =>
        have := hstep (' ' :: joinSp (s2 :: ss2)) (Or.inr ⟨_, rfl⟩)
        have hj : joinSp ((c :: cs) :: s2 :: ss2) = (c :: cs) ++ ' ' :: joinSp (s2 :: ss2) := rfl
        rw [hj]
        simp only [List.cons_append] at this ⊢
        rw [lex_cons, this]
        simp only []
        rw [lex_cons, lexStep_space T hT]
        simp only []
        rw [ih ts hrest]
        rfl

/-- visible ASCII other than the parentheses never ends a word -/
theorem graphic_not_break (T : Tables) (hT : T.Sane) (c : Char) (h1 : 33 ≤ c.toNat) (h2 : c.toNat ≤ 126)
    (hl : c ≠ '(') (hr : c ≠ ')') : isBreak T c = false := by
  simp only [isBreak, Bool.or_eq_false_iff, beq_eq_false_iff_ne, ne_eq]
  exact ⟨⟨hT.ws_graphic c h1 h2, hl⟩, hr⟩

theorem space_break (T : Tables) (hT : T.Sane) : isBreak T ' ' = true := by
  simp [isBreak, hT.ws_space]

theorem scanWord_piece (T : Tables) (hT : T.Sane) (w rest : Str) (hw : ∀ c ∈ w, isBreak T c = false)
    (hr : EndOk rest) : scanWord T (w ++ rest) = (w, rest) := by
  rw [scanWord_prefix T w rest hw, scanWord_stop T rest]
  · simp
  · rcases hr with rfl | ⟨r, rfl⟩
    · exact Or.inl rfl
    · exact Or.inr ⟨' ', r, rfl, space_break T hT⟩

/-- a piece that starts with a character which is not whitespace, parenthesis or quote is handed
    to `read_field_or_word` -/
theorem lexStep_word_start (T : Tables) (c : Char) (cs : Str) (hb : isBreak T c = false) (hq : c ≠ '"') :
    lexStep T (c :: cs) =
      match readFieldOrWord T (c :: cs) with
      | .error e => .error e
      | .ok (t, rest) => .ok (some t, rest) := by
  simp only [isBreak, Bool.or_eq_false_iff, beq_eq_false_iff_ne, ne_eq] at hb
  rw [lexStep_cons]
  simp only [hb.1.1, Bool.false_eq_true, if_false, hb.1.2, hb.2, hq]

theorem lexesTo_lparen (T : Tables) (hT : T.Sane) : LexesTo T ['('] .lparen := by
  refine ⟨by simp, fun rest _ => ?_⟩
  simp only [List.singleton_append]
  rw [lexStep_cons]
  simp only [hT.ws_graphic '(' (by decide) (by decide), Bool.false_eq_true, if_false, if_true]

theorem lexesTo_rparen (T : Tables) (hT : T.Sane) : LexesTo T [')'] .rparen := by
  refine ⟨by simp, fun rest _ => ?_⟩
  simp only [List.singleton_append]
  rw [lexStep_cons]
  have : ¬ (')' = '(') := by decide
  simp only [hT.ws_graphic ')' (by decide) (by decide), Bool.false_eq_true, if_false, this, if_true]

/-- a bare piece without break characters, not starting with a quote, whose text before the
    first colon is not a known field name, is read by the keyword table -/
theorem lexStep_bare (T : Tables) (hT : T.Sane) (w rest : Str) (hne : w ≠ [])
    (hw : ∀ c ∈ w, isBreak T c = false) (hq : w.head? ≠ some '"')
    (hf : ∀ pfx after, splitAtChar ':' w = some (pfx, after) → KNOWN_FIELDS.contains (lower pfx) = false)
    (hr : EndOk rest) : lexStep T (w ++ rest) = .ok (some (keywordOrWord w), rest) := by
  obtain ⟨c, cs, rfl⟩ := List.exists_cons_of_ne_nil hne
  have hc : isBreak T c = false := hw c (List.mem_cons_self ..)
  have hcq : c ≠ '"' := by intro h; apply hq; simp [h]
  simp only [List.cons_append]
  rw [lexStep_word_start T c _ hc hcq]
  have hs : scanWord T (c :: (cs ++ rest)) = (c :: cs, rest) := by
    have := scanWord_piece T hT (c :: cs) rest hw hr
    simpa using this
  have hrf : readFieldOrWord T (c :: (cs ++ rest)) = .ok (keywordOrWord (c :: cs), rest) := by
    unfold readFieldOrWord
    rw [hs]
    simp only []
    split
    · rename_i pfx after heq
      simp only [hf pfx after heq, Bool.false_eq_true, if_false]
    · rfl
  rw [hrf]

theorem lexesTo_and (T : Tables) (hT : T.Sane) : LexesTo T ['A','N','D'] .and := by
  refine ⟨by simp, fun rest hr => ?_⟩
  have := lexStep_bare T hT ['A','N','D'] rest (by simp)
    (by intro c hc; simp only [List.mem_cons, List.not_mem_nil, or_false] at hc
        rcases hc with rfl | rfl | rfl <;> exact graphic_not_break T hT _ (by decide) (by decide) (by decide) (by decide))
    (by decide) (by intro pfx after h; rw [splitAtChar_none ':' _ (by decide)] at h; cases h) hr
  rw [this]; rfl

theorem lexesTo_or (T : Tables) (hT : T.Sane) : LexesTo T ['O','R'] .or := by
  refine ⟨by simp, fun rest hr => ?_⟩
  have := lexStep_bare T hT ['O','R'] rest (by simp)
    (by intro c hc; simp only [List.mem_cons, List.not_mem_nil, or_false] at hc
        rcases hc with rfl | rfl <;> exact graphic_not_break T hT _ (by decide) (by decide) (by decide) (by decide))
    (by decide) (by intro pfx after h; rw [splitAtChar_none ':' _ (by decide)] at h; cases h) hr
  rw [this]; rfl

theorem lexesTo_not (T : Tables) (hT : T.Sane) : LexesTo T ['N','O','T'] .not := by
  refine ⟨by simp, fun rest hr => ?_⟩
  have := lexStep_bare T hT ['N','O','T'] rest (by simp)
    (by intro c hc; simp only [List.mem_cons, List.not_mem_nil, or_false] at hc
        rcases hc with rfl | rfl | rfl <;> exact graphic_not_break T hT _ (by decide) (by decide) (by decide) (by decide))
    (by decide) (by intro pfx after h; rw [splitAtChar_none ':' _ (by decide)] at h; cases h) hr
  rw [this]; rfl

theorem WordOK.ne_nil {T : Tables} {w : Str} (h : WordOK T w) : w ≠ [] := by
  obtain ⟨_, _, _, _, ⟨a, ha, _⟩, _⟩ := h
  intro h0; subst h0; simp [lower] at ha

theorem lexesTo_word (T : Tables) (hT : T.Sane) (w : Str) (h : WordOK T w) : LexesTo T w (.word w) := by
  refine ⟨h.ne_nil, fun rest hr => ?_⟩
  rw [lexStep_bare T hT w rest h.ne_nil (fun c hc => (h.1 c hc).1) h.2.1 h.2.2.2.1 hr, h.2.2.1]

theorem lexesTo_phrase (T : Tables) (hT : T.Sane) (p : Str) (h : '"' ∉ p) :
    LexesTo T (['"'] ++ p ++ ['"']) (.phrase p) := by
  refine ⟨by simp, fun rest _ => ?_⟩
  simp only [List.cons_append, List.append_assoc, List.nil_append]
  rw [lexStep_cons]
  have h1 : ¬ ('"' = '(') := by decide
  have h2 : ¬ ('"' = ')') := by decide
  simp only [hT.ws_graphic '"' (by decide) (by decide), Bool.false_eq_true, if_false, h1, h2, if_true,
    splitAtChar_append '"' p rest h]

/-! ### `field:value` pieces -/

theorem fieldName_ne_date' (k : FieldKind) : (fieldName k = DATE_FIELD) = False := by
  cases k <;> decide

/-- what is needed of a (concrete) field name: visible ASCII letters, none of the special
    characters, already lower case -/
def NameOK (name : Str) : Prop :=
  name ≠ [] ∧ (∀ c ∈ name, 33 ≤ c.toNat ∧ c.toNat ≤ 126 ∧ c ≠ '(' ∧ c ≠ ')' ∧ c ≠ ':' ∧ c ≠ '"') ∧
  lower name = name ∧ KNOWN_FIELDS.contains name = true

instance (name : Str) : Decidable (NameOK name) := by unfold NameOK; infer_instance

theorem nameOK_field (k : FieldKind) : NameOK (fieldName k) := by cases k <;> decide
theorem nameOK_date : NameOK DATE_FIELD := by decide

/-- `name:` followed by anything is handed to `read_field` with the text after the colon -/
theorem lexStep_field (T : Tables) (hT : T.Sane) (name tail : Str) (hn : NameOK name) :
    lexStep T (name ++ ':' :: tail) =
      match readField T name tail with
      | .error e => .error e
      | .ok (t, rest) => .ok (some t, rest) := by
  obtain ⟨hne, hch, hlow, hknown⟩ := hn
  obtain ⟨c, cs, rfl⟩ := List.exists_cons_of_ne_nil hne
  have hbreak : ∀ d ∈ (c :: cs) ++ [':'], isBreak T d = false := by
    intro d hd
    rw [List.mem_append] at hd
    rcases hd with hd | hd
    · obtain ⟨h1, h2, h3, h4, _, _⟩ := hch d hd
      exact graphic_not_break T hT d h1 h2 h3 h4
    · simp only [List.mem_singleton] at hd; subst hd
      exact graphic_not_break T hT ':' (by decide) (by decide) (by decide) (by decide)
  have hc := hch c (List.mem_cons_self ..)
  have hcolon : ':' ∉ c :: cs := fun hm => (hch ':' hm).2.2.2.2.1 rfl
  have hs : scanWord T (c :: cs ++ ':' :: tail) =
      ((c :: cs) ++ ':' :: (scanWord T tail).1, (scanWord T tail).2) := by
    have := scanWord_prefix T ((c :: cs) ++ [':']) tail hbreak
    simpa [List.append_assoc] using this
  have hrf : readFieldOrWord T (c :: cs ++ ':' :: tail) = readField T (c :: cs) tail := by
    unfold readFieldOrWord
    rw [hs]
    simp only []
    rw [splitAtChar_append ':' (c :: cs) _ hcolon]
    simp only [hlow, hknown, if_true, scanWord_append_eq]
  have hb : isBreak T c = false := graphic_not_break T hT c hc.1 hc.2.1 hc.2.2.1 hc.2.2.2.1
  have := lexStep_word_start T c (cs ++ ':' :: tail) hb hc.2.2.2.2.2
  simp only [List.cons_append] at this hrf ⊢
  rw [this, hrf]

theorem lexesTo_field_bare (T : Tables) (hT : T.Sane) (k : FieldKind) (v : Str)
    (hq : '"' ∉ v) (hv : ∀ c ∈ v, isBreak T c = false) :
    LexesTo T (fieldName k ++ [':'] ++ v) (.field (fieldName k) v) := by
  refine ⟨by cases k <;> simp [fieldName], fun rest hr => ?_⟩
  simp only [List.append_assoc, List.cons_append, List.nil_append]
  rw [lexStep_field T hT (fieldName k) (v ++ rest) (nameOK_field k)]
  have : readField T (fieldName k) (v ++ rest) = .ok (.field (fieldName k) v, rest) := by
    cases v with
    | nil =>
      rcases hr with rfl | ⟨r, rfl⟩
      · rfl
      · simp only [List.nil_append, readField]
        have h1 : ¬ (' ' = '"') := by decide
        have h2 : ¬ (' ' = '[') := by decide
        simp only [h1, if_false, h2, false_and, scanWord_stop T (' ' :: r) (Or.inr ⟨' ', r, rfl, space_break T hT⟩)]
    | cons c cs =>
      have hcq : c ≠ '"' := fun h => hq (h ▸ List.mem_cons_self ..)
      simp only [List.cons_append, readField, hcq, if_false, fieldName_ne_date' k, and_false]
      have := scanWord_piece T hT (c :: cs) rest hv hr
      simp only [List.cons_append] at this
      rw [this]
  rw [this]

theorem lexesTo_field_quoted (T : Tables) (hT : T.Sane) (k : FieldKind) (v : Str) (hq : '"' ∉ v) :
    LexesTo T (fieldName k ++ [':', '"'] ++ v ++ ['"']) (.field (fieldName k) v) := by
  refine ⟨by cases k <;> simp [fieldName], fun rest _ => ?_⟩
  simp only [List.append_assoc, List.cons_append, List.nil_append]
  rw [lexStep_field T hT (fieldName k) _ (nameOK_field k)]
  simp only [readField, if_true, splitAtChar_append '"' v rest hq]

/-! ### `date:[a TO b]` -/

theorem splitWsAux_word (T : Tables) (w rest cur : Str) (hw : ∀ c ∈ w, T.isWs c = false) :
    splitWsAux T (w ++ rest) cur = splitWsAux T rest (w.reverse ++ cur) := by
  induction w generalizing cur with
  | nil => rfl
  | cons c cs ih =>
    have hc : T.isWs c = false := hw c (List.mem_cons_self ..)
    simp only [List.cons_append, splitWsAux, hc, Bool.false_eq_true, if_false]
    rw [ih (c :: cur) (fun d hd => hw d (List.mem_cons_of_mem _ hd))]
    simp

theorem splitWs_three (T : Tables) (hT : T.Sane) (a m b : Str)
    (ha : a ≠ []) (hm : m ≠ []) (hb : b ≠ [])
    (haw : ∀ c ∈ a, T.isWs c = false) (hmw : ∀ c ∈ m, T.isWs c = false) (hbw : ∀ c ∈ b, T.isWs c = false) :
    splitWs T (a ++ ' ' :: (m ++ ' ' :: b)) = [a, m, b] := by
  have e1 : ∀ x : Str, x ≠ [] → x.reverse.isEmpty = false := by
    intro x hx; cases x with
    | nil => exact absurd rfl hx
    | cons _ _ => simp
  unfold splitWs
  rw [splitWsAux_word T a _ [] haw]
  simp only [List.append_nil, splitWsAux, hT.ws_space, if_true, e1 a ha, Bool.false_eq_true, if_false, List.reverse_reverse]
  rw [splitWsAux_word T m _ [] hmw]
  simp only [List.append_nil, splitWsAux, hT.ws_space, if_true, e1 m hm, Bool.false_eq_true, if_false, List.reverse_reverse]
  have := splitWsAux_word T b [] [] hbw
  simp only [List.append_nil] at this
  rw [this]
  simp only [splitWsAux, e1 b hb, Bool.false_eq_true, if_false, List.reverse_reverse]

theorem rangeSep_ok : RANGE_SEP ≠ [] ∧ (∀ c ∈ RANGE_SEP, 33 ≤ c.toNat ∧ c.toNat ≤ 126 ∧ c ≠ ']') := by decide

theorem lexesTo_date (T : Tables) (hT : T.Sane) (s e : Str) (hs : BoundOK T s) (he : BoundOK T e) :
    LexesTo T (renderToken (.dateRange DATE_FIELD s e)) (.dateRange DATE_FIELD s e) := by
  refine ⟨by simp [renderToken, DATE_FIELD], fun rest _ => ?_⟩
  simp only [renderToken, List.append_assoc, List.cons_append, List.nil_append]
  rw [lexStep_field T hT DATE_FIELD _ nameOK_date]
  have h1 : ¬ ('[' = '"') := by decide
  simp only [readField, h1, if_false, and_self, if_true]
  have hsep : ∀ c ∈ RANGE_SEP, T.isWs c = false := fun c hc =>
    hT.ws_graphic c (rangeSep_ok.2 c hc).1 (rangeSep_ok.2 c hc).2.1
  have hclose : ']' ∉ s ++ ' ' :: (RANGE_SEP ++ ' ' :: e) := by
    intro hm
    simp only [List.mem_append, List.mem_cons] at hm
    rcases hm with hm | hm | hm | hm | hm
    · exact (hs.2 _ hm).2 rfl
    · exact absurd hm (by decide)
    · exact (rangeSep_ok.2 _ hm).2.2 rfl
    · exact absurd hm (by decide)
    · exact (he.2 _ hm).2 rfl
  have : s ++ ' ' :: (RANGE_SEP ++ ' ' :: (e ++ ']' :: rest)) = (s ++ ' ' :: (RANGE_SEP ++ ' ' :: e)) ++ ']' :: rest := by
    simp [List.append_assoc]
  rw [this]
  unfold readDateRange
  rw [splitAtChar_append ']' _ rest hclose]
  simp only []
  rw [splitWs_three T hT s RANGE_SEP e hs.1 rangeSep_ok.1 he.1 (fun c hc => (hs.2 c hc).1) hsep (fun c hc => (he.2 c hc).1)]
  simp only [if_true]

/-! ### the printed form of an AST is tokenised as its token form -/

theorem lexAll_leafs (T : Tables) (hT : T.Sane) (a : Ast) (hwf : a.WF T)
    (hleaf : match a with | .not _ => False | .and _ _ _ => False | .or _ _ => False | _ => True) :
    LexesTo T (leafText a) (leafToken a) := by
  cases a with
  | word w => exact lexesTo_word T hT w hwf
  | phrase p => exact lexesTo_phrase T hT p hwf
  | field k q v =>
    cases q with
    | true =>
      have := lexesTo_field_quoted T hT k v hwf.1
      simpa [leafText, leafToken, List.append_assoc] using this
    | false =>
      have := lexesTo_field_bare T hT k v hwf.1 (hwf.2 rfl)
      simpa [leafText, leafToken, renderToken, List.append_assoc] using this
  | date s e => exact lexesTo_date T hT s e hwf.1 hwf.2
  | not a => exact absurd hleaf id
  | and ex a b => exact absurd hleaf id
  | or a b => exact absurd hleaf id

theorem lexAll_print (T : Tables) (hT : T.Sane) : ∀ (a : Ast), a.WF T → ∀ p, LexAll T (printToks p a) (toks p a) := by
  intro a
  induction a with
  | word w => intro h p; simpa [printToks, toks] using LexAll.single (lexAll_leafs T hT _ h trivial)
  | phrase w => intro h p; simpa [printToks, toks] using LexAll.single (lexAll_leafs T hT _ h trivial)
  | field k q v => intro h p; simpa [printToks, toks] using LexAll.single (lexAll_leafs T hT _ h trivial)
  | date s e => intro h p; simpa [printToks, toks] using LexAll.single (lexAll_leafs T hT _ h trivial)
  | not x ih =>
    intro h p
    simp only [printToks, toks]
    exact ⟨lexesTo_not T hT, ih h 2⟩
  | and ex x y ihx ihy =>
    intro h p
    have body : LexAll T (printToks 1 x ++ (if ex then [['A','N','D']] else []) ++ printToks 2 y)
        (toks 1 x ++ (if ex then [.and] else []) ++ toks 2 y) := by
      refine LexAll.append (LexAll.append (ihx h.1 1) ?_) (ihy h.2 2)
      cases ex
      · trivial
      · exact LexAll.single (lexesTo_and T hT)
    simp only [printToks, toks]
    split
    · exact body
    · exact LexAll.append (LexAll.append (LexAll.single (lexesTo_lparen T hT)) body) (LexAll.single (lexesTo_rparen T hT))
  | or x y ihx ihy =>
    intro h p
    have body : LexAll T (printToks 0 x ++ [['O','R']] ++ printToks 1 y) (toks 0 x ++ [.or] ++ toks 1 y) :=
      LexAll.append (LexAll.append (ihx h.1 0) (LexAll.single (lexesTo_or T hT))) (ihy h.2 1)
    simp only [printToks, toks]
    split
    · exact body
    · exact LexAll.append (LexAll.append (LexAll.single (lexesTo_lparen T hT)) body) (LexAll.single (lexesTo_rparen T hT))

/-- the lexer reads the printed query of a well-formed AST as its token form -/
theorem lex_print (T : Tables) (hT : T.Sane) (a : Ast) (h : a.WF T) : lex T (print a) = .ok (toks 0 a) :=
  lex_joinSp T hT _ _ (lexAll_print T hT a h 0)

end Mv.Query
