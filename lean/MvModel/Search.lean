/-
  C10 — model of the part of `Memvid::search` that turns engine answers into `SearchHit`s.

  Mirrors
    src/memvid/search/mod.rs       Memvid::search            (parse, term check, dispatch)
    src/memvid/search/tantivy.rs   try_tantivy_search        (everything after `search_documents`)
                                   uri_matches
    src/memvid/search/fallback.rs  search_with_filters_only
    src/memvid/search/helpers.rs   collect_token_occurrences, empty_search_response
  and reuses  MvModel/Query.lean   (parse_query, Expr::evaluate, collect_tokens      — property C32)
              MvModel/Snippet.lean (compute_snippet_slices, repaired variant         — property C35)
              MvModel/Page.lean    (parse_cursor; the C16 model of the assembly loop — `asm_eq_page`
                                    in MvProps/C10.lean ties the two loop models together)
              MvModel/Filter.lean  (`Stage`: outcome of the candidate-filter stages  — property C11).

  What is an INPUT here (arbitrary in every theorem):
    * the engine's answer `engine : Option (List Nat)` — the frame ids `search_documents` returned,
      in its order; `none` = no engine attached or the call failed (`Ok(None)`).  Nothing at all is
      assumed about it: stale ids, ids of deleted frames, duplicates, non-matching documents.
    * `analyse` — Tantivy's analyser (stemmer) applied to one query token,
    * `rerank`  — the recency re-sort (f32 arithmetic),
    * per frame: the result of `resolve_chunk_context` (`chunk`) and of `frame_search_text`
      (`fsText`), the frame table itself,
    * the outcome of the candidate-filter computation (`Filter.Stage`).
  The legacy `LexIndex` engine (`search_with_lex_fallback`) is NOT modelled: nothing in a default
  build constructs a `LexIndex`, so that path ends in `LexNotEnabled`; `lexLoaded = true` yields
  `Err.unmodelled`.

  `Variant` says which tree is modelled (filled in from the source by tools/gen/C10.py):
  the tree as found re-checks no frame status and `search_with_filters_only` ignores
  `request.uri` / `request.scope`; with /verif/fixes/C10.diff all three flags are `true`.

  Text: `Str = List Char` (as in Query.lean); byte offsets refer to `utf8 text`.
  `frame.id` = position in `toc.frames` (property C06), so the table is a `List Frame`.
-/
import MvModel.Query
import MvModel.Snippet
import MvModel.Page
import MvModel.Filter
import MvModel.Gen.C10
namespace Mv.Search
open Mv.Query (Str Tables Cfg Expr lower)

/-! ### UTF-8 -/

/-- `char::encode_utf8` -/
def encChar (c : Char) : Bytes :=
  let n := c.toNat
  if n < 0x80 then [UInt8.ofNat n]
  else if n < 0x800 then [UInt8.ofNat (0xC0 + n / 64), UInt8.ofNat (0x80 + n % 64)]
  else if n < 0x10000 then
    [UInt8.ofNat (0xE0 + n / 4096), UInt8.ofNat (0x80 + n / 64 % 64), UInt8.ofNat (0x80 + n % 64)]
  else
    [UInt8.ofNat (0xF0 + n / 262144), UInt8.ofNat (0x80 + n / 4096 % 64),
     UInt8.ofNat (0x80 + n / 64 % 64), UInt8.ofNat (0x80 + n % 64)]

/-- the bytes of a `String` -/
def utf8 (s : Str) : Bytes := s.flatMap encChar

/-- `&bytes[a..b]` -/
def extract (b : Bytes) (a e : Nat) : Bytes := (b.drop a).take (e - a)

/-! ### Data -/

inductive Status | active | superseded | deleted
deriving DecidableEq, Repr

/-- `ChunkInfo`: `end = start + rawLen` where `rawLen` is the length of the stored bytes and
    `text` their `String::from_utf8_lossy` (identical for valid UTF-8) -/
structure Chunk where
  start : Nat
  rawLen : Nat
  text : Str
deriving DecidableEq, Repr

structure Frame where
  uri : Option Str
  track : Option Str
  tags : List Str
  labels : List Str
  timestamp : Int
  contentDates : List Str
  searchText : Option Str
  status : Status
  /-- `resolve_chunk_context(frame)`; `none` = `Err` -/
  chunk : Option Chunk
  /-- `frame_search_text(frame)`; `none` = `Err` -/
  fsText : Option Str

structure Request where
  topK : Nat
  snippetChars : Nat
  uri : Option Str
  scope : Option Str
  cursor : Option String

structure Variant where
  tantivySkipsInactive : Bool
  filtersSkipsInactive : Bool
  filtersUriScope : Bool
deriving DecidableEq, Repr

/-- the tree the check runs on -/
def variantGen : Variant :=
  { tantivySkipsInactive := Mv.Gen.C10.TANTIVY_SKIPS_INACTIVE,
    filtersSkipsInactive := Mv.Gen.C10.FILTERS_SKIPS_INACTIVE,
    filtersUriScope := Mv.Gen.C10.FILTERS_URI_SCOPE }

/-- the tree with /verif/fixes/C10.diff -/
def repaired : Variant := ⟨true, true, true⟩
/-- the tree as found -/
def found : Variant := ⟨false, false, false⟩

def MIN_WINDOW : Nat := Mv.Gen.C10.MIN_SNIPPET_WINDOW
def MIN_LIMIT : Nat := Mv.Gen.C10.MIN_SNIPPET_LIMIT
def TOP_K_FLOOR : Nat := Mv.Gen.C10.TOP_K_FLOOR

inductive EngineKind | tantivy | lexFallback
deriving DecidableEq, Repr

structure Hit where
  rank : Nat
  frame : Nat
  range : Nat × Nat
  text : Bytes
  nmatch : Nat
  chunkRange : Nat × Nat
  chunkText : Bytes
deriving DecidableEq, Repr

structure Response where
  hits : List Hit
  totalHits : Nat
  nextCursor : Option Nat
  engine : EngineKind
  staleSkips : Nat
deriving DecidableEq, Repr

inductive Err
  | invalidQuery (e : Mv.Query.Err)
  /-- "query must include at least one search term or field filter" -/
  | noTerms
  | lexNotEnabled
  | cursor (e : Mv.Page.CursorErr)
  /-- `frame_search_text` failed inside `search_with_filters_only` -/
  | frameText
  /-- `compute_snippet_slices` panicked (excluded by C35 for valid inputs) -/
  | panic
  /-- a legacy `LexIndex` is loaded: `search_with_lex_fallback` is outside this model -/
  | unmodelled
deriving DecidableEq, Repr

/-- the black boxes -/
structure Box where
  T : Tables
  cfg : Cfg
  /-- `engine.analyse_text(token)` -/
  analyse : Str → List Str
  /-- the recency re-sort of `evaluated` (a permutation computed with f32 arithmetic) -/
  rerank : {α : Type} → List α → List α

/-- `empty_search_response` -/
def emptyResponse (k : EngineKind) : Response :=
  { hits := [], totalHits := 0, nextCursor := none, engine := k, staleSkips := 0 }

/-! ### uri / scope filter -/

/-- `uri_matches` -/
def uriMatches (candidate : Option Str) (expected : Str) : Bool :=
  match candidate with
  | none => false
  | some uri =>
    if expected.contains '#' then lower uri == lower expected
    else (lower expected).isPrefixOf (lower uri)

def uriFilter (r : Request) : Option Str := r.uri
/-- `if uri_filter.is_some() { None } else { request.scope }` -/
def scopeFilter (r : Request) : Option Str := if r.uri.isSome then none else r.scope

/-- the `if let Some(uri_expected) = uri_filter { … } else if let Some(scope) = scope_filter { … }`
    block: `true` = the frame is kept -/
def passesUriScope (r : Request) (f : Frame) : Bool :=
  match uriFilter r with
  | some u => uriMatches f.uri u
  | none =>
    match scopeFilter r with
    | some s =>
      (match f.uri with
       | some x => s.isPrefixOf x
       | none => false)
    | none => true

/-! ### query tokens -/

/-- `String` ordering (`Ord for str`: lexicographic on bytes = on code points) -/
def strLe : Str → Str → Bool
  | [], _ => true
  | _ :: _, [] => false
  | a :: as, b :: bs => a.toNat < b.toNat || (a.toNat == b.toNat && strLe as bs)

def insertStr (x : Str) : List Str → List Str
  | [] => [x]
  | y :: ys => if x = y then y :: ys else if strLe x y then x :: y :: ys else y :: insertStr x ys

/-- `.collect::<BTreeSet<_>>().into_iter().collect()` -/
def toSortedSet (l : List Str) : List Str := l.foldr insertStr []

/-- `parsed.text_tokens()`, blank tokens dropped, lower-cased, sorted, de-duplicated -/
def queryTokens (T : Tables) (e : Expr) : List Str :=
  toSortedSet ((e.tokens.filter (fun t => !(Mv.Query.trimBoth T.isWs t).isEmpty)).map lower)

mutual
/-- `Expr::contains_field_terms` -/
def hasFieldTerms : Expr → Bool
  | .or l => anyFieldTerms l
  | .and l => anyFieldTerms l
  | .not e => hasFieldTerms e
  | .term (.field _ _) => true
  | .term (.date _ _) => true
  | .term _ => false
def anyFieldTerms : List Expr → Bool
  | [] => false
  | e :: es => hasFieldTerms e || anyFieldTerms es
end

/-! ### collect_token_occurrences -/

/-- `haystack.find(needle)` for a non-empty needle; `pos` = offset of the first byte of `hay` -/
def findIn (needle : Bytes) : Bytes → Nat → Option Nat
  | [], _ => none
  | b :: rest, pos => if needle.isPrefixOf (b :: rest) then some pos else findIn needle rest (pos + 1)

/-- the `while let Some(pos) = content_lower[start..].find(needle)` loop; `rem = content[start..]` -/
def occLoop (needle : Bytes) : Nat → Bytes → Nat → List (Nat × Nat)
  | 0, _, _ => []
  | fuel + 1, rem, start =>
    match findIn needle rem start with
    | none => []
    | some abs =>
      let e := abs + needle.length
      (abs, e) :: occLoop needle fuel (rem.drop (e - start)) e

def pairLe (a b : Nat × Nat) : Bool := a.1 < b.1 || (a.1 == b.1 && a.2 ≤ b.2)

def insertPair (x : Nat × Nat) : List (Nat × Nat) → List (Nat × Nat)
  | [] => [x]
  | y :: ys => if pairLe x y then x :: y :: ys else y :: insertPair x ys

/-- `sort_unstable` on pairs (the order is total, so stability is not observable) -/
def sortPairs (l : List (Nat × Nat)) : List (Nat × Nat) := l.foldr insertPair []

/-- `Vec::dedup` -/
def dedupAdj : List (Nat × Nat) → List (Nat × Nat)
  | a :: b :: rest => if a = b then dedupAdj (b :: rest) else a :: dedupAdj (b :: rest)
  | l => l

/-- `collect_token_occurrences(content_lower, tokens)` -/
def collectOcc (T : Tables) (hay : Bytes) (tokens : List Str) : List (Nat × Nat) :=
  dedupAdj (sortPairs (tokens.flatMap fun t =>
    let needle := utf8 (Mv.Query.trimBoth T.isWs t)
    if needle.isEmpty then [] else occLoop needle (hay.length + 1) hay 0))

/-! ### first loop of `try_tantivy_search`: engine hits → `evaluated` -/

def docOf (f : Frame) (content : Str) : Mv.Query.Doc :=
  { content := content, uri := f.uri, track := f.track, tags := f.tags, labels := f.labels,
    timestamp := f.timestamp, contentDates := f.contentDates }

/-- `frame_meta.search_text.map(to_ascii_lowercase).unwrap_or_else(|| chunk_info.text.to_ascii_lowercase())` -/
def evalTextOf (f : Frame) (c : Chunk) : Str :=
  match f.searchText with
  | some s => lower s
  | none => lower c.text

/-- one element of `evaluated` (score and timestamp only feed the re-sort, which is a black box) -/
structure Ev where
  frame : Nat
  occ : List (Nat × Nat)
  slices : List (Nat × Nat)
  chunk : Chunk
deriving DecidableEq, Repr

inductive Step
  | skip | stale | keep (e : Ev) | panic

/-- the body of `for hit in search_hits { … }` -/
def evalHit (B : Box) (V : Variant) (frames : List Frame) (req : Request) (expr : Expr)
    (stems : List Str) (id : Nat) : Step :=
  match frames[id]? with
  | none => .stale
  | some f =>
    if V.tantivySkipsInactive && f.status != .active then .skip
    else if !passesUriScope req f then .skip
    else match f.chunk with
      | none => .skip
      | some c =>
        let evalText := evalTextOf f c
        if !(expr.eval B.T B.cfg (docOf f evalText)) then .skip
        else
          let occ := collectOcc B.T (utf8 evalText) stems
          match Mv.Snippet.compute true (utf8 c.text) occ (max req.snippetChars MIN_WINDOW)
                  (max req.topK TOP_K_FLOOR) with
          | none => .panic
          | some slices =>
            if slices.isEmpty then .skip
            else .keep { frame := id, occ := occ, slices := slices, chunk := c }

/-- `(evaluated, stale_skips)`; `none` = panic -/
def firstLoop (B : Box) (V : Variant) (frames : List Frame) (req : Request) (expr : Expr)
    (stems : List Str) : List Nat → Option (List Ev × Nat)
  | [] => some ([], 0)
  | id :: rest =>
    match evalHit B V frames req expr stems id with
    | .panic => none
    | .skip => firstLoop B V frames req expr stems rest
    | .stale => (firstLoop B V frames req expr stems rest).map fun p => (p.1, p.2 + 1)
    | .keep e => (firstLoop B V frames req expr stems rest).map fun p => (e :: p.1, p.2)

/-! ### assembly loop -/

abbrev St := List Hit × Nat     -- (hits, produced)

/-- `occurrences.iter().filter(|(s, e)| *s >= local_start && *e <= local_end).count().max(1)` -/
def matchesIn (occ : List (Nat × Nat)) (ls le : Nat) : Nat :=
  max (occ.filter (fun p => decide (p.1 ≥ ls) && decide (p.2 ≤ le))).length 1

/-- the `SearchHit { … }` literal -/
def mkHit (e : Ev) (cb : Bytes) (n ls le : Nat) : Hit :=
  { rank := n + 1, frame := e.frame, range := (e.chunk.start + ls, e.chunk.start + le),
    text := extract cb ls le, nmatch := matchesIn e.occ ls le,
    chunkRange := (e.chunk.start, e.chunk.start + e.chunk.rawLen), chunkText := cb }

/-- `for (start, end) in slices { … }`; `cb` = `chunk_text.as_bytes()` -/
def asmInner (e : Ev) (cb : Bytes) (offset k : Nat) : List (Nat × Nat) → St → St
  | [], st => st
  | s :: rest, (hits, produced) =>
    if produced < offset then asmInner e cb offset k rest (hits, produced + 1)
    else if hits.length = k then (hits, produced)                               -- break
    else
      let ls := min s.1 cb.length
      let le := min s.2 cb.length
      if le ≤ ls then asmInner e cb offset k rest (hits, produced + 1)
      else if e.chunk.start + le ≤ e.chunk.start + ls then asmInner e cb offset k rest (hits, produced + 1)
      else asmInner e cb offset k rest (hits ++ [mkHit e cb hits.length ls le], produced + 1)

/-- `for (hit, occurrences, slices, chunk_info, _) in evaluated { … }` -/
def asmOuter (frames : List Frame) (offset k : Nat) : List Ev → St → St
  | [], st => st
  | e :: es, (hits, produced) =>
    if hits.length = k ∧ produced ≥ offset then (hits, produced)                -- break
    else match frames[e.frame]? with
      | none => asmOuter frames offset k es (hits, produced)                    -- stale: continue
      | some _ => asmOuter frames offset k es (asmInner e (utf8 e.chunk.text) offset k e.slices (hits, produced))

def totalSlices (ev : List Ev) : Nat := (ev.map (fun e => e.slices.length)).sum

/-! ### `try_tantivy_search` -/

inductive TOut
  /-- `Ok(None)` -/
  | notHandled
  /-- `search_with_lex_fallback(..)` -/
  | lexFallback
  | done (r : Except Err Response)

/-- the recency re-sort is only applied to two or more results -/
def reranked (B : Box) (evaluated0 : List Ev) : List Ev :=
  if evaluated0.length > 1 then B.rerank evaluated0 else evaluated0

/-- `try_tantivy_search` from `if evaluated.is_empty()` to the end -/
def assemble (frames : List Frame) (req : Request) (evaluated : List Ev) (stale : Nat) : TOut :=
  if evaluated.isEmpty then .lexFallback
  else if totalSlices evaluated = 0 then .lexFallback
  else match Mv.Page.parseCursor req.cursor (totalSlices evaluated) with
    | .error e => .done (.error (.cursor e))
    | .ok offset =>
      .done (.ok { hits := (asmOuter frames offset (max req.topK TOP_K_FLOOR) evaluated ([], 0)).1,
                   totalHits := totalSlices evaluated,
                   nextCursor :=
                     if (asmOuter frames offset (max req.topK TOP_K_FLOOR) evaluated ([], 0)).2 < totalSlices evaluated
                     then some (asmOuter frames offset (max req.topK TOP_K_FLOOR) evaluated ([], 0)).2 else none,
                   engine := .tantivy, staleSkips := stale })

def tryTantivy (B : Box) (V : Variant) (frames : List Frame) (req : Request) (expr : Expr)
    (tokens : List Str) (engine : Option (List Nat)) (hasLexData : Bool) : TOut :=
  match engine with
  | none => .notHandled
  | some searchHits =>
    if searchHits.isEmpty then
      if hasLexData then .lexFallback else .done (.ok (emptyResponse .tantivy))
    else
      match firstLoop B V frames req expr (tokens.flatMap B.analyse) searchHits with
      | none => .done (.error .panic)
      | some (evaluated0, stale) => assemble frames req (reranked B evaluated0) stale

/-! ### `search_with_filters_only` -/

/-- the `for frame in frames { … matches.push((frame.id, frame, search_text)) }` loop over the
    frames the candidate filter lets through; `idx` = `frame.id` of the head -/
def filterMatches (B : Box) (V : Variant) (req : Request) (expr : Expr) (cand : Option (List Nat)) :
    List Frame → Nat → Except Err (List (Nat × Str))
  | [], _ => .ok []
  | f :: rest, idx =>
    if !(Mv.Filter.passes cand idx) then filterMatches B V req expr cand rest (idx + 1)
    else if V.filtersSkipsInactive && f.status != .active then filterMatches B V req expr cand rest (idx + 1)
    else if V.filtersUriScope && !passesUriScope req f then filterMatches B V req expr cand rest (idx + 1)
    else match f.fsText with
      | none => .error .frameText
      | some st =>
        if !(expr.eval B.T B.cfg (docOf f (lower st))) then filterMatches B V req expr cand rest (idx + 1)
        else match filterMatches B V req expr cand rest (idx + 1) with
          | .error e => .error e
          | .ok ms => .ok ((idx, st) :: ms)

/-- the `SearchHit { … }` literal of `search_with_filters_only` -/
def mkFilterHit (n id : Nat) (st : Str) (limit : Nat) : Hit :=
  let snippet := utf8 (st.take limit)
  { rank := n + 1, frame := id, range := (0, snippet.length), text := snippet, nmatch := 1,
    chunkRange := (0, snippet.length), chunkText := snippet }

/-- `for (frame_id, frame, search_text) in matches.into_iter().skip(offset) { … }` -/
def filterAsm (k limit : Nat) : List (Nat × Str) → List Hit → List Hit
  | [], hits => hits
  | (id, st) :: rest, hits =>
    if hits.length = k then hits
    else filterAsm k limit rest (hits ++ [mkFilterHit hits.length id st limit])

def filtersOnly (B : Box) (V : Variant) (frames : List Frame) (req : Request) (expr : Expr)
    (cand : Option (List Nat)) : Except Err Response :=
  match filterMatches B V req expr cand frames 0 with
  | .error e => .error e
  | .ok ms =>
    let total := ms.length
    if total = 0 then .ok (emptyResponse .lexFallback)
    else match Mv.Page.parseCursor req.cursor total with
      | .error e => .error (.cursor e)
      | .ok offset =>
        let hits := filterAsm (max req.topK TOP_K_FLOOR) (max req.snippetChars MIN_LIMIT) (ms.drop offset) []
        let produced := hits.length
        .ok { hits := hits, totalHits := total,
              nextCursor := if offset + produced < total then some (offset + produced) else none,
              engine := .lexFallback, staleSkips := 0 }

/-! ### `Memvid::search` (lex enabled, no ACL context) -/

/-- `search_with_lex_fallback` as far as it is modelled: without a loaded `LexIndex` it fails -/
def lexFallback (lexLoaded : Bool) : Except Err Response :=
  if lexLoaded then .error .unmodelled else .error .lexNotEnabled

/-- the search after the query has been parsed -/
def searchParsed (B : Box) (V : Variant) (frames : List Frame) (req : Request) (expr : Expr)
    (stage : Mv.Filter.Stage) (engine : Option (List Nat)) (hasLexData lexLoaded : Bool) :
    Except Err Response :=
  let tokens := queryTokens B.T expr
  let hasText := !tokens.isEmpty
  if !hasText && !hasFieldTerms expr then .error .noTerms
  else match stage with
    | none => .ok (emptyResponse .tantivy)
    | some cand =>
      match tryTantivy B V frames req expr tokens engine hasLexData with
      | .done r => r
      | .lexFallback => lexFallback lexLoaded
      | .notHandled =>
        if hasText then lexFallback lexLoaded else filtersOnly B V frames req expr cand

def search (B : Box) (V : Variant) (frames : List Frame) (req : Request) (q : Str)
    (stage : Mv.Filter.Stage) (engine : Option (List Nat)) (hasLexData lexLoaded : Bool) :
    Except Err Response :=
  match Mv.Query.parse B.T B.cfg q with
  | .error e => .error (.invalidQuery e)
  | .ok expr => searchParsed B V frames req expr stage engine hasLexData lexLoaded

end Mv.Search
