/-
  C40View — what a client can see of a handle (`visible`), as a function of the logical frame table,
  and what a settled handle looks like after drop + open.
-/
import MvProps.C40Skip
namespace Mv.Core

/-! ## `sortBy` (the model's stable insertion sort) under a map -/

theorem map_insertBy {α β : Type} (r : α → α → Bool) (s : β → β → Bool) (f : α → β) (x : α) (l : List α)
    (h : ∀ b ∈ l, r x b = s (f x) (f b)) : (insertBy r x l).map f = insertBy s (f x) (l.map f) := by
  induction l with
  | nil => rfl
  | cons y ys ih =>
    simp only [insertBy, List.map_cons]
    rw [← h y (by simp)]
    split
    · rfl
    · simp only [List.map_cons, ih (fun b hb => h b (by simp [hb]))]

theorem mem_insertBy {α : Type} (r : α → α → Bool) (x : α) (l : List α) (a : α) :
    a ∈ insertBy r x l ↔ a = x ∨ a ∈ l := by
  induction l with
  | nil => simp [insertBy]
  | cons y ys ih =>
    simp only [insertBy]
    split
    · simp
    · simp only [List.mem_cons, ih]
      constructor
      · rintro (h | h | h)
        · exact Or.inr (Or.inl h)
        · exact Or.inl h
        · exact Or.inr (Or.inr h)
      · rintro (h | h | h)
        · exact Or.inr (Or.inl h)
        · exact Or.inl h
        · exact Or.inr (Or.inr h)

theorem mem_sortBy {α : Type} (r : α → α → Bool) (l : List α) (a : α) : a ∈ sortBy r l ↔ a ∈ l := by
  induction l with
  | nil => simp [sortBy]
  | cons x xs ih => simp only [sortBy, mem_insertBy, ih, List.mem_cons]

theorem map_sortBy {α β : Type} (r : α → α → Bool) (s : β → β → Bool) (f : α → β) (l : List α)
    (h : ∀ a b, r a b = s (f a) (f b)) : (sortBy r l).map f = sortBy s (l.map f) := by
  induction l with
  | nil => rfl
  | cons x xs ih =>
    simp only [sortBy, List.map_cons]
    rw [map_insertBy r s f x _ (fun b _ => h x b), ih]

/-! ## Reads as functions of the logical frame table -/

def chunkKeyL (x : LFrame) : Nat × Nat := (x.v.chunkIndex.getD 4294967295, x.v.id)
def chunkLeL (a b : LFrame) : Bool :=
  decide ((chunkKeyL a).1 < (chunkKeyL b).1) || (decide ((chunkKeyL a).1 = (chunkKeyL b).1) && decide ((chunkKeyL a).2 ≤ (chunkKeyL b).2))

/-- `frame_canonical_bytes` on logical frames (stored ranges readable) -/
def canonL (frames : List LFrame) (f : LFrame) : String :=
  if f.v.role == .document && f.v.manifest.isSome then
    let children := sortBy chunkLeL (frames.filter (fun c => c.v.status == .active && c.v.role == .chunk && c.parent == some f.v.id))
    if children.isEmpty then "err"
    else if some children.length != f.v.manifest then "err"
    else if children.any (fun c => c.v.content == "err") then "err"
    else "cat:" ++ "+".intercalate (children.map (·.v.content))
  else f.v.content

theorem ownContent_ok (g : Frame) (hg : FrameOk g) : ownContent g = g.content := by
  unfold ownContent
  split
  · rename_i h
    obtain ⟨h1, h2⟩ := h
    have := hg h1
    rcases h2 with h2 | h2
    · exact absurd this.1 h2
    · rw [this.2] at h2; cases h2
  · rfl

theorem any_own (C : List Frame) (h : ∀ c ∈ C, FrameOk c) :
    C.any (fun c => ownContent c == "err") = C.any (fun c => c.content == "err") := by
  induction C with
  | nil => rfl
  | cons c cs ih =>
    simp only [List.any_cons, ownContent_ok c (h c (by simp)), ih (fun x hx => h x (by simp [hx]))]

theorem canon_lview (frames : List Frame) (f : Frame) (hok : ∀ g ∈ frames, FrameOk g) (hf : FrameOk f) :
    canon frames f = canonL (frames.map lview) (lview f) := by
  unfold canon canonL
  have hcond : isManifestDoc f = ((lview f).v.role == Role.document && (lview f).v.manifest.isSome) := rfl
  rw [hcond]
  split
  · simp only []
    have hP : ((frames.filter (fun c => c.status == .active && c.role == .chunk && c.parent == some f.id)).map lview) =
        (frames.map lview).filter (fun c => c.v.status == .active && c.v.role == .chunk && c.parent == some (lview f).v.id) := by
      rw [List.filter_map]; rfl
    have hC : (sortBy chunkLe (frames.filter (fun c => c.status == .active && c.role == .chunk && c.parent == some f.id))).map lview =
        sortBy chunkLeL ((frames.map lview).filter (fun c => c.v.status == .active && c.v.role == .chunk && c.parent == some (lview f).v.id)) := by
      rw [map_sortBy chunkLe chunkLeL lview _ (fun a b => rfl), hP]
    have hmem : ∀ c ∈ sortBy chunkLe (frames.filter (fun c => c.status == .active && c.role == .chunk && c.parent == some f.id)), FrameOk c := by
      intro c hc
      have := (mem_sortBy _ _ c).mp hc
      exact hok c (List.mem_filter.mp this).1
    rw [← hC]
    generalize sortBy chunkLe (frames.filter (fun c => c.status == .active && c.role == .chunk && c.parent == some f.id)) = C at hmem ⊢
    rw [any_own C hmem]
    have h1 : (C.map lview).isEmpty = C.isEmpty := by cases C <;> rfl
    have h2 : (C.map lview).length = C.length := List.length_map _
    have h3 : (C.map lview).any (fun c => c.v.content == "err") = C.any (fun c => c.content == "err") := by
      rw [List.any_map]; rfl
    have h4 : (C.map lview).map (·.v.content) = C.map (·.content) := by
      rw [List.map_map]; rfl
    rw [h1, h2, h3, h4]
    rfl
  · exact ownContent_ok f hf

/-- the time index on logical frames -/
def timeL (l : List LFrame) : List (Int × Nat) :=
  sortBy timeLe ((l.filter (fun x => x.v.status == .active && x.v.role == .document)).map (fun x => (x.v.ts, x.v.id)))

theorem timeEntries_lview (frames : List Frame) : timeEntries frames = timeL (frames.map lview) := by
  unfold timeEntries timeL
  rw [List.filter_map, List.map_map]
  rfl

/-! ## What a client can see -/

/-- the observable content of a handle: logical frame table, what a read of every frame returns,
    the time index (timeline), the vector index, the lexical engine's documents, the sketch track -/
structure Visible where
  frames : List LFrame
  canon : List String
  time : Option (List (Int × Nat))
  vec : Option (List VecEnt)
  lex : List Nat
  sketch : List Nat
deriving DecidableEq, Repr

def visible (m : Mem) : Visible :=
  { frames := m.frames.map lview, canon := m.frames.map (canon m.frames), time := m.time, vec := m.vec,
    lex := m.lexDocs, sketch := m.sketch }

/-- the closed form of `visible` after an ingestion -/
def visibleOf (m0 : Mem) (L : List LFrame) (E : List VecEnt) (wants : Bool) : Visible :=
  let fr := m0.frames.map lview ++ L
  { frames := fr, canon := fr.map (canonL fr), time := some (timeL fr),
    vec := if m0.vecEnabled || wants then some (m0.vec.getD [] ++ E) else none,
    lex := lidx fr, sketch := m0.sketch ++ lidx L }

theorem Done.frames_lview {m0 m : Mem} {docs} (h : Done m0 docs m) :
    m.frames.map lview = m0.frames.map lview ++ ldocs m0.frames.length docs := by
  obtain ⟨nf, hf, hn⟩ := h.mid.frames
  rw [hf, List.map_append, hn.1]

theorem Done.visible_eq {m0 m : Mem} {docs} (s : Start m0) (h : Done m0 docs m) :
    visible m = visibleOf m0 (ldocs m0.frames.length docs) (embsOf m0.frames.length docs) (docs.any wantsVec) := by
  have hfr := h.frames_lview
  have hok := h.mid.frameOk s
  have hcanon : m.frames.map (canon m.frames) = (m.frames.map lview).map (canonL (m.frames.map lview)) := by
    rw [List.map_map]
    apply List.map_congr_left
    intro f hf
    exact canon_lview m.frames f hok (hok f hf)
  have hve : m.vecEnabled = (m0.vecEnabled || docs.any wantsVec) := by
    have := h.mid.ve; simpa using this
  unfold visible visibleOf
  simp only []
  rw [hcanon, hfr, h.settled.time, timeEntries_lview, hfr, h.settled.lex, fullLexRebuild_eq_lidx, hfr, h.sketch,
    h.settled.vec, hve, h.mid.vec]

/-! ## drop + open of a settled handle -/

theorem enableVecForEmbs_nil (m : Mem) : m.enableVecForEmbs [] = m := by
  unfold Mem.enableVecForEmbs; simp

/-- the sketch track as it comes back from the file (entries renumbered, property C39) -/
def reloadedSketch (sk : List Nat) : List Nat := if sk.isEmpty then [] else List.range sk.length

/-- drop + open of a settled handle shows the same content (sketch ids as the file stores them) -/
theorem settled_reopen {m : Mem} (hst : Settled m) (hp : OnlyLexRecs m.pending) (hno : NoOrphan m.frames)
    (a b : Nat) : visible (m.reopen a b).1 = { visible m with sketch := reloadedSketch m.sketch } := by
  have hdrop : m.dropHandle a = m := by unfold Mem.dropHandle; simp [hst.dirty]
  show visible ((m.dropHandle a).openFrom b) = _
  rw [hdrop]
  unfold Mem.openFrom
  have b_td : m.openLoad.loadTracks.tantivyDirty = false := by show (!m.tantivySegs) = false; rw [hst.segs]; rfl
  have b_pending : m.openLoad.loadTracks.pending = m.pending := rfl
  have b_frames : m.openLoad.loadTracks.frames = m.frames := rfl
  have b_sketch : m.openLoad.loadTracks.sketch = reloadedSketch m.sketch := by
    show (if m.pSketch.isEmpty then [] else List.range m.pSketch.length) = _
    rw [hst.pSketch]; rfl
  -- the recovery leaves every observed field alone
  have hrec : ∃ m2, m.openLoad.loadTracks.recoverWal b = m2 ∧ m2.frames = m.frames ∧ m2.time = m.time ∧
      m2.vec = m.openLoad.loadTracks.vec ∧ m2.lexDocs = m.openLoad.loadTracks.lexDocs ∧
      m2.sketch = m.openLoad.loadTracks.sketch := by
    unfold Mem.recoverWal
    by_cases he : m.openLoad.loadTracks.pending.isEmpty = true
    · rw [if_pos he, flushTantivy_clean _ _ b_td]
      exact ⟨_, rfl, rfl, rfl, rfl, rfl, rfl⟩
    · rw [if_neg he]
      obtain ⟨ins, hap⟩ := applyRecords_lexOnly m.openLoad.loadTracks m.openLoad.loadTracks.pending
        (by rw [b_pending]; exact hp) true (by rw [b_frames]; exact hno)
      rw [hap]
      simp only [Bool.false_eq_true, if_false, enableVecForEmbs_nil, flushTantivy_clean _ _ b_td]
      exact ⟨_, rfl, rfl, rfl, rfl, rfl, rfl⟩
  obtain ⟨m2, h2, f1, f2, f3, f4, f5⟩ := hrec
  rw [h2]
  have hvec : m.openLoad.loadTracks.vec = m.vec := by
    show (if m.pVecMan then m.pVec else none) = m.vec
    rw [hst.pVecMan, hst.pVec]
    cases hv : m.vecEnabled with
    | true => rfl
    | false => have := hst.vec; rw [hv] at this; simpa using this.symm
  have hlex : m.openLoad.loadTracks.lexDocs = m.lexDocs := by
    show (if m.tantivySegs then m.lexDocs else fullLexRebuild m.frames) = _
    rw [hst.segs]; rfl
  unfold visible
  rw [f1, f2, f3, f4, f5, hvec, hlex, b_sketch]

end Mv.Core
