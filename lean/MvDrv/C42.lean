/- Driver for C42: the Core model's line protocol (see MvModel/CoreDrv.lean for the requests).  Since /repo
   contains the repaired `Memvid::vacuum` (0e33b6e) the Core model's `vacuum` / `doctor` are the functions the
   C42 theorems speak about (MvProps/C42.lean, section 8). -/
import MvModel.CoreDrv
def main : IO Unit := Mv.Core.coreMain
