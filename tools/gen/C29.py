#!/usr/bin/env python3
"""C29: .mv2e capsule constants and header layout from src/encryption/*.rs.

constants.rs      magic, version, header size, kdf/cipher ids, salt/nonce/tag/key sizes
types.rs          field offsets of Mv2eHeader::encode (buf[a..b] = field / buf[i] = field)
capsule_stream.rs CHUNK_SIZE, the reserved bytes lock writes, width of the nonce counter
capsule.rs        the reserved[0] value that selects the streaming reader, the plain-file magic
"""
from common import *


def run():
    cs = read("src/encryption/constants.rs")
    magic = const_bytes(cs, "MV2E_MAGIC")
    env = {}
    names = ["MV2E_VERSION", "MV2E_HEADER_SIZE", "KDF_ARGON2ID", "CIPHER_AES_256_GCM",
             "SALT_SIZE", "NONCE_SIZE", "TAG_SIZE", "KEY_SIZE"]
    for n in names:
        env[n] = const_int(cs, n)

    # ---- header layout from Mv2eHeader::encode
    ty = strip_comments(read("src/encryption/types.rs"))
    m = re.search(r"pub fn encode\(&self\).*?\{(.*?)\n    \}", ty, re.S)
    if not m:
        raise TranslateError("Mv2eHeader::encode not found")
    enc = m.group(1)
    fields = {}
    for a, b, f in re.findall(r"buf\[(\d+)\.\.(\d+)\]\s*\.copy_from_slice\(&self\.(\w+)", enc):
        fields[f] = (int(a), int(b))
    for i, f in re.findall(r"buf\[(\d+)\]\s*=\s*self\.(\w+)", enc):
        fields[f] = (int(i), int(i) + 1)
    want = ["magic", "version", "kdf_algorithm", "cipher_algorithm", "salt", "nonce", "original_size", "reserved"]
    for f in want:
        if f not in fields:
            raise TranslateError(f"Mv2eHeader::encode: field {f} not found")
    if len(fields) != len(want):
        raise TranslateError(f"Mv2eHeader::encode: unexpected field set {sorted(fields)}")
    # decode must read the same ranges
    dm = re.search(r"pub fn decode\(.*?\{(.*)\n    \}", ty, re.S)
    if not dm:
        raise TranslateError("Mv2eHeader::decode not found")
    dec = dm.group(1)
    for f in ("salt", "nonce"):
        a, b = fields[f]
        if not re.search(r"%s\.copy_from_slice\(&bytes\[%d\.\.%d\]\)" % (f, a, b), dec):
            raise TranslateError(f"Mv2eHeader::decode does not read {f} from bytes[{a}..{b}]")
    a, b = fields["original_size"]
    if not re.search(r"u64::from_le_bytes\(\[\s*" + r",\s*".join(r"bytes\[%d\]" % i for i in range(a, b)), dec):
        raise TranslateError("Mv2eHeader::decode does not read original_size little-endian from the encode range")
    a, b = fields["reserved"]
    if not re.search(r"let reserved = \[" + r",\s*".join(r"bytes\[%d\]" % i for i in range(a, b)) + r"\]", dec):
        raise TranslateError("Mv2eHeader::decode does not read reserved from the encode range")
    if "version.to_le_bytes()" not in enc or "original_size.to_le_bytes()" not in enc:
        raise TranslateError("Mv2eHeader::encode: version/original_size are not little-endian")

    # ---- streaming writer/reader
    st = strip_comments(read("src/encryption/capsule_stream.rs"))
    chunk = const_int(st, "CHUNK_SIZE")
    m = re.search(r"reserved:\s*\[([^\]]*)\]", st)
    if not m:
        raise TranslateError("lock_file_stream: reserved: [...] not found")
    lock_reserved = [int(x.strip(), 0) for x in m.group(1).split(",") if x.strip()]
    ctr = set(re.findall(r"nonce\[NONCE_SIZE\s*-\s*(\d+)\s*\.\.\]\s*\.copy_from_slice\(&chunk_index\.to_be_bytes\(\)\)", st))
    if len(ctr) != 1 or len(re.findall(r"chunk_index\.to_be_bytes", st)) != 2:
        raise TranslateError("nonce[NONCE_SIZE - k..] = chunk_index.to_be_bytes() not found once in lock and once in unlock")
    counter_bytes = int(ctr.pop())
    if not re.search(r"let mut chunk_index: u64 = 0;", st):
        raise TranslateError("chunk_index: u64 = 0 not found")
    if len(re.findall(r"chunk_len\.to_le_bytes\(\)|u32::from_le_bytes\(len_bytes\)", st)) != 2:
        raise TranslateError("u32 little-endian chunk length prefix not found in writer and reader")

    cp = strip_comments(read("src/encryption/capsule.rs"))
    m = re.search(r"header\.reserved\[0\]\s*==\s*(0x[0-9a-fA-F]+|\d+)", cp)
    if not m:
        raise TranslateError("unlock_file: header.reserved[0] == <flag> not found")
    stream_flag = int(m.group(1), 0)
    mm = set(re.findall(r'b"(MV2\\0)"', cp))
    if mm != {"MV2\\0"} or len(re.findall(r'b"MV2\\0"', cp)) != 2:
        raise TranslateError('plain-file magic b"MV2\\0" not found in validate_mv2_file and validate_mv2_bytes')
    mv2_magic = [0x4D, 0x56, 0x32, 0x00]

    body = f"def MV2E_MAGIC : List UInt8 := {lean_bytes(magic)}\n"
    for n in names:
        body += f"def {n} : Nat := {env[n]}\n"
    for f in want:
        body += f"def OFF_{f.upper()} : Nat := {fields[f][0]}\n"
        body += f"def END_{f.upper()} : Nat := {fields[f][1]}\n"
    body += f"def CHUNK_SIZE : Nat := {chunk}\n"
    body += f"def LOCK_RESERVED : List UInt8 := {lean_bytes(lock_reserved)}\n"
    body += f"def STREAM_FLAG : UInt8 := 0x{stream_flag:02X}\n"
    body += f"def COUNTER_BYTES : Nat := {counter_bytes}\n"
    body += f"def MV2_MAGIC : List UInt8 := {lean_bytes(mv2_magic)}\n"
    return emit("C29", body)


main(run)
