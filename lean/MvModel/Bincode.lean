/-
  Generic model of the bincode-2 serde encoding memvid uses for the TOC
  (`bincode::config::standard().with_fixed_int_encoding().with_little_endian().with_limit::<N>()`,
  src/toc.rs `canonical_config`), as a `Schema`/`Value` pair:

    integers fixed width little endian; `bool` and the `Option` tag one byte (0/1, anything else is
    an error); `String`/`Vec`/map lengths `u64`; strings must be UTF-8; structs and tuples are the
    concatenation of their fields; fixed arrays have no length; enum = `u32` variant index.

  `decode` mirrors bincode's serde `Deserializer` + serde's derived visitors + memvid's custom
  visitors (`deserialize_vec_bounded`, `deserialize_extra_metadata`, `CanonicalEncoding`).
  The byte limit is modelled in MvModel/Toc.lean (`decodeLim`).
  `ext k : Bytes → Option Bytes` stands for a foreign string parser (k = 0: chrono's
  `DateTime<Utc>`): it returns the canonical re-serialisation of the parsed value.
-/
import MvModel.Bytes
namespace Mv.Bincode

inductive Schema where
  | uint (w : Nat)                              -- u8 / u16 / u32 / u64 / usize: w bytes LE
  | sint (w : Nat)                              -- i64 …: w bytes two's complement LE
  | bool
  | raw (n : Nat)                               -- n bytes as they are: `[u8; n]`, f32/f64 bit patterns
  | str                                         -- String
  | strExt (k : Nat)                            -- String handed to foreign parser k after UTF-8 validation
  | bytesN (n : Nat)                            -- `serialize_bytes` of exactly n bytes (uuid::Uuid)
  | cenc                                        -- types::CanonicalEncoding (hand-written, lenient decoder)
  | enumUnit (n : Nat)                          -- enum with n unit variants
  | option (s : Schema)
  | seq (bound : Option Nat) (s : Schema)       -- Vec<T>; bound = `deserialize_vec_bounded` LIMIT
  | mapStr (bound : Option Nat) (v : Schema)    -- BTreeMap<String, V>; bound = MapVisitor LIMIT
  | unit                                        -- end of a struct / tuple
  | pair (a b : Schema)                         -- field a followed by the remaining fields b
deriving Repr, DecidableEq, Inhabited

/-- untyped values: structs, tuples, sequences and maps are right-nested `pair`s ending in `unit`;
    a map is the sequence of `pair (bytes key) value` in key order -/
inductive Value where
  | nat (n : Nat)
  | int (i : Int)
  | bool (b : Bool)
  | bytes (b : Bytes)
  | none
  | some (v : Value)
  | unit
  | pair (a b : Value)
deriving Repr, DecidableEq, Inhabited

/-! ### helpers -/

/-- number of elements of a `pair` spine -/
def vlen : Value → Nat
  | .pair _ t => vlen t + 1
  | _ => 0

/-- concatenation of `f` over the elements of a `pair` spine -/
def foldElems (f : Value → Bytes) : Value → Bytes
  | .pair h t => f h ++ foldElems f t
  | _ => []

def takeN (n : Nat) (b : Bytes) : Option (Bytes × Bytes) :=
  if n ≤ b.length then some (b.take n, b.drop n) else none

def readUint (w : Nat) (b : Bytes) : Option (Nat × Bytes) :=
  match takeN w b with
  | some (x, r) => some (leVal x, r)
  | none => none

def sintBytes (w : Nat) (i : Int) : Bytes := leBytes w (i % (256 ^ w : Nat)).toNat

def sintVal (b : Bytes) : Int :=
  if 2 * leVal b < 256 ^ b.length then (leVal b : Int) else (leVal b : Int) - (256 ^ b.length : Nat)

def isCont (b : UInt8) : Bool := 0x80 ≤ b && b ≤ 0xBF

/-- state of the UTF-8 recogniser: at a character boundary; `n` continuation bytes expected; or the
    next byte restricted to `[lo, hi]` followed by `n` continuation bytes (after E0, ED, F0, F4) -/
inductive U8State where
  | start
  | cont (n : Nat)
  | rng (lo hi : UInt8) (n : Nat)
deriving Repr, DecidableEq

/-- well-formed UTF-8 (Unicode table 3-7): what `String::from_utf8` accepts -/
def utf8Go : U8State → Bytes → Bool
  | .start, [] => true
  | .cont _, [] => false
  | .rng _ _ _, [] => false
  | .start, b :: r =>
    if b < 0x80 then utf8Go .start r
    else if 0xC2 ≤ b && b ≤ 0xDF then utf8Go (.cont 1) r
    else if b = 0xE0 then utf8Go (.rng 0xA0 0xBF 1) r
    else if b = 0xED then utf8Go (.rng 0x80 0x9F 1) r
    else if 0xE1 ≤ b && b ≤ 0xEF then utf8Go (.cont 2) r
    else if b = 0xF0 then utf8Go (.rng 0x90 0xBF 2) r
    else if 0xF1 ≤ b && b ≤ 0xF3 then utf8Go (.cont 3) r
    else if b = 0xF4 then utf8Go (.rng 0x80 0x8F 2) r
    else false
  | .cont n, b :: r =>
    if isCont b then (if n ≤ 1 then utf8Go .start r else utf8Go (.cont (n - 1)) r) else false
  | .rng lo hi n, b :: r =>
    if lo ≤ b && b ≤ hi then (if n = 0 then utf8Go .start r else utf8Go (.cont n) r) else false

def utf8Valid (b : Bytes) : Bool := utf8Go .start b

/-- byte-wise lexicographic order: `Ord for String` -/
def bytesLt : Bytes → Bytes → Bool
  | [], [] => false
  | [], _ :: _ => true
  | _ :: _, [] => false
  | a :: as, b :: bs => decide (a.toNat < b.toNat) || (decide (a.toNat = b.toNat) && bytesLt as bs)

/-- `BTreeMap::insert` on the sorted association spine (an equal key is overwritten in place) -/
def mapInsert (k : Bytes) (v : Value) : Value → Value
  | .pair (.pair (.bytes k') v') t =>
    if bytesLt k k' then .pair (.pair (.bytes k) v) (.pair (.pair (.bytes k') v') t)
    else if k = k' then .pair (.pair (.bytes k) v) t
    else .pair (.pair (.bytes k') v') (mapInsert k v t)
  | _ => .pair (.pair (.bytes k) v) .unit

/-- `u64` length + bytes, UTF-8 checked: `String::decode` -/
def readStr (b : Bytes) : Option (Bytes × Bytes) :=
  match readUint 8 b with
  | none => none
  | some (len, r) =>
    match takeN len r with
    | none => none
    | some (x, r') => if utf8Valid x then some (x, r') else none

def encStr (b : Bytes) : Bytes := u64le b.length ++ b

/-! ### encoder -/

def encEntry (f : Value → Bytes) : Value → Bytes
  | .pair (.bytes k) v => encStr k ++ f v
  | _ => []

/-- `bincode::serde::encode_to_vec` at schema `s` -/
def encode : Schema → Value → Bytes
  | .uint w, .nat n => leBytes w n
  | .sint w, .int i => sintBytes w i
  | .bool, .bool b => [if b then 1 else 0]
  | .raw _, .bytes b => b
  | .str, .bytes b => encStr b
  | .strExt _, .bytes b => encStr b
  | .bytesN _, .bytes b => encStr b
  | .cenc, .nat n => u32le n
  | .enumUnit _, .nat n => u32le n
  | .option _, .none => [0]
  | .option s, .some v => 1 :: encode s v
  | .seq _ s, v => u64le (vlen v) ++ foldElems (encode s) v
  | .mapStr _ s, v => u64le (vlen v) ++ foldElems (encEntry (encode s)) v
  | .unit, _ => []
  | .pair a b, .pair x y => encode a x ++ encode b y
  | _, _ => []

/-! ### decoder -/

/-- `n` elements read with `f`: serde's `Vec<T>` visitor over bincode's `SeqAccess` -/
def decodeN (f : Bytes → Option (Value × Bytes)) : Nat → Bytes → Option (Value × Bytes)
  | 0, b => some (.unit, b)
  | n+1, b =>
    match f b with
    | none => none
    | some (h, r) =>
      match decodeN f n r with
      | none => none
      | some (t, r') => some (.pair h t, r')

/-- `n` entries: key (String), value, the `len == LIMIT` test of memvid's `MapVisitor` (absent for
    serde's own `BTreeMap` visitor: `bound = none`), then `insert` -/
def decodeMapN (f : Bytes → Option (Value × Bytes)) (bound : Option Nat) : Nat → Bytes → Value → Option (Value × Bytes)
  | 0, b, acc => some (acc, b)
  | n+1, b, acc =>
    match readStr b with
    | none => none
    | some (k, r) =>
      match f r with
      | none => none
      | some (v, r') =>
        if bound = some (vlen acc) then none
        else decodeMapN f bound n r' (mapInsert k v acc)

def exceeds (bound : Option Nat) (n : Nat) : Bool :=
  match bound with
  | some b => decide (n > b)
  | none => false

/-- `bincode::serde::decode_from_slice` at schema `s` (without the byte limit): value and the
    unread rest, or `none` for any `DecodeError` -/
def decode (ext : Nat → Bytes → Option Bytes) : Schema → Bytes → Option (Value × Bytes)
  | .uint w, b =>
    match takeN w b with
    | some (x, r) => some (.nat (leVal x), r)
    | none => none
  | .sint w, b =>
    match takeN w b with
    | some (x, r) => some (.int (sintVal x), r)
    | none => none
  | .bool, b =>
    match b with
    | x :: r => if x = 0 then some (.bool false, r) else if x = 1 then some (.bool true, r) else none
    | [] => none
  | .raw n, b =>
    match takeN n b with
    | some (x, r) => some (.bytes x, r)
    | none => none
  | .str, b =>
    match readStr b with
    | some (x, r) => some (.bytes x, r)
    | none => none
  | .strExt k, b =>
    match readStr b with
    | some (x, r) =>
      match ext k x with
      | some x' => some (.bytes x', r)
      | none => none
    | none => none
  | .bytesN n, b =>
    match readUint 8 b with
    | none => none
    | some (len, r) =>
      match takeN len r with
      | none => none
      | some (x, r') => if len = n then some (.bytes x, r') else none
  | .cenc, b =>
    match readUint 4 b with
    | some (v, r) => some (.nat (if v % 256 = 1 then 1 else 0), r)
    | none => none
  | .enumUnit n, b =>
    match readUint 4 b with
    | some (v, r) => if v < n then some (.nat v, r) else none
    | none => none
  | .option s, b =>
    match b with
    | x :: r =>
      if x = 0 then some (.none, r)
      else if x = 1 then
        match decode ext s r with
        | some (v, r') => some (.some v, r')
        | none => none
      else none
    | [] => none
  | .seq bound s, b =>
    match readUint 8 b with
    | none => none
    | some (n, r) => if exceeds bound n then none else decodeN (decode ext s) n r
  | .mapStr bound s, b =>
    match readUint 8 b with
    | none => none
    | some (n, r) => decodeMapN (decode ext s) bound n r .unit
  | .unit, b => some (.unit, b)
  | .pair x y, b =>
    match decode ext x b with
    | none => none
    | some (v, r) =>
      match decode ext y r with
      | none => none
      | some (w, r') => some (.pair v w, r')

/-! ### well-typed values (what the Rust types can hold) -/

def allElems (p : Value → Bool) : Value → Bool
  | .pair h t => p h && allElems p t
  | .unit => true
  | _ => false

/-- map spine: entries `pair (bytes k) v` with valid UTF-8 keys shorter than 2^64, values ok -/
def allEntries (p : Value → Bool) : Value → Bool
  | .pair (.pair (.bytes k) v) t => utf8Valid k && decide (k.length < 2^64) && p v && allEntries p t
  | .unit => true
  | _ => false

/-- every key of the spine is strictly below `k` -/
def keysBelow (k : Bytes) : Value → Bool
  | .pair (.pair (.bytes k') _) t => bytesLt k' k && keysBelow k t
  | _ => true

/-- keys strictly increasing -/
def keysSorted : Value → Bool
  | .pair (.pair (.bytes k) _) t =>
    (match t with
     | .pair (.pair (.bytes k') _) _ => bytesLt k k'
     | _ => true) && keysSorted t
  | _ => true

def withinBound (bound : Option Nat) (n : Nat) : Bool :=
  match bound with
  | some b => decide (n ≤ b)
  | none => true

def wt (ext : Nat → Bytes → Option Bytes) : Schema → Value → Bool
  | .uint w, .nat n => decide (n < 256 ^ w)
  | .sint w, .int i => decide (0 < w) && decide (-((256 ^ w / 2 : Nat) : Int) ≤ i) && decide (i < ((256 ^ w / 2 : Nat) : Int))
  | .bool, .bool _ => true
  | .raw n, .bytes b => decide (b.length = n)
  | .str, .bytes b => decide (b.length < 2^64) && utf8Valid b
  | .strExt k, .bytes b => decide (b.length < 2^64) && utf8Valid b && decide (ext k b = some b)
  | .bytesN n, .bytes b => decide (b.length = n) && decide (n < 2^64)
  | .cenc, .nat n => decide (n = 0) || decide (n = 1)
  | .enumUnit k, .nat n => decide (n < k) && decide (n < 2^32)
  | .option _, .none => true
  | .option s, .some v => wt ext s v
  | .seq bound s, v => allElems (wt ext s) v && decide (vlen v < 2^64) && withinBound bound (vlen v)
  | .mapStr bound s, v => allEntries (wt ext s) v && keysSorted v && decide (vlen v < 2^64) && withinBound bound (vlen v)
  | .unit, .unit => true
  | .pair a b, .pair x y => wt ext a x && wt ext b y
  | _, _ => false

/-- `WellTyped s v`: `v` is a value of the Rust type described by `s` -/
def WellTyped (ext : Nat → Bytes → Option Bytes) (s : Schema) (v : Value) : Prop := wt ext s v = true

/-- build a struct / tuple schema from its fields -/
def struct : List Schema → Schema
  | [] => .unit
  | f :: fs => .pair f (struct fs)

def Value.ofList : List Value → Value
  | [] => .unit
  | x :: xs => .pair x (Value.ofList xs)

def Value.toList : Value → List Value
  | .pair h t => h :: Value.toList t
  | _ => []

end Mv.Bincode
