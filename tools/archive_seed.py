#!/usr/bin/env python3
"""archive_seed.py <PID> <n> "<result: which check caught / missed it>" [--dup-of <seed>]
copies /tmp/seed-PID-n/out to /verif/seeded/PID-n, adds the confirmation line of
/tmp/coord/seedflow-PID-n.log and the check verdicts to meta.json, removes the scratch worktree."""
import json, os, re, shutil, subprocess, sys
pid, n, result = sys.argv[1], sys.argv[2], sys.argv[3]
src, dst = f"/tmp/seed-{pid}-{n}/out", f"/verif/seeded/{pid}-{n}"
os.makedirs(dst, exist_ok=True)
shutil.copy(f"{src}/patch.diff", f"{dst}/patch.diff")
if os.path.isdir(f"{dst}/demo"): shutil.rmtree(f"{dst}/demo")
shutil.copytree(f"{src}/demo", f"{dst}/demo")
meta = json.load(open(f"{src}/meta.json"))
log = f"/tmp/coord/seedflow-{pid}-{n}.log"
checks, confirm, cur = {}, None, None
if os.path.exists(log):
    for line in open(log):
        m = re.match(r"### mutcheck (\w+)", line)
        if m: cur = m.group(1); checks[cur] = "no verdict"; continue
        if line.startswith("### confirm"): cur = None; continue
        if cur and (line.startswith("VIOLATION") or line.startswith("OK ")): checks[cur] = line.strip()[:300]
        if line.startswith("{") and '"confirmed"' in line: confirm = json.loads(line)
meta["confirmation"] = confirm
meta["checks_run"] = {k: v for k, v in checks.items()}
meta["result"] = result
if "--dup-of" in sys.argv: meta["duplicate_of"] = sys.argv[sys.argv.index("--dup-of") + 1]
meta["what_was_run"] = "tools/confirm_seed.sh (apply to HEAD in a scratch worktree, build, full existing suite, demo with / without) and tools/mutcheck.sh <check> patch.diff quick (private patched copy of /repo)"
json.dump(meta, open(f"{dst}/meta.json", "w"), indent=1)
wt = f"/tmp/seed-{pid}-{n}/wt"
if os.path.isdir(wt):
    subprocess.run(["git", "-C", "/repo", "worktree", "remove", "--force", wt])
shutil.rmtree(f"/tmp/seed-{pid}-{n}", ignore_errors=True)
print("archived", dst, "confirmed=", confirm and confirm.get("confirmed"), checks)
