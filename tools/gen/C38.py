#!/usr/bin/env python3
"""C38: SIMD lane width of l2_distance_squared_simd (src/simd.rs).

The width appears five times in the accelerated function: `f32x<W>` (type), `len / W`, `len % W`,
`i * W`, `chunks * W`, plus the explicit `a[offset + k]` element lists.  All of them must agree,
otherwise the translator refuses (exit 2): the Lean model is parametric in ONE width."""
from common import *

def run():
    src = strip_comments(read("src/simd.rs"))
    m = re.search(r'#\[cfg\(feature = "simd"\)\]\s*(?:#\[must_use\]\s*)?pub fn l2_distance_squared_simd\b.*?\n}\n', src, re.S)
    if not m:
        raise TranslateError("simd variant of l2_distance_squared_simd not found in src/simd.rs")
    body = m.group(0)
    found = {}
    for name, rx in [("type", r"\bf32x(\d+)::ZERO"), ("div", r"\blen\s*/\s*(\d+)"), ("mod", r"\blen\s*%\s*(\d+)"),
                     ("stride", r"\bi\s*\*\s*(\d+)"), ("offset", r"\bchunks\s*\*\s*(\d+)"),
                     ("array", r"\[f32;\s*(\d+)\]")]:
        mm = re.search(rx, body)
        if not mm:
            raise TranslateError(f"lane width occurrence '{name}' not found in l2_distance_squared_simd")
        found[name] = int(mm.group(1))
    # explicit element lists: a[offset], a[offset + 1], ... a[offset + W-1]
    for v in ("a", "b"):
        idx = re.findall(r"\b" + v + r"\[offset(?:\s*\+\s*(\d+))?\]", body)
        k = [int(x) if x else 0 for x in idx]
        if sorted(k) != list(range(len(k))) or k != sorted(k):
            raise TranslateError(f"element list of {v}_chunk is not offset+0..offset+W-1 in order: {k}")
        found[f"elems_{v}"] = len(k)
    vals = set(found.values())
    if len(vals) != 1:
        raise TranslateError(f"lane width occurrences disagree: {found}")
    w = vals.pop()
    if w == 0:
        raise TranslateError("lane width 0")
    out = f"/-- SIMD lane width used by l2_distance_squared_simd (src/simd.rs) -/\ndef LANES : Nat := {w}\n"
    return emit("C38", out)

main(run)
