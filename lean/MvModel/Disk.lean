/-
  The trusted file-system machine of the crash-consistency family (C02, C03, C04).

  Abstract syscalls address INODES (what a file descriptor refers to), directory operations address
  names.  Per inode the disk keeps the durable image (content as of the last `fsync`) and the list of
  un-fsynced updates; the directory has a volatile and a durable version plus the list of directory
  operations not yet covered by a directory fsync.

  * process crash  (`crashProcess`): every completed syscall persists — the survivor of a name is the
    volatile content of the inode the volatile directory names.
  * power loss     (`crashPower`, a RELATION): the directory is the durable one plus any prefix of the
    pending directory operations; every inode keeps its durable image plus ANY order-preserving subset
    of its un-fsynced updates, the last kept write possibly cut short (torn).

  The element type `β` is a parameter: `UInt8` for byte-level statements, symbolic cells in
  `MvModel.Crash`.  What a completed `pwrite`/`fsync`/`rename` guarantees is exactly what is written
  here — this file IS the assumption about the kernel.  `harness/src/crashlib.rs` (`FsSim`) is the
  same machine in Rust, fed with the recorded syscall stream.
-/
namespace Mv.Disk

variable {β : Type}

/-! ### content-level updates -/

/-- extend with `z` up to length `n` (sparse writes / growing truncate read back as zeros) -/
def padTo (z : β) (b : List β) (n : Nat) : List β := b ++ List.replicate (n - b.length) z

/-- `pwrite` on a content: bytes `[off, off + w.length)` become `w`, the file grows if needed -/
def pwriteL (z : β) (b : List β) (off : Nat) (w : List β) : List β :=
  (padTo z b (off + w.length)).take off ++ w ++ (padTo z b (off + w.length)).drop (off + w.length)

/-- `ftruncate` on a content -/
def truncL (z : β) (b : List β) (n : Nat) : List β := padTo z (b.take n) n

inductive Upd (β : Type) where
  | write (off : Nat) (w : List β)
  | trunc (n : Nat)
deriving Repr, DecidableEq

def Upd.apply (z : β) (b : List β) : Upd β → List β
  | .write off w => pwriteL z b off w
  | .trunc n => truncL z b n

structure Inode (β : Type) where
  durable : List β
  pend : List (Upd β)
deriving Repr, DecidableEq

/-- volatile content = durable image with every un-fsynced update applied in order -/
def Inode.vol (z : β) (n : Inode β) : List β := n.pend.foldl (Upd.apply z) n.durable

def Inode.empty : Inode β := { durable := [], pend := [] }

/-! ### syscalls and the disk -/

inductive Sys (β : Type) where
  /-- link a fresh, empty inode `i` at name `a` (O_CREAT; O_EXCL temp files) -/
  | create (a : String) (i : Nat)
  | pwrite (i : Nat) (off : Nat) (w : List β)
  | ftruncate (i : Nat) (n : Nat)
  | fsync (i : Nat)
  | rename (a b : String)
  | unlink (a : String)
  | fsyncDir
deriving Repr, DecidableEq

inductive DirOp where
  | link (a : String) (i : Nat)
  | rename (a b : String)
  | unlink (a : String)
deriving Repr, DecidableEq

abbrev Dir := String → Option Nat

def DirOp.apply (d : Dir) : DirOp → Dir
  | .link a i => fun x => if x = a then some i else d x
  | .rename a b => fun x => if x = b then d a else if x = a then none else d x
  | .unlink a => fun x => if x = a then none else d x

structure Disk (β : Type) where
  ino : Nat → Inode β
  dir : Dir
  ddir : Dir
  dpend : List DirOp

def setIno (f : Nat → Inode β) (i : Nat) (n : Inode β) : Nat → Inode β := fun x => if x = i then n else f x

/-- one completed syscall.  `fsync i` makes the CONTENT of `i` durable; directory operations
    (link creation, rename, unlink) become durable only by `fsyncDir` (strict POSIX).  Theorems that
    need the memory's own directory entry to be durable say so as a hypothesis (`d.ddir p = some j`):
    `Memvid::create` never fsyncs the directory, so this is where "fsync of a freshly created file
    also persists its directory entry" (ext4/xfs/btrfs behaviour) enters as an assumption; the Rust
    simulation implements exactly that extra rule for `create`. -/
def step (z : β) (d : Disk β) : Sys β → Disk β
  | .create a i =>
    { d with ino := setIno d.ino i Inode.empty,
             dir := DirOp.apply d.dir (.link a i), dpend := d.dpend ++ [.link a i] }
  | .pwrite i off w =>
    { d with ino := setIno d.ino i { (d.ino i) with pend := (d.ino i).pend ++ [.write off w] } }
  | .ftruncate i n =>
    { d with ino := setIno d.ino i { (d.ino i) with pend := (d.ino i).pend ++ [.trunc n] } }
  | .fsync i => { d with ino := setIno d.ino i { durable := (d.ino i).vol z, pend := [] } }
  | .rename a b => { d with dir := DirOp.apply d.dir (.rename a b), dpend := d.dpend ++ [.rename a b] }
  | .unlink a => { d with dir := DirOp.apply d.dir (.unlink a), dpend := d.dpend ++ [.unlink a] }
  | .fsyncDir => { d with ddir := d.dir, dpend := [] }

def run (z : β) (d : Disk β) (l : List (Sys β)) : Disk β := l.foldl (step z) d

/-! ### crash semantics -/

/-- process crash: completed syscalls persist -/
def crashProcess (z : β) (d : Disk β) (a : String) : Option (List β) :=
  (d.dir a).map (fun i => (d.ino i).vol z)

/-- contents an inode may have after a power loss -/
inductive Survives (z : β) (n : Inode β) : List β → Prop where
  | whole (keep : List (Upd β)) : keep.Sublist n.pend →
      Survives z n (keep.foldl (Upd.apply z) n.durable)
  | torn (keep : List (Upd β)) (off : Nat) (w : List β) (t : Nat) :
      (keep ++ [Upd.write off w]).Sublist n.pend →
      Survives z n ((keep ++ [Upd.write off (w.take t)]).foldl (Upd.apply z) n.durable)

/-- the directory after a power loss that let the first `j` pending directory operations through -/
def dirAfter (d : Disk β) (j : Nat) : Dir := (d.dpend.take j).foldl DirOp.apply d.ddir

/-- power loss: `s` is a possible surviving directory content -/
def crashPower (z : β) (d : Disk β) (s : String → Option (List β)) : Prop :=
  ∃ j, j ≤ d.dpend.length ∧ ∀ a,
    match dirAfter d j a with
    | none => s a = none
    | some i => ∃ c, Survives z (d.ino i) c ∧ s a = some c

/-! ### "for every prefix" as a predicate on the remaining syscall list -/

/-- `P` holds in the current state and after every further completed syscall of `l` -/
def AllPre (z : β) (P : Disk β → Prop) : Disk β → List (Sys β) → Prop
  | d, [] => P d
  | d, s :: l => P d ∧ AllPre z P (step z d s) l

theorem allPre_take (z : β) (P : Disk β → Prop) :
    ∀ (l : List (Sys β)) (d : Disk β), AllPre z P d l → ∀ k, P (run z d (l.take k))
  | [], d, h, k => by simpa [run, AllPre] using h
  | s :: l, d, h, 0 => by simpa [run] using h.1
  | s :: l, d, h, k+1 => by
    have := allPre_take z P l (step z d s) h.2 k
    simpa [run, List.take] using this

theorem allPre_append (z : β) (P : Disk β → Prop) :
    ∀ (a b : List (Sys β)) (d : Disk β),
      AllPre z P d a → AllPre z P (run z d a) b → AllPre z P d (a ++ b)
  | [], b, d, _, hb => by simpa [run] using hb
  | s :: a, b, d, ha, hb => by
    refine ⟨ha.1, ?_⟩
    exact allPre_append z P a b (step z d s) ha.2 (by simpa [run] using hb)

theorem allPre_mono (z : β) (P Q : Disk β → Prop) (hPQ : ∀ d, P d → Q d) :
    ∀ (l : List (Sys β)) (d : Disk β), AllPre z P d l → AllPre z Q d l
  | [], d, h => hPQ d h
  | s :: l, d, h => ⟨hPQ d h.1, allPre_mono z P Q hPQ l (step z d s) h.2⟩

/-- an invariant preserved by every syscall of `l` holds at every prefix -/
theorem allPre_of_inv (z : β) (P : Disk β → Prop) (ok : Sys β → Prop)
    (hstep : ∀ d s, ok s → P d → P (step z d s)) :
    ∀ (l : List (Sys β)) (d : Disk β), (∀ s ∈ l, ok s) → P d → AllPre z P d l ∧ P (run z d l)
  | [], d, _, h => ⟨h, by simpa [run] using h⟩
  | s :: l, d, hl, h => by
    have h1 := hstep d s (hl s (by simp)) h
    have ih := allPre_of_inv z P ok hstep l (step z d s) (fun x hx => hl x (by simp [hx])) h1
    exact ⟨⟨h, ih.1⟩, by simpa [run] using ih.2⟩

theorem run_append (z : β) (d : Disk β) (a b : List (Sys β)) : run z d (a ++ b) = run z (run z d a) b := by
  simp [run, List.foldl_append]

/-! ### syscalls that only touch the content of one inode -/

/-- `s` is a `pwrite`/`ftruncate`/`fsync` of inode `i` -/
def OnIno (i : Nat) : Sys β → Prop
  | .pwrite j _ _ => j = i
  | .ftruncate j _ => j = i
  | .fsync j => j = i
  | _ => False

/-- what a content-only syscall does to the volatile content of its inode -/
def contentStep (z : β) (b : List β) : Sys β → List β
  | .pwrite _ off w => pwriteL z b off w
  | .ftruncate _ n => truncL z b n
  | _ => b

/-- the complete image a list of content-only syscalls builds from an empty file -/
def imageOf (z : β) (ws : List (Sys β)) : List β := ws.foldl (contentStep z) []

theorem vol_snoc (z : β) (n : Inode β) (u : Upd β) :
    ({ n with pend := n.pend ++ [u] } : Inode β).vol z = Upd.apply z (n.vol z) u := by
  simp [Inode.vol, List.foldl_append]

@[simp] theorem setIno_same (f : Nat → Inode β) (i : Nat) (n : Inode β) : setIno f i n i = n := by
  simp [setIno]

theorem setIno_other (f : Nat → Inode β) (i j : Nat) (n : Inode β) (h : j ≠ i) : setIno f i n j = f j := by
  simp [setIno, h]

/-- a content-only syscall on `i`: volatile directory and all other inodes are untouched, the volatile
    content of `i` moves by `contentStep` -/
theorem step_onIno (z : β) (d : Disk β) (i : Nat) (s : Sys β) (hs : OnIno i s) :
    (step z d s).dir = d.dir ∧ (∀ j, j ≠ i → (step z d s).ino j = d.ino j) ∧
    ((step z d s).ino i).vol z = contentStep z ((d.ino i).vol z) s := by
  cases s with
  | pwrite j off w =>
    have hj : j = i := hs
    subst hj
    refine ⟨rfl, fun k hk => by simp [step, setIno_other _ _ _ _ hk], ?_⟩
    simp only [step, setIno_same, contentStep]
    exact vol_snoc z (d.ino j) (.write off w)
  | ftruncate j n =>
    have hj : j = i := hs
    subst hj
    refine ⟨rfl, fun k hk => by simp [step, setIno_other _ _ _ _ hk], ?_⟩
    simp only [step, setIno_same, contentStep]
    exact vol_snoc z (d.ino j) (.trunc n)
  | fsync j =>
    have hj : j = i := hs
    subst hj
    refine ⟨rfl, fun k hk => by simp [step, setIno_other _ _ _ _ hk], ?_⟩
    simp [step, contentStep, Inode.vol]
  | create a j => exact absurd hs (by simp [OnIno])
  | rename a b => exact absurd hs (by simp [OnIno])
  | unlink a => exact absurd hs (by simp [OnIno])
  | fsyncDir => exact absurd hs (by simp [OnIno])

/-- content-only syscalls never touch the durable directory or the pending directory operations -/
theorem step_onIno_dir (z : β) (d : Disk β) (i : Nat) (s : Sys β) (hs : OnIno i s) :
    (step z d s).ddir = d.ddir ∧ (step z d s).dpend = d.dpend := by
  cases s <;> first | exact ⟨rfl, rfl⟩ | exact absurd hs (by simp [OnIno])

/-- an inode without un-fsynced updates survives a power loss unchanged -/
theorem survives_synced (z : β) (n : Inode β) (h : n.pend = []) (c : List β) (hc : Survives z n c) :
    c = n.durable := by
  cases hc with
  | whole keep hk =>
    rw [h] at hk
    have : keep = [] := List.sublist_nil.mp hk
    subst this; rfl
  | torn keep off w t hk =>
    rw [h] at hk
    have := List.sublist_nil.mp hk
    simp at this

/-- the volatile content is one of the power-loss survivors (nothing was lost) -/
theorem survives_vol (z : β) (n : Inode β) : Survives z n (n.vol z) :=
  Survives.whole n.pend (List.Sublist.refl _)

/-- the durable image is one of the power-loss survivors (everything un-fsynced was lost) -/
theorem survives_durable (z : β) (n : Inode β) : Survives z n n.durable := by
  have := Survives.whole (z := z) (n := n) [] (List.nil_sublist _)
  simpa using this

end Mv.Disk
