/-
  C19 — single-file guarantee: "After any sequence of API calls has returned, successfully or with an
  error, the directory holding a memory contains no file other than the .mv2 files the caller created.
  create/open refuse to run when a forbidden sidecar (-wal, -shm, -lock, -journal and dot-prefixed
  variants) exists."

  Model: MvModel/Dir.lean (directory effects of every API step; suffix tables, candidate formats, guard
  positions and temp-name constants generated from the source).
-/
import MvProps.C19Lemmas
namespace Mv.Dir
open Mv.Gen.C19

/-! ## Part 1 — the invariant -/

/-- the directory is what the caller made it, and every live handle's file is in it -/
def Inv (s : St) (c : List Name) : Prop := s.dir = c ∧ ∀ n ∈ s.handles, n ∈ s.dir

/-- the per-step side condition of `Untampered` -/
def opUntampered (s : St) : Op → Prop
  | .ext (.unlink x) => x ∉ s.handles
  | .ext (.rename a _) => a ∉ s.handles
  | _ => True

theorem step_inv {s : St} {c : List Name} {op : Op} (hi : Inv s c)
    (hf : ∀ st ∈ op.stages, st.isCommitFault = false) (hu : opUntampered s op) :
    Inv (step s op).1 (callerStep c op) := by
  obtain ⟨hd, hh⟩ := hi
  subst hd
  cases op with
  | create n f =>
    simp only [step, callerStep]
    cases hg : (if guard_create then ensureSingleFile s.dir n else none) with
    | some cand => exact ⟨rfl, hh⟩
    | none =>
      cases f with
      | io => exact ⟨by simp, hh⟩
      | lock => exact ⟨by simp, fun m hm => mem_add.mpr (Or.inr (hh m hm))⟩
      | late => exact ⟨by simp, fun m hm => mem_add.mpr (Or.inr (hh m hm))⟩
      | none =>
        refine ⟨by simp, ?_⟩
        intro m hm
        simp only [List.mem_cons] at hm
        cases hm with
        | inl h => exact mem_add.mpr (Or.inl h)
        | inr h => exact mem_add.mpr (Or.inr (hh m h))
  | «open» n ro f =>
    simp only [step, callerStep]
    split
    · exact ⟨rfl, hh⟩
    · split
      · exact ⟨rfl, hh⟩
      · next hn =>
        cases f with
        | lock => exact ⟨rfl, hh⟩
        | corrupt => exact ⟨rfl, hh⟩
        | none =>
          refine ⟨rfl, ?_⟩
          intro m hm
          simp only [List.mem_cons] at hm
          cases hm with
          | inl h => subst h; exact Decidable.not_not.mp hn
          | inr h => exact hh m h
  | call n cl =>
    simp only [step, callerStep]
    split
    · exact ⟨rfl, hh⟩
    · next hn =>
      have hn' : n ∈ s.dir := hh n (Decidable.not_not.mp hn)
      have hp := callStep_preserves (c := cl) hn' (by simpa [Op.stages] using hf)
      simp only [hp]
      exact ⟨rfl, hh⟩
  | drop n dirty st =>
    simp only [step, callerStep]
    split
    · exact ⟨rfl, hh⟩
    · next hn =>
      have hn' : n ∈ s.dir := hh n (Decidable.not_not.mp hn)
      have hp : applyAll s.dir (if dirty then (runStage s.dir n st).1 else []) = s.dir := by
        cases dirty with
        | false => simp [applyAll]
        | true =>
          simp only [if_true]
          exact runStage_preserves hn' (hf st (by simp [Op.stages]))
      simp only [hp]
      exact ⟨rfl, fun m hm => hh m (List.mem_of_mem_erase hm)⟩
  | forget n =>
    simp only [step, callerStep]
    split
    · exact ⟨rfl, hh⟩
    · exact ⟨rfl, fun m hm => hh m (List.mem_of_mem_erase hm)⟩
  | doctor n lock rounds ok =>
    simp only [step, callerStep]
    split
    · exact ⟨rfl, hh⟩
    · split
      · exact ⟨rfl, hh⟩
      · next hn =>
        split
        · exact ⟨rfl, hh⟩
        · have hp := runStages_preserves (n := n) (Decidable.not_not.mp hn) (sts := rounds)
            (by simpa [Op.stages] using hf)
          simp only [hp]
          exact ⟨rfl, hh⟩
  | ext e =>
    simp only [step, callerStep]
    refine ⟨rfl, ?_⟩
    intro m hm
    have hmd := hh m hm
    cases e with
    | creat x => exact mem_add.mpr (Or.inr hmd)
    | unlink x =>
      have : m ≠ x := fun e => hu (e ▸ hm)
      exact mem_del.mpr ⟨hmd, this⟩
    | rename a b =>
      have hma : m ≠ a := fun e => hu (e ▸ hm)
      simp only [Eff.apply]
      split
      · exact mem_add.mpr (Or.inr (mem_del.mpr ⟨hmd, hma⟩))
      · exact hmd

theorem untampered_cons {s : St} {op : Op} {rest : List Op} (h : Untampered s (op :: rest)) :
    opUntampered s op ∧ Untampered (step s op).1 rest := by
  unfold Untampered at h
  refine ⟨?_, h.2⟩
  have h1 := h.1
  unfold opUntampered
  split <;> simp_all

theorem run_inv : ∀ (h : List Op) (s : St) (c : List Name), Inv s c → NoCommitFault h → Untampered s h →
    Inv (run s h) (callerDir c h) := by
  intro h
  induction h with
  | nil => intro s c hi _ _; simpa [run, callerDir] using hi
  | cons op rest ih =>
    intro s c hi hf hu
    obtain ⟨hu1, hu2⟩ := untampered_cons hu
    have h1 := step_inv hi (hf op List.mem_cons_self) hu1
    have := ih (step s op).1 (callerStep c op) h1
      (fun o ho => hf o (List.mem_cons_of_mem _ ho)) hu2
    simpa [run, callerDir] using this

/-- **C19, first sentence.**  For EVERY history of API steps — any operations, successful or failing at
    any point (rejected puts, failed commits at any `?` of `with_staging_lock`, lock contention, corrupt
    files, refused opens, doctor with any number of internal commits, dropped and leaked handles), any
    random temp names, interleaved with the caller's own file operations — after the last step the
    directory is EXACTLY the caller's view of it: the files it had, plus the `.mv2` files it asked
    `create` for, changed only by its own file operations.  Premises: no OS-level failure inside
    `AtomicWriteFile::commit` (see `C19_commit_fault_leaks`: the premise is necessary), and the caller
    does not unlink/rename a memory file under a live handle. -/
theorem C19_inv (s : St) (h : List Op) (hs : ∀ n ∈ s.handles, n ∈ s.dir)
    (hf : NoCommitFault h) (hu : Untampered s h) :
    (run s h).dir = callerDir s.dir h :=
  (run_inv h s s.dir ⟨rfl, hs⟩ hf hu).1

theorem noCommitFault_take {h : List Op} (k : Nat) (hf : NoCommitFault h) : NoCommitFault (h.take k) :=
  fun op ho => hf op (List.mem_of_mem_take ho)

theorem untampered_take : ∀ (h : List Op) (s : St) (k : Nat), Untampered s h → Untampered s (h.take k) := by
  intro h
  induction h with
  | nil => intro s k hu; simpa using hu
  | cons op rest ih =>
    intro s k hu
    cases k with
    | zero => simp [Untampered]
    | succ k =>
      simp only [List.take_succ_cons]
      unfold Untampered at hu ⊢
      exact ⟨hu.1, ih _ k hu.2⟩

/-- … and this holds after EVERY completed step of the history, not only at its end -/
theorem C19_inv_every_step (s : St) (h : List Op) (hs : ∀ n ∈ s.handles, n ∈ s.dir)
    (hf : NoCommitFault h) (hu : Untampered s h) (k : Nat) :
    (run s (h.take k)).dir = callerDir s.dir (h.take k) :=
  C19_inv s (h.take k) hs (noCommitFault_take k hf) (untampered_take h s k hu)

/-! ### without the `Untampered` premise: still nothing foreign ever appears -/

theorem step_no_extra {s : St} {op : Op} (hf : ∀ st ∈ op.stages, st.isCommitFault = false) :
    (∀ x ∈ (step s op).1.dir, x ∈ s.dir ∨ x ∈ s.handles ∨ x ∈ introduced [op]) ∧
    (∀ x ∈ (step s op).1.handles, x ∈ s.dir ∨ x ∈ s.handles ∨ x ∈ introduced [op]) := by
  cases op with
  | create n f =>
    simp only [step]
    cases hg : (if guard_create then ensureSingleFile s.dir n else none) with
    | some cand => exact ⟨fun x hx => Or.inl hx, fun x hx => Or.inr (Or.inl hx)⟩
    | none =>
      have hadd : ∀ x ∈ add n s.dir, x ∈ s.dir ∨ x ∈ s.handles ∨ x ∈ introduced [Op.create n f] := by
        intro x hx
        cases mem_add.mp hx with
        | inl h => exact Or.inr (Or.inr (by simp [introduced, h]))
        | inr h => exact Or.inl h
      cases f with
      | io => exact ⟨fun x hx => Or.inl hx, fun x hx => Or.inr (Or.inl hx)⟩
      | lock => exact ⟨hadd, fun x hx => Or.inr (Or.inl hx)⟩
      | late => exact ⟨hadd, fun x hx => Or.inr (Or.inl hx)⟩
      | none =>
        refine ⟨hadd, ?_⟩
        intro x hx
        simp only [List.mem_cons] at hx
        cases hx with
        | inl h => exact Or.inr (Or.inr (by simp [introduced, h]))
        | inr h => exact Or.inr (Or.inl h)
  | «open» n ro f =>
    simp only [step]
    split
    · exact ⟨fun x hx => Or.inl hx, fun x hx => Or.inr (Or.inl hx)⟩
    · split
      · exact ⟨fun x hx => Or.inl hx, fun x hx => Or.inr (Or.inl hx)⟩
      · next hn =>
        cases f with
        | lock => exact ⟨fun x hx => Or.inl hx, fun x hx => Or.inr (Or.inl hx)⟩
        | corrupt => exact ⟨fun x hx => Or.inl hx, fun x hx => Or.inr (Or.inl hx)⟩
        | none =>
          refine ⟨fun x hx => Or.inl hx, ?_⟩
          intro x hx
          simp only [List.mem_cons] at hx
          cases hx with
          | inl h => subst h; exact Or.inl (Decidable.not_not.mp hn)
          | inr h => exact Or.inr (Or.inl h)
  | call n cl =>
    simp only [step]
    split
    · exact ⟨fun x hx => Or.inl hx, fun x hx => Or.inr (Or.inl hx)⟩
    · next hn =>
      refine ⟨?_, fun x hx => Or.inr (Or.inl hx)⟩
      intro x hx
      cases mem_callStep (c := cl) (by simpa [Op.stages] using hf) hx with
      | inl h => exact Or.inl h
      | inr h => subst h; exact Or.inr (Or.inl (Decidable.not_not.mp hn))
  | drop n dirty st =>
    simp only [step]
    split
    · exact ⟨fun x hx => Or.inl hx, fun x hx => Or.inr (Or.inl hx)⟩
    · next hn =>
      refine ⟨?_, fun x hx => Or.inr (Or.inl (List.mem_of_mem_erase hx))⟩
      intro x hx
      cases dirty with
      | false => simp [applyAll] at hx; exact Or.inl hx
      | true =>
        simp only [if_true] at hx
        cases mem_runStage (hf st (by simp [Op.stages])) hx with
        | inl h => exact Or.inl h
        | inr h => subst h; exact Or.inr (Or.inl (Decidable.not_not.mp hn))
  | forget n =>
    simp only [step]
    split
    · exact ⟨fun x hx => Or.inl hx, fun x hx => Or.inr (Or.inl hx)⟩
    · exact ⟨fun x hx => Or.inl hx, fun x hx => Or.inr (Or.inl (List.mem_of_mem_erase hx))⟩
  | doctor n lock rounds ok =>
    simp only [step]
    split
    · exact ⟨fun x hx => Or.inl hx, fun x hx => Or.inr (Or.inl hx)⟩
    · split
      · exact ⟨fun x hx => Or.inl hx, fun x hx => Or.inr (Or.inl hx)⟩
      · next hn =>
        split
        · exact ⟨fun x hx => Or.inl hx, fun x hx => Or.inr (Or.inl hx)⟩
        · refine ⟨?_, fun x hx => Or.inr (Or.inl hx)⟩
          intro x hx
          cases mem_runStages (sts := rounds) (by simpa [Op.stages] using hf) hx with
          | inl h => exact Or.inl h
          | inr h => subst h; exact Or.inl (Decidable.not_not.mp hn)
  | ext e =>
    simp only [step]
    refine ⟨?_, fun x hx => Or.inr (Or.inl hx)⟩
    intro x hx
    cases e with
    | creat y =>
      cases mem_add.mp hx with
      | inl h => exact Or.inr (Or.inr (by simp [introduced, h]))
      | inr h => exact Or.inl h
    | unlink y => exact Or.inl (mem_del.mp hx).1
    | rename a b =>
      simp only [Eff.apply] at hx
      split at hx
      · cases mem_add.mp hx with
        | inl h => exact Or.inr (Or.inr (by simp [introduced, h]))
        | inr h => exact Or.inl (mem_del.mp h).1
      · exact Or.inl hx

theorem introduced_cons (op : Op) (rest : List Op) :
    introduced (op :: rest) = introduced [op] ++ introduced rest := by
  cases op with
  | ext e => cases e <;> simp [introduced]
  | _ => simp [introduced]

theorem run_no_extra : ∀ (h : List Op) (s : St), NoCommitFault h →
    (∀ x ∈ (run s h).dir, x ∈ s.dir ∨ x ∈ s.handles ∨ x ∈ introduced h) := by
  intro h
  induction h with
  | nil => intro s _ x hx; exact Or.inl (by simpa [run] using hx)
  | cons op rest ih =>
    intro s hf x hx
    have hs := step_no_extra (s := s) (op := op) (hf op List.mem_cons_self)
    have := ih (step s op).1 (fun o ho => hf o (List.mem_cons_of_mem _ ho)) x (by simpa [run] using hx)
    rw [introduced_cons]
    rcases this with h | h | h
    · rcases hs.1 x h with a | a | a
      · exact Or.inl a
      · exact Or.inr (Or.inl a)
      · exact Or.inr (Or.inr (List.mem_append_left _ a))
    · rcases hs.2 x h with a | a | a
      · exact Or.inl a
      · exact Or.inr (Or.inl a)
      · exact Or.inr (Or.inr (List.mem_append_left _ a))
    · exact Or.inr (Or.inr (List.mem_append_right _ h))

/-- **No foreign entry, even when the caller tampers with live memories**: whatever the history, every
    entry of the directory was there at the start, or is a name the caller passed to `create`, or a name
    the caller's own file operations produced.  (Started without handles.) -/
theorem C19_no_extra (d : List Name) (h : List Op) (hf : NoCommitFault h) :
    ∀ x ∈ (run { dir := d } h).dir, x ∈ d ∨ x ∈ introduced h := by
  intro x hx
  rcases run_no_extra h { dir := d } hf x hx with a | a | a
  · exact Or.inl a
  · simp at a
  · exact Or.inr a

/-! ### the premise `NoCommitFault` is necessary -/

private def mv : Name := "m.mv2".toList
private def r1 : List Char := "Ab12Cd".toList

/-- an OS failure inside `AtomicWriteFile::commit` (the crate marks the file finalized BEFORE its fsync and
    `renameat`) leaves the staging temp `.m.mv2.Ab12Cd` behind: the call returns an error and the
    directory holds a file the caller never created -/
theorem C19_commit_fault_leaks :
    (run { dir := [] } [.create mv .none, .call mv (.mutate true false .early),
                        .call mv (.commit true (.commitFault [r1]))]).dir
      = [tmpName mv r1, mv] ∧
    callerDir [] [.create mv .none, .call mv (.mutate true false .early),
                  .call mv (.commit true (.commitFault [r1]))] = [mv] := by
  decide

/-! ## Part 2 — refusal -/

/-- **C19, second sentence.**  When a forbidden sidecar of `n` exists, `create`, `open`,
    `open_read_only` and `doctor` answer `AuxiliaryFileDetected` (naming the first existing candidate in
    scan order) and change nothing — whatever the fault inputs. -/
theorem C19_refuse (s : St) (n c : Name) (hc : ensureSingleFile s.dir n = some c) :
    (∀ f, step s (.create n f) = (s, [], .aux c)) ∧
    (∀ ro f, step s (.open n ro f) = (s, [], .aux c)) ∧
    (∀ lock rounds ok, step s (.doctor n lock rounds ok) = (s, [], .aux c)) := by
  refine ⟨?_, ?_, ?_⟩
  · intro f; simp [step, guard_create, hc]
  · intro ro f
    cases ro <;> simp [step, guard_open, guard_open_read_only_with_options, hc]
  · intro lock rounds ok; simp [step, guard_doctor_plan, guard_try_open, hc]

/-- the refusal fires exactly when one of the eight candidates exists -/
theorem C19_refuse_iff (d : List Name) (n : Name) :
    (∃ c, ensureSingleFile d n = some c) ↔ ∃ c ∈ candidates n, c ∈ d := by
  unfold ensureSingleFile
  constructor
  · rintro ⟨c, hc⟩
    have h1 := List.mem_of_find?_eq_some hc
    have h2 := List.find?_some hc
    exact ⟨c, h1, by simpa using h2⟩
  · rintro ⟨c, hc, hd⟩
    cases hf : (candidates n).find? (fun c => decide (c ∈ d)) with
    | some x => exact ⟨x, rfl⟩
    | none =>
      have := List.find?_eq_none.mp hf c hc
      simp [hd] at this

/-- the candidate reported is one that exists, and no earlier candidate in scan order exists -/
theorem C19_refuse_first (d : List Name) (n c : Name) (hc : ensureSingleFile d n = some c) :
    c ∈ candidates n ∧ c ∈ d := by
  unfold ensureSingleFile at hc
  exact ⟨List.mem_of_find?_eq_some hc, by simpa using List.find?_some hc⟩

/-- without a sidecar nothing is refused for that reason -/
theorem C19_no_spurious_refusal (s : St) (n : Name) (hc : ensureSingleFile s.dir n = none) (op : Op)
    (hop : (∃ f, op = .create n f) ∨ (∃ ro f, op = .open n ro f) ∨ (∃ l r o, op = .doctor n l r o)) :
    ∀ c, (step s op).2.2 ≠ .aux c := by
  intro c
  rcases hop with ⟨f, rfl⟩ | ⟨ro, f, rfl⟩ | ⟨l, r, o, rfl⟩
  · cases f <;> simp [step, guard_create, hc]
  · cases ro <;> cases f <;>
      simp [step, guard_open, guard_open_read_only_with_options, hc] <;> split <;> simp
  · simp only [step, guard_doctor_plan, guard_try_open, hc]
    simp only [Bool.and_self, if_true]
    split
    · simp
    · split
      · simp
      · cases o <;> simp

/-! ### table lemmas: every suffix named by the property text is in the generated tables -/

private def L (s : String) : List Char := s.toList

/-- the tables read from `ensure_single_file` are exactly the eight suffixes of the property text -/
theorem C19_tables :
    forbidden = [L "-wal", L "-shm", L "-lock", L "-journal"] ∧
    hiddenForbidden = [L ".wal", L ".shm", L ".lock", L ".journal"] ∧
    plainPrefix = [] ∧ plainInfix = [] ∧ hiddenPrefix = ['.'] ∧ hiddenInfix = [] := by
  decide

/-- for EVERY memory name: the eight candidate names, in scan order -/
theorem C19_candidates (n : Name) :
    candidates n = [n ++ L "-wal", n ++ L "-shm", n ++ L "-lock", n ++ L "-journal",
                    '.' :: n ++ L ".wal", '.' :: n ++ L ".shm", '.' :: n ++ L ".lock",
                    '.' :: n ++ L ".journal"] := by
  simp [candidates, forbidden, hiddenForbidden, plainPrefix, plainInfix, hiddenPrefix, hiddenInfix, L]

/-- all the entry points that touch a memory by PATH are guarded (read from the source) -/
theorem C19_guards :
    guard_create = true ∧ guard_open = true ∧ guard_open_read_only_with_options = true ∧
    guard_try_open = true ∧ guard_doctor_plan = true := by
  decide

/-- each single forbidden sidecar suffices for the refusal -/
theorem C19_each_sidecar_refuses (s : St) (n c : Name) (hc : c ∈ candidates n) (hd : c ∈ s.dir) :
    ∃ c', (∀ f, (step s (.create n f)).2.2 = .aux c') ∧ (∀ ro f, (step s (.open n ro f)).2.2 = .aux c') ∧
      (∀ f, (step s (.create n f)).1 = s) ∧ (∀ ro f, (step s (.open n ro f)).1 = s) := by
  obtain ⟨c', hc'⟩ := (C19_refuse_iff s.dir n).mpr ⟨c, hc, hd⟩
  obtain ⟨h1, h2, _⟩ := C19_refuse s n c' hc'
  exact ⟨c', fun f => by rw [h1 f], fun ro f => by rw [h2 ro f], fun f => by rw [h1 f],
    fun ro f => by rw [h2 ro f]⟩

/-! ### the effects listed for a step are exactly what changes the directory -/

/-- the directory after a step is the directory before it with the step's effect list applied: the model's
    state and the event stream compared with inotify cannot drift apart -/
theorem C19_effects_explain_dir (s : St) (op : Op) :
    (step s op).1.dir = applyAll s.dir (step s op).2.1 := by
  cases op with
  | create n f =>
    simp only [step]
    cases hg : (if guard_create then ensureSingleFile s.dir n else none) with
    | some cand => simp [applyAll]
    | none =>
      have h : add n s.dir = applyAll s.dir (creatIfAbsent s.dir n) := by
        unfold creatIfAbsent
        by_cases hn : n ∈ s.dir
        · simp [hn, applyAll, add_of_mem]
        · simp [hn, applyAll, Eff.apply]
      cases f <;> simp [applyAll, h]
  | «open» n ro f =>
    simp only [step]
    split
    · simp [applyAll]
    · split
      · simp [applyAll]
      · cases f <;> simp [applyAll]
  | call n cl =>
    simp only [step]
    split <;> simp [applyAll]
  | drop n dirty st =>
    simp only [step]
    split <;> simp [applyAll]
  | forget n =>
    simp only [step]
    split <;> simp [applyAll]
  | doctor n lock rounds ok =>
    simp only [step]
    split
    · simp [applyAll]
    · split
      · simp [applyAll]
      · split <;> simp [applyAll]
  | ext e => simp [step, applyAll]

/-! ### the library's own temp is never mistaken for a sidecar -/

private theorem short_suffix_ne {P Q r sfx : List Char} (hr : r.all Char.isAlphanum = true)
    (hl : sfx.length ≤ r.length) (c : Char) (rest : List Char) (hs : sfx = c :: rest)
    (hc : c.isAlphanum = false) : P ++ r ≠ Q ++ sfx := by
  intro h
  have hsplit : r = r.take (r.length - sfx.length) ++ r.drop (r.length - sfx.length) :=
    (List.take_append_drop _ _).symm
  rw [hsplit, ← List.append_assoc] at h
  have hlen : (r.drop (r.length - sfx.length)).length = sfx.length := by
    simp only [List.length_drop]; omega
  have := (List.append_inj' h hlen).2
  have hmem : c ∈ r := by
    have : c ∈ r.drop (r.length - sfx.length) := by rw [this, hs]; exact List.mem_cons_self
    exact List.mem_of_mem_drop this
  have := (List.all_eq_true.mp hr) c hmem
  simp [hc] at this

private theorem journal_suffix_ne {P Q r : List Char} (c : Char) (hr : r.length = 6) :
    P ++ ['.'] ++ r ≠ Q ++ (c :: 'j' :: ['o', 'u', 'r', 'n', 'a', 'l']) := by
  intro h
  have h' : (P ++ ['.']) ++ r = (Q ++ [c, 'j']) ++ ['o', 'u', 'r', 'n', 'a', 'l'] := by
    simpa [List.append_assoc] using h
  have := (List.append_inj' h' (by simp [hr])).1
  have hrev := congrArg List.reverse this
  simp at hrev

/-- **the staging temp `.<name>.<6 alphanumerics>` is not a sidecar candidate of ANY memory name** — a
    temp that is visible for a moment (or left behind by an OS fault) never makes `create`/`open` refuse -/
theorem C19_temp_never_a_sidecar (n m : Name) (r : List Char) (hr : validSuffix r = true) :
    tmpName n r ∉ candidates m := by
  have hv : r.length = 6 ∧ r.all Char.isAlphanum = true := by
    simpa [validSuffix, tmpSuffixLen] using hr
  obtain ⟨hlen, hall⟩ := hv
  have ht : tmpName n r = ('.' :: n ++ ['.']) ++ r := by simp [tmpName, tmpLead, tmpSep]
  rw [C19_candidates, ht]
  intro hmem
  simp only [List.mem_cons, List.not_mem_nil, or_false] at hmem
  rcases hmem with h | h | h | h | h | h | h | h
  · exact short_suffix_ne (P := '.' :: n ++ ['.']) (Q := m) hall (by simp [hlen]) '-' _ rfl (by decide) h
  · exact short_suffix_ne (P := '.' :: n ++ ['.']) (Q := m) hall (by simp [hlen]) '-' _ rfl (by decide) h
  · exact short_suffix_ne (P := '.' :: n ++ ['.']) (Q := m) hall (by simp [hlen]) '-' _ rfl (by decide) h
  · exact journal_suffix_ne (P := '.' :: n) (Q := m) '-' hlen (by simpa [L] using h)
  · exact short_suffix_ne (P := '.' :: n ++ ['.']) (Q := '.' :: m) hall (by simp [hlen]) '.' _ rfl (by decide) h
  · exact short_suffix_ne (P := '.' :: n ++ ['.']) (Q := '.' :: m) hall (by simp [hlen]) '.' _ rfl (by decide) h
  · exact short_suffix_ne (P := '.' :: n ++ ['.']) (Q := '.' :: m) hall (by simp [hlen]) '.' _ rfl (by decide) h
  · exact journal_suffix_ne (P := '.' :: n) (Q := '.' :: m) '.' hlen (by simpa [L] using h)

/-! ## non-vacuity -/

/-- executable form of `Untampered` (for checking concrete histories) -/
def opUntamperedB (s : St) : Op → Bool
  | .ext (.unlink x) => decide (x ∉ s.handles)
  | .ext (.rename a _) => decide (a ∉ s.handles)
  | _ => true

def untamperedB : St → List Op → Bool
  | _, [] => true
  | s, op :: rest => opUntamperedB s op && untamperedB (step s op).1 rest

theorem untampered_of_B : ∀ (h : List Op) (s : St), untamperedB s h = true → Untampered s h := by
  intro h
  induction h with
  | nil => intro s _; trivial
  | cons op rest ih =>
    intro s hb
    simp only [untamperedB, Bool.and_eq_true] at hb
    unfold Untampered
    refine ⟨?_, ih _ hb.2⟩
    have h1 := hb.1
    cases op with
    | ext e => cases e <;> simp_all [opUntamperedB]
    | _ => trivial

/-- a history with a rejected put, an auto-commit, a failed commit, a plain commit, a refused second
    `create` (planted `-wal`), a vacuum, a dirty drop, a reopen and a doctor run with two internal
    commits satisfies the premises; its directory ends as the memory plus the caller's own file -/
example :
    let h : List Op :=
      [.create mv .none, .call mv (.mutate false false .early), .call mv (.mutate true true (.ok [r1])),
       .call mv (.commit true (.mid [r1])), .call mv (.commit true (.ok [r1, r1])),
       .ext (.creat (mv ++ L "-wal")), .create mv .none, .ext (.unlink (mv ++ L "-wal")),
       .call mv (.vacuum true (.ok [r1])), .drop mv true (.ok [r1]), .open mv false .none,
       .forget mv, .doctor mv false [.ok [r1], .mid [r1]] true, .ext (.creat (L "notes.txt"))]
    NoCommitFault h ∧ Untampered { dir := [] } h ∧
    (run { dir := [] } h).dir = [L "notes.txt", mv] ∧ callerDir [] h = [L "notes.txt", mv] := by
  refine ⟨?_, ?_, ?_, ?_⟩
  · intro op ho st hst
    simp only [List.mem_cons, List.not_mem_nil, or_false] at ho
    rcases ho with rfl | rfl | rfl | rfl | rfl | rfl | rfl | rfl | rfl | rfl | rfl | rfl | rfl | rfl <;>
      simp [Op.stages, Call.stages] at hst <;> (try rcases hst with rfl | rfl) <;> simp_all [Stage.isCommitFault]
  · exact untampered_of_B _ _ (by decide)
  · decide
  · decide

/-- the refusal hypothesis is satisfiable: `.m.mv2.lock` next to `m.mv2` -/
example : ensureSingleFile [mv, '.' :: mv ++ L ".lock"] mv = some ('.' :: mv ++ L ".lock") := by decide

end Mv.Dir
