/-
  C34 — Chunk planning partitions the document text.
  Property theorems; the model is MvModel/Chunk.lean (mirror of /repo/src/memvid/chunks.rs).
-/
import MvModel.Chunk
namespace Mv.Chunk

/-! ### positions produced by the four scanning loops stay inside `(lo, hi]` -/

/-- `lo < p ≤ hi` -/
def InR (lo hi p : Nat) : Prop := lo < p ∧ p ≤ hi

theorem fwdSentence_inR (lo hi : Nat) :
    ∀ (w : List Char) (idx : Nat) (cands : List Nat), lo ≤ idx → idx + w.length ≤ hi →
      (∀ c ∈ cands, InR lo hi c) →
      (∀ r, (fwdSentence w idx cands).1 = some r → InR lo hi r) ∧
      (∀ c ∈ (fwdSentence w idx cands).2, InR lo hi c) := by
  intro w
  induction w with
  | nil => intro idx cands _ _ hc; simp [fwdSentence]; exact hc
  | cons ch rest ih =>
    intro idx cands h1 h2 hc
    simp only [List.length_cons] at h2
    unfold fwdSentence
    split
    · refine ⟨?_, hc⟩
      intro r hr
      simp only [Option.some.injEq] at hr
      subst hr
      exact ⟨by omega, by omega⟩
    · split
      · apply ih (idx + 1) _ (by omega) (by omega)
        intro c hcm
        rcases List.mem_append.mp hcm with h | h
        · exact hc c h
        · simp only [List.mem_singleton] at h
          subst h
          exact ⟨by omega, by omega⟩
      · exact ih (idx + 1) cands (by omega) (by omega) hc

theorem bwdSentence_inR (lo hi : Nat) :
    ∀ (w : List Char) (n : Nat) (cands : List Nat), lo + w.length ≤ n → n ≤ hi →
      (∀ c ∈ cands, InR lo hi c) →
      (∀ r, (bwdSentence w n cands).1 = some r → InR lo hi r) ∧
      (∀ c ∈ (bwdSentence w n cands).2, InR lo hi c) := by
  intro w
  induction w with
  | nil => intro n cands _ _ hc; simp [bwdSentence]; exact hc
  | cons ch rest ih =>
    intro n cands h1 h2 hc
    simp only [List.length_cons] at h1
    unfold bwdSentence
    split
    · refine ⟨?_, hc⟩
      intro r hr
      simp only [Option.some.injEq] at hr
      subst hr
      exact ⟨by omega, by omega⟩
    · split
      · refine ⟨by simp, ?_⟩
        intro c hcm
        rcases List.mem_append.mp hcm with h | h
        · exact hc c h
        · simp only [List.mem_singleton] at h
          subst h
          exact ⟨by omega, by omega⟩
      · exact ih (n - 1) cands (by omega) (by omega) hc

theorem fwdWhitespace_inR (lo hi : Nat) :
    ∀ (w : List Char) (idx : Nat), lo ≤ idx → idx + w.length ≤ hi →
      ∀ r, fwdWhitespace w idx = some r → InR lo hi r := by
  intro w
  induction w with
  | nil => intro idx _ _ r hr; simp [fwdWhitespace] at hr
  | cons ch rest ih =>
    intro idx h1 h2 r hr
    simp only [List.length_cons] at h2
    unfold fwdWhitespace at hr
    split at hr
    · simp only [Option.some.injEq] at hr
      subst hr
      exact ⟨by omega, by omega⟩
    · exact ih (idx + 1) (by omega) (by omega) r hr

theorem bwdWhitespace_inR (lo hi : Nat) :
    ∀ (w : List Char) (n : Nat), lo + w.length ≤ n → n ≤ hi →
      ∀ r, bwdWhitespace w n = some r → InR lo hi r := by
  intro w
  induction w with
  | nil => intro n _ _ r hr; simp [bwdWhitespace] at hr
  | cons ch rest ih =>
    intro n h1 h2 r hr
    simp only [List.length_cons] at h1
    unfold bwdWhitespace at hr
    split at hr
    · simp only [Option.some.injEq] at hr
      subst hr
      exact ⟨by omega, by omega⟩
    · exact ih (n - 1) (by omega) (by omega) r hr

theorem foldl_min_mem (key : Nat → Nat) :
    ∀ (xs : List Nat) (x : Nat),
      xs.foldl (fun best y => if key y < key best then y else best) x ∈ x :: xs := by
  intro xs
  induction xs with
  | nil => intro x; simp
  | cons y ys ih =>
    intro x
    simp only [List.foldl_cons]
    split
    · have := ih y
      simp only [List.mem_cons] at this ⊢
      rcases this with h | h
      · exact Or.inr (Or.inl h)
      · exact Or.inr (Or.inr h)
    · have := ih x
      simp only [List.mem_cons] at this ⊢
      rcases this with h | h
      · exact Or.inl h
      · exact Or.inr (Or.inr h)

theorem minByKey_mem (key : Nat → Nat) (l : List Nat) (x : Nat) (h : minByKey key l = some x) :
    x ∈ l := by
  cases l with
  | nil => simp [minByKey] at h
  | cons a as =>
    simp only [minByKey, Option.some.injEq] at h
    subst h
    exact foldl_min_mem key as a

theorem window_length_le (text : List Char) (lo hi : Nat) : (window text lo hi).length ≤ hi - lo := by
  simp only [window, List.length_take, List.length_drop]
  omega

/-- every value `choose_chunk_boundary` can return lies in `(start, min (target+slack) total]`
    whenever `start < target ≤ total` — in particular it is `> start`, so the progress fallback
    of `build_chunk_manifest` is dead code, and `≤ total`. -/
theorem chooseBoundary_bounds (text : List Char) (start target total slack : Nat)
    (h1 : start < target) (h2 : target ≤ total) :
    start < chooseBoundary text start target total slack ∧
    chooseBoundary text start target total slack ≤ total ∧
    chooseBoundary text start target total slack ≤ target + slack := by
  unfold chooseBoundary
  split
  · omega
  · rename_i hlt
    have hlt : target < total := by omega
    -- common facts
    have hfw : target + (window text target (min (target + slack) total)).length ≤ min (target + slack) total := by
      have := window_length_le text target (min (target + slack) total)
      omega
    have hbw : start + ((window text start target).reverse).length ≤ target := by
      have := window_length_le text start target
      simp only [List.length_reverse]
      omega
    have hhi : target ≤ min (target + slack) total := by omega
    have key : ∀ r, InR start (min (target + slack) total) r →
        start < r ∧ r ≤ total ∧ r ≤ target + slack := by
      intro r hr
      have h1 := hr.1
      have h2 := hr.2
      refine ⟨h1, ?_, ?_⟩ <;> omega
    have F := fwdSentence_inR start (min (target + slack) total)
      (window text target (min (target + slack) total)) target [] (by omega) hfw (by simp)
    simp only []
    split
    · rename_i r c heq
      exact key r (F.1 r (by rw [heq]))
    · rename_i c1 heq
      have hc1 : ∀ c ∈ c1, InR start (min (target + slack) total) c := by
        have := F.2; rw [heq] at this; exact this
      have B := bwdSentence_inR start (min (target + slack) total)
        ((window text start target).reverse) target c1 hbw hhi hc1
      split
      · rename_i r c heq2
        exact key r (B.1 r (by rw [heq2]))
      · rename_i c2 heq2
        have hc2 : ∀ c ∈ c2, InR start (min (target + slack) total) c := by
          have := B.2; rw [heq2] at this; exact this
        split
        · rename_i choice hm
          exact key choice (hc2 choice (minByKey_mem _ _ _ hm))
        · split
          · rename_i r hw
            exact key r (fwdWhitespace_inR start _ _ target (by omega) hfw r hw)
          · split
            · rename_i r hw
              exact key r (bwdWhitespace_inR start _ _ target hbw hhi r hw)
            · exact key target ⟨h1, hhi⟩

/-- the progress fallback `if end <= start` of `build_chunk_manifest` is never taken -/
theorem C34_fallback_dead (text : List Char) (cc total slack start : Nat) (hcc : 0 < cc)
    (hs : start < total) :
    ¬ (chooseBoundary text start (min (start + cc) total) total slack ≤ start) := by
  have := (chooseBoundary_bounds text start (min (start + cc) total) total slack (by omega) (by omega)).1
  omega

/-! ### the loop produces a chain of adjacent non-empty ranges from `start` to `total` -/

/-- `rs` is a chain of adjacent, non-empty ranges leading from `s` to `e` -/
def Chain : Nat → List Range → Nat → Prop
  | s, [], e => s = e
  | s, r :: rs, e => r.start = s ∧ r.start < r.stop ∧ Chain r.stop rs e

theorem loop_chain (text : List Char) (cc total slack : Nat) (hcc : 0 < cc) :
    ∀ (fuel start : Nat) (rs : List Range), start ≤ total →
      loop text cc total slack fuel start = some rs → Chain start rs total := by
  intro fuel
  induction fuel with
  | zero =>
    intro start rs hle h
    unfold loop at h
    split at h
    · cases h
    · cases h
      simp only [Chain]
      omega
  | succ fuel ih =>
    intro start rs hle h
    unfold loop at h
    split at h
    · rename_i hlt
      have hb := chooseBoundary_bounds text start (min (start + cc) total) total slack
        (by omega) (by omega)
      simp only [] at h
      split at h
      · obtain ⟨rs', hrs', rfl⟩ := Option.map_eq_some_iff.mp h
        exact ⟨rfl, by simp only []; omega, ih _ rs' (by simp only []; omega) hrs'⟩
      · obtain ⟨rs', hrs', rfl⟩ := Option.map_eq_some_iff.mp h
        exact ⟨rfl, by simp only []; omega, ih _ rs' hb.2.1 hrs'⟩
    · cases h
      simp only [Chain]
      omega

/-- every range the loop emits is at most `chunk_chars + slack` characters long -/
theorem loop_sizes (text : List Char) (cc total slack : Nat) (hcc : 0 < cc) :
    ∀ (fuel start : Nat) (rs : List Range),
      loop text cc total slack fuel start = some rs → ∀ r ∈ rs, r.stop ≤ r.start + cc + slack := by
  intro fuel
  induction fuel with
  | zero =>
    intro start rs h
    unfold loop at h
    split at h
    · cases h
    · cases h; simp
  | succ fuel ih =>
    intro start rs h
    unfold loop at h
    split at h
    · rename_i hlt
      have hb := chooseBoundary_bounds text start (min (start + cc) total) total slack
        (by omega) (by omega)
      simp only [] at h
      split at h
      · obtain ⟨rs', hrs', rfl⟩ := Option.map_eq_some_iff.mp h
        intro r hr
        rcases List.mem_cons.mp hr with rfl | hr
        · simp only []; omega
        · exact ih _ rs' hrs' r hr
      · obtain ⟨rs', hrs', rfl⟩ := Option.map_eq_some_iff.mp h
        intro r hr
        rcases List.mem_cons.mp hr with rfl | hr
        · simp only []; omega
        · exact ih _ rs' hrs' r hr
    · cases h; simp

/-- fuel `> total - start` is enough: the loop never runs out (each iteration moves `start`
    forward by at least one character) -/
theorem loop_isSome (text : List Char) (cc total slack : Nat) (hcc : 0 < cc) :
    ∀ (fuel start : Nat), total - start < fuel →
      (loop text cc total slack fuel start).isSome := by
  intro fuel
  induction fuel with
  | zero => intro start h; omega
  | succ fuel ih =>
    intro start h
    unfold loop
    split
    · rename_i hlt
      have hb := chooseBoundary_bounds text start (min (start + cc) total) total slack
        (by omega) (by omega)
      simp only []
      split
      · rw [Option.isSome_map]; exact ih _ (by omega)
      · rw [Option.isSome_map]; exact ih _ (by omega)
    · rfl

/-! ### consequences of `Chain` -/

theorem Chain.le : ∀ {rs : List Range} {s e : Nat}, Chain s rs e → s ≤ e := by
  intro rs
  induction rs with
  | nil => intro s e h; simp only [Chain] at h; omega
  | cons r rs ih =>
    intro s e h
    obtain ⟨h1, h2, h3⟩ := h
    have := ih h3
    omega

theorem Chain.ne_nil {rs : List Range} {s e : Nat} (h : Chain s rs e) (hlt : s < e) : rs ≠ [] := by
  intro hn
  subst hn
  simp only [Chain] at h
  omega

theorem Chain.head_start : ∀ {rs : List Range} {s e : Nat}, Chain s rs e → s < e →
    rs.head?.map (·.start) = some s := by
  intro rs s e h hlt
  cases rs with
  | nil => simp only [Chain] at h; omega
  | cons r rs => simp [h.1]

theorem Chain.last_stop : ∀ {rs : List Range} {s e : Nat}, Chain s rs e → s < e →
    rs.getLast?.map (·.stop) = some e := by
  intro rs
  induction rs with
  | nil => intro s e h hlt; simp only [Chain] at h; omega
  | cons r rs ih =>
    intro s e h hlt
    obtain ⟨h1, h2, h3⟩ := h
    cases rs with
    | nil => simp only [Chain] at h3; simp [h3]
    | cons r' rs' =>
      have hlt' : r.stop < e := by
        have := Chain.le h3.2.2
        have := h3.1
        have := h3.2.1
        omega
      have := ih h3 hlt'
      simpa [List.getLast?_cons_cons] using this

theorem Chain.adjacent : ∀ {rs : List Range} {s e : Nat}, Chain s rs e →
    ∀ (i : Nat) (h : i + 1 < rs.length), (rs[i]'(by omega)).stop = (rs[i + 1]'h).start := by
  intro rs
  induction rs with
  | nil => intro s e _ i h; simp at h
  | cons r rs ih =>
    intro s e hc i h
    obtain ⟨h1, h2, h3⟩ := hc
    cases i with
    | zero =>
      cases rs with
      | nil => simp at h
      | cons r' rs' => simp [h3.1]
    | succ i =>
      simp only [List.length_cons] at h
      simpa using ih h3 i (by omega)

theorem Chain.each_nonempty : ∀ {rs : List Range} {s e : Nat}, Chain s rs e →
    ∀ r ∈ rs, s ≤ r.start ∧ r.start < r.stop ∧ r.stop ≤ e := by
  intro rs
  induction rs with
  | nil => intro s e _ r hr; simp at hr
  | cons r0 rs ih =>
    intro s e hc r hr
    obtain ⟨h1, h2, h3⟩ := hc
    have hle := Chain.le h3
    rcases List.mem_cons.mp hr with rfl | hr
    · omega
    · have := ih h3 r hr
      omega

theorem window_append (text : List Char) (s m e : Nat) (h1 : s ≤ m) (h2 : m ≤ e) :
    window text s m ++ window text m e = window text s e := by
  unfold window
  have : e - s = (m - s) + (e - m) := by omega
  rw [this, List.take_add, List.drop_drop]
  congr 3
  omega

theorem sliceRange_eq_window (text : List Char) (r : Range) (h : r.start < r.stop) :
    sliceRange text r = window text r.start r.stop := by
  unfold sliceRange window
  rw [if_neg (by omega)]

/-- the slices of a chain concatenate to the window it spans -/
theorem Chain.flatten (text : List Char) : ∀ {rs : List Range} {s e : Nat}, Chain s rs e →
    (rs.map (sliceRange text)).flatten = window text s e := by
  intro rs
  induction rs with
  | nil =>
    intro s e h
    simp only [Chain] at h
    subst h
    simp [window]
  | cons r rs ih =>
    intro s e h
    obtain ⟨h1, h2, h3⟩ := h
    have hle := Chain.le h3
    simp only [List.map_cons, List.flatten_cons]
    rw [ih h3, sliceRange_eq_window text r h2, ← h1]
    exact window_append text r.start r.stop e (by omega) hle

theorem window_full (text : List Char) : window text 0 text.length = text := by
  simp [window]

/-! ### the property -/

/-- the ranges `rs` partition the character positions `0 .. n`: first range starts at 0, last
    ends at `n`, consecutive ranges are adjacent, every range is non-empty and inside `0..n` -/
structure Partition (n : Nat) (rs : List Range) : Prop where
  nonempty : rs ≠ []
  starts_at_zero : rs.head?.map (·.start) = some 0
  ends_at_total : rs.getLast?.map (·.stop) = some n
  contiguous : ∀ (i : Nat) (h : i + 1 < rs.length), (rs[i]'(by omega)).stop = (rs[i + 1]'h).start
  each_nonempty : ∀ r ∈ rs, r.start < r.stop ∧ r.stop ≤ n

theorem Chain.partition {rs : List Range} {n : Nat} (h : Chain 0 rs n) (hn : 0 < n) :
    Partition n rs where
  nonempty := h.ne_nil hn
  starts_at_zero := h.head_start hn
  ends_at_total := h.last_stop hn
  contiguous := h.adjacent
  each_nonempty := fun r hr => ⟨(h.each_nonempty r hr).2.1, (h.each_nonempty r hr).2.2⟩

theorem buildManifest_chain (text : List Char) (cc : Nat) (rs : List Range)
    (h : buildManifest text cc = some rs) :
    0 < cc ∧ cc < text.length ∧ Chain 0 rs text.length ∧
    ∀ r ∈ rs, r.stop ≤ r.start + cc + slackOf cc := by
  unfold buildManifest at h
  split at h
  · cases h
  · rename_i hcc
    simp only [] at h
    split at h
    · cases h
    · rename_i hlen
      exact ⟨by omega, by omega,
        loop_chain text cc text.length (slackOf cc) (by omega) _ 0 rs (by omega) h,
        loop_sizes text cc text.length (slackOf cc) (by omega) _ 0 rs h⟩

/-- `build_chunk_manifest` answers `None` exactly when `chunk_chars = 0` or the text has at most
    `chunk_chars` characters (in particular the loop's fuel `total + 1` never runs out) -/
theorem C34_manifest_none_iff (text : List Char) (cc : Nat) :
    buildManifest text cc = none ↔ cc = 0 ∨ text.length ≤ cc := by
  unfold buildManifest
  split
  · simp_all
  · rename_i hcc
    simp only []
    split
    · simp_all
    · rename_i hlen
      have := loop_isSome text cc text.length (slackOf cc) (by omega) (text.length + 1) 0 (by omega)
      constructor
      · intro hnone; rw [hnone] at this; cases this
      · intro h; omega

/-- **C34 (manifest level, any chunk size).**  Whenever `build_chunk_manifest(text, chunk_chars)`
    answers `Some`, its ranges partition the text: start at 0, end at the character count, are
    contiguous and non-empty; the slices concatenate to the text and none is empty; and every
    range is at most `chunk_chars + slack` long. -/
theorem C34_partition_manifest (text : List Char) (cc : Nat) (rs : List Range)
    (h : buildManifest text cc = some rs) :
    Partition text.length rs ∧
    (rs.map (sliceRange text)).flatten = text ∧
    (∀ c ∈ rs.map (sliceRange text), c ≠ []) ∧
    (∀ r ∈ rs, r.stop - r.start ≤ cc + slackOf cc) := by
  obtain ⟨hcc, hlen, hch, hsz⟩ := buildManifest_chain text cc rs h
  refine ⟨hch.partition (by omega), ?_, ?_, ?_⟩
  · rw [hch.flatten text, window_full]
  · intro c hc
    obtain ⟨r, hr, rfl⟩ := List.mem_map.mp hc
    have hb := hch.each_nonempty r hr
    rw [sliceRange_eq_window text r hb.2.1]
    intro hnil
    have hl : (window text r.start r.stop).length = 0 := by rw [hnil]; rfl
    simp only [window, List.length_take, List.length_drop] at hl
    omega
  · intro r hr
    have := hsz r hr
    omega

/-- **C34 (naive plan).**  Whenever `plan_naive_chunks(text)` answers `Some(plan)`: the manifest
    ranges partition the text (start 0, end = character count, contiguous, each non-empty), there
    are at least two of them, the chunk texts are exactly the slices of the ranges, they
    concatenate to the text, and no chunk is empty.  Holds for EVERY text. -/
theorem C34_partition (text : List Char) (p : Plan) (h : planNaive text = some p) :
    Partition text.length p.ranges ∧
    2 ≤ p.ranges.length ∧
    p.chunks = p.ranges.map (sliceRange text) ∧
    p.chunks.flatten = text ∧
    (∀ c ∈ p.chunks, c ≠ []) ∧
    (∀ r ∈ p.ranges, r.stop - r.start ≤ DEFAULT_CHUNK_CHARS + slackOf DEFAULT_CHUNK_CHARS) := by
  unfold planNaive at h
  split at h
  · cases h
  · rename_i rs hm
    split at h
    · cases h
    · rename_i hlen
      cases h
      obtain ⟨h1, h2, h3, h4⟩ := C34_partition_manifest text _ rs hm
      exact ⟨h1, by simp only []; omega, rfl, h2, h3, h4⟩

/-- **C34 (threshold).**  Below `CHUNK_MIN_CHARS` characters `plan_text_chunks` plans nothing,
    whatever the structure detector and the structural chunker say. -/
theorem C34_threshold (text : List Char) (hasStructure : Bool) (structural : Option Plan)
    (h : text.length < CHUNK_MIN_CHARS) : planText text hasStructure structural = none := by
  unfold planText
  rw [if_pos h]

theorem slackOf_default : slackOf DEFAULT_CHUNK_CHARS = 240 := by decide

/-- at or above the threshold the naive planner always produces a plan (≥ 2 chunks) -/
theorem planNaive_isSome (text : List Char) (h : CHUNK_MIN_CHARS ≤ text.length) :
    (planNaive text).isSome := by
  have hmin := CHUNK_MIN_CHARS_eq
  have hdef := DEFAULT_CHUNK_CHARS_eq
  unfold planNaive
  split
  · rename_i hm
    have := (C34_manifest_none_iff text DEFAULT_CHUNK_CHARS).mp hm
    omega
  · rename_i rs hm
    obtain ⟨hcc, hlen, hch, hsz⟩ := buildManifest_chain text _ rs hm
    split
    · rename_i hl
      exfalso
      cases rs with
      | nil => simp only [Chain] at hch; omega
      | cons r rest =>
        cases rest with
        | cons _ _ => simp at hl
        | nil =>
          obtain ⟨c1, c2, c3⟩ := hch
          simp only [Chain] at c3
          have := hsz r (by simp)
          have := slackOf_default
          omega
    · rfl

/-- **C34 (unstructured text above the threshold).**  If the normalized text has at least
    `CHUNK_MIN_CHARS` characters and the structure detector reports no structure, then
    `plan_text_chunks` DOES return a plan, and that plan partitions the text as in
    `C34_partition`. -/
theorem C34_unstructured (text : List Char) (structural : Option Plan)
    (h : CHUNK_MIN_CHARS ≤ text.length) :
    ∃ p, planText text false structural = some p ∧
      Partition text.length p.ranges ∧
      2 ≤ p.ranges.length ∧
      p.chunks = p.ranges.map (sliceRange text) ∧
      p.chunks.flatten = text ∧
      (∀ c ∈ p.chunks, c ≠ []) ∧
      (∀ r ∈ p.ranges, r.stop - r.start ≤ DEFAULT_CHUNK_CHARS + slackOf DEFAULT_CHUNK_CHARS) := by
  have hs := planNaive_isSome text h
  obtain ⟨p, hp⟩ := Option.isSome_iff_exists.mp hs
  refine ⟨p, ?_, C34_partition text p hp⟩
  unfold planText
  rw [if_neg (by omega)]
  simpa using hp

/-- with structure detected the model only delegates: the result is whatever the (unmodelled)
    structural chunker returns -/
theorem planText_structural (text : List Char) (structural : Option Plan)
    (h : CHUNK_MIN_CHARS ≤ text.length) : planText text true structural = structural := by
  unfold planText
  rw [if_neg (by omega)]
  simp

/-! ### fuel independence, index bounds -/

/-- more fuel never changes an answer: the value computed with sufficient fuel is THE value -/
theorem loop_fuel_mono (text : List Char) (cc total slack : Nat) :
    ∀ (fuel start : Nat) (rs : List Range), loop text cc total slack fuel start = some rs →
      ∀ k, loop text cc total slack (fuel + k) start = some rs := by
  intro fuel
  induction fuel with
  | zero =>
    intro start rs h k
    unfold loop at h
    split at h
    · cases h
    · rename_i hge
      cases h
      cases k with
      | zero => simp [loop, hge]
      | succ k => simp [loop, hge]
  | succ fuel ih =>
    intro start rs h k
    have : fuel + 1 + k = (fuel + k) + 1 := by omega
    rw [this]
    unfold loop at h ⊢
    split
    · rename_i hlt
      rw [if_pos hlt] at h
      simp only [] at h ⊢
      split
      · rename_i hle
        rw [if_pos hle] at h
        obtain ⟨rs', hrs', rfl⟩ := Option.map_eq_some_iff.mp h
        rw [ih _ rs' hrs' k]; rfl
      · rename_i hle
        rw [if_neg hle] at h
        obtain ⟨rs', hrs', rfl⟩ := Option.map_eq_some_iff.mp h
        rw [ih _ rs' hrs' k]; rfl
    · rename_i hlt
      rw [if_neg hlt] at h
      exact h

theorem window_length (text : List Char) (lo hi : Nat) (h : hi ≤ text.length) :
    (window text lo hi).length = hi - lo := by
  simp only [window, List.length_take, List.length_drop]
  omega

theorem window_getElem? (text : List Char) (lo hi j : Nat) (hj : lo + j < hi) :
    (window text lo hi)[j]? = text[lo + j]? := by
  simp only [window, List.getElem?_take, List.getElem?_drop]
  rw [if_pos (by omega)]

/-- **No out-of-bounds index.**  In a call made by `build_chunk_manifest` (`total` = number of
    characters, `start < target ≤ total`) the two windows the four loops walk over,
    `target..forward_limit` and `start..target`, lie inside the text: every `chars[idx]` the Rust
    loops evaluate has `idx < total`, and the model's windows are exactly those characters. -/
theorem C34_windows_in_bounds (text : List Char) (start target slack : Nat)
    (_h1 : start < target) (h2 : target ≤ text.length) :
    let fl := min (target + slack) text.length
    fl ≤ text.length ∧
    (window text target fl).length = fl - target ∧
    (window text start target).length = target - start ∧
    (∀ j, target + j < fl → (window text target fl)[j]? = text[target + j]?) ∧
    (∀ j, start + j < target → (window text start target)[j]? = text[start + j]?) := by
  intro fl
  refine ⟨by omega, window_length _ _ _ (by omega), window_length _ _ _ h2, ?_, ?_⟩
  · intro j hj; exact window_getElem? _ _ _ _ hj
  · intro j hj; exact window_getElem? _ _ _ _ hj

/-! ### non-vacuity -/

/-- a small manifest (chunk size 4, slack 32): newline, forward sentence candidate, hard cuts at
    `target` inside a long word, whitespace fallback -/
example : buildManifest "ab. cd ef\ngh ijklmnop qrstu vw! xyzabcdefghijklmnopqrstuvwxyzabcdefghijklmnopq yes".toList 4 =
    some [⟨0, 10⟩, ⟨10, 31⟩, ⟨31, 32⟩, ⟨32, 36⟩, ⟨36, 40⟩, ⟨40, 44⟩, ⟨44, 79⟩, ⟨79, 82⟩] := by decide

example : (buildManifest "ab. cd ef\ngh ijklmnop".toList 4).map
      (fun rs => (rs.map (sliceRange "ab. cd ef\ngh ijklmnop".toList)).map String.ofList) =
    some ["ab. cd ef\n", "gh ", "ijkl", "mnop"] := by decide

/-- the hypotheses of `C34_partition` / `C34_unstructured` are satisfiable: a 2400-character text
    gets a plan -/
example : (planNaive (List.replicate 2400 'a')).isSome = true :=
  planNaive_isSome _ (by rw [List.length_replicate, CHUNK_MIN_CHARS_eq]; omega)

example : planText (List.replicate 2399 'a') false none = none :=
  C34_threshold _ _ _ (by rw [List.length_replicate, CHUNK_MIN_CHARS_eq]; omega)

-- the concrete plan of a 2400-character word: two hard cuts
set_option maxRecDepth 100000 in
example : (planNaive (List.replicate 2400 'a')).map (·.ranges) = some [⟨0, 1200⟩, ⟨1200, 2400⟩] := by
  decide +kernel

end Mv.Chunk
