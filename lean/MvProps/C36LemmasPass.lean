/-
  C36 helper development, part 4: the pass lemma.  If a `replace_all` pass creates no word boundary
  (`passSafeGo`), then a match of `q` in its output comes from a match of `q` at a gap position of its
  input (`gapMatch`), provided the replacement token is inert for `q`.
-/
import MvProps.C36Lemmas
namespace Mv.Regex

/-- the token is inert for `q`: first/last code points are non-word and rejected by every class of `q`,
    and `q` matches nowhere inside the token -/
structure Inert (T : Tables) (q : Re) (tok : List Nat) (th tl : Nat) (tt : List Nat) : Prop where
  htok : tok = th :: tt
  hlast : lastOpt tok none = some tl
  hth : rejects T th q = true
  htl : rejects T tl q = true
  hthw : T.isWord th = false
  htlw : T.isWord tl = false
  hin : isMatch T q tok = false

theorem isSome_elim {α : Type} {o : Option α} (h : o.isSome = true) : ∃ x, o = some x := by
  cases o with
  | none => cases h
  | some x => exact ⟨x, rfl⟩

theorem gap_of_out (T : Tables) (q r : Re) (tok : List Nat) (th tl : Nat) (tt : List Nat)
    (hqwf : q.wf = true) (hqn : q.nullable = false) (hr : r.nullable = false)
    (hi : Inert T q tok th tl tt) :
    ∀ (n : Nat) (s : List Nat), s.length ≤ n → ∀ (po p : Option Nat),
      anyMatch T q po (replaceGo T r tok p s 0) = true → passSafeGo T r p s 0 = true → CtxRel T po p s →
      gapMatch T q r p s 0 = true := by
  intro n
  induction n with
  | zero =>
    intro s hlen po p hany _ _
    have : s = [] := List.eq_nil_of_length_eq_zero (by omega)
    subst this
    simp only [replaceGo, anyMatch] at hany
    obtain ⟨rest, hm⟩ := isSome_elim hany
    obtain ⟨w, hs, hL⟩ := matchAt_sound T q po [] rest hm
    have hw := L_nonnull T q _ _ _ hL hqn
    have : w = [] := by
      cases w with
      | nil => rfl
      | cons x xs => simp at hs
    exact absurd this hw
  | succ n ih =>
    intro s hlen po p hany hsafe hctx
    cases s with
    | nil =>
      simp only [replaceGo, anyMatch] at hany
      obtain ⟨rest, hm⟩ := isSome_elim hany
      obtain ⟨w, hs, hL⟩ := matchAt_sound T q po [] rest hm
      have hw := L_nonnull T q _ _ _ hL hqn
      have : w = [] := by
        cases w with
        | nil => rfl
        | cons x xs => simp at hs
      exact absurd this hw
    | cons c cs =>
      have hlen' : cs.length ≤ n := by simp only [List.length_cons] at hlen; omega
      cases hm : matchAt T r p (c :: cs) with
      | none =>
        have hout : replaceGo T r tok p (c :: cs) 0 = c :: replaceGo T r tok (some c) cs 0 := by
          simp [replaceGo, hm]
        have hsafe' : passSafeGo T r (some c) cs 0 = true := by simpa [passSafeGo, hm] using hsafe
        have hgap : gapMatch T q r p (c :: cs) 0
            = ((matchAt T q p (c :: cs)).isSome || gapMatch T q r (some c) cs 0) := by
          simp [gapMatch, hm]
        rw [hgap, Bool.or_eq_true]
        rw [hout] at hany
        simp only [anyMatch, Bool.or_eq_true] at hany
        rcases hany with hany | hany
        · -- a q-match starts here in the output: move it to the input
          left
          obtain ⟨ro, hmq⟩ := isSome_elim hany
          obtain ⟨w, hs, hL⟩ := matchAt_sound T q po _ ro hmq
          have hw := L_nonnull T q _ _ _ hL hqn
          have hthw : th ∉ w := L_rejects T th q _ _ _ hL hi.hth
          rw [← hout] at hs
          obtain ⟨ri, hsi, hro, hsafei⟩ := out_prefix T r tok hr th tt hi.htok w p (c :: cs) ro hs hthw hsafe
          have hL' : L T q (isWordOpt T p) w (isWordOpt T ri.head?) := by
            apply L_ctx T q _ _ _ _ _ hL
            constructor
            · -- left edge
              intro hb
              rcases hctx with he | ⟨he1, he2⟩
              · rw [← he]
                rw [firstW_ne_nil T w hw _ (isWordOpt T ro.head?)]
                exact hb
              · have hf : firstW T w (isWordOpt T ri.head?) = false := by
                  rw [firstW_head, ← hsi]; exact he2
                rw [firstW_ne_nil T w hw _ (isWordOpt T ri.head?), hf, he1] at hb
                cases hb
            · -- right edge
              intro hb
              rw [lastW_ne_nil T w hw _ (isWordOpt T p), lastW_lastOpt]
              rw [lastW_lastOpt, lastOpt_ne_nil w hw po p, hro] at hb
              exact head_rel T r tok hr th tt hi.htok hi.hthw (lastOpt w p) ri hsafei hb
          have := matchAt_complete T q hqwf p w ri hL'
          rw [hsi]
          exact this
        · right
          exact ih cs hlen' (some c) (some c) hany hsafe' (Or.inl rfl)
      | some rest =>
        obtain ⟨w, hw, hs, hLr, hout, hsafeq, hgapq⟩ := step_match T q r tok hr p (c :: cs) rest hm
        rw [hgapq]
        rw [hsafeq] at hsafe
        simp only [Bool.and_eq_true, Bool.not_eq_true', Bool.and_eq_false_iff] at hsafe
        obtain ⟨⟨_, hend⟩, hsafe2⟩ := hsafe
        have hrestlen : rest.length ≤ n := by
          have h1 : (c :: cs).length = w.length + rest.length := by rw [hs, List.length_append]
          have h2 : 0 < w.length := List.length_pos_iff.mpr hw
          simp only [List.length_cons] at hlen h1
          omega
        have htokne : tok ≠ [] := by rw [hi.htok]; simp
        rw [hout] at hany
        rcases anyMatch_append T q tok _ po hany with ⟨a1, a2, hsplit, ha2, hmq⟩ | hany2
        · -- a q-match would start inside the token: impossible
          exfalso
          obtain ⟨ro, hmq'⟩ := isSome_elim hmq
          obtain ⟨w', hs', hL'⟩ := matchAt_sound T q _ _ ro hmq'
          have hw' := L_nonnull T q _ _ _ hL' hqn
          have hnth : th ∉ w' := L_rejects T th q _ _ _ hL' hi.hth
          have hntl : tl ∉ w' := L_rejects T tl q _ _ _ hL' hi.htl
          -- tl is in a2
          have htl2 : tl ∈ a2 := by
            obtain ⟨l, hl1, hl2⟩ := lastOpt_mem a2 ha2 (lastOpt a1 none)
            have : lastOpt tok none = lastOpt a2 (lastOpt a1 none) := by rw [hsplit, lastOpt_append]
            rw [hi.hlast, hl1] at this
            cases this
            exact hl2
          rcases List.append_eq_append_iff.mp hs' with ⟨c', h1, _⟩ | ⟨a', h1, h2⟩
          · -- w' = a2 ++ c'
            rw [h1] at hntl
            exact hntl (List.mem_append_left _ htl2)
          · -- a2 = w' ++ a'
            cases a' with
            | nil =>
              rw [List.append_nil] at h1
              rw [h1] at htl2
              exact hntl htl2
            | cons y ys =>
              cases a1 with
              | nil =>
                -- the match starts with the token's first code point
                rw [List.nil_append] at hsplit
                cases w' with
                | nil => exact hw' rfl
                | cons x xs =>
                  rw [hi.htok, h1] at hsplit
                  simp only [List.cons_append, List.cons.injEq] at hsplit
                  exact hnth (by rw [hsplit.1]; exact List.mem_cons_self ..)
              | cons z zs =>
                -- strictly inside the token
                have hctxL : lastOpt (z :: zs) po = lastOpt (z :: zs) none := lastOpt_ne_nil _ (by simp) _ _
                have hLt : L T q (isWordOpt T (lastOpt (z :: zs) none)) w' (isWordOpt T (y :: ys).head?) := by
                  rw [← hctxL]
                  have : ro.head? = (y :: ys).head? := by rw [h2]; rfl
                  rw [← this]
                  exact hL'
                have h3 := matchAt_complete T q hqwf _ w' (y :: ys) hLt
                have h4 := anyMatch_suffix T q (z :: zs) (w' ++ (y :: ys)) none h3
                have : tok = (z :: zs) ++ (w' ++ (y :: ys)) := by rw [hsplit, h1]
                have h5 : isMatch T q tok = true := by rw [this]; exact h4
                rw [hi.hin] at h5
                cases h5
        · -- the q-match is after the token
          have hlt : lastOpt tok po = some tl := by
            rw [lastOpt_ne_nil tok htokne po none]; exact hi.hlast
          rw [hlt] at hany2
          apply ih rest hrestlen (some tl) (lastOpt w p) hany2 hsafe2
          have hz : isWordOpt T (some tl) = false := hi.htlw
          rcases hend with h1 | h1
          · left; rw [hz, h1]
          · right; exact ⟨hz, h1⟩

theorem gapMatch_anyMatch (T : Tables) (q r : Re) (hr : r.nullable = false) :
    ∀ (n : Nat) (s : List Nat), s.length ≤ n → ∀ p, gapMatch T q r p s 0 = true → anyMatch T q p s = true := by
  intro n
  induction n with
  | zero =>
    intro s hlen p h
    have : s = [] := List.eq_nil_of_length_eq_zero (by omega)
    subst this
    simp [gapMatch] at h
  | succ n ih =>
    intro s hlen p h
    cases s with
    | nil => simp [gapMatch] at h
    | cons c cs =>
      have hlen' : cs.length ≤ n := by simp only [List.length_cons] at hlen; omega
      cases hm : matchAt T r p (c :: cs) with
      | none =>
        simp only [gapMatch, hm, Bool.or_eq_true] at h
        simp only [anyMatch, Bool.or_eq_true]
        rcases h with h | h
        · exact Or.inl h
        · exact Or.inr (ih cs hlen' _ h)
      | some rest =>
        obtain ⟨w, hw, hs, _, _, _, hgapq⟩ := step_match T q r [] hr p (c :: cs) rest hm
        rw [hgapq] at h
        have hrestlen : rest.length ≤ n := by
          have h1 : (c :: cs).length = w.length + rest.length := by rw [hs, List.length_append]
          have h2 : 0 < w.length := List.length_pos_iff.mpr hw
          simp only [List.length_cons] at hlen h1
          omega
        rw [hs]
        exact anyMatch_append_right T q w rest p (ih rest hrestlen _ h)

theorem gapMatch_self (T : Tables) (r : Re) (hr : r.nullable = false) :
    ∀ (n : Nat) (s : List Nat), s.length ≤ n → ∀ p, gapMatch T r r p s 0 = false := by
  intro n
  induction n with
  | zero =>
    intro s hlen p
    have : s = [] := List.eq_nil_of_length_eq_zero (by omega)
    subst this
    rfl
  | succ n ih =>
    intro s hlen p
    cases s with
    | nil => rfl
    | cons c cs =>
      have hlen' : cs.length ≤ n := by simp only [List.length_cons] at hlen; omega
      cases hm : matchAt T r p (c :: cs) with
      | none => simp [gapMatch, hm, ih cs hlen']
      | some rest =>
        obtain ⟨w, hw, hs, _, _, _, hgapq⟩ := step_match T r r [] hr p (c :: cs) rest hm
        rw [hgapq]
        have hrestlen : rest.length ≤ n := by
          have h1 : (c :: cs).length = w.length + rest.length := by rw [hs, List.length_append]
          have h2 : 0 < w.length := List.length_pos_iff.mpr hw
          simp only [List.length_cons] at hlen h1
          omega
        exact ih rest hrestlen _

/-- **a boundary-safe pass creates no match** of a pattern for which its token is inert -/
theorem pass_no_new_match (T : Tables) (q r : Re) (tok : List Nat) (th tl : Nat) (tt : List Nat)
    (hqwf : q.wf = true) (hqn : q.nullable = false) (hr : r.nullable = false) (hi : Inert T q tok th tl tt)
    (s : List Nat) (hsafe : passSafe T r s = true) (h : isMatch T q (replaceAll T r tok s) = true) :
    isMatch T q s = true :=
  gapMatch_anyMatch T q r hr s.length s (Nat.le_refl _) none
    (gap_of_out T q r tok th tl tt hqwf hqn hr hi s.length s (Nat.le_refl _) none none h hsafe (Or.inl rfl))

/-- **a boundary-safe pass removes every match of its own pattern** -/
theorem pass_removes_own (T : Tables) (r : Re) (tok : List Nat) (th tl : Nat) (tt : List Nat)
    (hrwf : r.wf = true) (hr : r.nullable = false) (hi : Inert T r tok th tl tt)
    (s : List Nat) (hsafe : passSafe T r s = true) : isMatch T r (replaceAll T r tok s) = false := by
  cases h : isMatch T r (replaceAll T r tok s) with
  | false => rfl
  | true =>
    have h1 := gap_of_out T r r tok th tl tt hrwf hr hr hi s.length s (Nat.le_refl _) none none h hsafe (Or.inl rfl)
    rw [gapMatch_self T r hr s.length s (Nat.le_refl _) none] at h1
    cases h1

end Mv.Regex
