/- Driver for C13 (vector search).  Distances are EXACT squared L2 distances over ℚ ∪ {NaN} (the order
   of distances and of squared distances is the same; a NaN component makes the distance NaN; ±inf
   components are refused: `nonfinite`); f32 values travel as 8 hex digits each.
   <docs> = none | empty | id:hex;id:hex;…        (index order)
   requests:
     search <docs> <q> <k>                          → ok <ids> | panic | nonfinite        VecIndex::search
     searchvec <enabled 0|1> <dim|-> <docs> <q> <k> → ok <ids> | err notenabled | err dim <expected> <actual> | panic | nonfinite
     scores <docs> <q>                              → <id:num/den,…> exact squared distances in index order
     encode <docs>                                  → hex of the uncompressed index bytes
     decode <hex>                                   → none | docs in the <docs> syntax -/
import MvModel.Vec
import MvModel.DrvUtil
open Mv Mv.Vec Mv.Simd

def words32 : List UInt8 → Option (List Nat)
  | [] => some []
  | a :: b :: c :: d :: rest =>
    (words32 rest).map fun t => (a.toNat * 2 ^ 24 + b.toNat * 2 ^ 16 + c.toNat * 2 ^ 8 + d.toNat) :: t
  | _ => none

def parseBits (s : String) : Option (List Nat) := (ofHex s).bind words32

def parseDoc (s : String) : Option (Doc Nat) :=
  match s.splitOn ":" with
  | [i, h] => match i.toNat?, parseBits h with
    | some fid, some e => some { frameId := fid, embedding := e }
    | _, _ => none
  | _ => none

/-- none = malformed; some none = no index -/
def parseDocs (s : String) : Option (Option (List (Doc Nat))) :=
  if s == "none" then some none
  else if s == "empty" then some (some [])
  else ((s.splitOn ";").mapM parseDoc).map some

/-- finite → some (some r); NaN → some none; ±inf → none -/
def f32Class (bits : Nat) : Option (Option Rat) :=
  match f32ToRat bits with
  | some r => some (some r)
  | none => if bits % 2 ^ 23 ≠ 0 then some none else none

def toRatDoc (d : Doc Nat) : Option (Doc (Option Rat)) :=
  (d.embedding.mapM f32Class).map fun e => { frameId := d.frameId, embedding := e }

def showIds (hs : List (Hit (Option Rat))) : String := "ok " ++ showNats (hs.map (·.frameId))

def showBits (e : List Nat) : String :=
  if e.isEmpty then "-" else
  String.join (e.map fun x => toHex [UInt8.ofNat (x / 2 ^ 24), UInt8.ofNat (x / 2 ^ 16), UInt8.ofNat (x / 2 ^ 8), UInt8.ofNat x])

def showDocs (ds : List (Doc Nat)) : String :=
  if ds.isEmpty then "empty" else ";".intercalate (ds.map fun d => s!"{d.frameId}:{showBits d.embedding}")

def runSearch (docs : List (Doc Nat)) (qb : List Nat)
    (f : List (Doc (Option Rat)) → List (Option Rat) → String) : String :=
  match docs.mapM toRatDoc, qb.mapM f32Class with
  | some ds, some q =>
    if !q.isEmpty ∧ ds.any (fun d => d.embedding.length ≠ q.length) then "panic" else f ds q
  | _, _ => "nonfinite"

def step (_ : Unit) (ws : List String) : Unit × String :=
  match ws with
  | ["search", sd, sq, sk] => match parseDocs sd, parseBits sq, sk.toNat? with
    | some (some docs), some qb, some k =>
      ((), runSearch docs qb fun ds q => showIds (search sqDistNan optRatCmp optIsNan ds q k))
    | _, _, _ => ((), "bad-op")
  | ["searchvec", en, sdim, sd, sq, sk] =>
    match parseDocs sd, parseBits sq, sk.toNat?, (if sdim == "-" then some none else sdim.toNat?.map some) with
    | some odocs, some qb, some k, some dim =>
      -- the dimension logic needs no float values: run it on bit patterns first
      let stBits : VecState Nat := { vecEnabled := en == "1", effectiveDim := dim, index := odocs }
      match searchVec (fun _ _ => (0 : Nat)) (fun _ _ => some .eq) (fun _ => false) stBits qb k with
      | .error .vecNotEnabled => ((), "err notenabled")
      | .error (.dimMismatch e a) => ((), s!"err dim {e} {a}")
      | .ok _ =>
        ((), runSearch (odocs.getD []) qb fun ds q =>
          match searchVec sqDistNan optRatCmp optIsNan { vecEnabled := en == "1", effectiveDim := dim, index := some ds } q k with
          | .ok hs => showIds hs
          | .error .vecNotEnabled => "err notenabled"
          | .error (.dimMismatch e a) => s!"err dim {e} {a}")
    | _, _, _, _ => ((), "bad-op")
  | ["scores", sd, sq] => match parseDocs sd, parseBits sq with
    | some (some docs), some qb =>
      ((), runSearch docs qb fun ds q =>
        let hs := score sqDistNan ds q
        if hs.isEmpty then "-" else ",".intercalate (hs.map fun h => match h.distance with
          | some r => s!"{h.frameId}:{r.num}/{r.den}"
          | none => s!"{h.frameId}:nan"))
    | _, _ => ((), "bad-op")
  | ["encode", sd] => match parseDocs sd with
    | some (some docs) => ((), toHexW (encodeDocs docs))
    | _ => ((), "bad-op")
  | ["decode", h] => match ofHex h with
    | some b => match decodeDocs b with
      | some ds => ((), showDocs ds)
      | none => ((), "none")
    | none => ((), "bad-op")
  | _ => ((), "bad-op")

def main : IO Unit := runDriver () step
