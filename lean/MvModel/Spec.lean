/-
  Spec — the reference model the Core-family properties speak about.

  A memory, to its client, is a list of frames `Spec = List SFrame`:
    * an acknowledged put appends the document frame and then its chunk frames (next ids, in order);
    * an acknowledged update appends a new version (next id; unspecified fields inherited, content kept
      when no payload is given) and marks the old version Superseded with `superseded_by`;
    * an acknowledged delete marks the frame Deleted;
    * everything else (commit, drop, open, crash recovery, batch mode, skip-index commits, finalize,
      vacuum, doctor, tickets) changes nothing.
  `SFrame` is `Frame` without what depends on where bytes were placed (`off`, `len`), on which other
  frames happen to be in the same commit batch (`parent`: the orphan pass of `apply_records`), and on
  trace-only flags.

  `abs : Mem → Spec` = the committed frames followed by what the pending WAL records will produce
  (`sApply`, the frame-table effect of `apply_records` stated on `SFrame`s).
-/
import MvModel.Core
namespace Mv.Core

structure SFrame where
  id : Nat
  ts : Int
  uri : String
  kind : Option String
  track : Option String
  tags : List String
  labels : List String
  role : Role
  status : Status
  supersedes : Option Nat
  supersededBy : Option Nat
  chunkIndex : Option Nat
  chunkCount : Option Nat
  manifest : Option Nat
  content : String
deriving DecidableEq, Repr, Inhabited

abbrev Spec := List SFrame

def view (f : Frame) : SFrame :=
  { id := f.id, ts := f.ts, uri := f.uri, kind := f.kind, track := f.track, tags := f.tags,
    labels := f.labels, role := f.role, status := f.status, supersedes := f.supersedes,
    supersededBy := f.supersededBy, chunkIndex := f.chunkIndex, chunkCount := f.chunkCount,
    manifest := f.manifest, content := f.content }

def SFrame.markSup (succ : Nat) (f : SFrame) : SFrame := { f with status := .superseded, supersededBy := some succ }
def SFrame.markDel (f : SFrame) : SFrame := { f with status := .deleted, supersededBy := none }

/-- the fields of a frame that never change once the id is assigned -/
structure Ident where
  id : Nat
  ts : Int
  uri : String
  kind : Option String
  track : Option String
  tags : List String
  labels : List String
  role : Role
  supersedes : Option Nat
  chunkIndex : Option Nat
  chunkCount : Option Nat
  manifest : Option Nat
  content : String
deriving DecidableEq, Repr, Inhabited

def SFrame.ident (f : SFrame) : Ident :=
  { id := f.id, ts := f.ts, uri := f.uri, kind := f.kind, track := f.track, tags := f.tags,
    labels := f.labels, role := f.role, supersedes := f.supersedes, chunkIndex := f.chunkIndex,
    chunkCount := f.chunkCount, manifest := f.manifest, content := f.content }

/-- the spec frame an Insert entry produces at position `id` -/
def mkSFrame (id : Nat) (e : Ins) (content : String) : SFrame :=
  { id := id, ts := e.ts, uri := e.uri.getD s!"mv2://frames/{id}", kind := e.kind, track := e.track,
    tags := e.tags, labels := e.labels, role := e.role, status := .active, supersedes := e.supersedes,
    supersededBy := none, chunkIndex := e.chunkIndex, chunkCount := e.chunkCount, manifest := e.manifest,
    content := content }

/-- abstract effect of one WAL record on the frame table -/
def sApplyOne (S : Spec) (r : Nat × Entry) : Spec :=
  match r.2 with
  | .lex => S
  | .tombstone t => S.modify t SFrame.markDel
  | .insert e =>
    let content := match e.reuseFrom with
      | some src => match S[src]? with | some s => s.content | none => e.content
      | none => e.content
    let S1 := match e.supersedes with
      | some old => S.modify old (SFrame.markSup S.length)
      | none => S
    S1 ++ [mkSFrame S.length e content]

def sApply (S : Spec) (recs : List (Nat × Entry)) : Spec := recs.foldl sApplyOne S

/-- the abstraction function -/
def abs (m : Mem) : Spec := sApply (m.frames.map view) m.pending

/-! ## Client-level steps -/

/-- chunk frames `i, i+1, …` of the document at id `doc` (ids `doc + 1 + i, …`) -/
def specChunks (a : PutArgs) (doc n : Nat) : List ChunkArg → Nat → List SFrame
  | [], _ => []
  | c :: cs, i =>
    { id := doc + 1 + i, ts := a.ts,
      uri := (a.uri.map (fun u => s!"{u}#page-{i + 1}")).getD s!"mv2://frames/{doc + 1 + i}",
      kind := a.kind, track := a.track, tags := a.tags, labels := a.labels, role := .chunk,
      status := .active, supersedes := none, supersededBy := none, chunkIndex := some i,
      chunkCount := some n, manifest := none, content := c.content } :: specChunks a doc n cs (i + 1)

/-- the document frame of a put / the new version of an update -/
def specDoc (a : PutArgs) (id : Nat) (supersedes : Option Nat) (content : String) : SFrame :=
  let n := a.chunks.length
  { id := id, ts := a.ts, uri := a.uri.getD s!"mv2://frames/{id}", kind := a.kind, track := a.track,
    tags := a.tags, labels := a.labels, role := a.role, status := .active, supersedes := supersedes,
    supersededBy := none, chunkIndex := none, chunkCount := if n = 0 then none else some n,
    manifest := if n = 0 then none else some n, content := content }

/-- acknowledged put: the document gets the next id, its chunks the ids after it -/
def specPut (S : Spec) (a : PutArgs) : Spec :=
  S ++ specDoc a S.length none a.content :: specChunks a S.length a.chunks.length a.chunks 0

/-- inheritance of an update from the old version, as a client understands it -/
def specInherit (old : SFrame) (u : UpdArgs) : PutArgs :=
  { ts := u.ts.getD old.ts
    uri := match u.uri with | some x => some x | none => some old.uri
    kind := match u.kind with | some x => some x | none => old.kind
    track := match u.track with | some x => some x | none => old.track
    tags := if u.tags.isEmpty then old.tags else u.tags
    labels := if u.labels.isEmpty then old.labels else u.labels
    role := u.role
    content := match u.payload with | some p => p.1 | none => old.content
    len := 0, plen := 0
    chunks := match u.payload with | some p => p.2.2.2 | none => [] }

/-- acknowledged update: new version at the next id, old version superseded by it -/
def specUpdate (S : Spec) (id : Nat) (u : UpdArgs) : Spec :=
  match S[id]? with
  | none => S
  | some old =>
    let a := specInherit old u
    S.modify id (SFrame.markSup S.length) ++
      specDoc a S.length (some id) a.content :: specChunks a S.length a.chunks.length a.chunks 0

/-- acknowledged delete -/
def specDelete (S : Spec) (id : Nat) : Spec := S.modify id SFrame.markDel

/-- what an ACKNOWLEDGED operation means to the client -/
def specStep (S : Spec) : Op → Spec
  | .create => []
  | .put a _ => specPut S a
  | .update id u _ => specUpdate S id u
  | .delete id _ => specDelete S id
  | _ => S

/-- the reference run: acknowledged operations take effect in order, rejected ones do nothing -/
def specRun (S : Spec) : List (Op × Out) → Spec
  | [] => S
  | (op, out) :: rest => specRun (if out.isAck then specStep S op else S) rest

/-- ids are dense: the frame at position `i` has id `i` -/
def Dense (S : Spec) : Prop := ∀ i (h : i < S.length), S[i].id = i

end Mv.Core
