#!/usr/bin/env python3
"""C35: literals of the snippet-slice code in src/lex.rs.

  compute_snippet_slices : `window / N` (both uses must agree), merge gap `last.1 + N`
  sentence_start_before  : the char set of `matches!(ch, '.' | '!' | '?' | '\\n')`
  sentence_end_after     : the char set of `matches!(ch, '.' | '!' | '?')` and the `ch == '\\n'` stop
All chars must be ASCII (the byte-level model relies on it)."""
from common import *


def fn_body(src, name):
    m = re.search(r"\bfn\s+" + re.escape(name) + r"\b", src)
    if not m:
        raise TranslateError(f"fn {name} not found")
    i = src.find("{", m.end())
    depth, j = 0, i
    while j < len(src):
        if src[j] == "{":
            depth += 1
        elif src[j] == "}":
            depth -= 1
            if depth == 0:
                return src[i:j + 1]
        j += 1
    raise TranslateError(f"fn {name}: unbalanced braces")


ESC = {"\\n": 10, "\\t": 9, "\\r": 13, "\\\\": 92, "\\'": 39, "\\0": 0}


def char_lit(tok):
    tok = tok.strip()
    m = re.fullmatch(r"'(\\.|[^\\'])'", tok)
    if not m:
        raise TranslateError(f"not a char literal: {tok!r}")
    t = m.group(1)
    v = ESC.get(t) if t.startswith("\\") else ord(t)
    if v is None or v >= 0x80:
        raise TranslateError(f"char literal {tok!r} is not ASCII / not understood")
    return v


def matches_set(body, fn):
    ms = re.findall(r"matches!\(\s*ch\s*,([^)]*)\)", body)
    if len(ms) != 1:
        raise TranslateError(f"{fn}: expected exactly one matches!(ch, ...), found {len(ms)}")
    return [char_lit(t) for t in ms[0].split("|")]


def run():
    src = strip_comments(read("src/lex.rs"))
    main = fn_body(src, "compute_snippet_slices")
    divs = set(re.findall(r"window\s*/\s*(\d+)", main))
    if len(divs) != 1 or len(re.findall(r"window\s*/\s*\d+", main)) != 2:
        raise TranslateError(f"compute_snippet_slices: expected two `window / N` with one N, got {sorted(divs)}")
    gaps = re.findall(r"last\.1\s*\+\s*(\d+)", main)
    if len(gaps) != 1:
        raise TranslateError(f"compute_snippet_slices: expected one `last.1 + N`, got {gaps}")
    start = matches_set(fn_body(src, "sentence_start_before"), "sentence_start_before")
    endb = fn_body(src, "sentence_end_after")
    end = matches_set(endb, "sentence_end_after")
    stops = re.findall(r"\bch\s*==\s*('(?:\\.|[^\\'])')", endb)
    if len(stops) != 1:
        raise TranslateError(f"sentence_end_after: expected one `ch == '<c>'`, got {stops}")
    body = (f"def WINDOW_DIV : Nat := {int(divs.pop())}\n"
            f"def MERGE_GAP : Nat := {int(gaps[0])}\n"
            f"def START_BREAKS : List UInt8 := {lean_bytes(start)}\n"
            f"def END_BREAKS : List UInt8 := {lean_bytes(end)}\n"
            f"def END_STOP : UInt8 := 0x{char_lit(stops[0]):02X}\n")
    return emit("C35", body)


main(run)
