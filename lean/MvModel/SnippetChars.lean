/-
  Char-level version of the snippet-slice model: the three `char_indices()` loops of
  `/repo/src/lex.rs` (sentence_start_before, sentence_end_after, advance_boundary) written the way
  the Rust is written — over decoded chars `(byte offset, code point)` — instead of over bytes.
  `charIndices` decodes the way `core::str::Chars::next` (`next_code_point`) does: the lead byte
  fixes the width, continuation bytes contribute their low 6 bits.  Everything else (char
  boundaries, the ASCII-whitespace skip, window arithmetic, merge loop) is shared with
  MvModel/Snippet.lean.

  MvModel/SnippetCharsLemmas.lean proves `computeC fx c … = compute fx c …` for every valid UTF-8 text `c`,
  so the C35 theorems (stated for the byte-level model) hold for this literal transcription too.
-/
import MvModel.Snippet
namespace Mv.Snippet

/-- `char::len_utf8` -/
def lenUtf8 (cp : Nat) : Nat :=
  if cp < 0x80 then 1 else if cp < 0x800 then 2 else if cp < 0x10000 then 3 else 4

/-- `str::char_indices` of a string whose bytes are `bs` and whose first byte has offset `pos`:
    `(offset, code point)`.  Bit-ors of disjoint bit fields are written as sums.  The truncated
    cases cannot occur for a `&str` (in Rust they would be undefined behaviour). -/
def charIndices : Bytes → Nat → List (Nat × Nat)
  | [], _ => []
  | x :: t, pos =>
    if x < 0x80 then (pos, x.toNat) :: charIndices t (pos + 1)
    else match t with
      | [] => [(pos, x.toNat % 32)]
      | y :: t2 =>
        if x < 0xE0 then (pos, (x.toNat % 32) * 64 + y.toNat % 64) :: charIndices t2 (pos + 2)
        else match t2 with
          | [] => [(pos, (x.toNat % 32) * 64 + y.toNat % 64)]
          | z :: t3 =>
            if x < 0xF0 then
              (pos, (x.toNat % 32) * 4096 + (y.toNat % 64) * 64 + z.toNat % 64) :: charIndices t3 (pos + 3)
            else match t3 with
              | [] => [(pos, (x.toNat % 32) * 4096 + (y.toNat % 64) * 64 + z.toNat % 64)]
              | w :: t4 =>
                (pos, (x.toNat % 32 % 8) * 262144 + (y.toNat % 64) * 4096 + (z.toNat % 64) * 64 + w.toNat % 64)
                  :: charIndices t4 (pos + 4)

/-- byte offsets at which `char_indices` reports a char -/
def charStarts (bs : Bytes) (pos : Nat) : List Nat := (charIndices bs pos).map Prod.fst

/-- `matches!(ch, '.' | '!' | '?' | '\n')` on a code point -/
def isStartBreakCp (cp : Nat) : Bool := (Mv.Gen.C35.START_BREAKS.map UInt8.toNat).contains cp
/-- `matches!(ch, '.' | '!' | '?')` on a code point -/
def isEndBreakCp (cp : Nat) : Bool := (Mv.Gen.C35.END_BREAKS.map UInt8.toNat).contains cp
/-- `ch == '\n'` on a code point -/
def isEndStopCp (cp : Nat) : Bool := cp == Mv.Gen.C35.END_STOP.toNat

/-- `for (pos, ch) in content[..idx].char_indices() { if matches!(..) { candidate = Some(pos + ch.len_utf8()) } }` -/
def lastBreakC : List (Nat × Nat) → Option Nat → Option Nat
  | [], cand => cand
  | (pos, cp) :: rest, cand =>
    lastBreakC rest (if isStartBreakCp cp then some (pos + lenUtf8 cp) else cand)

/-- `sentence_start_before`, char level -/
def sentenceStartBeforeC (c : Bytes) (idx : Nat) : Option (Option Nat) :=
  if idx = 0 then some (some 0)
  else
    let idx := prevCharBoundary c (min idx c.length)
    if sliceOk c 0 idx = false then none
    else match lastBreakC (charIndices (c.take idx) 0) none with
      | none => some none
      | some pos =>
        let pos := nextCharBoundary c pos
        let pos := skipWs (c.drop pos) pos
        some (some (prevCharBoundary c pos))

/-- the loop of sentence_end_after over `(global, ch)` -/
def scanEndC (c : Bytes) : List (Nat × Nat) → Option Nat
  | [] => none
  | (g, cp) :: rest =>
    if isEndBreakCp cp then some (nextCharBoundary c (g + lenUtf8 cp))
    else if isEndStopCp cp then some g
    else scanEndC c rest

/-- `sentence_end_after`, char level -/
def sentenceEndAfterC (c : Bytes) (idx : Nat) : Option (Option Nat) :=
  if idx ≥ c.length then some (some c.length)
  else
    let idx := prevCharBoundary c idx
    if sliceOk c idx c.length = false then none
    else some (scanEndC c (charIndices (c.drop idx) idx))

/-- the loop of advance_boundary over `start + offset` -/
def advLoopC (len : Nat) : List (Nat × Nat) → Nat → Nat → Nat
  | [], _, last => max len last
  | (p, _) :: rest, w, _ =>
    match w with
    | 0 => p
    | w' + 1 => advLoopC len rest w' p

/-- `advance_boundary`, char level -/
def advanceBoundaryC (c : Bytes) (start window : Nat) : Option Nat :=
  if start ≥ c.length then some c.length
  else if sliceOk c start c.length = false then none
  else some (advLoopC c.length (charIndices (c.drop start) start) window c.length)

def windowOfC (fx : Bool) (c : Bytes) (window : Nat) (s e : Nat) : Option (Nat × Nat) := do
  let ss0 := s - window / WINDOW_DIV
  let sum ← addUsize fx e (window / WINDOW_DIV)
  let se0 := min sum c.length
  let ss1 := match (← sentenceStartBeforeC c ss0) with | some a => a | none => ss0
  let se1 := match (← sentenceEndAfterC c se0) with | some a => a | none => se0
  some (prevCharBoundary c ss1, nextCharBoundary c se1)

def loopC (fx : Bool) (c : Bytes) (window maxS : Nat) :
    List (Nat × Nat) → List (Nat × Nat) → Option (List (Nat × Nat))
  | [], acc => some acc
  | (s, e) :: rest, acc =>
    match windowOfC fx c window s e with
    | none => none
    | some (ss, se) =>
      if se ≤ ss then loopC fx c window maxS rest acc
      else match place c acc ss se with
        | none => none
        | some (acc', pushed) =>
          if pushed && decide (acc'.length ≥ maxS) then some acc'
          else loopC fx c window maxS rest acc'

def fallbackC (fx : Bool) (c : Bytes) (window : Nat) : Option (List (Nat × Nat)) :=
  match advanceBoundaryC c 0 window with
  | none => none
  | some e => if fx && e == 0 then some [] else some [(0, e)]

/-- `compute_snippet_slices`, char level -/
def computeC (fx : Bool) (c : Bytes) (occ : List (Nat × Nat)) (window maxS : Nat) :
    Option (List (Nat × Nat)) :=
  if c.isEmpty || (fx && maxS == 0) then some []
  else if occ.isEmpty then fallbackC fx c window
  else match loopC fx c window maxS occ [] with
    | none => none
    | some acc => if acc.isEmpty then fallbackC fx c window else some acc.reverse

/-- well-formed UTF-8 (Unicode Table 3-7; what `str::from_utf8` accepts, i.e. every `&str`) -/
inductive ValidUtf8 : Bytes → Prop
  | nil : ValidUtf8 []
  | one (x : UInt8) (rest : Bytes) : x.toNat < 0x80 → ValidUtf8 rest → ValidUtf8 (x :: rest)
  | two (x y : UInt8) (rest : Bytes) :
      0xC2 ≤ x.toNat → x.toNat ≤ 0xDF → isCont y = true → ValidUtf8 rest → ValidUtf8 (x :: y :: rest)
  | three (x y z : UInt8) (rest : Bytes) :
      ((x.toNat = 0xE0 ∧ 0xA0 ≤ y.toNat ∧ y.toNat ≤ 0xBF) ∨
       (0xE1 ≤ x.toNat ∧ x.toNat ≤ 0xEC ∧ isCont y = true) ∨
       (x.toNat = 0xED ∧ 0x80 ≤ y.toNat ∧ y.toNat ≤ 0x9F) ∨
       (0xEE ≤ x.toNat ∧ x.toNat ≤ 0xEF ∧ isCont y = true)) →
      isCont z = true → ValidUtf8 rest → ValidUtf8 (x :: y :: z :: rest)
  | four (x y z w : UInt8) (rest : Bytes) :
      ((x.toNat = 0xF0 ∧ 0x90 ≤ y.toNat ∧ y.toNat ≤ 0xBF) ∨
       (0xF1 ≤ x.toNat ∧ x.toNat ≤ 0xF3 ∧ isCont y = true) ∨
       (x.toNat = 0xF4 ∧ 0x80 ≤ y.toNat ∧ y.toNat ≤ 0x8F)) →
      isCont z = true → isCont w = true → ValidUtf8 rest → ValidUtf8 (x :: y :: z :: w :: rest)

def threeOk (x y : UInt8) : Bool :=
  (x.toNat == 0xE0 && 0xA0 ≤ y.toNat && y.toNat ≤ 0xBF) ||
  (0xE1 ≤ x.toNat && x.toNat ≤ 0xEC && isCont y) ||
  (x.toNat == 0xED && 0x80 ≤ y.toNat && y.toNat ≤ 0x9F) ||
  (0xEE ≤ x.toNat && x.toNat ≤ 0xEF && isCont y)

def fourOk (x y : UInt8) : Bool :=
  (x.toNat == 0xF0 && 0x90 ≤ y.toNat && y.toNat ≤ 0xBF) ||
  (0xF1 ≤ x.toNat && x.toNat ≤ 0xF3 && isCont y) ||
  (x.toNat == 0xF4 && 0x80 ≤ y.toNat && y.toNat ≤ 0x8F)

/-- executable well-formedness check (what `str::from_utf8` accepts) -/
def validUtf8b : Bytes → Bool
  | [] => true
  | x :: t =>
    if x.toNat < 0x80 then validUtf8b t
    else match t with
      | [] => false
      | y :: t2 =>
        if 0xC2 ≤ x.toNat ∧ x.toNat ≤ 0xDF then isCont y && validUtf8b t2
        else match t2 with
          | [] => false
          | z :: t3 =>
            if threeOk x y then isCont z && validUtf8b t3
            else match t3 with
              | [] => false
              | w :: t4 => fourOk x y && isCont z && isCont w && validUtf8b t4

end Mv.Snippet
