/-
  Software IEEE-754 binary32 (round-to-nearest-even, gradual underflow, overflow to ±∞, NaN),
  written with `Nat`/`Int` only so that it both compiles into the C37 driver and reduces in the
  kernel (`decide`).  It provides the `Ops` instance `f32Ops` over which the driver runs the
  adaptive cut-off model; every operation is differentially tested against the hardware by
  `harness/src/bin/c37.rs` (`op` requests), so a bug here shows as a correspondence failure.

  Representation: every finite binary32 is an integer multiple of `2^-149`; a finite value is kept
  as sign + magnitude `k` in these units.  Every operation computes its exact result as a rational
  `N / D` units and rounds it with the one function `roundMag`, whose monotonicity is what the
  theorem `f32Laws` (MvProps/C37F32.lean) rests on.
-/
import MvModel.Adaptive
namespace Mv.F32

/-- precision (bits of the significand, hidden bit included) -/
def P : Nat := 24
/-- one unit is `2^-UNIT`, the least positive subnormal -/
def UNIT : Nat := 149
/-- the least magnitude, in units, that overflows: `2^128` -/
def OVF : Nat := 2 ^ 128 * 2 ^ 149

/-- sign and magnitude in units of `2^-149` -/
inductive F where
  | nan
  | inf (neg : Bool)
  | fin (neg : Bool) (k : Nat)
deriving DecidableEq, Repr

/-- number of bits of `m` (0 for 0) -/
def bitLen (m : Nat) : Nat := if m = 0 then 0 else Nat.log2 m + 1

/-- `2^shiftOf q` units is the spacing of binary32 around the magnitude `q` (subnormals and the
    first normal binade have spacing one unit) -/
def shiftOf (q : Nat) : Nat := bitLen q - P

/-- round the non-negative rational `N / D` units to the nearest representable magnitude, ties to
    the even significand; unbounded exponent range (overflow is decided by `roundQ`) -/
def roundMag (N D : Nat) : Nat :=
  let sh := shiftOf (N / D)
  let T := D * 2 ^ sh
  let q := N / T
  let rem := N % T
  let up := decide (2 * rem > T) || (2 * rem == T && q % 2 == 1)
  (if up then q + 1 else q) * 2 ^ sh

/-- round `(-1)^neg * N / D` units to binary32 -/
def roundQ (neg : Bool) (N D : Nat) : F :=
  let k := roundMag N D
  if k ≥ OVF then .inf neg else .fin neg k

def isNaN : F → Bool
  | .nan => true
  | _ => false

def neg : F → F
  | .nan => .nan
  | .inf s => .inf (!s)
  | .fin s k => .fin (!s) k

def abs : F → F
  | .nan => .nan
  | .inf _ => .inf false
  | .fin _ k => .fin false k

/-- the signed magnitude of a finite value -/
def key (s : Bool) (k : Nat) : Int := if s then -(k : Int) else (k : Int)

def add : F → F → F
  | .nan, _ => .nan
  | _, .nan => .nan
  | .inf a, .inf b => if a == b then .inf a else .nan
  | .inf a, .fin .. => .inf a
  | .fin .., .inf b => .inf b
  | .fin sa ka, .fin sb kb =>
    let v : Int := key sa ka + key sb kb
    if v == 0 then .fin (sa && sb) 0      -- x + (-x) = +0; (-0) + (-0) = -0
    else roundQ (decide (v < 0)) v.natAbs 1

def sub (a b : F) : F := add a (neg b)

def mul : F → F → F
  | .nan, _ => .nan
  | _, .nan => .nan
  | .inf a, .inf b => .inf (a != b)
  | .inf a, .fin sb kb => if kb == 0 then .nan else .inf (a != sb)
  | .fin sa ka, .inf b => if ka == 0 then .nan else .inf (sa != b)
  | .fin sa ka, .fin sb kb => roundQ (sa != sb) (ka * kb) (2 ^ UNIT)

def div : F → F → F
  | .nan, _ => .nan
  | _, .nan => .nan
  | .inf _, .inf _ => .nan
  | .inf a, .fin sb _ => .inf (a != sb)
  | .fin sa _, .inf b => .fin (sa != b) 0
  | .fin sa ka, .fin sb kb =>
    if kb == 0 then (if ka == 0 then .nan else .inf (sa != sb))
    else roundQ (sa != sb) (ka * 2 ^ UNIT) kb

/-- integer square root by bisection on `fuel` bits: the largest `r` with `r * r ≤ n` below `2^fuel` -/
def isqrtGo (n : Nat) : Nat → Nat → Nat
  | 0, r => r
  | b + 1, r => let c := r + 2 ^ b; isqrtGo n b (if c * c ≤ n then c else r)

def isqrt (n : Nat) : Nat := isqrtGo n (bitLen n / 2 + 1) 0

def sqrt : F → F
  | .nan => .nan
  | .inf s => if s then .nan else .inf false
  | .fin s k =>
    if k == 0 then .fin s 0
    else if s then .nan
    else
      -- sqrt(k * 2^-149) = sqrt(k * 2^149) units = sqrt(M) / 2 units with M = 4 * k * 2^149
      let M := 4 * k * 2 ^ UNIT
      let r := isqrt M
      if r * r == M then roundQ false r 2
      else roundQ false (2 * r + 1) 4     -- any point strictly between r/2 and (r+1)/2 rounds alike

/-- `a < b`; false when either is NaN; `-0 = +0` -/
def lt : F → F → Bool
  | .nan, _ => false
  | _, .nan => false
  | .inf a, .inf b => a && !b
  | .inf a, .fin .. => a
  | .fin .., .inf b => !b
  | .fin sa ka, .fin sb kb => decide (key sa ka < key sb kb)

/-- `n as f32` -/
def ofNat (n : Nat) : F := roundQ false (n * 2 ^ UNIT) 1

/-- `f32::EPSILON = 2^-23` -/
def eps : F := .fin false (2 ^ 126)

def ofBits (b : Nat) : F :=
  let s := (b >>> 31) % 2 == 1
  let ex := (b >>> 23) % 256
  let fr := b % 2 ^ 23
  if ex == 255 then (if fr == 0 then .inf s else .nan)
  else if ex == 0 then .fin s fr
  else .fin s ((fr + 2 ^ 23) * 2 ^ (ex - 1))

/-- canonical bit pattern (every NaN is `0x7FC00000`) -/
def toBits : F → Nat
  | .nan => 0x7FC00000
  | .inf s => (if s then 0x80000000 else 0) + 0x7F800000
  | .fin s k =>
    (if s then 0x80000000 else 0) +
      (if k < 2 ^ 23 then k
       else
         let sh := shiftOf k
         ((sh + 1) <<< 23) + ((k >>> sh) - 2 ^ 23))

def isFinite : F → Bool
  | .fin .. => true
  | _ => false

open Mv.Adaptive in
/-- binary32 as the arithmetic of the adaptive cut-off model -/
def f32Ops : Ops F where
  lt := lt
  isNaN := isNaN
  add := add
  sub := sub
  mul := mul
  div := div
  abs := abs
  sqrt := sqrt
  ofNat := ofNat
  eps := eps
  inf := .inf false
  negInf := .inf true

end Mv.F32
