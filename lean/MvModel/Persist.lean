/-
  C28 — what the read paths (timeline, vector search, lexical search) see on a handle that made a
  commit, on a handle that opens the committed file, and on a file whose indexes `doctor` rebuilt.

  Mirrors (the pieces are the finished models of their own properties; this file composes them the way
  the commit / open / doctor paths do)
    src/memvid/mutation.rs        rebuild_indexes: time entries → `time_index_append`        `timeEntries`, `timeTrack`
                                  rebuild_indexes: build_vec_artifact → manifest / vec_index  `rebuildVec`
                                  persist_sketch_track (+ lifecycle.rs load_sketch_track)      `reloadSketch`
    src/memvid/search/builders.rs build_vec_artifact, load_vec_index_from_manifest,           `buildVecArtifact`, `openVec`,
                                  ensure_vec_index                                             `ensureVec`
    src/memvid/lifecycle.rs       open_locked / open_read_only_snapshot (index part)           `openVec`, `reloadSketch`
    src/memvid/timeline.rs        build_timeline over the bytes the manifest points to         `timelineFile`
    src/memvid/search/api.rs      search_vec                                                   `searchVecH`
    src/memvid/doctor.rs          apply_pending_rebuilds (vector part)                         `doctorVec`
    src/memvid/search/mod.rs      Memvid::search: sketch pre-filter → engine                   `lexIds` (= Recall.hitFrames)
  Reused models: TimeIndex (C30), Timeline (C15, the repaired build_timeline that is in the tree),
  Vec (C13), Sketch (C39), Recall / Filter (C09 / C11).

  Black boxes are parameters: f32 distances (`dist`, `pcmp`, `isNan`, `ofBits`), the sketch score
  order (`order`), Tantivy (`Filter.Engine`; a restored engine is another `Engine` — assumption E4 says
  it answers alike), the per-frame post-filter (`Recall.World.docs`).
-/
import MvModel.TimeIndex
import MvModel.Timeline
import MvModel.Vec
import MvModel.Recall
import MvModel.Gen.C28
namespace Mv.Persist
open Mv

/-! ## 1. time index -/

def toTI (e : Timeline.Entry) : TimeIndex.Entry := { ts := e.ts, id := e.id }
def ofTI (e : TimeIndex.Entry) : Timeline.Entry := { ts := e.ts, id := e.id }

/-- the `time_entries` vector of `rebuild_indexes` before `time_index_append` sorts it: the Active
    Document frames in table order -/
def timeEntries (frames : List Timeline.Frame) : List TimeIndex.Entry :=
  ((frames.filter Timeline.indexedAtCommit).map Timeline.entryOf).map toTI

/-- the bytes `rebuild_indexes` writes for the time index (`time_index_append` = `append_track`) -/
def timeTrack (frames : List Timeline.Frame) : Bytes := (TimeIndex.appendTrack (timeEntries frames)).2

/-- `(bytes_offset, bytes_length)` of an index manifest -/
structure Manifest where
  off : Nat
  len : Nat
deriving DecidableEq, Repr

/-- `Memvid::timeline` on a handle whose frame table is `frames` and whose `toc.time_index` is `man`,
    over the file bytes `file`: `read_track` at the manifest, then `build_timeline` -/
def timelineFile (frames : List Timeline.Frame) (file : Bytes) (man : Option Manifest) (q : Timeline.Query) :
    Except TimeIndex.Err (List Timeline.Entry) :=
  match man with
  | none => .ok (Timeline.buildTimelineFixed frames none q)
  | some m =>
    match TimeIndex.readTrack file m.off m.len with
    | .error e => .error e
    | .ok es => .ok (Timeline.buildTimelineFixed frames (some (es.map ofTI)) q)

/-- the answer an index that was never serialised would give: `build_timeline` over the sorted
    in-memory entry vector -/
def timelineMem (frames : List Timeline.Frame) (q : Timeline.Query) : List Timeline.Entry :=
  Timeline.buildTimelineFixed frames (some (Timeline.timeIndexOf frames)) q

/-- what the time index can represent: `i64` timestamps, `u64` ids, a `u64` byte length -/
def TimeOk (frames : List Timeline.Frame) : Prop :=
  (∀ f ∈ frames, -(2^63 : Int) ≤ f.ts ∧ f.ts < 2^63 ∧ f.id < 2^64) ∧ frames.length * 16 < 2^64

/-! ## 2. vector index -/


/-- the part of the handle `search_vec` and `build_vec_artifact` read -/
structure VecMem where
  /-- `vec_enabled` -/
  enabled : Bool
  /-- `toc.indexes.vec.dimension` (`none` = no manifest) -/
  manDim : Option Nat
  /-- `vec_index` (`Uncompressed { documents }`) -/
  index : Option (List (Vec.Doc Nat))
deriving DecidableEq, Repr

/-- what a commit leaves in the file: `toc.indexes.vec` as `(dimension, the bytes it points to)`;
    `[]` = the placeholder manifest of `enable_vec` (`bytes_length = 0`) -/
structure VecDisk where
  man : Option (Nat × Bytes)
deriving DecidableEq, Repr

/-- `artifact.dimension`: length of the first document's embedding (0 without documents) -/
def dimOf : List (Vec.Doc Nat) → Nat
  | d :: _ => d.embedding.length
  | [] => 0

/-- `build_vec_artifact(new_docs)`: outer `none` = `VecIndex::decode` of the fresh artifact failed (the
    commit fails), `some none` = vectors are disabled, `some (some (bytes, dimension, index))` -/
def buildVecArtifact (m : VecMem) (active : Nat → Bool) (newDocs : List (Vec.Doc Nat)) :
    Option (Option (Bytes × Nat × List (Vec.Doc Nat))) :=
  if !m.enabled then some none
  else
    let docs := ((m.index.getD []).filter fun d => active d.frameId) ++ newDocs
    let bytes := Vec.encodeDocs docs
    match Vec.decodeDocs bytes with
    | none => none
    | some idx => some (some (bytes, dimOf docs, idx))

/-- the vector part of `rebuild_indexes` (followed by `rewrite_toc_footer`): the handle afterwards and
    what the file holds -/
def rebuildVec (m : VecMem) (active : Nat → Bool) (newDocs : List (Vec.Doc Nat)) : Option (VecMem × VecDisk) :=
  match buildVecArtifact m active newDocs with
  | none => none
  | some (some (bytes, dim, idx)) =>
    some ({ enabled := true, manDim := some dim, index := some idx }, { man := some (dim, bytes) })
  | some none => some ({ m with manDim := none, index := none }, { man := none })

/-- the index part of `open_locked` / `open_read_only_snapshot`: `vec_enabled` from the TOC, then
    `load_vec_index_from_manifest` (placeholder → no index; bytes that do not decode → no index) -/
def openVec (d : VecDisk) : VecMem :=
  match d.man with
  | none => { enabled := false, manDim := none, index := none }
  | some (dim, bytes) =>
    { enabled := true, manDim := some dim, index := if bytes.isEmpty then none else Vec.decodeDocs bytes }

/-- `ensure_vec_index`: a handle without an in-memory index loads what the manifest points to -/
def ensureVec (m : VecMem) (d : VecDisk) : Option (List (Vec.Doc Nat)) :=
  match m.index with
  | some i => some i
  | none => (openVec d).index

/-- the documents as `search` sees them (`ofBits` reads an f32 bit pattern) -/
def view {F : Type} (ofBits : Nat → F) (ds : List (Vec.Doc Nat)) : List (Vec.Doc F) :=
  ds.map fun d => { frameId := d.frameId, embedding := d.embedding.map ofBits }

/-- `Memvid::search_vec` on a handle `m` over a file `d` -/
def searchVecH {F D : Type} (ofBits : Nat → F) (dist : List F → List F → D) (pcmp : D → D → Option Ordering)
    (isNan : D → Bool) (m : VecMem) (d : VecDisk) (q : List F) (k : Nat) : Except Vec.Err (List (Vec.Hit D)) :=
  Vec.searchVec dist pcmp isNan
    { vecEnabled := m.enabled, effectiveDim := m.manDim.filter (· > 0), index := (ensureVec m d).map (view ofBits) } q k

/-- the vector part of `DoctorExecutor::apply_pending_rebuilds` on the handle doctor opened, then
    `rebuild_indexes(&[], &[])`: what the file holds afterwards.  `keeps` = the `vec` branch loads the
    committed index before clearing the manifest (repair) instead of dropping it (as found) -/
def doctorVec (keeps rv : Bool) (active : Nat → Bool) (d : VecDisk) : Option VecDisk :=
  let m0 := openVec d
  let m1 : VecMem :=
    if rv then
      { enabled := true, manDim := none, index := if keeps then ensureVec m0 d else none }
    else if m0.enabled then { m0 with index := ensureVec m0 d }
    else m0
  (rebuildVec m1 active []).map (·.2)

/-- the tree under check -/
def doctorVecGen (rv : Bool) (active : Nat → Bool) (d : VecDisk) : Option VecDisk :=
  doctorVec Mv.Gen.C28.DOCTOR_VEC_REBUILD_KEEPS rv active d

/-- every document fits the wire format and the index its length prefix -/
def VecOk (docs : List (Vec.Doc Nat)) : Prop := docs.length < 2 ^ 64 ∧ ∀ d ∈ docs, Vec.DocOk d

/-! ## 3. sketch track and the lexical search that consults it -/


/-- `persist_sketch_track` at commit + `load_sketch_track` at open: the track a handle that opens the
    committed file holds.  An empty track is not written (`toc.sketch_track = None`); the opening
    handle then keeps `SketchTrack::default()` -/
def reloadSketch (t : Sketch.Track) : Except Sketch.RErr Sketch.Track :=
  if t.entries.isEmpty then .ok (Sketch.Track.new .small)
  else Sketch.readTrack (Sketch.writeTrack t) 0 (Sketch.writeTrack t).length

/-- frame ids of the entries the sketch pre-filter lets through (`QuerySketch::score_entry` is
    `Some`), in track order — the candidate SET of `find_sketch_candidates` when the
    `max_candidates` truncation does not bite -/
def passingIds (q : Recall.QSketch) (thr : Nat) (t : Sketch.Track) : List Nat :=
  (t.entries.filter (Recall.passes q thr)).map (·.frameId)

/-- frame ids of `Memvid::search(request).hits` on a handle with sketch track `t` -/
def lexIds (W : Recall.World) (order : List Sketch.Entry → List Sketch.Entry) (q : Recall.QSketch) (t : Sketch.Track) (r : Recall.Request) : List Nat :=
  Recall.hitFrames W order q t r

/-- ids are positions: entry `i` of the track describes frame `i` (what the on-disk format assumes) -/
def IdsArePositions (t : Sketch.Track) : Prop := t.entries.map (·.frameId) = List.range t.entries.length

/-- the track has the shape commits give it: not the Large variant (whose 64-byte filters are cut to
    32 bytes on disk) and every filter as long as the variant's filter -/
def FilterShaped (t : Sketch.Track) : Prop :=
  t.variant ≠ Sketch.Variant.large ∧ ∀ e ∈ t.entries, e.termFilter.length = t.variant.filterSize

/-- the HashSet candidate filter reaches the engine as a set: order and multiplicity do not matter -/
def SetInvariant (E : Filter.Engine) : Prop :=
  ∀ (f f' : List Nat) (n : Nat), (∀ x, x ∈ f ↔ x ∈ f') → f.length = f'.length →
    E.tantivy (some f) n = E.tantivy (some f') n

/-- assumption E4: the engine restored from the embedded snapshot answers like the engine that
    produced the snapshot -/
def E4 (live restored : Filter.Engine) : Prop :=
  (∀ f n, restored.tantivy f n = live.tantivy f n) ∧ restored.lexMatches = live.lexMatches ∧
    restored.hasLex = live.hasLex

end Mv.Persist
