/-
  C07 — helper lemmas over the byte-level store model (MvModel/Content.lean):
  file writes vs. slices, the canonical encoding round trip, the ghost layout of the frame table
  (one block per put: the document frame followed by its chunk frames) and its preservation by
  apply_records / commit / open / put.
-/
import MvModel.Content
namespace Mv.Content
open Mv

/-! ## The file -/

theorem writeExt_length (file w : Bytes) (off : Nat) :
    (writeExt file off w).length = max file.length (off + w.length) := by
  simp only [writeExt, List.length_append, List.length_take, List.length_drop, zeros_length]
  omega

theorem slice_zero (b : Bytes) (o : Nat) : slice b o 0 = [] := by simp [slice]

/-- what was just written is what is read back from the same place -/
theorem slice_writeExt_same (file w : Bytes) (off : Nat) :
    slice (writeExt file off w) off w.length = w := by
  have hA : (file.take off ++ zeros (off - file.length)).length = off := by
    simp only [List.length_append, List.length_take, zeros_length]; omega
  unfold slice writeExt
  rw [List.append_assoc (file.take off ++ zeros (off - file.length)) w]
  rw [List.drop_left' hA, List.take_left' rfl]

/-- a write at or after the end of a range inside the file leaves the range alone -/
theorem slice_writeExt_before (file w : Bytes) (off o l : Nat) (h1 : o + l ≤ off) (h2 : o + l ≤ file.length) :
    slice (writeExt file off w) o l = slice file o l := by
  unfold slice writeExt
  have hlen : (file.take off).length = min off file.length := List.length_take
  rw [List.append_assoc, List.append_assoc]
  rw [List.drop_append_of_le_length (by rw [hlen]; omega)]
  rw [List.take_append_of_le_length (by rw [List.length_drop, hlen]; omega)]
  rw [List.drop_take, List.take_take]
  congr 1
  omega

theorem slice_length_eq (b : Bytes) (o l : Nat) (h : o + l ≤ b.length) : (slice b o l).length = l :=
  slice_length b o l h

/-! ## Canonical encoding -/

/-- **round trip of the canonical encoding** (A-zstd is the only assumption) -/
theorem decode_prepare (c : Codec) (hc : c.RoundTrip) (level : Int) (p : Bytes) :
    decodeCanonical c (prepare c level p).bytes (prepare c level p).enc = some p ∧
    (prepare c level p).canonLen = p.length := by
  unfold prepare
  split
  · exact ⟨rfl, rfl⟩
  · split
    · exact ⟨hc level p, rfl⟩
    · exact ⟨rfl, rfl⟩

theorem prepare_plain_bytes (c : Codec) (level : Int) (p : Bytes) (h : (prepare c level p).enc = .plain) :
    (prepare c level p).bytes = p := by
  unfold prepare at h ⊢
  split
  · rfl
  · split
    · rename_i h1 h2; simp [h1, h2] at h
    · rfl

/-! ## Insertion sort on an already sorted chunk list -/

theorem insertBy_head {α : Type} (le : α → α → Bool) (x y : α) (ys : List α) (h : le x y = true) :
    insertBy le x (y :: ys) = x :: y :: ys := by
  simp [insertBy, h]


/-! ## One Insert record -/

/-- the state after a record was applied successfully -/
def okStep (H : Bytes → Bytes) (early : Bool) (st : ApSt) (seq : Nat) (parent : Option Nat) (e : Entry) : ApSt :=
  { s := { viewAfterWrite early st e with
           frames := st.s.frames ++ [mkFrame H st.s.frames.length st.cursor parent e] }
    cursor := st.cursor + e.payload.length
    seqMap := (seq, st.s.frames.length) :: st.seqMap }

theorem applyInsert_ok {c : Codec} {H : Bytes → Bytes} {early : Bool} {st st' : ApSt} {seq : Nat} {e : Entry}
    (h : applyInsert c H early st seq e = .ok st') :
    ∃ parent, resolveParent st.seqMap e.parentSeq = some parent ∧ st' = okStep H early st seq parent e := by
  unfold applyInsert at h
  split at h
  · cases h
  · rename_i parent hp
    dsimp only at h
    split at h
    · cases h
    · refine ⟨parent, hp, ?_⟩
      injection h with h
      exact h.symm

/-- a frame together with the stored payload it was made from (ghost pairing) -/
abbrev GFrame := Frame × Bytes

/-- the frame points at its stored payload, inside the payload region -/
structure Holds (H : Bytes → Bytes) (s : Store) (g : GFrame) : Prop where
  cksum : g.1.checksum = H g.2
  len : g.1.len = g.2.length
  bytes : slice s.file g.1.off g.1.len = g.2
  bound : g.1.len ≠ 0 → g.1.off + g.1.len ≤ s.payloadEnd

/-- loop invariant of apply_records: the write cursor is at or after the payload end, which is inside the file -/
structure LInv (st : ApSt) : Prop where
  pe_cur : st.s.payloadEnd ≤ st.cursor
  pe_file : st.s.payloadEnd ≤ st.s.file.length

theorem okStep_linv (H : Bytes → Bytes) (early : Bool) (st : ApSt) (seq : Nat) (parent : Option Nat) (e : Entry)
    (hi : LInv st) : LInv (okStep H early st seq parent e) := by
  obtain ⟨h1, h2⟩ := hi
  constructor
  · simp only [okStep, viewAfterWrite]; omega
  · simp only [okStep, viewAfterWrite, writeExt_length]; omega

theorem okStep_stored_old (H : Bytes → Bytes) (early : Bool) (st : ApSt) (seq : Nat) (parent : Option Nat) (e : Entry)
    (hi : LInv st) (g : GFrame) (hg : Holds H st.s g) : Holds H (okStep H early st seq parent e).s g := by
  obtain ⟨h1, h2⟩ := hi
  obtain ⟨g0, g1, g2, g3⟩ := hg
  refine ⟨g0, g1, ?_, ?_⟩
  · simp only [okStep, viewAfterWrite]
    by_cases hz : g.1.len = 0
    · rw [hz, slice_zero]; rw [hz, slice_zero] at g2; exact g2
    · have := g3 hz
      rw [slice_writeExt_before _ _ _ _ _ (by omega) (by omega)]
      exact g2
  · intro hz
    have := g3 hz
    simp only [okStep, viewAfterWrite]; omega

theorem okStep_stored_new (H : Bytes → Bytes) (early : Bool) (st : ApSt) (seq : Nat) (parent : Option Nat) (e : Entry) :
    Holds H (okStep H early st seq parent e).s (mkFrame H st.s.frames.length st.cursor parent e, e.payload) := by
  refine ⟨rfl, rfl, ?_, ?_⟩
  · simp only [okStep, viewAfterWrite, mkFrame]
    exact slice_writeExt_same _ _ _
  · intro _
    simp only [okStep, viewAfterWrite, mkFrame]; omega

/-! ## The first pass as a pure function of the records -/

/-- the frames (with their payloads) a successful first pass appends -/
def loopG (H : Bytes → Bytes) : Nat → Nat → List (Nat × Nat) → List (Nat × Entry) → List GFrame
  | _, _, _, [] => []
  | id, cur, m, r :: rs =>
    (mkFrame H id cur ((resolveParent m r.2.parentSeq).getD none) r.2, r.2.payload) ::
      loopG H (id + 1) (cur + r.2.payload.length) ((r.1, id) :: m) rs

/-- what a successful `applyLoop` did -/
structure LoopRes (H : Bytes → Bytes) (st st' : ApSt) (recs : List (Nat × Entry)) : Prop where
  frames : st'.s.frames = st.s.frames ++ (loopG H st.s.frames.length st.cursor st.seqMap recs).map Prod.fst
  newStored : ∀ g ∈ loopG H st.s.frames.length st.cursor st.seqMap recs, Holds H st'.s g
  oldStored : ∀ g, Holds H st.s g → Holds H st'.s g
  linv : LInv st'
  cursor : st.cursor ≤ st'.cursor
  pending : st'.s.pending = st.s.pending
  seq : st'.s.seq = st.s.seq
  engine : st'.s.engine = st.s.engine
  dataEnd : st.s.dataEnd ≤ st'.s.dataEnd
  payloadEnd : st.s.payloadEnd ≤ st'.s.payloadEnd

theorem applyLoop_ok {c : Codec} {H : Bytes → Bytes} {early : Bool} :
    ∀ (recs : List (Nat × Entry)) (st st' : ApSt), LInv st → applyLoop c H early st recs = .ok st' →
      LoopRes H st st' recs := by
  intro recs
  induction recs with
  | nil =>
    intro st st' hi h
    simp only [applyLoop] at h
    injection h with h
    subst h
    exact ⟨by simp [loopG], by simp [loopG], fun _ h => h, hi, Nat.le_refl _, rfl, rfl, rfl, Nat.le_refl _, Nat.le_refl _⟩
  | cons r rs ih =>
    intro st st' hi h
    simp only [applyLoop] at h
    split at h
    · cases h
    · rename_i st1 h1
      obtain ⟨parent, hp, rfl⟩ := applyInsert_ok h1
      have hi1 := okStep_linv H early st r.1 parent r.2 hi
      have R := ih _ st' hi1 h
      have hlen : (okStep H early st r.1 parent r.2).s.frames.length = st.s.frames.length + 1 := by
        simp [okStep]
      have hG : loopG H st.s.frames.length st.cursor st.seqMap (r :: rs) =
          (mkFrame H st.s.frames.length st.cursor parent r.2, r.2.payload) ::
            loopG H (okStep H early st r.1 parent r.2).s.frames.length (okStep H early st r.1 parent r.2).cursor
              (okStep H early st r.1 parent r.2).seqMap rs := by
        simp only [loopG, hp, Option.getD_some, hlen]
        rfl
      refine ⟨?_, ?_, ?_, R.linv, ?_, ?_, ?_, ?_, ?_, ?_⟩
      · rw [R.frames, hG]
        simp [okStep]
      · intro g hg
        rw [hG] at hg
        rcases List.mem_cons.mp hg with rfl | hg
        · exact R.oldStored _ (okStep_stored_new H early st r.1 parent r.2)
        · exact R.newStored g hg
      · intro g hg
        exact R.oldStored g (okStep_stored_old H early st r.1 parent r.2 hi g hg)
      · have := R.cursor; simp only [okStep] at this; omega
      · rw [R.pending]; rfl
      · rw [R.seq]; rfl
      · rw [R.engine]; rfl
      · have := R.dataEnd
        simp only [okStep, viewAfterWrite] at this
        split at this <;> omega
      · have := R.payloadEnd
        simp only [okStep, viewAfterWrite] at this
        omega


/-! ## The ghost layout: one block per put -/

/-- chunk frames `i, i+1, …` of the document at index `d`, stored from `cur` on -/
def chunkG (c : Codec) (H : Bytes → Bytes) (a : PutArgs) (d : Nat) : List Bytes → Nat → Nat → List GFrame
  | [], _, _ => []
  | t :: ts, i, cur =>
    (mkFrame H (d + 1 + i) cur (some d) (chunkEntry c a 0 i t), (chunkEntry c a 0 i t).payload) ::
      chunkG c H a d ts (i + 1) (cur + (chunkEntry c a 0 i t).payload.length)

/-- the frames of one put: the document frame at index `d`, then its chunk frames -/
def blockG (c : Codec) (H : Bytes → Bytes) (d cur : Nat) (a : PutArgs) : List GFrame :=
  (mkFrame H d cur none (parentEntry c a), (parentEntry c a).payload) ::
    chunkG c H a d a.chunks 0 (cur + (parentEntry c a).payload.length)

def recCount (a : PutArgs) : Nat := 1 + a.chunks.length

/-- the frame table of a list of committed puts `(cursor at the start of the block, arguments)` -/
def tableG (c : Codec) (H : Bytes → Bytes) : Nat → List (Nat × PutArgs) → List GFrame
  | _, [] => []
  | d, b :: rest => blockG c H d b.1 b.2 ++ tableG c H (d + recCount b.2) rest

def tableLen : List (Nat × PutArgs) → Nat
  | [] => 0
  | b :: rest => recCount b.2 + tableLen rest

def chunkBytesLen (c : Codec) (a : PutArgs) : List Bytes → Nat → Nat
  | [], _ => 0
  | t :: ts, i => (chunkEntry c a 0 i t).payload.length + chunkBytesLen c a ts (i + 1)

/-- stored bytes of one put -/
def blockLen (c : Codec) (a : PutArgs) : Nat :=
  (parentEntry c a).payload.length + chunkBytesLen c a a.chunks 0

/-- pending puts laid out from a cursor -/
def layout (c : Codec) : Nat → List PutArgs → List (Nat × PutArgs)
  | _, [] => []
  | cur, a :: rest => (cur, a) :: layout c (cur + blockLen c a) rest

/-- the pending records of a list of puts, sequence numbers from `q` on -/
def pendRecs (c : Codec) : Nat → List PutArgs → List (Nat × Entry)
  | _, [] => []
  | q, a :: rest => putRecords c q a ++ pendRecs c (q + recCount a) rest

theorem chunkG_length (c : Codec) (H : Bytes → Bytes) (a : PutArgs) (d : Nat) :
    ∀ (ts : List Bytes) (i cur : Nat), (chunkG c H a d ts i cur).length = ts.length := by
  intro ts
  induction ts with
  | nil => intro i cur; rfl
  | cons t ts ih => intro i cur; simp [chunkG, ih]

theorem blockG_length (c : Codec) (H : Bytes → Bytes) (d cur : Nat) (a : PutArgs) :
    (blockG c H d cur a).length = recCount a := by
  simp [blockG, chunkG_length, recCount]; omega

theorem tableG_length (c : Codec) (H : Bytes → Bytes) :
    ∀ (bl : List (Nat × PutArgs)) (d : Nat), (tableG c H d bl).length = tableLen bl := by
  intro bl
  induction bl with
  | nil => intro d; rfl
  | cons b rest ih => intro d; simp [tableG, tableLen, blockG_length, ih]

theorem tableG_append (c : Codec) (H : Bytes → Bytes) :
    ∀ (bl bl' : List (Nat × PutArgs)) (d : Nat),
      tableG c H d (bl ++ bl') = tableG c H d bl ++ tableG c H (d + tableLen bl) bl' := by
  intro bl
  induction bl with
  | nil => intro bl' d; simp [tableG, tableLen]
  | cons b rest ih =>
    intro bl' d
    simp only [List.cons_append, tableG, tableLen, ih, List.append_assoc]
    congr 3
    omega

theorem tableLen_append (bl bl' : List (Nat × PutArgs)) : tableLen (bl ++ bl') = tableLen bl + tableLen bl' := by
  induction bl with
  | nil => simp [tableLen]
  | cons b rest ih => simp [tableLen, ih]; omega

theorem chunkRecords_length (c : Codec) (a : PutArgs) (q : Nat) :
    ∀ (ts : List Bytes) (i : Nat), (chunkRecords c a q ts i).length = ts.length := by
  intro ts
  induction ts with
  | nil => intro i; rfl
  | cons t ts ih => intro i; simp [chunkRecords, ih]

theorem putRecords_length (c : Codec) (q : Nat) (a : PutArgs) : (putRecords c q a).length = recCount a := by
  simp [putRecords, chunkRecords_length, recCount]; omega

theorem pendRecs_append (c : Codec) :
    ∀ (pend pend' : List PutArgs) (q : Nat),
      pendRecs c q (pend ++ pend') = pendRecs c q pend ++ pendRecs c (q + (pend.map recCount).sum) pend' := by
  intro pend
  induction pend with
  | nil => intro pend' q; simp [pendRecs]
  | cons a rest ih =>
    intro pend' q
    simp only [List.cons_append, pendRecs, ih, List.append_assoc, List.map_cons, List.sum_cons]
    congr 3
    omega

theorem pendRecs_nil_iff (c : Codec) (q : Nat) (pend : List PutArgs) : pendRecs c q pend = [] ↔ pend = [] := by
  cases pend with
  | nil => simp [pendRecs]
  | cons a rest => simp [pendRecs, putRecords]

/-- the frame a chunk record produces does not depend on the sequence number stored in the record -/
theorem mkFrame_chunkEntry (c : Codec) (H : Bytes → Bytes) (a : PutArgs) (q i id off : Nat) (p : Option Nat) (t : Bytes) :
    mkFrame H id off p (chunkEntry c a q i t) = mkFrame H id off p (chunkEntry c a 0 i t) := rfl

theorem chunkEntry_payload (c : Codec) (a : PutArgs) (q i : Nat) (t : Bytes) :
    (chunkEntry c a q i t).payload = (chunkEntry c a 0 i t).payload := rfl

/-- the chunk records of a put resolve their parent to the document's frame id as long as the
    sequence map binds the parent's sequence number to it -/
theorem loopG_chunks (c : Codec) (H : Bytes → Bytes) (a : PutArgs) (q d : Nat) (rest : List (Nat × Entry)) :
    ∀ (ts : List Bytes) (i cur : Nat) (m : List (Nat × Nat)), m.lookup q = some d →
      ∃ m', loopG H (d + 1 + i) cur m (chunkRecords c a q ts i ++ rest) =
        chunkG c H a d ts i cur ++ loopG H (d + 1 + i + ts.length) (cur + chunkBytesLen c a ts i) m' rest := by
  intro ts
  induction ts with
  | nil => intro i cur m _; exact ⟨m, by simp [chunkRecords, chunkG, chunkBytesLen]⟩
  | cons t ts ih =>
    intro i cur m hm
    have hne : (q == q + 1 + i) = false := by simp; omega
    have hm' : ((q + 1 + i, d + 1 + i) :: m).lookup q = some d := by
      simp [List.lookup, hne, hm]
    obtain ⟨m', h⟩ := ih (i + 1) (cur + (chunkEntry c a 0 i t).payload.length) _ hm'
    refine ⟨m', ?_⟩
    simp only [chunkRecords, List.cons_append, loopG, chunkG, chunkBytesLen, List.length_cons]
    have hres : resolveParent m (chunkEntry c a q i t).parentSeq = some (some d) := by
      simp [chunkEntry, resolveParent, hm]
    rw [hres]
    simp only [Option.getD_some, chunkEntry_payload c a q i t, mkFrame_chunkEntry c H a q i]
    rw [show d + 1 + i + 1 = d + 1 + (i + 1) by omega, h]
    rw [show d + 1 + (i + 1) + ts.length = d + 1 + i + (ts.length + 1) by omega,
      show cur + (chunkEntry c a 0 i t).payload.length + chunkBytesLen c a ts (i + 1) =
        cur + ((chunkEntry c a 0 i t).payload.length + chunkBytesLen c a ts (i + 1)) by omega]

/-- the first pass over the records of a list of puts produces exactly their blocks, whatever the
    sequence map held before -/
theorem loopG_pend (c : Codec) (H : Bytes → Bytes) :
    ∀ (pend : List PutArgs) (q d cur : Nat) (m : List (Nat × Nat)),
      loopG H d cur m (pendRecs c q pend) = tableG c H d (layout c cur pend) := by
  intro pend
  induction pend with
  | nil => intro q d cur m; simp [pendRecs, layout, tableG, loopG]
  | cons a rest ih =>
    intro q d cur m
    simp only [pendRecs, putRecords, List.cons_append, loopG, layout, tableG, blockG]
    have hm : ((q + 1, d) :: m).lookup (q + 1) = some d := by simp [List.lookup]
    obtain ⟨m', h⟩ := loopG_chunks c H a (q + 1) d (pendRecs c (q + recCount a) rest) a.chunks 0
      (cur + (parentEntry c a).payload.length) _ hm
    have hp : resolveParent m (parentEntry c a).parentSeq = some none := by simp [parentEntry, resolveParent]
    rw [hp]
    simp only [Option.getD_some, Nat.add_zero] at h ⊢
    rw [h, ih]
    simp only [recCount, blockLen]
    rw [show d + 1 + a.chunks.length = d + (1 + a.chunks.length) by omega,
      show cur + (parentEntry c a).payload.length + chunkBytesLen c a a.chunks 0 =
        cur + ((parentEntry c a).payload.length + chunkBytesLen c a a.chunks 0) by omega]


theorem layout_map_snd (c : Codec) : ∀ (pend : List PutArgs) (cur : Nat), (layout c cur pend).map Prod.snd = pend := by
  intro pend
  induction pend with
  | nil => intro cur; rfl
  | cons a rest ih => intro cur; simp [layout, ih]

/-! ## `compute_payload_region_end` -/

def endStep (acc : Nat) (f : Frame) : Nat := if f.len ≠ 0 then max acc (f.off + f.len) else acc

theorem frameEnds_eq (fs : List Frame) : frameEnds fs = fs.foldl endStep 0 := rfl

theorem foldl_endStep_ge_acc : ∀ (fs : List Frame) (acc : Nat), acc ≤ fs.foldl endStep acc := by
  intro fs
  induction fs with
  | nil => intro acc; exact Nat.le_refl _
  | cons f fs ih =>
    intro acc
    simp only [List.foldl_cons]
    have h1 : acc ≤ endStep acc f := by unfold endStep; split <;> omega
    exact Nat.le_trans h1 (ih _)

theorem foldl_endStep_ge_mem : ∀ (fs : List Frame) (acc : Nat) (f : Frame), f ∈ fs → f.len ≠ 0 →
    f.off + f.len ≤ fs.foldl endStep acc := by
  intro fs
  induction fs with
  | nil => intro acc f hf; cases hf
  | cons g fs ih =>
    intro acc f hf hz
    simp only [List.foldl_cons]
    rcases List.mem_cons.mp hf with rfl | hf
    · have := foldl_endStep_ge_acc fs (endStep acc f)
      simp only [endStep, hz, ne_eq, not_false_eq_true, if_true] at this ⊢
      omega
    · exact ih _ f hf hz

theorem foldl_endStep_le : ∀ (fs : List Frame) (acc B : Nat), acc ≤ B →
    (∀ f ∈ fs, f.len ≠ 0 → f.off + f.len ≤ B) → fs.foldl endStep acc ≤ B := by
  intro fs
  induction fs with
  | nil => intro acc B h _; exact h
  | cons g fs ih =>
    intro acc B h hall
    simp only [List.foldl_cons]
    apply ih
    · unfold endStep
      split
      · rename_i hz
        have := hall g (by simp) hz
        omega
      · exact h
    · intro f hf; exact hall f (by simp [hf])

/-! ## The invariant of the store: the frame table is the layout of the committed puts, every frame
    points at its stored payload, the pending records are the records of the pending puts -/

structure Inv (c : Codec) (H : Bytes → Bytes) (s : Store) (bl : List (Nat × PutArgs)) (pend : List PutArgs) : Prop where
  frames : s.frames = (tableG c H 0 bl).map Prod.fst
  stored : ∀ g ∈ tableG c H 0 bl, Holds H s g
  pe_de : s.payloadEnd ≤ s.dataEnd
  pe_file : s.payloadEnd ≤ s.file.length
  pending : ∃ q, s.pending = pendRecs c q pend ∧ s.seq = q + (pend.map recCount).sum

theorem inv_init (c : Codec) (H : Bytes → Bytes) : Inv c H {} [] [] :=
  ⟨rfl, by simp [tableG], Nat.le_refl _, Nat.zero_le _, ⟨0, rfl, rfl⟩⟩

theorem Holds.congr {H : Bytes → Bytes} {s1 s2 : Store} {g : GFrame} (hf : s2.file = s1.file) (hp : s1.payloadEnd ≤ s2.payloadEnd)
    (h : Holds H s1 g) : Holds H s2 g :=
  ⟨h.cksum, h.len, by rw [hf]; exact h.bytes, fun hz => Nat.le_trans (h.bound hz) hp⟩

theorem Inv.frames_length {c : Codec} {H : Bytes → Bytes} {s : Store} {bl : List (Nat × PutArgs)} {pend : List PutArgs}
    (hi : Inv c H s bl pend) : s.frames.length = tableLen bl := by
  rw [hi.frames, List.length_map, tableG_length]

/-- a successful `apply_records` of the pending records, followed by the checkpoint -/
theorem applyRecords_inv {c : Codec} {H : Bytes → Bytes} {early : Bool} {s s' : Store}
    {bl : List (Nat × PutArgs)} {pend : List PutArgs} (hi : Inv c H s bl pend) (hne : pend ≠ [])
    (h : applyRecords c H early s s.pending = .ok s') :
    Inv c H s'.checkpointed (bl ++ layout c s.dataEnd pend) [] := by
  obtain ⟨q, hq, hseq⟩ := hi.pending
  have hpne : s.pending.isEmpty = false := by
    rw [hq]
    cases hp : pendRecs c q pend with
    | nil => exact absurd ((pendRecs_nil_iff c q pend).mp hp) hne
    | cons _ _ => rfl
  unfold applyRecords at h
  rw [hpne] at h
  simp only [Bool.false_eq_true, if_false] at h
  split at h
  · cases h
  · rename_i st hloop
    injection h with h
    subst h
    have R := applyLoop_ok _ _ _ (⟨hi.pe_de, hi.pe_file⟩ : LInv { s := s, cursor := s.dataEnd, seqMap := [] }) hloop
    have hG : loopG H s.frames.length s.dataEnd [] s.pending = tableG c H (0 + tableLen bl) (layout c s.dataEnd pend) := by
      rw [hq, loopG_pend, hi.frames_length, Nat.zero_add]
    refine ⟨?_, ?_, Nat.le_refl _, R.linv.pe_file, ⟨st.s.seq, rfl, rfl⟩⟩
    · show st.s.frames = _
      rw [R.frames, tableG_append, List.map_append, ← hi.frames]
      show s.frames ++ (loopG H s.frames.length s.dataEnd [] s.pending).map Prod.fst = _
      rw [hG]
    · intro g hg
      rw [tableG_append] at hg
      have : Holds H st.s g := by
        rcases List.mem_append.mp hg with hg | hg
        · exact R.oldStored g (hi.stored g hg)
        · exact R.newStored g (by show g ∈ loopG H s.frames.length s.dataEnd [] s.pending; rw [hG]; exact hg)
      exact Holds.congr (s1 := st.s) rfl (Nat.le_refl _) this

/-- `commit` keeps the invariant: nothing changes on an error, otherwise the pending puts become blocks -/
theorem commit_inv {c : Codec} {H : Bytes → Bytes} (early : Bool) {s : Store}
    {bl : List (Nat × PutArgs)} {pend : List PutArgs} (hi : Inv c H s bl pend) :
    ∃ bl' pend', Inv c H (commit c H early s).1 bl' pend' ∧
      bl'.map Prod.snd ++ pend' = bl.map Prod.snd ++ pend ∧ bl <+: bl' := by
  unfold commit
  split
  · exact ⟨bl, pend, hi, rfl, List.prefix_refl _⟩
  · rename_i hpe
    have hne : pend ≠ [] := by
      intro hp
      obtain ⟨q, hq, _⟩ := hi.pending
      rw [hp] at hq
      simp [hq, pendRecs] at hpe
    split
    · exact ⟨bl, pend, hi, rfl, List.prefix_refl _⟩
    · rename_i s' h
      exact ⟨bl ++ layout c s.dataEnd pend, [], applyRecords_inv hi hne h,
        by simp [layout_map_snd], List.prefix_append _ _⟩

/-- `open_locked` (with WAL replay) keeps the invariant -/
theorem openStore_inv {c : Codec} {H : Bytes → Bytes} (early : Bool) {s : Store} (ft : Nat)
    {bl : List (Nat × PutArgs)} {pend : List PutArgs} (hi : Inv c H s bl pend) :
    ∃ bl' pend', Inv c H (openStore c H early s ft).1 bl' pend' ∧
      bl'.map Prod.snd ++ pend' = bl.map Prod.snd ++ pend ∧ bl <+: bl' := by
  have hbound : ∀ f ∈ s.frames, f.len ≠ 0 → f.off + f.len ≤ s.payloadEnd := by
    intro f hf hz
    rw [hi.frames] at hf
    obtain ⟨g, hg, rfl⟩ := List.mem_map.mp hf
    exact (hi.stored g hg).bound hz
  have hfe : frameEnds s.frames ≤ s.payloadEnd := by
    rw [frameEnds_eq]; exact foldl_endStep_le _ _ _ (Nat.zero_le _) hbound
  have hi1 : Inv c H { s with dataEnd := max ft (frameEnds s.frames), payloadEnd := frameEnds s.frames } bl pend := by
    refine ⟨hi.frames, ?_, Nat.le_max_right _ _, Nat.le_trans hfe hi.pe_file, hi.pending⟩
    intro g hg
    have hg' := hi.stored g hg
    refine ⟨hg'.cksum, hg'.len, hg'.bytes, ?_⟩
    intro hz
    show g.1.off + g.1.len ≤ frameEnds s.frames
    rw [frameEnds_eq]
    apply foldl_endStep_ge_mem _ _ _ _ hz
    rw [hi.frames]
    exact List.mem_map.mpr ⟨g, hg, rfl⟩
  unfold openStore
  dsimp only
  split
  · exact ⟨bl, pend, hi1, rfl, List.prefix_refl _⟩
  · rename_i hpe
    have hne : pend ≠ [] := by
      intro hp
      obtain ⟨q, hq, _⟩ := hi.pending
      rw [hp] at hq
      simp [hq, pendRecs] at hpe
    split
    · exact ⟨bl, pend, hi, rfl, List.prefix_refl _⟩
    · rename_i s' h
      exact ⟨bl ++ layout c (max ft (frameEnds s.frames)) pend, [], applyRecords_inv hi1 hne h,
        by simp [layout_map_snd], List.prefix_append _ _⟩

theorem put_inv {c : Codec} {H : Bytes → Bytes} (early : Bool) {s : Store} (a : PutArgs) (ac : Bool)
    {bl : List (Nat × PutArgs)} {pend : List PutArgs} (hi : Inv c H s bl pend) :
    ∃ bl' pend', Inv c H (put c H early s a ac).1 bl' pend' ∧
      bl'.map Prod.snd ++ pend' = bl.map Prod.snd ++ pend ++ [a] ∧ bl <+: bl' := by
  have hi1 : Inv c H { s with pending := s.pending ++ putRecords c s.seq a, seq := s.seq + (putRecords c s.seq a).length }
      bl (pend ++ [a]) := by
    obtain ⟨q, hq, hseq⟩ := hi.pending
    refine ⟨hi.frames, fun g hg => Holds.congr (s1 := s) rfl (Nat.le_refl _) (hi.stored g hg), hi.pe_de, hi.pe_file, ⟨q, ?_, ?_⟩⟩
    · show s.pending ++ putRecords c s.seq a = _
      rw [pendRecs_append, hq, hseq]
      simp [pendRecs]
    · show s.seq + (putRecords c s.seq a).length = _
      rw [putRecords_length, hseq]
      simp; omega
  unfold put
  dsimp only
  split
  · obtain ⟨bl', pend', h1, h2, h3⟩ := commit_inv early hi1
    exact ⟨bl', pend', h1, by rw [h2, List.append_assoc], h3⟩
  · exact ⟨bl, pend ++ [a], hi1, by rw [List.append_assoc], List.prefix_refl _⟩

/-- the puts of a history, in order -/
def putsOf : List Op → List PutArgs
  | [] => []
  | .put a _ :: ops => a :: putsOf ops
  | _ :: ops => putsOf ops

theorem step_inv {c : Codec} {H : Bytes → Bytes} (early : Bool) {s : Store} (op : Op)
    {bl : List (Nat × PutArgs)} {pend : List PutArgs} (hi : Inv c H s bl pend) :
    ∃ bl' pend', Inv c H (step c H early s op).1 bl' pend' ∧
      bl'.map Prod.snd ++ pend' = bl.map Prod.snd ++ pend ++ putsOf [op] ∧ bl <+: bl' := by
  cases op with
  | put a ac => exact put_inv early a ac hi
  | commit =>
    obtain ⟨bl', pend', h1, h2, h3⟩ := commit_inv early hi
    exact ⟨bl', pend', h1, by simp [putsOf, h2], h3⟩
  | reopen ft =>
    obtain ⟨bl1, pend1, h1, h2, h3⟩ := commit_inv early hi
    obtain ⟨bl', pend', k1, k2, k3⟩ := openStore_inv early ft h1
    exact ⟨bl', pend', k1, by simp [putsOf, k2, h2], List.IsPrefix.trans h3 k3⟩
  | crash ft =>
    obtain ⟨bl', pend', k1, k2, k3⟩ := openStore_inv early ft hi
    exact ⟨bl', pend', k1, by simp [putsOf, k2], k3⟩

theorem putsOf_cons (op : Op) (ops : List Op) : putsOf (op :: ops) = putsOf [op] ++ putsOf ops := by
  cases op <;> simp [putsOf]

theorem run_inv {c : Codec} {H : Bytes → Bytes} (early : Bool) :
    ∀ (ops : List Op) (s : Store) (bl : List (Nat × PutArgs)) (pend : List PutArgs), Inv c H s bl pend →
      ∃ bl' pend', Inv c H (run c H early s ops) bl' pend' ∧
        bl'.map Prod.snd ++ pend' = bl.map Prod.snd ++ pend ++ putsOf ops ∧ bl <+: bl' := by
  intro ops
  induction ops with
  | nil => intro s bl pend hi; exact ⟨bl, pend, hi, by simp [putsOf], List.prefix_refl _⟩
  | cons op ops ih =>
    intro s bl pend hi
    obtain ⟨bl1, pend1, h1, h2, h3⟩ := step_inv early op hi
    obtain ⟨bl', pend', k1, k2, k3⟩ := ih _ bl1 pend1 h1
    refine ⟨bl', pend', k1, ?_, List.IsPrefix.trans h3 k3⟩
    rw [k2, h2, putsOf_cons op ops]
    simp [List.append_assoc]


/-! ## Reads -/

/-- reading a frame that points at its stored payload gives the decoded payload -/
theorem ownCanonical_of_holds {c : Codec} {H : Bytes → Bytes} {s : Store} {g : GFrame} {p : Bytes} (hg : Holds H s g)
    (hde : s.payloadEnd ≤ s.dataEnd) (hfl : s.payloadEnd ≤ s.file.length) (hmax : g.1.len ≤ MAX_FRAME_BYTES)
    (hdec : decodeCanonical c g.2 g.1.enc = some p) (hlen : p.length = g.1.canonLen) :
    ownCanonical c H s g.1 = .ok p := by
  have hv : validateBounds s g.1 = none := by
    unfold validateBounds
    by_cases hz : g.1.len = 0
    · simp [hz]
    · have := hg.bound hz
      simp only [hz, if_false]
      rw [if_neg (by omega), if_neg (by omega), if_neg (by omega)]
  have hr : readPayload H s g.1 = .ok g.2 := by
    unfold readPayload
    rw [hv]
    simp only [hg.bytes, hg.cksum, bne_self_eq_false, Bool.and_false, Bool.false_eq_true, if_false]
  unfold ownCanonical
  rw [hr]
  simp only [hdec, hlen, if_true]

/-- the blob reader of a Plain frame that points at its stored payload returns that payload -/
theorem blobReader_plain_of_holds {c : Codec} {H : Bytes → Bytes} {s : Store} {g : GFrame} (hg : Holds H s g)
    (henc : g.1.enc = .plain) : blobReader c H s g.1 = .ok g.2 := by
  unfold blobReader
  rw [henc]
  dsimp only
  rw [hg.bytes, hg.cksum, hg.len]
  simp

theorem mem_tableG_block {c : Codec} {H : Bytes → Bytes} {pre post : List (Nat × PutArgs)} {cur : Nat} {a : PutArgs}
    {g : GFrame} (hg : g ∈ blockG c H (tableLen pre) cur a) : g ∈ tableG c H 0 (pre ++ (cur, a) :: post) := by
  rw [tableG_append]
  apply List.mem_append_right
  simp only [tableG, Nat.zero_add]
  exact List.mem_append_left _ hg

theorem frames_decomp {c : Codec} {H : Bytes → Bytes} {s : Store} {pre post : List (Nat × PutArgs)} {cur : Nat}
    {a : PutArgs} {pend : List PutArgs} (hi : Inv c H s (pre ++ (cur, a) :: post) pend) :
    s.frames = (tableG c H 0 pre).map Prod.fst ++
      ((blockG c H (tableLen pre) cur a).map Prod.fst ++
        (tableG c H (tableLen pre + recCount a) post).map Prod.fst) := by
  rw [hi.frames, tableG_append]
  simp only [tableG, Nat.zero_add, List.map_append]

/-- the document frame of the put sits at index `tableLen pre` -/
theorem frames_doc {c : Codec} {H : Bytes → Bytes} {s : Store} {pre post : List (Nat × PutArgs)} {cur : Nat}
    {a : PutArgs} {pend : List PutArgs} (hi : Inv c H s (pre ++ (cur, a) :: post) pend) :
    s.frames[tableLen pre]? = some (mkFrame H (tableLen pre) cur none (parentEntry c a)) := by
  rw [frames_decomp hi]
  have hl : ((tableG c H 0 pre).map Prod.fst).length = tableLen pre := by rw [List.length_map, tableG_length]
  rw [List.getElem?_append_right (by omega), hl, Nat.sub_self]
  simp [blockG]

/-! ### chunk frames -/

theorem chunkG_props (c : Codec) (H : Bytes → Bytes) (a : PutArgs) (d : Nat) :
    ∀ (ts : List Bytes) (i cur : Nat) (g : GFrame), g ∈ chunkG c H a d ts i cur →
      g.1.parent = some d ∧ g.1.role = .chunk := by
  intro ts
  induction ts with
  | nil => intro i cur g hg; cases hg
  | cons t ts ih =>
    intro i cur g hg
    simp only [chunkG] at hg
    rcases List.mem_cons.mp hg with rfl | hg
    · exact ⟨rfl, rfl⟩
    · exact ih _ _ g hg

/-- every parent pointer of a table that starts at index `d0` points inside the table -/
theorem tableG_parent (c : Codec) (H : Bytes → Bytes) :
    ∀ (bl : List (Nat × PutArgs)) (d0 : Nat) (g : GFrame), g ∈ tableG c H d0 bl →
      g.1.parent = none ∨ ∃ p, g.1.parent = some p ∧ d0 ≤ p ∧ p < d0 + tableLen bl := by
  intro bl
  induction bl with
  | nil => intro d0 g hg; cases hg
  | cons b rest ih =>
    intro d0 g hg
    simp only [tableG] at hg
    rcases List.mem_append.mp hg with hg | hg
    · simp only [blockG] at hg
      rcases List.mem_cons.mp hg with rfl | hg
      · exact Or.inl rfl
      · right
        refine ⟨d0, (chunkG_props c H b.2 d0 _ _ _ g hg).1, Nat.le_refl _, ?_⟩
        simp only [tableLen, recCount]; omega
    · rcases ih _ g hg with h | ⟨p, h1, h2, h3⟩
      · exact Or.inl h
      · right
        refine ⟨p, h1, by omega, ?_⟩
        simp only [tableLen]; omega

theorem not_child_of_parent {d : Nat} {f : Frame}
    (h : f.parent = none ∨ ∃ p, f.parent = some p ∧ p ≠ d) : isChildOf d f = false := by
  unfold isChildOf
  rcases h with h | ⟨p, h1, h2⟩
  · simp [h]
  · simp [h1, h2]

/-- `document_chunk_frames(d)` finds exactly the chunk frames of the block at `d`, in table order -/
theorem filter_children {c : Codec} {H : Bytes → Bytes} {s : Store} {pre post : List (Nat × PutArgs)} {cur : Nat}
    {a : PutArgs} {pend : List PutArgs} (hi : Inv c H s (pre ++ (cur, a) :: post) pend) :
    s.frames.filter (isChildOf (tableLen pre)) =
      (chunkG c H a (tableLen pre) a.chunks 0 (cur + (parentEntry c a).payload.length)).map Prod.fst := by
  rw [frames_decomp hi]
  simp only [List.filter_append, blockG, List.map_cons, List.filter_cons]
  have h1 : ((tableG c H 0 pre).map Prod.fst).filter (isChildOf (tableLen pre)) = [] := by
    rw [List.filter_eq_nil_iff]
    intro f hf
    obtain ⟨g, hg, rfl⟩ := List.mem_map.mp hf
    rw [not_child_of_parent]
    · simp
    · rcases tableG_parent c H pre 0 g hg with h | ⟨p, h1, _, h3⟩
      · exact Or.inl h
      · exact Or.inr ⟨p, h1, by omega⟩
  have h3 : ((tableG c H (tableLen pre + recCount a) post).map Prod.fst).filter (isChildOf (tableLen pre)) = [] := by
    rw [List.filter_eq_nil_iff]
    intro f hf
    obtain ⟨g, hg, rfl⟩ := List.mem_map.mp hf
    rw [not_child_of_parent]
    · simp
    · rcases tableG_parent c H post _ g hg with h | ⟨p, h1, h2, _⟩
      · exact Or.inl h
      · exact Or.inr ⟨p, h1, by simp only [recCount] at h2; omega⟩
  have h0 : isChildOf (tableLen pre) (mkFrame H (tableLen pre) cur none (parentEntry c a)) = false :=
    not_child_of_parent (Or.inl rfl)
  have h2 : ((chunkG c H a (tableLen pre) a.chunks 0 (cur + (parentEntry c a).payload.length)).map Prod.fst).filter
      (isChildOf (tableLen pre)) =
      (chunkG c H a (tableLen pre) a.chunks 0 (cur + (parentEntry c a).payload.length)).map Prod.fst := by
    rw [List.filter_eq_self]
    intro f hf
    obtain ⟨g, hg, rfl⟩ := List.mem_map.mp hf
    obtain ⟨hp, hr⟩ := chunkG_props c H a _ _ _ _ g hg
    simp [isChildOf, hp, hr]
  rw [h1, h3, h0, h2]
  simp

/-- the chunk frames of a block are already in `(chunk_index, id)` order -/
theorem sortBy_chunkG (c : Codec) (H : Bytes → Bytes) (a : PutArgs) (d : Nat) :
    ∀ (ts : List Bytes) (i cur : Nat),
      sortBy chunkLe ((chunkG c H a d ts i cur).map Prod.fst) = (chunkG c H a d ts i cur).map Prod.fst := by
  intro ts
  induction ts with
  | nil => intro i cur; rfl
  | cons t ts ih =>
    intro i cur
    simp only [chunkG, List.map_cons, sortBy]
    rw [ih]
    cases ts with
    | nil => rfl
    | cons t' ts' =>
      simp only [chunkG, List.map_cons]
      apply insertBy_head
      simp [chunkLe, chunkKey, mkFrame, chunkEntry]

/-- reading the chunk frames of a block one after the other gives the chunk texts -/
theorem childPayloads_chunkG {c : Codec} (hc : c.RoundTrip) {H : Bytes → Bytes} {s : Store} (a : PutArgs) (d : Nat)
    (hde : s.payloadEnd ≤ s.dataEnd) (hfl : s.payloadEnd ≤ s.file.length) :
    ∀ (ts : List Bytes) (i cur : Nat), (∀ g ∈ chunkG c H a d ts i cur, Holds H s g) →
      (∀ t ∈ ts, (prepare c DEFAULT_LEVEL t).bytes.length ≤ MAX_FRAME_BYTES) →
      childPayloads c H s ((chunkG c H a d ts i cur).map Prod.fst) = .ok ts := by
  intro ts
  induction ts with
  | nil => intro i cur _ _; rfl
  | cons t ts ih =>
    intro i cur hst hmax
    simp only [chunkG, List.map_cons, childPayloads]
    have hg := hst _ (by simp only [chunkG]; exact List.mem_cons_self)
    have hd := decode_prepare c hc DEFAULT_LEVEL t
    have h1 : ownCanonical c H s (mkFrame H (d + 1 + i) cur (some d) (chunkEntry c a 0 i t)) = .ok t :=
      ownCanonical_of_holds (g := (mkFrame H (d + 1 + i) cur (some d) (chunkEntry c a 0 i t), (chunkEntry c a 0 i t).payload))
        hg hde hfl (hmax t (by simp)) hd.1 hd.2.symm
    rw [h1]
    simp only
    rw [ih (i + 1) _ (fun g hg' => hst g (by simp only [chunkG]; exact List.mem_cons_of_mem _ hg'))
      (fun t' ht' => hmax t' (by simp [ht']))]


/-! ## Totality of apply_records in the repaired code -/

/-- what `put_internal` guarantees about a record -/
structure RecOk (c : Codec) (e : Entry) : Prop where
  small : e.payload.length ≤ MAX_FRAME_BYTES
  decodes : ∃ p, decodeCanonical c e.payload e.enc = some p ∧ p.length = e.canonLen
  manifest_search : e.role = .document → e.manifest.isSome → e.search.isSome

/-- every record finds its parent in the sequence map as the loop builds it -/
def ResolvesAll : List (Nat × Nat) → Nat → List (Nat × Entry) → Prop
  | _, _, [] => True
  | m, id, r :: rs => (resolveParent m r.2.parentSeq).isSome ∧ ResolvesAll ((r.1, id) :: m) (id + 1) rs

theorem applyInsert_total {c : Codec} {H : Bytes → Bytes} {st : ApSt} {seq : Nat} {e : Entry} {parent : Option Nat}
    (hi : LInv st) (hde : st.s.payloadEnd ≤ st.s.dataEnd) (hp : resolveParent st.seqMap e.parentSeq = some parent)
    (hok : RecOk c e) : applyInsert c H true st seq e = .ok (okStep H true st seq parent e) := by
  obtain ⟨h1, h2⟩ := hi
  have hidx : indexTextErr c H (viewAfterWrite true st e) st.s.engine e
      (mkFrame H st.s.frames.length st.cursor parent e) = none := by
    unfold indexTextErr
    split
    · rename_i hcond
      have hsn : e.search = none := by
        cases hs : e.search with
        | none => rfl
        | some b => simp [hs] at hcond
      unfold frameContentErr
      have hfs : (mkFrame H st.s.frames.length st.cursor parent e).search = none := hsn
      rw [hfs]
      simp only [reduceCtorEq, if_false, Option.isSome_none, Bool.false_eq_true]
      split
      · rfl
      · have hnm : isManifestDoc (mkFrame H st.s.frames.length st.cursor parent e) = false := by
          cases hm : isManifestDoc (mkFrame H st.s.frames.length st.cursor parent e) with
          | false => rfl
          | true =>
            simp only [isManifestDoc, mkFrame, Bool.and_eq_true, beq_iff_eq] at hm
            have := hok.manifest_search hm.1 hm.2
            rw [hsn] at this
            simp at this
        rw [hnm]
        simp only [Bool.false_eq_true, if_false]
        split
        · rfl
        · obtain ⟨p, hp1, hp2⟩ := hok.decodes
          have hown : ownCanonical c H (viewAfterWrite true st e) (mkFrame H st.s.frames.length st.cursor parent e) = .ok p := by
            apply ownCanonical_of_holds (g := (mkFrame H st.s.frames.length st.cursor parent e, e.payload))
            · refine ⟨rfl, rfl, ?_, ?_⟩
              · simp only [viewAfterWrite, mkFrame]; exact slice_writeExt_same _ _ _
              · intro _; simp only [viewAfterWrite, mkFrame]; omega
            · simp only [viewAfterWrite, if_true]; omega
            · simp only [viewAfterWrite, writeExt_length]; omega
            · exact hok.small
            · exact hp1
            · exact hp2
          unfold canonicalBytes
          rw [hnm]
          simp only [Bool.false_eq_true, if_false, hown, Except.toErr]
    · rfl
  unfold applyInsert
  rw [hp]
  dsimp only
  rw [hidx]
  rfl

theorem applyLoop_total {c : Codec} {H : Bytes → Bytes} :
    ∀ (recs : List (Nat × Entry)) (st : ApSt), LInv st → st.s.payloadEnd ≤ st.s.dataEnd →
      ResolvesAll st.seqMap st.s.frames.length recs → (∀ r ∈ recs, RecOk c r.2) →
      ∃ st', applyLoop c H true st recs = .ok st' := by
  intro recs
  induction recs with
  | nil => intro st _ _ _ _; exact ⟨st, rfl⟩
  | cons r rs ih =>
    intro st hi hde hres hok
    obtain ⟨hr1, hr2⟩ := hres
    obtain ⟨parent, hp⟩ := Option.isSome_iff_exists.mp hr1
    have h1 := applyInsert_total (H := H) (seq := r.1) hi hde hp (hok r (by simp))
    simp only [applyLoop, h1]
    apply ih
    · exact okStep_linv H true st r.1 parent r.2 hi
    · simp only [okStep, viewAfterWrite, if_true]; omega
    · have : (okStep H true st r.1 parent r.2).s.frames.length = st.s.frames.length + 1 := by simp [okStep]
      rw [this]; exact hr2
    · intro r' hr'; exact hok r' (by simp [hr'])

theorem resolves_append : ∀ (xs ys : List (Nat × Entry)) (m : List (Nat × Nat)) (id : Nat),
    ResolvesAll m id xs → (∀ m' id', ResolvesAll m' id' ys) → ResolvesAll m id (xs ++ ys) := by
  intro xs
  induction xs with
  | nil => intro ys m id _ h; exact h m id
  | cons x xs ih =>
    intro ys m id h hy
    exact ⟨h.1, ih ys _ _ h.2 hy⟩

theorem resolves_chunks (c : Codec) (a : PutArgs) (q d : Nat) :
    ∀ (ts : List Bytes) (i : Nat) (m : List (Nat × Nat)) (id : Nat), m.lookup q = some d →
      ResolvesAll m id (chunkRecords c a q ts i) := by
  intro ts
  induction ts with
  | nil => intro i m id _; trivial
  | cons t ts ih =>
    intro i m id hm
    refine ⟨by simp [chunkEntry, resolveParent, hm], ?_⟩
    apply ih
    have hne : (q == q + 1 + i) = false := by simp; omega
    simp [List.lookup, hne, hm]

theorem resolves_pend (c : Codec) :
    ∀ (pend : List PutArgs) (q : Nat) (m : List (Nat × Nat)) (id : Nat), ResolvesAll m id (pendRecs c q pend) := by
  intro pend
  induction pend with
  | nil => intro q m id; trivial
  | cons a rest ih =>
    intro q m id
    simp only [pendRecs, putRecords, List.cons_append]
    refine ⟨by simp [parentEntry, resolveParent], ?_⟩
    apply resolves_append
    · exact resolves_chunks c a (q + 1) id _ _ _ _ (by simp [List.lookup])
    · intro m' id'; exact ih _ m' id'

/-- what C07 presupposes of a put: its stored pieces fit a frame (256 MiB), and a chunked document
    carries search text (put_internal sets it to the normalized first chunk) -/
structure PutOk (c : Codec) (a : PutArgs) : Prop where
  parent_small : (parentEntry c a).payload.length ≤ MAX_FRAME_BYTES
  chunks_small : ∀ t ∈ a.chunks, (prepare c DEFAULT_LEVEL t).bytes.length ≤ MAX_FRAME_BYTES
  manifest_search : a.plan.isSome → a.role = .document → a.search.isSome

theorem recOk_chunks (c : Codec) (hc : c.RoundTrip) (a : PutArgs) (q : Nat) :
    ∀ (ts : List Bytes) (i : Nat), (∀ t ∈ ts, (prepare c DEFAULT_LEVEL t).bytes.length ≤ MAX_FRAME_BYTES) →
      ∀ r ∈ chunkRecords c a q ts i, RecOk c r.2 := by
  intro ts
  induction ts with
  | nil => intro i _ r hr; cases hr
  | cons t ts ih =>
    intro i hs r hr
    simp only [chunkRecords] at hr
    rcases List.mem_cons.mp hr with rfl | hr
    · have hd := decode_prepare c hc DEFAULT_LEVEL t
      exact ⟨hs t (by simp), ⟨t, hd.1, hd.2.symm⟩, fun h => by simp [chunkEntry] at h⟩
    · exact ih (i + 1) (fun t' ht' => hs t' (by simp [ht'])) r hr

theorem recOk_pend (c : Codec) (hc : c.RoundTrip) :
    ∀ (pend : List PutArgs) (q : Nat), (∀ a ∈ pend, PutOk c a) → ∀ r ∈ pendRecs c q pend, RecOk c r.2 := by
  intro pend
  induction pend with
  | nil => intro q _ r hr; cases hr
  | cons a rest ih =>
    intro q hok r hr
    simp only [pendRecs, putRecords, List.cons_append] at hr
    have ha := hok a (by simp)
    rcases List.mem_cons.mp hr with rfl | hr
    · refine ⟨ha.parent_small, ?_, ?_⟩
      · show ∃ p, decodeCanonical c (parentStored c a).bytes (parentStored c a).enc = some p ∧ p.length = (parentStored c a).canonLen
        unfold parentStored
        split
        · exact ⟨[], rfl, rfl⟩
        · have hd := decode_prepare c hc a.level a.payload
          exact ⟨a.payload, hd.1, hd.2.symm⟩
      · intro hr hm
        apply ha.manifest_search _ hr
        simpa [parentEntry] using hm
    · rcases List.mem_append.mp hr with hr | hr
      · exact recOk_chunks c hc a (q + 1) a.chunks 0 ha.chunks_small r hr
      · exact ih _ (fun a' ha' => hok a' (by simp [ha'])) r hr

/-- in the repaired code `apply_records` accepts the records of any well-formed pending puts -/
theorem applyRecords_total {c : Codec} (hc : c.RoundTrip) {H : Bytes → Bytes} {s : Store}
    {bl : List (Nat × PutArgs)} {pend : List PutArgs} (hi : Inv c H s bl pend) (hok : ∀ a ∈ pend, PutOk c a) :
    ∃ s', applyRecords c H true s s.pending = .ok s' := by
  obtain ⟨q, hq, _⟩ := hi.pending
  unfold applyRecords
  split
  · exact ⟨s, rfl⟩
  · obtain ⟨st', h⟩ := applyLoop_total (c := c) (H := H) s.pending { s := s, cursor := s.dataEnd, seqMap := [] }
      ⟨hi.pe_de, hi.pe_file⟩ hi.pe_de (by rw [hq]; exact resolves_pend c pend q [] _)
      (by rw [hq]; exact recOk_pend c hc pend q hok)
    rw [h]
    exact ⟨_, rfl⟩

end Mv.Content
