/-
  Lemmas about MvModel/Bincode.lean: the generic prefix round trip
  `decode s (encode s v ++ rest) = some (v, rest)` for well-typed `v`, by induction on the schema.
-/
import MvModel.Bincode
set_option linter.unusedSimpArgs false
set_option linter.unusedVariables false
namespace Mv.Bincode

theorem takeN_append (x rest : Bytes) (n : Nat) (h : n = x.length) : takeN n (x ++ rest) = some (x, rest) := by
  subst h; simp [takeN]

theorem readUint_append (w v : Nat) (rest : Bytes) (h : v < 256 ^ w) :
    readUint w (leBytes w v ++ rest) = some (v, rest) := by
  simp [readUint, takeN_append _ _ _ (leBytes_length w v).symm, leVal_leBytes w v h]

theorem sintBytes_length (w : Nat) (i : Int) : (sintBytes w i).length = w := by simp [sintBytes]

theorem pow256_pos (w : Nat) : 0 < 256 ^ w := Nat.pow_pos (by decide)

theorem pow256_even (w : Nat) (hw : 0 < w) : 256 ^ w = 2 * (256 ^ w / 2) := by
  cases w with
  | zero => omega
  | succ n => rw [Nat.pow_succ]; omega

theorem sint_roundtrip (w : Nat) (i : Int) (hw : 0 < w)
    (h1 : -((256 ^ w / 2 : Nat) : Int) ≤ i) (h2 : i < ((256 ^ w / 2 : Nat) : Int)) :
    sintVal (sintBytes w i) = i := by
  have hp := pow256_pos w
  have he := pow256_even w hw
  have hnn : 0 ≤ i % ((256 ^ w : Nat) : Int) := Int.emod_nonneg _ (by omega)
  have hlt : i % ((256 ^ w : Nat) : Int) < ((256 ^ w : Nat) : Int) := Int.emod_lt_of_pos _ (by omega)
  have hv : leVal (sintBytes w i) = (i % ((256 ^ w : Nat) : Int)).toNat := by
    unfold sintBytes
    exact leVal_leBytes w _ (by omega)
  unfold sintVal
  rw [sintBytes_length, hv]
  have hcast : (((i % ((256 ^ w : Nat) : Int)).toNat : Nat) : Int) = i % ((256 ^ w : Nat) : Int) := Int.toNat_of_nonneg hnn
  generalize hP : (256 ^ w : Nat) = P at *
  generalize hQ : P / 2 = Q at *
  by_cases hneg : i < 0
  · have : i % (P : Int) = i + P := by
      rw [Int.emod_eq_add_self_emod]; exact Int.emod_eq_of_lt (by omega) (by omega)
    split <;> omega
  · have : i % (P : Int) = i := Int.emod_eq_of_lt (by omega) (by omega)
    split <;> omega

theorem readStr_encStr (b rest : Bytes) (hl : b.length < 2^64) (hu : utf8Valid b = true) :
    readStr (encStr b ++ rest) = some (b, rest) := by
  have h256 : (256:Nat)^8 = 2^64 := by decide
  unfold readStr encStr u64le
  rw [List.append_assoc, readUint_append 8 _ _ (by omega)]
  simp [takeN_append b rest _ rfl, hu]

/-- reading a sequence back, given that every element reads back -/
theorem decodeN_fold (f : Bytes → Option (Value × Bytes)) (enc : Value → Bytes) (p : Value → Bool)
    (hp : ∀ x rest, p x = true → f (enc x ++ rest) = some (x, rest)) :
    ∀ (v : Value) (rest : Bytes), allElems p v = true →
      decodeN f (vlen v) (foldElems enc v ++ rest) = some (v, rest) := by
  intro v
  induction v with
  | pair h t _ iht =>
    intro rest hall
    simp only [allElems, Bool.and_eq_true] at hall
    simp only [vlen, foldElems, decodeN, List.append_assoc, hp h _ hall.1, iht rest hall.2]
  | unit => intro rest _; simp [vlen, foldElems, decodeN]
  | nat _ => intro rest h; simp [allElems] at h
  | int _ => intro rest h; simp [allElems] at h
  | bool _ => intro rest h; simp [allElems] at h
  | bytes _ => intro rest h; simp [allElems] at h
  | none => intro rest h; simp [allElems] at h
  | some _ _ => intro rest h; simp [allElems] at h

/-! ### maps -/

theorem bytesLt_irrefl (a : Bytes) : bytesLt a a = false := by
  induction a with
  | nil => rfl
  | cons x xs ih => simp [bytesLt, ih]

theorem bytesLt_asymm (a b : Bytes) (h : bytesLt a b = true) : bytesLt b a = false := by
  induction a generalizing b with
  | nil => cases b <;> simp [bytesLt] at *
  | cons x xs ih =>
    cases b with
    | nil => simp [bytesLt] at h
    | cons y ys =>
      simp only [bytesLt, Bool.or_eq_true, Bool.and_eq_true, decide_eq_true_eq] at h
      simp only [bytesLt, Bool.or_eq_false_iff, Bool.and_eq_false_iff, decide_eq_false_iff_not]
      rcases h with h | ⟨h1, h2⟩
      · exact ⟨by omega, Or.inl (by omega)⟩
      · exact ⟨by omega, Or.inr (ih ys h2)⟩

/-- append an entry at the end of a spine -/
def vsnoc : Value → Value → Value
  | .pair h t, e => .pair h (vsnoc t e)
  | _, e => .pair e .unit

/-- append a spine to a spine -/
def vappend : Value → Value → Value
  | .pair h t, w => .pair h (vappend t w)
  | _, w => w

theorem vlen_vsnoc (a e : Value) : vlen (vsnoc a e) = vlen a + 1 := by
  induction a with
  | pair h t _ iht => simp [vsnoc, vlen, iht]
  | _ => simp [vsnoc, vlen]

/-- inserting a key above every present key appends -/
theorem mapInsert_above (k : Bytes) (v acc : Value) (p : Value → Bool) (ha : allEntries p acc = true)
    (hb : keysBelow k acc = true) : mapInsert k v acc = vsnoc acc (.pair (.bytes k) v) := by
  induction acc with
  | pair h t _ iht =>
    cases h with
    | pair hk hv =>
      cases hk with
      | bytes k' =>
        simp only [allEntries, Bool.and_eq_true] at ha
        simp only [keysBelow, Bool.and_eq_true] at hb
        have h1 : bytesLt k k' = false := bytesLt_asymm _ _ hb.1
        have h2 : k ≠ k' := by
          intro he; subst he
          rw [bytesLt_irrefl] at hb; exact absurd hb.1 (by simp)
        simp only [mapInsert, h1, Bool.false_eq_true, if_false, h2, vsnoc]
        rw [iht ha.2 hb.2]
      | _ => simp [allEntries] at ha
    | _ => simp [allEntries] at ha
  | unit => simp [mapInsert, vsnoc]
  | _ => simp [allEntries] at ha

theorem allEntries_vsnoc (p : Value → Bool) (acc : Value) (k : Bytes) (v : Value)
    (ha : allEntries p acc = true) (hk : utf8Valid k = true) (hl : k.length < 2^64) (hv : p v = true) :
    allEntries p (vsnoc acc (.pair (.bytes k) v)) = true := by
  induction acc with
  | pair h t _ iht =>
    cases h with
    | pair hk' hv' =>
      cases hk' with
      | bytes k' =>
        simp only [allEntries, Bool.and_eq_true] at ha
        simp only [vsnoc, allEntries, Bool.and_eq_true]
        exact ⟨ha.1, iht ha.2⟩
      | _ => simp [allEntries] at ha
    | _ => simp [allEntries] at ha
  | unit => simp [vsnoc, allEntries, hk, hl, hv]
  | _ => simp [allEntries] at ha

theorem bytesLt_trans (a b c : Bytes) (h1 : bytesLt a b = true) (h2 : bytesLt b c = true) : bytesLt a c = true := by
  induction a generalizing b c with
  | nil =>
    cases b with
    | nil => simp [bytesLt] at h1
    | cons y ys => cases c with
      | nil => simp [bytesLt] at h2
      | cons z zs => simp [bytesLt]
  | cons x xs ih =>
    cases b with
    | nil => simp [bytesLt] at h1
    | cons y ys =>
      cases c with
      | nil => simp [bytesLt] at h2
      | cons z zs =>
        simp only [bytesLt, Bool.or_eq_true, Bool.and_eq_true, decide_eq_true_eq] at h1 h2 ⊢
        rcases h1 with h1 | ⟨h1, h1'⟩ <;> rcases h2 with h2 | ⟨h2, h2'⟩
        · left; omega
        · left; omega
        · left; omega
        · right; exact ⟨by omega, ih ys zs h1' h2'⟩

/-- all keys of a strictly sorted spine are above the keys below its first key -/
theorem keysBelow_trans (k k' : Bytes) (acc : Value) (h : keysBelow k acc = true) (hk : bytesLt k k' = true) :
    keysBelow k' acc = true := by
  induction acc with
  | pair h' t _ iht =>
    cases h' with
    | pair a b =>
      cases a with
      | bytes k0 =>
        simp only [keysBelow, Bool.and_eq_true] at h ⊢
        exact ⟨bytesLt_trans _ _ _ h.1 hk, iht h.2⟩
      | _ => simp [keysBelow]
    | _ => simp [keysBelow]
  | _ => simp [keysBelow]

theorem keysBelow_vsnoc (k k' : Bytes) (v acc : Value) (h : keysBelow k' acc = true) (hk : bytesLt k k' = true) :
    keysBelow k' (vsnoc acc (.pair (.bytes k) v)) = true := by
  induction acc with
  | pair h' t _ iht =>
    cases h' with
    | pair a b =>
      cases a with
      | bytes k0 =>
        simp only [keysBelow, Bool.and_eq_true] at h
        simp only [vsnoc, keysBelow, Bool.and_eq_true]
        exact ⟨h.1, iht h.2⟩
      | _ => simp [vsnoc, keysBelow, hk]
    | _ => simp [vsnoc, keysBelow, hk]
  | _ => simp [vsnoc, keysBelow, hk]

theorem vappend_vsnoc (acc e t : Value) : vappend (vsnoc acc e) t = vappend acc (.pair e t) := by
  induction acc with
  | pair h t' _ iht => simp [vsnoc, vappend, iht]
  | _ => simp [vsnoc, vappend]

theorem vappend_unit (acc : Value) (p : Value → Bool) (h : allEntries p acc = true) : vappend acc .unit = acc := by
  induction acc with
  | pair h' t _ iht =>
    cases h' with
    | pair a b =>
      cases a with
      | bytes k => simp only [allEntries, Bool.and_eq_true] at h; simp [vappend, iht h.2]
      | _ => simp [allEntries] at h
    | _ => simp [allEntries] at h
  | unit => rfl
  | _ => simp [allEntries] at h

/-- reading a map back: `acc` holds the entries already inserted, all below the remaining keys -/
theorem decodeMapN_fold (f : Bytes → Option (Value × Bytes)) (enc : Value → Bytes) (p : Value → Bool)
    (bound : Option Nat)
    (hp : ∀ x rest, p x = true → f (enc x ++ rest) = some (x, rest)) :
    ∀ (v acc : Value) (rest : Bytes), allEntries p v = true → keysSorted v = true →
      allEntries p acc = true →
      (∀ k w t, v = .pair (.pair (.bytes k) w) t → keysBelow k acc = true) →
      withinBound bound (vlen acc + vlen v) = true →
      decodeMapN f bound (vlen v) (foldElems (encEntry enc) v ++ rest) acc = some (vappend acc v, rest) := by
  intro v
  induction v with
  | pair h t _ iht =>
    intro acc rest hall hs hacc hbelow hb
    cases h with
    | pair hk hv =>
      cases hk with
      | bytes k =>
        simp only [allEntries, Bool.and_eq_true, decide_eq_true_eq] at hall
        obtain ⟨⟨⟨hu, hl⟩, hpv⟩, hrest⟩ := hall
        have hkb := hbelow k hv t rfl
        have hnb : ¬ (bound = some (vlen acc)) := by
          intro he; subst he
          simp [withinBound, vlen] at hb
          have := of_decide_eq_true hb
          omega
        simp only [vlen, foldElems, encEntry, decodeMapN, List.append_assoc, readStr_encStr k _ hl hu,
          hp hv _ hpv, hnb, if_false]
        rw [mapInsert_above k hv acc p hacc hkb]
        have hs' : keysSorted t = true := by
          simp only [keysSorted, Bool.and_eq_true] at hs; exact hs.2
        rw [iht (vsnoc acc (.pair (.bytes k) hv)) rest hrest hs'
          (allEntries_vsnoc p acc k hv hacc hu hl hpv) ?_ ?_]
        · rw [vappend_vsnoc]
        · intro k' w t' ht
          subst ht
          have hkk : bytesLt k k' = true := by
            simp only [keysSorted, Bool.and_eq_true] at hs; exact hs.1
          exact keysBelow_vsnoc k k' hv acc (keysBelow_trans k k' acc hkb hkk) hkk
        · rw [vlen_vsnoc]
          simp only [vlen] at hb
          have : vlen acc + 1 + vlen t = vlen acc + (vlen t + 1) := by omega
          rw [this]; exact hb
      | _ => simp [allEntries] at hall
    | _ => simp [allEntries] at hall
  | unit =>
    intro acc rest _ _ hacc _ _
    simp [vlen, foldElems, decodeMapN, vappend_unit acc p hacc]
  | nat _ => intro acc rest h; simp [allEntries] at h
  | int _ => intro acc rest h; simp [allEntries] at h
  | bool _ => intro acc rest h; simp [allEntries] at h
  | bytes _ => intro acc rest h; simp [allEntries] at h
  | none => intro acc rest h; simp [allEntries] at h
  | some _ _ => intro acc rest h; simp [allEntries] at h


theorem takeN_none_or (n : Nat) (b : Bytes) : takeN n b = none ∨ ∃ x r, takeN n b = some (x, r) ∧ b = x ++ r ∧ x.length = n := by
  unfold takeN
  split
  · right; exact ⟨_, _, rfl, (List.take_append_drop n b).symm, by simp; omega⟩
  · left; rfl

/-- **the generic theorem**: at every schema, decoding the encoding of a well-typed value followed
    by arbitrary bytes returns that value and exactly those bytes. -/
theorem bincode_prefix (ext : Nat → Bytes → Option Bytes) :
    ∀ (s : Schema) (v : Value) (rest : Bytes), wt ext s v = true →
      decode ext s (encode s v ++ rest) = some (v, rest) := by
  intro s
  induction s with
  | uint w =>
    intro v rest h
    cases v <;> simp only [wt, Bool.false_eq_true] at h
    rename_i n
    simp only [decide_eq_true_eq] at h
    simp [decode, encode, takeN_append _ _ _ (leBytes_length w n).symm, leVal_leBytes w n h]
  | sint w =>
    intro v rest h
    cases v <;> simp only [wt, Bool.false_eq_true] at h
    rename_i i
    simp only [Bool.and_eq_true, decide_eq_true_eq] at h
    simp [decode, encode, takeN_append _ _ _ (sintBytes_length w i).symm, sint_roundtrip w i h.1.1 h.1.2 h.2]
  | bool =>
    intro v rest h
    cases v <;> simp only [wt, Bool.false_eq_true] at h
    rename_i b
    cases b <;> simp [decode, encode]
  | raw n =>
    intro v rest h
    cases v <;> simp only [wt, Bool.false_eq_true] at h
    rename_i b
    simp only [decide_eq_true_eq] at h
    simp [decode, encode, takeN_append b rest n h.symm]
  | str =>
    intro v rest h
    cases v <;> simp only [wt, Bool.false_eq_true] at h
    rename_i b
    simp only [Bool.and_eq_true, decide_eq_true_eq] at h
    simp [decode, encode, readStr_encStr b rest h.1 h.2]
  | strExt k =>
    intro v rest h
    cases v <;> simp only [wt, Bool.false_eq_true] at h
    rename_i b
    simp only [Bool.and_eq_true, decide_eq_true_eq] at h
    simp [decode, encode, readStr_encStr b rest h.1.1 h.1.2, h.2]
  | bytesN n =>
    intro v rest h
    cases v <;> simp only [wt, Bool.false_eq_true] at h
    rename_i b
    simp only [Bool.and_eq_true, decide_eq_true_eq] at h
    have h256 : (256:Nat)^8 = 2^64 := by decide
    simp only [decode, encode, encStr, u64le, List.append_assoc]
    rw [readUint_append 8 _ _ (by omega)]
    simp [takeN_append b rest _ rfl, takeN_append b rest n h.1.symm, h.1]
  | cenc =>
    intro v rest h
    cases v <;> simp only [wt, Bool.false_eq_true] at h
    rename_i n
    simp only [Bool.or_eq_true, decide_eq_true_eq] at h
    simp only [decode, encode, u32le]
    rw [readUint_append 4 _ _ (by rcases h with h | h <;> subst h <;> decide)]
    rcases h with h | h <;> subst h <;> rfl
  | enumUnit k =>
    intro v rest h
    cases v <;> simp only [wt, Bool.false_eq_true] at h
    rename_i n
    simp only [Bool.and_eq_true, decide_eq_true_eq] at h
    have h256 : (256:Nat)^4 = 2^32 := by decide
    simp only [decode, encode, u32le]
    rw [readUint_append 4 _ _ (by omega)]
    simp [h.1]
  | option s ih =>
    intro v rest h
    cases v <;> simp only [wt, Bool.false_eq_true] at h
    · simp [decode, encode]
    · rename_i x
      simp [decode, encode, ih x rest h]
  | seq bound s ih =>
    intro v rest h
    simp only [wt, Bool.and_eq_true, decide_eq_true_eq] at h
    obtain ⟨⟨hall, hlen⟩, hb⟩ := h
    have h256 : (256:Nat)^8 = 2^64 := by decide
    simp only [decode, encode, u64le, List.append_assoc]
    rw [readUint_append 8 _ _ (by omega)]
    have hx : exceeds bound (vlen v) = false := by
      cases bound with
      | none => rfl
      | some b => simp only [withinBound, decide_eq_true_eq] at hb; simp [exceeds]; omega
    simp only [hx, Bool.false_eq_true, if_false]
    exact decodeN_fold (decode ext s) (encode s) (wt ext s) (fun x r hx => ih x r hx) v rest hall
  | mapStr bound s ih =>
    intro v rest h
    simp only [wt, Bool.and_eq_true, decide_eq_true_eq] at h
    obtain ⟨⟨⟨hall, hs⟩, hlen⟩, hb⟩ := h
    have h256 : (256:Nat)^8 = 2^64 := by decide
    simp only [decode, encode, u64le, List.append_assoc]
    rw [readUint_append 8 _ _ (by omega)]
    have := decodeMapN_fold (decode ext s) (encode s) (wt ext s) bound (fun x r hx => ih x r hx) v .unit rest
      hall hs rfl (by intros; rfl) (by simpa [vlen] using hb)
    simpa [vappend] using this
  | unit =>
    intro v rest h
    cases v <;> simp only [wt, Bool.false_eq_true] at h
    simp [decode, encode]
  | pair a b iha ihb =>
    intro v rest h
    cases v <;> simp only [wt, Bool.false_eq_true] at h
    rename_i x y
    simp only [Bool.and_eq_true] at h
    simp only [decode, encode, List.append_assoc, iha x _ h.1, ihb y _ h.2]

/-- the encoding of a well-typed value decodes to it with nothing left -/
theorem bincode_roundtrip (ext : Nat → Bytes → Option Bytes) (s : Schema) (v : Value) (h : wt ext s v = true) :
    decode ext s (encode s v) = some (v, []) := by
  have := bincode_prefix ext s v [] h
  simpa using this


/-! ### exactness: the decoder accepts nothing but canonical encodings (strict schemas) -/

/-- schemas all of whose leaves have a strict decoder: everything except the hand-written lenient
    `CanonicalEncoding`, maps (duplicate / unsorted keys are accepted and normalised) and strings
    re-parsed by a foreign parser -/
def strict : Schema → Bool
  | .uint _ => true
  | .sint w => decide (0 < w)
  | .bool => true
  | .raw _ => true
  | .str => true
  | .strExt _ => false
  | .bytesN _ => true
  | .cenc => false
  | .enumUnit _ => true
  | .option s => strict s
  | .seq _ s => strict s
  | .mapStr _ _ => false
  | .unit => true
  | .pair a b => strict a && strict b

theorem takeN_some (n : Nat) (b x r : Bytes) (h : takeN n b = some (x, r)) : b = x ++ r ∧ x.length = n := by
  unfold takeN at h
  split at h
  · rename_i hle
    injection h with h; injection h with h1 h2
    subst h1 h2
    exact ⟨(List.take_append_drop n b).symm, by simp; omega⟩
  · cases h

theorem readUint_some (w : Nat) (b r : Bytes) (v : Nat) (h : readUint w b = some (v, r)) :
    b = leBytes w v ++ r ∧ v < 256 ^ w := by
  unfold readUint at h
  split at h
  · rename_i x r' hx
    injection h with h; injection h with h1 h2
    subst h1 h2
    obtain ⟨hb, hl⟩ := takeN_some _ _ _ _ hx
    have := leBytes_leVal x
    rw [hl] at this
    refine ⟨by rw [this]; exact hb, ?_⟩
    have := leVal_lt x
    rw [hl] at this; exact this
  · cases h

theorem readStr_some (b x r : Bytes) (h : readStr b = some (x, r)) :
    b = encStr x ++ r ∧ x.length < 2^64 ∧ utf8Valid x = true := by
  unfold readStr at h
  split at h
  · cases h
  · rename_i len r1 h1
    split at h
    · cases h
    · rename_i x' r2 h2
      split at h
      · rename_i hu
        injection h with h; injection h with e1 e2
        subst e1 e2
        obtain ⟨hb, hlt⟩ := readUint_some _ _ _ _ h1
        obtain ⟨hb2, hl2⟩ := takeN_some _ _ _ _ h2
        have h256 : (256:Nat)^8 = 2^64 := by decide
        refine ⟨?_, by omega, hu⟩
        rw [hb, hb2, encStr, u64le, hl2, List.append_assoc]
      · cases h

theorem decodeN_exact (f : Bytes → Option (Value × Bytes)) (enc : Value → Bytes) (p : Value → Bool)
    (hf : ∀ b v r, f b = some (v, r) → p v = true ∧ b = enc v ++ r) :
    ∀ (n : Nat) (b : Bytes) (v : Value) (r : Bytes), decodeN f n b = some (v, r) →
      allElems p v = true ∧ vlen v = n ∧ b = foldElems enc v ++ r := by
  intro n
  induction n with
  | zero =>
    intro b v r h
    simp only [decodeN] at h
    injection h with h; injection h with h1 h2
    subst h1 h2
    simp [allElems, vlen, foldElems]
  | succ n ih =>
    intro b v r h
    simp only [decodeN] at h
    split at h
    · cases h
    · rename_i hd r1 h1
      split at h
      · cases h
      · rename_i t r2 h2
        injection h with h; injection h with e1 e2
        subst e1 e2
        obtain ⟨p1, b1⟩ := hf _ _ _ h1
        obtain ⟨p2, l2, b2⟩ := ih _ _ _ h2
        refine ⟨by simp [allElems, p1, p2], by simp [vlen, l2], ?_⟩
        rw [b1, b2]; simp [foldElems]

/-- **exactness**: at a strict schema the decoder accepts only canonical encodings — whatever it
    returns is well typed and the consumed bytes are exactly its encoding.  So a mutated image is
    either rejected or decodes to the value the mutated bytes spell out, never to anything else. -/
theorem bincode_exact (ext : Nat → Bytes → Option Bytes) :
    ∀ (s : Schema), strict s = true → ∀ (b : Bytes) (v : Value) (rest : Bytes),
      decode ext s b = some (v, rest) → wt ext s v = true ∧ b = encode s v ++ rest := by
  intro s
  induction s with
  | uint w =>
    intro _ b v rest h
    simp only [decode] at h
    split at h
    · rename_i x r hx
      injection h with h; injection h with e1 e2
      subst e1 e2
      obtain ⟨hb, hl⟩ := takeN_some _ _ _ _ hx
      have h1 := leVal_lt x
      have h2 := leBytes_leVal x
      rw [hl] at h1 h2
      exact ⟨by simp [wt, h1], by simp [encode, h2, hb]⟩
    · cases h
  | sint w =>
    intro hs b v rest h
    simp only [strict, decide_eq_true_eq] at hs
    simp only [decode] at h
    split at h
    · rename_i x r hx
      injection h with h; injection h with e1 e2
      subst e1 e2
      obtain ⟨hb, hl⟩ := takeN_some _ _ _ _ hx
      have h1 := leVal_lt x
      have h2 := leBytes_leVal x
      rw [hl] at h1 h2
      have hp := pow256_pos w
      have he := pow256_even w hs
      have hkey : ((sintVal x) % ((256 ^ w : Nat) : Int)).toNat = leVal x := by
        unfold sintVal
        rw [hl]
        generalize hP : (256 ^ w : Nat) = P at *
        split
        · have : ((leVal x : Nat) : Int) % (P : Int) = leVal x := Int.emod_eq_of_lt (by omega) (by omega)
          rw [this]; simp
        · have : (((leVal x : Nat) : Int) - (P : Int)) % (P : Int) = leVal x := by
            rw [Int.sub_emod, Int.emod_self]; simp
            exact Int.emod_eq_of_lt (by omega) (by omega)
          rw [this]; simp
      refine ⟨?_, by simp only [encode, sintBytes, hkey, h2]; exact hb⟩
      simp only [wt, Bool.and_eq_true, decide_eq_true_eq]
      unfold sintVal
      rw [hl]
      generalize hP : (256 ^ w : Nat) = P at *
      generalize hQ : P / 2 = Q at *
      refine ⟨⟨hs, ?_⟩, ?_⟩ <;> split <;> omega
    · cases h
  | bool =>
    intro _ b v rest h
    simp only [decode] at h
    split at h
    · rename_i x r
      split at h
      · rename_i hx
        injection h with h; injection h with e1 e2
        subst e1 e2 hx
        exact ⟨rfl, by simp [encode]⟩
      · split at h
        · rename_i hx
          injection h with h; injection h with e1 e2
          subst e1 e2 hx
          exact ⟨rfl, by simp [encode]⟩
        · cases h
    · cases h
  | raw n =>
    intro _ b v rest h
    simp only [decode] at h
    split at h
    · rename_i x r hx
      injection h with h; injection h with e1 e2
      subst e1 e2
      obtain ⟨hb, hl⟩ := takeN_some _ _ _ _ hx
      exact ⟨by simp [wt, hl], by simp [encode, hb]⟩
    · cases h
  | str =>
    intro _ b v rest h
    simp only [decode] at h
    split at h
    · rename_i x r hx
      injection h with h; injection h with e1 e2
      subst e1 e2
      obtain ⟨hb, hl, hu⟩ := readStr_some _ _ _ hx
      exact ⟨by simp [wt, hl, hu], by simp [encode, hb]⟩
    · cases h
  | strExt k => intro hs; simp [strict] at hs
  | bytesN n =>
    intro _ b v rest h
    simp only [decode] at h
    split at h
    · cases h
    · rename_i len r1 h1
      split at h
      · cases h
      · rename_i x r2 h2
        split at h
        · rename_i hn
          injection h with h; injection h with e1 e2
          subst e1 e2 hn
          obtain ⟨hb, hlt⟩ := readUint_some _ _ _ _ h1
          obtain ⟨hb2, hl2⟩ := takeN_some _ _ _ _ h2
          have h256 : (256:Nat)^8 = 2^64 := by decide
          refine ⟨by simp [wt, hl2]; omega, ?_⟩
          rw [hb, hb2]; simp [encode, encStr, u64le, hl2]
        · cases h
  | cenc => intro hs; simp [strict] at hs
  | enumUnit k =>
    intro _ b v rest h
    simp only [decode] at h
    split at h
    · rename_i x r hx
      split at h
      · rename_i hlt
        injection h with h; injection h with e1 e2
        subst e1 e2
        obtain ⟨hb, hl⟩ := readUint_some _ _ _ _ hx
        have h256 : (256:Nat)^4 = 2^32 := by decide
        exact ⟨by simp [wt, hlt]; omega, by simp [encode, u32le, hb]⟩
      · cases h
    · cases h
  | option s ih =>
    intro hs b v rest h
    simp only [strict] at hs
    simp only [decode] at h
    split at h
    · rename_i x r
      split at h
      · rename_i hx
        injection h with h; injection h with e1 e2
        subst e1 e2 hx
        exact ⟨rfl, by simp [encode]⟩
      · split at h
        · rename_i hx
          split at h
          · rename_i w r' hw
            injection h with h; injection h with e1 e2
            subst e1 e2 hx
            obtain ⟨w1, w2⟩ := ih hs _ _ _ hw
            exact ⟨by simpa [wt] using w1, by simp [encode, w2]⟩
          · cases h
        · cases h
    · cases h
  | seq bound s ih =>
    intro hs b v rest h
    simp only [strict] at hs
    simp only [decode] at h
    split at h
    · cases h
    · rename_i n r1 h1
      split at h
      · cases h
      · rename_i hex
        obtain ⟨hb, hlt⟩ := readUint_some _ _ _ _ h1
        obtain ⟨a1, a2, a3⟩ := decodeN_exact (decode ext s) (encode s) (wt ext s) (fun b v r hh => ih hs b v r hh) _ _ _ _ h
        have h256 : (256:Nat)^8 = 2^64 := by decide
        refine ⟨?_, ?_⟩
        · simp only [wt, Bool.and_eq_true, decide_eq_true_eq]
          refine ⟨⟨a1, by omega⟩, ?_⟩
          cases bound with
          | none => rfl
          | some bd =>
            simp only [exceeds, decide_eq_true_eq, Bool.not_eq_true, decide_eq_false_iff_not] at hex
            simp only [withinBound, decide_eq_true_eq]; omega
        · rw [hb, a3]; simp [encode, u64le, a2]
  | mapStr bound s ih => intro hs; simp [strict] at hs
  | unit =>
    intro _ b v rest h
    simp only [decode] at h
    injection h with h; injection h with e1 e2
    subst e1 e2
    exact ⟨rfl, by simp [encode]⟩
  | pair x y ihx ihy =>
    intro hs b v rest h
    simp only [strict, Bool.and_eq_true] at hs
    simp only [decode] at h
    split at h
    · cases h
    · rename_i v1 r1 h1
      split at h
      · cases h
      · rename_i v2 r2 h2
        injection h with h; injection h with e1 e2
        subst e1 e2
        obtain ⟨w1, b1⟩ := ihx hs.1 _ _ _ h1
        obtain ⟨w2, b2⟩ := ihy hs.2 _ _ _ h2
        exact ⟨by simp [wt, w1, w2], by rw [b1, b2]; simp [encode]⟩

/-! ### the decoder only returns well-typed values (all schemas, lenient leaves included) -/

theorem bytesLt_total (a b : Bytes) (h1 : bytesLt a b = false) (h2 : a ≠ b) : bytesLt b a = true := by
  induction a generalizing b with
  | nil =>
    cases b with
    | nil => exact absurd rfl h2
    | cons y ys => simp [bytesLt] at h1
  | cons x xs ih =>
    cases b with
    | nil => simp [bytesLt]
    | cons y ys =>
      simp only [bytesLt, Bool.or_eq_false_iff, Bool.and_eq_false_iff, decide_eq_false_iff_not] at h1
      simp only [bytesLt, Bool.or_eq_true, Bool.and_eq_true, decide_eq_true_eq]
      by_cases hxy : x.toNat = y.toNat
      · right
        refine ⟨hxy.symm, ih ys ?_ ?_⟩
        · rcases h1.2 with h | h
          · exact absurd hxy h
          · exact h
        · intro he; subst he
          have : x = y := UInt8.toNat_inj.mp hxy
          subst this; exact h2 rfl
      · left; omega

/-- first key of a spine is above `k` (or the spine has no entry head) -/
def headAbove (k : Bytes) : Value → Bool
  | .pair (.pair (.bytes k') _) _ => bytesLt k k'
  | _ => true

theorem keysSorted_cons (k : Bytes) (v t : Value) :
    keysSorted (.pair (.pair (.bytes k) v) t) = (headAbove k t && keysSorted t) := by
  cases t with
  | pair h t' =>
    cases h with
    | pair a b => cases a <;> simp [keysSorted, headAbove]
    | _ => simp [keysSorted, headAbove]
  | _ => simp [keysSorted, headAbove]

theorem allEntries_cons (p : Value → Bool) (k : Bytes) (v t : Value) :
    allEntries p (.pair (.pair (.bytes k) v) t) = (utf8Valid k && decide (k.length < 2^64) && p v && allEntries p t) := rfl

theorem mapInsert_props (p : Value → Bool) (k : Bytes) (v : Value) (hk : utf8Valid k = true) (hl : k.length < 2^64)
    (hv : p v = true) :
    ∀ (acc : Value), allEntries p acc = true → keysSorted acc = true →
      allEntries p (mapInsert k v acc) = true ∧ keysSorted (mapInsert k v acc) = true ∧
      vlen (mapInsert k v acc) ≤ vlen acc + 1 ∧
      (∀ k0, headAbove k0 acc = true → bytesLt k0 k = true → headAbove k0 (mapInsert k v acc) = true) := by
  intro acc
  induction acc with
  | pair h t _ iht =>
    intro ha hs
    cases h with
    | pair hk' hv' =>
      cases hk' with
      | bytes k' =>
        have ha' := ha
        simp only [allEntries, Bool.and_eq_true, decide_eq_true_eq] at ha
        rw [keysSorted_cons, Bool.and_eq_true] at hs
        simp only [mapInsert]
        split
        · rename_i hlt
          refine ⟨?_, ?_, by simp [vlen], ?_⟩
          · rw [allEntries_cons]; simp [hk, hl, hv, ha']
          · simp only [keysSorted_cons, Bool.and_eq_true]; exact ⟨by simp [headAbove, hlt], hs.1, hs.2⟩
          · intro k0 _ h0; simp [headAbove, h0]
        · rename_i hnlt
          split
          · rename_i heq
            subst heq
            refine ⟨?_, ?_, by simp [vlen], ?_⟩
            · rw [allEntries_cons]; simp [hk, hl, hv, ha.2]
            · simp only [keysSorted_cons, Bool.and_eq_true]; exact ⟨hs.1, hs.2⟩
            · intro k0 h0 _; simpa [headAbove] using h0
          · rename_i hne
            obtain ⟨i1, i2, i3, i4⟩ := iht ha.2 hs.2
            have hgt : bytesLt k' k = true := bytesLt_total k k' (by simpa using hnlt) hne
            refine ⟨?_, ?_, by simp [vlen]; omega, ?_⟩
            · rw [allEntries_cons]; simp [ha.1, i1]
            · simp only [keysSorted_cons, Bool.and_eq_true]; exact ⟨i4 k' hs.1 hgt, i2⟩
            · intro k0 h0 _; simpa [headAbove] using h0
      | _ => simp [allEntries] at ha
    | _ => simp [allEntries] at ha
  | unit =>
    intro _ _
    refine ⟨?_, ?_, by simp [mapInsert, vlen], ?_⟩
    · simp [mapInsert, allEntries, hk, hl, hv]
    · simp [mapInsert, keysSorted]
    · intro k0 _ h0; simp [mapInsert, headAbove, h0]
  | nat _ => intro ha; simp [allEntries] at ha
  | int _ => intro ha; simp [allEntries] at ha
  | bool _ => intro ha; simp [allEntries] at ha
  | bytes _ => intro ha; simp [allEntries] at ha
  | none => intro ha; simp [allEntries] at ha
  | some _ _ => intro ha; simp [allEntries] at ha

theorem decodeMapN_wt (f : Bytes → Option (Value × Bytes)) (p : Value → Bool) (bound : Option Nat)
    (hf : ∀ b v r, f b = some (v, r) → p v = true) :
    ∀ (n : Nat) (b : Bytes) (acc v : Value) (r : Bytes), decodeMapN f bound n b acc = some (v, r) →
      allEntries p acc = true → keysSorted acc = true → withinBound bound (vlen acc) = true →
      allEntries p v = true ∧ keysSorted v = true ∧ withinBound bound (vlen v) = true ∧ vlen v ≤ vlen acc + n := by
  intro n
  induction n with
  | zero =>
    intro b acc v r h ha hs hb
    simp only [decodeMapN] at h
    injection h with h; injection h with e1 e2
    subst e1
    exact ⟨ha, hs, hb, by omega⟩
  | succ n ih =>
    intro b acc v r h ha hs hb
    simp only [decodeMapN] at h
    split at h
    · cases h
    · rename_i k r1 h1
      split at h
      · cases h
      · rename_i w r2 h2
        split at h
        · cases h
        · rename_i hnb
          obtain ⟨_, hkl, hku⟩ := readStr_some _ _ _ h1
          obtain ⟨m1, m2, m3, _⟩ := mapInsert_props p k w hku hkl (hf _ _ _ h2) acc ha hs
          have hb' : withinBound bound (vlen (mapInsert k w acc)) = true := by
            cases bound with
            | none => rfl
            | some B =>
              simp only [withinBound, decide_eq_true_eq] at hb ⊢
              have : vlen acc ≠ B := fun he => hnb (by rw [he])
              omega
          obtain ⟨a1, a2, a3, a4⟩ := ih _ _ _ _ h m1 m2 hb'
          exact ⟨a1, a2, a3, by omega⟩

theorem decodeN_wt (f : Bytes → Option (Value × Bytes)) (p : Value → Bool)
    (hf : ∀ b v r, f b = some (v, r) → p v = true) :
    ∀ (n : Nat) (b : Bytes) (v : Value) (r : Bytes), decodeN f n b = some (v, r) →
      allElems p v = true ∧ vlen v = n := by
  intro n
  induction n with
  | zero =>
    intro b v r h
    simp only [decodeN] at h
    injection h with h; injection h with h1 h2
    subst h1
    simp [allElems, vlen]
  | succ n ih =>
    intro b v r h
    simp only [decodeN] at h
    split at h
    · cases h
    · rename_i hd r1 h1
      split at h
      · cases h
      · rename_i t r2 h2
        injection h with h; injection h with e1 e2
        subst e1
        obtain ⟨p2, l2⟩ := ih _ _ _ h2
        exact ⟨by simp [allElems, hf _ _ _ h1, p2], by simp [vlen, l2]⟩

/-- the foreign parser returns canonical strings: valid UTF-8, shorter than 2^64, fixed by `ext` -/
def ExtCanonical (ext : Nat → Bytes → Option Bytes) : Prop :=
  ∀ k x x', ext k x = some x' → x'.length < 2^64 ∧ utf8Valid x' = true ∧ ext k x' = some x'

/-- no zero-width signed integer anywhere (there is no such Rust type) -/
def wfSchema : Schema → Bool
  | .sint w => decide (0 < w)
  | .option s => wfSchema s
  | .seq _ s => wfSchema s
  | .mapStr _ s => wfSchema s
  | .pair a b => wfSchema a && wfSchema b
  | _ => true

/-- **the decoder only returns values of the type**: at every schema (lenient leaves included)
    a successful decode yields a well-typed value. -/
theorem decode_wt (ext : Nat → Bytes → Option Bytes) (hext : ExtCanonical ext) :
    ∀ (s : Schema), wfSchema s = true → ∀ (b : Bytes) (v : Value) (rest : Bytes),
      decode ext s b = some (v, rest) → wt ext s v = true := by
  intro s
  induction s with
  | uint w => intro _ b v rest h; exact (bincode_exact ext (.uint w) rfl b v rest h).1
  | sint w => intro hw b v rest h; exact (bincode_exact ext (.sint w) (by simpa [strict, wfSchema] using hw) b v rest h).1
  | bool => intro _ b v rest h; exact (bincode_exact ext .bool rfl b v rest h).1
  | raw n => intro _ b v rest h; exact (bincode_exact ext (.raw n) rfl b v rest h).1
  | str => intro _ b v rest h; exact (bincode_exact ext .str rfl b v rest h).1
  | bytesN n => intro _ b v rest h; exact (bincode_exact ext (.bytesN n) rfl b v rest h).1
  | enumUnit n => intro _ b v rest h; exact (bincode_exact ext (.enumUnit n) rfl b v rest h).1
  | unit => intro _ b v rest h; exact (bincode_exact ext .unit rfl b v rest h).1
  | strExt k =>
    intro _ b v rest h
    simp only [decode] at h
    split at h
    · rename_i x r hx
      split at h
      · rename_i x' hx'
        injection h with h; injection h with e1 e2
        subst e1
        obtain ⟨c1, c2, c3⟩ := hext k x x' hx'
        simp [wt, c1, c2, c3]
      · cases h
    · cases h
  | cenc =>
    intro _ b v rest h
    simp only [decode] at h
    split at h
    · rename_i x r hx
      injection h with h; injection h with e1 e2
      subst e1
      split <;> simp [wt]
    · cases h
  | option s ih =>
    intro hw b v rest h
    simp only [wfSchema] at hw
    simp only [decode] at h
    split at h
    · rename_i x r
      split at h
      · injection h with h; injection h with e1 e2
        subst e1; rfl
      · split at h
        · split at h
          · rename_i w r' hw'
            injection h with h; injection h with e1 e2
            subst e1
            simpa [wt] using ih hw _ _ _ hw'
          · cases h
        · cases h
    · cases h
  | seq bound s ih =>
    intro hw b v rest h
    simp only [wfSchema] at hw
    simp only [decode] at h
    split at h
    · cases h
    · rename_i n r1 h1
      split at h
      · cases h
      · rename_i hex
        obtain ⟨_, hlt⟩ := readUint_some _ _ _ _ h1
        obtain ⟨a1, a2⟩ := decodeN_wt (decode ext s) (wt ext s) (fun b v r hh => ih hw b v r hh) _ _ _ _ h
        have h256 : (256:Nat)^8 = 2^64 := by decide
        simp only [wt, Bool.and_eq_true, decide_eq_true_eq]
        refine ⟨⟨a1, by omega⟩, ?_⟩
        cases bound with
        | none => rfl
        | some bd =>
          simp only [exceeds, decide_eq_true_eq, Bool.not_eq_true, decide_eq_false_iff_not] at hex
          simp only [withinBound, decide_eq_true_eq]; omega
  | mapStr bound s ih =>
    intro hw b v rest h
    simp only [wfSchema] at hw
    simp only [decode] at h
    split at h
    · cases h
    · rename_i n r1 h1
      obtain ⟨_, hlt⟩ := readUint_some _ _ _ _ h1
      have h256 : (256:Nat)^8 = 2^64 := by decide
      obtain ⟨a1, a2, a3, a4⟩ := decodeMapN_wt (decode ext s) (wt ext s) bound (fun b v r hh => ih hw b v r hh)
        _ _ _ _ _ h rfl rfl (by cases bound <;> simp [withinBound, vlen])
      simp only [vlen] at a4
      simp only [wt, Bool.and_eq_true, decide_eq_true_eq]
      exact ⟨⟨⟨a1, a2⟩, by omega⟩, a3⟩
  | pair x y ihx ihy =>
    intro hw b v rest h
    simp only [wfSchema, Bool.and_eq_true] at hw
    simp only [decode] at h
    split at h
    · cases h
    · rename_i v1 r1 h1
      split at h
      · cases h
      · rename_i v2 r2 h2
        injection h with h; injection h with e1 e2
        subst e1
        simp [wt, ihx hw.1 _ _ _ h1, ihy hw.2 _ _ _ h2]

/-- decoding is idempotent through the canonical encoding: whatever `decode` returns, the
    canonical encoding of that value decodes to the same value -/
theorem decode_normal_form (ext : Nat → Bytes → Option Bytes) (hext : ExtCanonical ext)
    (s : Schema) (hw : wfSchema s = true) (b : Bytes) (v : Value) (rest : Bytes)
    (h : decode ext s b = some (v, rest)) (rest' : Bytes) :
    decode ext s (encode s v ++ rest') = some (v, rest') :=
  bincode_prefix ext s v rest' (decode_wt ext hext s hw b v rest h)

end Mv.Bincode
