/-
  C36 — PII masking leaves no detectable PII and is idempotent.
  Property theorems; the model is MvModel/Pii.lean over MvModel/Regex.lean, patterns from
  MvModel/Gen/C36.lean (generated from /repo/src/pii.rs).  `T : Tables` (Unicode tables) is a parameter
  of every theorem.
-/
import MvModel.Pii
import MvProps.C36LemmasPass
namespace Mv.Pii
open Mv.Regex

/-! ### clause 3: text in which contains_pii detects nothing is returned unchanged -/

theorem replaceGo_noMatch (T : Tables) (r : Re) (tok : List Nat) :
    ∀ (s : List Nat) (p : Option Nat), anyMatch T r p s = false → replaceGo T r tok p s 0 = s
  | [], _, _ => by simp [replaceGo]
  | c :: cs, p, h => by
    simp only [anyMatch, Bool.or_eq_false_iff] at h
    have h1 : matchAt T r p (c :: cs) = none := by
      cases hm : matchAt T r p (c :: cs) with
      | none => rfl
      | some x => rw [hm] at h; simp at h
    simp only [replaceGo, h1]
    rw [replaceGo_noMatch T r tok cs (some c) h.2]

/-- `replace_all` with a pattern that matches nowhere is the identity -/
theorem replaceAll_noMatch (T : Tables) (r : Re) (tok s : List Nat) (h : isMatch T r s = false) :
    replaceAll T r tok s = s :=
  replaceGo_noMatch T r tok s none h

theorem maskWith_noMatch (T : Tables) (s : List Nat) :
    ∀ (passes : List (Re × List Nat)), (∀ p ∈ passes, isMatch T p.1 s = false) → maskWith T passes s = s
  | [], _ => rfl
  | p :: ps, h => by
    have hp : isMatch T p.1 s = false := h p (List.mem_cons_self ..)
    simp only [maskWith, List.foldl_cons, replaceAll_noMatch T p.1 p.2 s hp]
    exact maskWith_noMatch T s ps (fun q hq => h q (List.mem_cons_of_mem _ hq))

/-- every pattern mask_pii applies is one contains_pii tests (re-checked against the generated orders) -/
theorem maskOrder_subset : ∀ p ∈ Gen.C36.maskOrder, p.1 ∈ Gen.C36.containsOrder := by
  simp [Gen.C36.maskOrder, Gen.C36.containsOrder]

/-- **C36, clause 3.** -/
theorem C36_unchanged (T : Tables) (s : List Nat) (h : containsPii T s = false) : maskPii T s = s := by
  apply maskWith_noMatch
  intro p hp
  have hc := maskOrder_subset p hp
  simp only [containsPii, containsWith, List.any_eq_false] at h
  simpa using h p.1 hc

/-! ### clauses 1–2 at full strength: false for the current patterns -/

/-- the full property: masked text has nothing contains_pii detects, and masking again changes nothing -/
def C36_full (T : Tables) : Prop :=
  ∀ s : List Nat, containsPii T (maskPii T s) = false ∧ maskPii T (maskPii T s) = maskPii T s

/-- "1234567890123456789" -/
def witness : List Nat := [49,50,51,52,53,54,55,56,57,48,49,50,51,52,53,54,55,56,57]
/-- "123456789[PHONE]" -/
def witnessMasked : List Nat := [49,50,51,52,53,54,55,56,57,91,80,72,79,78,69,93]
/-- "[SSN][PHONE]" -/
def witnessMasked2 : List Nat := [91,83,83,78,93,91,80,72,79,78,69,93]

example : ofCps witness = "1234567890123456789" ∧ ofCps witnessMasked = "123456789[PHONE]"
    ∧ ofCps witnessMasked2 = "[SSN][PHONE]" := by decide

theorem maskWith_step (T : Tables) (p : Re × List Nat) (ps : List (Re × List Nat)) (s s' : List Nat)
    (h : replaceAll T p.1 p.2 s = s') : maskWith T (p :: ps) s = maskWith T ps s' := by
  subst h; rfl

/- pass by pass (EMAIL, SSN, CREDIT_CARD leave the run alone; PHONE cuts it; the rest change nothing) -/
set_option maxRecDepth 100000 in
theorem witness_masked (T : Tables) : maskPii T witness = witnessMasked := by
  unfold maskPii Gen.C36.maskOrder
  refine (maskWith_step T _ _ witness witness (by rfl)).trans ?_
  refine (maskWith_step T _ _ witness witness (by rfl)).trans ?_
  refine (maskWith_step T _ _ witness witness (by rfl)).trans ?_
  refine (maskWith_step T _ _ witness witnessMasked (by rfl)).trans ?_
  refine (maskWith_step T _ _ witnessMasked witnessMasked (by rfl)).trans ?_
  refine (maskWith_step T _ _ witnessMasked witnessMasked (by rfl)).trans ?_
  refine (maskWith_step T _ _ witnessMasked witnessMasked (by rfl)).trans ?_
  rfl

set_option maxRecDepth 100000 in
theorem witness_still_detected (T : Tables) : containsPii T witnessMasked = true := by rfl

set_option maxRecDepth 100000 in
theorem witness_masked_twice (T : Tables) : maskPii T witnessMasked = witnessMasked2 := by
  unfold maskPii Gen.C36.maskOrder
  refine (maskWith_step T _ _ witnessMasked witnessMasked (by rfl)).trans ?_
  refine (maskWith_step T _ _ witnessMasked witnessMasked2 (by rfl)).trans ?_
  refine (maskWith_step T _ _ witnessMasked2 witnessMasked2 (by rfl)).trans ?_
  refine (maskWith_step T _ _ witnessMasked2 witnessMasked2 (by rfl)).trans ?_
  refine (maskWith_step T _ _ witnessMasked2 witnessMasked2 (by rfl)).trans ?_
  refine (maskWith_step T _ _ witnessMasked2 witnessMasked2 (by rfl)).trans ?_
  refine (maskWith_step T _ _ witnessMasked2 witnessMasked2 (by rfl)).trans ?_
  rfl

/-- **C36 clauses 1 and 2 fail** (for every choice of Unicode tables: the witness is ASCII):
    the PHONE pass eats the last 10 digits of a 19-digit run, leaving an SSN-shaped 9-digit run. -/
theorem C36_counterexample (T : Tables) : ¬ C36_full T := by
  intro h
  have h1 := (h witness).1
  rw [witness_masked, witness_still_detected] at h1
  cases h1

/-- clause 2 fails on its own as well -/
theorem C36_not_idempotent (T : Tables) : maskPii T (maskPii T witness) ≠ maskPii T witness := by
  rw [witness_masked, witness_masked_twice]
  decide

/-! ### what does hold -/

/-- clause 2 follows from clause 1 on any input: if the masked text is clean, masking again is the identity -/
theorem C36_idempotent_of_clean (T : Tables) (s : List Nat) (h : containsPii T (maskPii T s) = false) :
    maskPii T (maskPii T s) = maskPii T s :=
  C36_unchanged T (maskPii T s) h

/-- the check `passesOKB` makes of one pattern (against all tokens) -/
def patOK (T : Tables) (p : Re × List Nat) : Bool :=
  p.1.wf && !p.1.nullable && Gen.C36.maskOrder.all (fun t => inertB T p.1 t.2)

/-- i-th pass of the generated list -/
def nthPass (i : Nat) : Re × List Nat := Gen.C36.maskOrder.getD i (Re.eps, [])

set_option maxRecDepth 100000 in
theorem patOK_0 (T : Tables) : patOK T (nthPass 0) = true := by rfl
set_option maxRecDepth 100000 in
theorem patOK_1 (T : Tables) : patOK T (nthPass 1) = true := by rfl
set_option maxRecDepth 100000 in
theorem patOK_2 (T : Tables) : patOK T (nthPass 2) = true := by rfl
set_option maxRecDepth 100000 in
theorem patOK_3 (T : Tables) : patOK T (nthPass 3) = true := by rfl
set_option maxRecDepth 100000 in
theorem patOK_4 (T : Tables) : patOK T (nthPass 4) = true := by rfl
set_option maxRecDepth 100000 in
theorem patOK_5 (T : Tables) : patOK T (nthPass 5) = true := by rfl
set_option maxRecDepth 100000 in
theorem patOK_6 (T : Tables) : patOK T (nthPass 6) = true := by rfl

/-- static facts about the generated patterns and tokens, for every choice of Unicode tables (the
    tokens are ASCII): each pattern is well-formed and cannot match the empty string; for each pattern and
    each token, the token's `[` and `]` are non-word, rejected by every class of the pattern, and the
    pattern matches nowhere inside the token. -/
theorem gen_passesOK (T : Tables) : passesOKB T Gen.C36.maskOrder = true := by
  have hl : Gen.C36.maskOrder
      = [nthPass 0, nthPass 1, nthPass 2, nthPass 3, nthPass 4, nthPass 5, nthPass 6] := rfl
  have h : Gen.C36.maskOrder.all (patOK T) = true := by
    rw [hl]
    simp only [List.all_cons, List.all_nil, patOK_0, patOK_1, patOK_2, patOK_3, patOK_4, patOK_5, patOK_6,
      Bool.and_self]
  exact h

/-- every pattern contains_pii tests has a pass in mask_pii -/
theorem containsOrder_subset : ∀ q ∈ Gen.C36.containsOrder, ∃ t, (q, t) ∈ Gen.C36.maskOrder := by
  have h : ∀ q ∈ Gen.C36.containsOrder, q ∈ Gen.C36.maskOrder.map Prod.fst := by
    simp [Gen.C36.maskOrder, Gen.C36.containsOrder]
  intro q hq
  obtain ⟨p, hp, rfl⟩ := List.mem_map.mp (h q hq)
  exact ⟨p.2, hp⟩

/-- **C36 clauses 1–2, partial.**  `maskSafe T s` (executable; computed by the model driver for every
    harness case) says: in every pass, run on the text the previous passes produced, no replaced match
    starts with a word character directly after a word character or ends with one directly before a word
    character — i.e. no replacement creates a word boundary.  Then the masked text contains nothing
    contains_pii detects, and masking is idempotent. -/
theorem C36_partial (T : Tables) (s : List Nat) (h : maskSafe T s = true) :
    containsPii T (maskPii T s) = false ∧ maskPii T (maskPii T s) = maskPii T s := by
  have hclean : containsPii T (maskPii T s) = false := by
    simp only [containsPii, containsWith, List.any_eq_false, Bool.not_eq_true]
    intro q hq
    obtain ⟨t, ht⟩ := containsOrder_subset q hq
    exact maskWith_clean T Gen.C36.maskOrder (passesOKB_sound T _ (gen_passesOK T)) Gen.C36.maskOrder
      (fun _ hp => hp) s h q t ht (Or.inr ⟨t, ht⟩)
  exact ⟨hclean, C36_unchanged T _ hclean⟩

/-- which passes have a pattern of the form `\b…\b` (these can never create a boundary): all but PHONE -/
theorem only_phone_unanchored :
    Gen.C36.maskOrder.map (fun p => startsB p.1 && endsB p.1) = [true, true, true, false, true, true, true] := by
  rfl

/-- the hypothesis of `C36_partial` only concerns passes whose pattern is not `\b…\b` (by
    `only_phone_unanchored`: the PHONE pass, whose first alternative has no leading `\b`) -/
theorem maskSafe_eq_unanchored (T : Tables) (s : List Nat) :
    maskSafe T s = safeWithU T Gen.C36.maskOrder s :=
  safeWith_eq_U T _ (fun p hp => ((passesOKB_sound T _ (gen_passesOK T)) p hp).2.1) s

/-- **the defect is necessary for a failure**: whenever clause 1 or 2 fails, some PHONE-pass match
    created a word boundary -/
theorem C36_failure_needs_boundary (T : Tables) (s : List Nat)
    (h : containsPii T (maskPii T s) = true ∨ maskPii T (maskPii T s) ≠ maskPii T s) :
    safeWithU T Gen.C36.maskOrder s = false := by
  cases hs : safeWithU T Gen.C36.maskOrder s with
  | false => rfl
  | true =>
    rw [← maskSafe_eq_unanchored] at hs
    obtain ⟨h1, h2⟩ := C36_partial T s hs
    rcases h with h | h
    · rw [h1] at h; cases h
    · exact absurd h2 h

/-- "mail a@b.cc or 555-1234" -/
def sampleText : List Nat := [109,97,105,108,32,97,64,98,46,99,99,32,111,114,32,53,53,53,45,49,50,51,52]
/-- "mail [EMAIL] or [PHONE]" -/
def sampleMasked : List Nat := [109,97,105,108,32,91,69,77,65,73,76,93,32,111,114,32,91,80,72,79,78,69,93]

/-- non-vacuity of `C36_partial`: a text with an e-mail address and a phone number satisfies the
    hypothesis, and masking changes it -/
example : maskSafe Gen.C36.tables sampleText = true ∧ maskPii Gen.C36.tables sampleText = sampleMasked := by
  decide +kernel

/-- the witness of the counterexample violates the hypothesis, as it must -/
example : maskSafe Gen.C36.tables witness = false := by decide +kernel

theorem safeWithU_of_anchored (T : Tables) : ∀ (passes : List (Re × List Nat)),
    (∀ p ∈ passes, startsB p.1 = true ∧ endsB p.1 = true) → ∀ s, safeWithU T passes s = true
  | [], _, _ => rfl
  | p :: ps, h, s => by
    obtain ⟨h1, h2⟩ := h p (List.mem_cons_self ..)
    simp only [safeWithU, h1, h2, Bool.and_self, Bool.true_or, Bool.true_and]
    exact safeWithU_of_anchored T ps (fun q hq => h q (List.mem_cons_of_mem _ hq)) _

/-- **what a repair has to achieve** (generic in the pattern family): for ANY list of passes whose
    patterns all begin and end with `\b`, are well-formed and non-nullable, and whose tokens are inert
    for them (`PassesOK`), sequential masking leaves nothing that any of the patterns detects and is
    idempotent — on every string.  The current family fails only the first premise, for PHONE. -/
theorem C36_full_of_anchored (T : Tables) (passes : List (Re × List Nat)) (hok : PassesOK T passes)
    (hanch : ∀ p ∈ passes, startsB p.1 = true ∧ endsB p.1 = true) (s : List Nat) :
    containsWith T (passes.map Prod.fst) (maskWith T passes s) = false
      ∧ maskWith T passes (maskWith T passes s) = maskWith T passes s := by
  have hsafe : safeWith T passes s = true := by
    rw [safeWith_eq_U T passes (fun p hp => (hok p hp).2.1)]
    exact safeWithU_of_anchored T passes hanch s
  have hclean : ∀ p ∈ passes, isMatch T p.1 (maskWith T passes s) = false := fun p hp =>
    maskWith_clean T passes hok passes (fun _ h => h) s hsafe p.1 p.2 hp (Or.inr ⟨p.2, hp⟩)
  refine ⟨?_, maskWith_noMatch T _ passes hclean⟩
  simp only [containsWith, List.any_eq_false, Bool.not_eq_true]
  intro q hq
  obtain ⟨p, hp, rfl⟩ := List.mem_map.mp hq
  exact hclean p hp

/-- clauses 1 and 2 as a Boolean -/
def fullOn (T : Tables) (s : List Nat) : Bool :=
  !containsPii T (maskPii T s) && (maskPii T (maskPii T s) == maskPii T s)

set_option maxRecDepth 1000000 in
theorem digit_runs_a0 : ∀ n < 9, fullOn Gen.C36.tables (List.replicate n 53) = true := by decide +kernel
set_option maxRecDepth 1000000 in
theorem digit_runs_a1 : ∀ k < 5, fullOn Gen.C36.tables (List.replicate (9 + k) 53) = true := by decide +kernel
theorem digit_runs_a : ∀ n < 14, fullOn Gen.C36.tables (List.replicate n 53) = true := by
  intro n hn
  by_cases h : n < 9
  · exact digit_runs_a0 n h
  · have := digit_runs_a1 (n - 9) (by omega)
    rwa [show 9 + (n - 9) = n by omega] at this
set_option maxRecDepth 1000000 in
theorem digit_runs_b0 : ∀ k < 3, fullOn Gen.C36.tables (List.replicate (14 + k) 53) = true := by decide +kernel
set_option maxRecDepth 1000000 in
theorem digit_runs_b1 : ∀ k < 2, fullOn Gen.C36.tables (List.replicate (17 + k) 53) = true := by decide +kernel
theorem digit_runs_b : ∀ k < 5, fullOn Gen.C36.tables (List.replicate (14 + k) 53) = true := by
  intro k hk
  by_cases h : k < 3
  · exact digit_runs_b0 k h
  · have := digit_runs_b1 (k - 3) (by omega)
    rwa [show 17 + (k - 3) = 14 + k by omega] at this
set_option maxRecDepth 1000000 in
theorem digit_runs_c0 : ∀ k < 2, fullOn Gen.C36.tables (List.replicate (19 + k) 53) = false := by decide +kernel
set_option maxRecDepth 1000000 in
theorem digit_runs_c1 : ∀ k < 2, fullOn Gen.C36.tables (List.replicate (21 + k) 53) = false := by decide +kernel
theorem digit_runs_c : ∀ k < 4, fullOn Gen.C36.tables (List.replicate (19 + k) 53) = false := by
  intro k hk
  by_cases h : k < 2
  · exact digit_runs_c0 k h
  · have := digit_runs_c1 (k - 2) (by omega)
    rwa [show 21 + (k - 2) = 19 + k by omega] at this

/-- exhaustive over bare runs of the digit 5 up to length 22 (generated Unicode tables, kernel
    evaluation): clauses 1–2 hold exactly for the runs shorter than 19 -/
theorem C36_digit_runs : ∀ n < 23, fullOn Gen.C36.tables (List.replicate n 53) = decide (n < 19) := by
  intro n hn
  by_cases h1 : n < 14
  · rw [digit_runs_a n h1]; exact (decide_eq_true (by omega)).symm
  · by_cases h2 : n < 19
    · have := digit_runs_b (n - 14) (by omega)
      rw [show 14 + (n - 14) = n by omega] at this
      rw [this]; exact (decide_eq_true h2).symm
    · have := digit_runs_c (n - 19) (by omega)
      rw [show 19 + (n - 19) = n by omega] at this
      rw [this]; exact (decide_eq_false h2).symm

/-- non-vacuity of `C36_unchanged`: "Invoice #12345 for $100.00" is PII-free (and so returned unchanged) -/
example : containsPii Gen.C36.tables [73,110,118,111,105,99,101,32,35,49,50,51,52,53,32,102,111,114,32,36,49,48,48,46,48,48] = false := by
  decide +kernel

end Mv.Pii
