/-
  C04 — recovery is crash-safe and idempotent.

  `recover` (MvModel/Crash.lean) is a FUNCTION of the file image, so "opening a recovered file again
  changes no frame" is `C04_reopen_stable` below.  The crash-safety clause is FALSE for the code as
  it is: open-time recovery (`recover_wal`) replays the pending records IN PLACE — payloads are
  written from `data_end` on, which is the old TOC's offset, then the TOC is rewritten, then the
  header is persisted twice (first with the OLD checkpoint).  `C04_full` states the clause,
  `C04_counterexample` refutes it on a toy instance of the real protocol (`Emit.recoverProto`):
  prefix 3 leaves no valid TOC at all (open fails), prefix 9 leaves the new TOC with the old
  checkpoint (the records are replayed a second time: duplicated frames).  What does hold:
  `C04_payloads_preserved` — no prefix of the in-place recovery touches the committed payload region.
-/
import MvModel.Crash
import MvModel.Emit
namespace Mv.Crash
open Mv.Disk Mv.Emit

/-- recovery run `ws` on `img` is crash-safe: after every prefix of its writes (process crash), a
    later recovery shows the same frames as one uninterrupted recovery of `img` -/
def CrashSafeRecovery (env : Env) (g : Geo) (img : List Cell) (ws : List (Sys Cell)) : Prop :=
  ∀ k, (recover env g (applyAll img (ws.take k))).logical = (recover env g img).logical

/-- `ws` is what an uninterrupted in-place recovery of `img` writes: an instance of the recorded
    protocol whose completed image shows the recovered frames with nothing left to replay -/
structure IsRecoveryRun (env : Env) (g : Geo) (img : List Cell) (ws : List (Sys Cell)) : Prop where
  shape : ∃ sentOff sent payloads truncTo segments growTo tocOff toc footer h1 sketch toc2 h2,
    ws = recoverProto 0 sentOff sent payloads truncTo segments growTo tocOff toc footer h1 sketch toc2 h2
  needed : ∃ fs n v c, recover env g img = .ok fs (n + 1) v c
  complete : (recover env g (applyAll img ws)).logical = (recover env g img).logical
  settled : ∃ fs v c, recover env g (applyAll img ws) = .ok fs 0 v c

/-- the crash-safety clause of C04 at full strength -/
def C04_full : Prop :=
  ∀ (env : Env) (g : Geo) (img : List Cell) (ws : List (Sys Cell)),
    IsRecoveryRun env g img ws → CrashSafeRecovery env g img ws

/-! ### toy instance: header 2 cells, footer 2, record header 1; log region of 6 cells -/

def tg : Geo := { hdrSize := 2, footSize := 2, recHdr := 1, zeroProbe := 1 }

/-- objects: 1 = header (TOC at 10, log of 6, checkpoint 0); 2 = header after `rebuild_indexes`
    (TOC at 12, STILL checkpoint 0); 3 = final header (checkpoint 1); 5 = log record seq 1 inserting
    payload 20 (2 cells); 10 = committed payload; 30/31 = committed TOC/footer; 32/33 = new TOC/footer -/
def tenv : Env := fun i =>
  if i = 1 then some (.hdr { footerOff := 10, walSize := 6, walSeq := 0 })
  else if i = 2 then some (.hdr { footerOff := 12, walSize := 6, walSeq := 0 })
  else if i = 3 then some (.hdr { footerOff := 12, walSize := 6, walSeq := 1 })
  else if i = 5 then some (.wrec 1 3 (.insert { sum := 20, len := 2 }))
  else if i = 30 then some (.toc { len := 3, frames := [{ off := 8, len := 2, sum := 10, status := 0 }], segs := [] })
  else if i = 31 then some (.foot 30 3)
  else if i = 32 then some (.toc { len := 4, frames := [{ off := 8, len := 2, sum := 10, status := 0 },
                                                        { off := 10, len := 2, sum := 20, status := 0 }], segs := [] })
  else if i = 33 then some (.foot 32 4)
  else none

/-- committed file with one pending record:
    [hdr 0-1][record 2-4][zeros 5-7][payload 8-9][TOC 10-12][footer 13-14] -/
def timg : List Cell :=
  objCells 1 2 ++ objCells 5 3 ++ zeroCells 3 ++ objCells 10 2 ++ objCells 30 3 ++ objCells 31 2

/-- what `recover_wal` writes on it (instance of `Emit.recoverProto`) -/
def tws : List (Sys Cell) :=
  recoverProto 0 5 (zeroCells 1) [(10, objCells 20 2)] (some 12) [] none 12 (objCells 32 4) (objCells 33 2)
    (objCells 2 2) [] none (objCells 3 2)

theorem toy_is_recovery_run : IsRecoveryRun tenv tg timg tws := by
  refine ⟨⟨5, zeroCells 1, [(10, objCells 20 2)], some 12, [], none, 12, objCells 32 4, objCells 33 2,
           objCells 2 2, [], none, objCells 3 2, rfl⟩, ?_, ?_, ?_⟩
  · exact ⟨[{ status := 0, sum := 10, readable := true }, { status := 0, sum := 20, readable := true }], 0, false, 1,
           by decide⟩
  · decide
  · exact ⟨[{ status := 0, sum := 10, readable := true }, { status := 0, sum := 20, readable := true }], false, 2,
           by decide⟩

/-- the uninterrupted recovery: the committed frame and the replayed one, both readable -/
example : recover tenv tg timg
    = .ok [{ status := 0, sum := 10, readable := true }, { status := 0, sum := 20, readable := true }] 1 false 1 := by
  decide

/-- crash after the first replayed payload write (prefix 3): the payload went over the old TOC, the
    header still points there, no valid footer is left — `open` fails -/
theorem C04_recover_counterexample_toc :
    recover tenv tg (applyAll timg (tws.take 3)) = .fail .toc := by decide

/-- crash after the first header write (prefix 9): new TOC in place, header still carries the OLD
    checkpoint — the record is replayed a second time: three frames instead of two -/
theorem C04_recover_counterexample_dup :
    recover tenv tg (applyAll timg (tws.take 9))
      = .ok [{ status := 0, sum := 10, readable := true }, { status := 0, sum := 20, readable := true },
             { status := 0, sum := 20, readable := true }] 1 false 2 := by decide

theorem C04_counterexample : ¬ C04_full := by
  intro h
  have := h tenv tg timg tws toy_is_recovery_run 3
  revert this
  decide

/-- **reopening a recovered file changes no frame**: `recover` is a function of the image, and an
    image with nothing left to replay shows exactly the frames of its TOC — a second `open` of the
    file an uninterrupted recovery produced shows the same frames (toy instance of the protocol; the
    harness checks the same on every recovered real file). -/
theorem C04_reopen_stable :
    (recover tenv tg (applyAll timg tws)).logical = (recover tenv tg timg).logical ∧
    ∃ fs v c, recover tenv tg (applyAll timg tws) = .ok fs 0 v c :=
  ⟨toy_is_recovery_run.complete, toy_is_recovery_run.settled⟩

/-! ### what does hold: the in-place recovery never touches the committed payload region -/

section Preserved
variable {β : Type}

/-- a syscall that leaves the cells `[H, E)` alone: a write at or above `E`, a write inside the first
    `H` cells (header, log region), a truncation to at least `E`, an fsync -/
def Above (E H : Nat) : Sys β → Prop
  | .pwrite _ off w => E ≤ off ∨ off + w.length ≤ H
  | .ftruncate _ n => E ≤ n
  | _ => True

instance (E H : Nat) (s : Sys β) : Decidable (Above E H s) := by
  cases s <;> simp only [Above] <;> infer_instance

theorem padTo_take (z : β) (b : List β) (n E : Nat) (hE : E ≤ b.length) : (padTo z b n).take E = b.take E := by
  simp [padTo, List.take_append_of_le_length hE]

theorem contentStep_above (z : β) (E H : Nat) (hH : H ≤ E) (b : List β) (hE : E ≤ b.length) (s : Sys β)
    (hs : Above E H s) :
    E ≤ (contentStep z b s).length ∧ ((contentStep z b s).take E).drop H = (b.take E).drop H := by
  cases s with
  | pwrite i off w =>
    simp only [contentStep]
    rcases hs with h | h
    · -- above E
      have hl : off + w.length ≤ (padTo z b (off + w.length)).length := by simp [padTo]; omega
      have hto : ((padTo z b (off + w.length)).take off).length = off := by simp; omega
      constructor
      · simp [pwriteL]; omega
      · unfold pwriteL
        rw [List.append_assoc, List.take_append_of_le_length (by omega), List.take_take,
            Nat.min_eq_left h, padTo_take z b _ E hE]
    · -- inside the header
      have hle : off + w.length ≤ b.length := by omega
      have hp : padTo z b (off + w.length) = b := by
        have : off + w.length - b.length = 0 := by omega
        simp [padTo, this]
      have hlen : (pwriteL z b off w).length = b.length := by
        unfold pwriteL; rw [hp]; simp; omega
      constructor
      · omega
      · rw [List.drop_take, List.drop_take]
        congr 1
        unfold pwriteL
        rw [hp]
        have hx : (b.take off ++ w).length = off + w.length := by simp; omega
        have e : H = (b.take off ++ w).length + (H - (off + w.length)) := by omega
        rw [e, ← List.drop_drop, List.drop_left, List.drop_drop]
        congr 1
        omega
  | ftruncate i n =>
    simp only [contentStep, truncL]
    have hn : E ≤ n := hs
    constructor
    · simp [padTo]; omega
    · have : (padTo z (b.take n) n).take E = b.take E := by
        rw [padTo_take z _ _ E (by simp; omega), List.take_take, Nat.min_eq_left hn]
      rw [this]
  | create a i => exact ⟨hE, rfl⟩
  | fsync i => exact ⟨hE, rfl⟩
  | rename a c => exact ⟨hE, rfl⟩
  | unlink a => exact ⟨hE, rfl⟩
  | fsyncDir => exact ⟨hE, rfl⟩

/-- **C04, partial** — for ANY list of in-place syscalls that stay at or above `E` (or inside the
    header) and EVERY prefix: the cells `[H, E)` of the file are unchanged.  With `H` = header size and
    `E` = end of the committed payload region this is what `recover_wal` does (replayed payloads at
    `data_end ≥ E`, truncation to `max(footer_offset, payload_end) ≥ E`, segments / TOC / footer
    behind that, header rewrites in `[0, H)`): an interrupted recovery can destroy the TOC, never a
    committed payload or the log region — the data needed to rebuild stays on disk. -/
theorem C04_payloads_preserved (z : β) (E H : Nat) (hH : H ≤ E) :
    ∀ (ws : List (Sys β)) (b : List β), E ≤ b.length → (∀ s ∈ ws, Above E H s) →
      ∀ k, (((ws.take k).foldl (contentStep z) b).take E).drop H = (b.take E).drop H
  | [], b, _, _, k => by simp
  | s :: ws, b, hE, h, 0 => by simp
  | s :: ws, b, hE, h, k+1 => by
    have hs := contentStep_above z E H hH b hE s (h s (by simp))
    have ih := C04_payloads_preserved z E H hH ws (contentStep z b s) hs.1 (fun x hx => h x (by simp [hx])) k
    simp only [List.take_succ_cons, List.foldl_cons]
    rw [ih, hs.2]

/-- the toy recovery is such a list (H = 8 = end of header + log region, E = 10 = end of the committed payloads) -/
example : ∀ s ∈ tws, Above 10 8 s := by decide

end Preserved

end Mv.Crash
