/-
  C06 — Frame identity is dense, ordered, predictable and stable.

  Built on the Core refinement (MvProps/CoreLemmas.lean, MvProps/C01.lean).  All theorems hold for every
  history of model operations (any length, any interleaving of put / update / delete / commit /
  drop+open / crash+open / batch / skip-index commit / finalize / vacuum / doctor / ticket, arbitrary
  automatic-checkpoint points and other trace inputs).
-/
import MvProps.C01
namespace Mv.Core

/-- ids are positions -/
def DenseQ (S : Spec) : Prop := ∀ (i : Nat) (f : SFrame), S[i]? = some f → f.id = i

theorem denseQ_modify (S : Spec) (t : Nat) (g : SFrame → SFrame) (hg : ∀ f, (g f).id = f.id) (h : DenseQ S) :
    DenseQ (S.modify t g) := by
  intro i f hf
  rw [List.getElem?_modify] at hf
  cases hs : S[i]? with
  | none => rw [hs] at hf; cases hf
  | some f0 =>
    rw [hs] at hf
    have hf' : (if t = i then g f0 else f0) = f := by simpa using hf
    rw [← hf']
    split
    · rw [hg]; exact h i f0 hs
    · exact h i f0 hs

theorem denseQ_append (S T : Spec) (h : DenseQ S) (hT : ∀ j f, T[j]? = some f → f.id = S.length + j) :
    DenseQ (S ++ T) := by
  intro i f hf
  by_cases hi : i < S.length
  · rw [List.getElem?_append_left hi] at hf; exact h i f hf
  · rw [List.getElem?_append_right (by omega)] at hf
    have := hT (i - S.length) f hf
    omega

/-- chunk `j` of the plan sits `j` places after the first chunk, carries `chunk_index = i + j`, the
    chunk role and the chunk's content -/
theorem specChunks_get (a : PutArgs) (doc n : Nat) (cs : List ChunkArg) (i j : Nat) (f : SFrame)
    (h : (specChunks a doc n cs i)[j]? = some f) :
    f.id = doc + 1 + i + j ∧ f.chunkIndex = some (i + j) ∧ f.role = Role.chunk ∧ f.chunkCount = some n ∧
      (cs[j]?).map (·.content) = some f.content := by
  induction cs generalizing i j with
  | nil => simp [specChunks] at h
  | cons c cs ih =>
    cases j with
    | zero =>
      simp only [specChunks, List.getElem?_cons_zero, Option.some.injEq] at h
      subst h; simp
    | succ j =>
      simp only [specChunks, List.getElem?_cons_succ] at h
      obtain ⟨h1, h2, h3, h4, h5⟩ := ih (i + 1) j h
      refine ⟨by omega, by rw [h2]; congr 1; omega, h3, h4, by simpa using h5⟩

theorem specChunks_length (a : PutArgs) (doc n : Nat) (cs : List ChunkArg) (i : Nat) :
    (specChunks a doc n cs i).length = cs.length := by
  induction cs generalizing i with
  | nil => rfl
  | cons c cs ih => simp [specChunks, ih]

theorem denseQ_docChunks (S S' : Spec) (hl : S'.length = S.length) (h : DenseQ S') (a : PutArgs)
    (sup : Option Nat) (c : String) :
    DenseQ (S' ++ specDoc a S.length sup c :: specChunks a S.length a.chunks.length a.chunks 0) := by
  apply denseQ_append _ _ h
  intro j f hf
  cases j with
  | zero => simp only [List.getElem?_cons_zero, Option.some.injEq] at hf; subst hf; simp [specDoc, hl]
  | succ j =>
    simp only [List.getElem?_cons_succ] at hf
    have := (specChunks_get a S.length _ _ 0 j f hf).1
    omega

theorem denseQ_specStep (S : Spec) (op : Op) (h : DenseQ S) : DenseQ (specStep S op) := by
  cases op with
  | create => intro i f hf; simp [specStep] at hf
  | put a t => exact denseQ_docChunks S S rfl h a none a.content
  | update id u t =>
    simp only [specStep, specUpdate]
    split
    · exact h
    · rename_i old _
      exact denseQ_docChunks S (S.modify id (SFrame.markSup S.length)) (by simp)
        (denseQ_modify S id _ (fun _ => rfl) h) (specInherit old u) (some id) (specInherit old u).content
  | delete id t => exact denseQ_modify S id _ (fun _ => rfl) h
  | commit _ => exact h
  | reopen _ _ => exact h
  | crash _ => exact h
  | beginBatch _ _ => exact h
  | endBatch => exact h
  | commitSkipIndexes => exact h
  | finalizeIndexes _ => exact h
  | vacuum _ _ => exact h
  | doctor _ _ _ _ _ _ _ _ => exact h
  | ticket _ _ _ _ => exact h

theorem denseQ_specRun (S : Spec) (tr : List (Op × Out)) (h : DenseQ S) : DenseQ (specRun S tr) := by
  induction tr generalizing S with
  | nil => exact h
  | cons x rest ih =>
    obtain ⟨op, out⟩ := x
    simp only [specRun]
    apply ih
    split
    · exact denseQ_specStep S op h
    · exact h

/-- **C06 (dense).**  In every reachable state the committed frame at position `i` has id `i`
    (ids are `0..n-1`), and so has every frame of the abstract state (committed + pending). -/
theorem C06_ids_dense (ops : List Op) (i : Nat) (f : Frame) (h : (run Mem.create ops).frames[i]? = some f) :
    f.id = i := by
  have hlt : i < (run Mem.create ops).frames.length := (List.getElem?_eq_some_iff.mp h).1
  have hp := committed_prefix (run Mem.create ops) i hlt
  rw [List.getElem?_map, h, C01_refines] at hp
  cases hs : (specRun [] (trace Mem.create ops))[i]? with
  | none => rw [hs] at hp; simp at hp
  | some g =>
    rw [hs] at hp
    have hd := denseQ_specRun [] (trace Mem.create ops) (fun i f hf => by simp at hf) i g hs
    have : (view f).ident.id = g.ident.id := by
      simp only [Option.map_some, Option.some.injEq] at hp; rw [hp]
    exact this.trans hd

theorem C06_abs_dense (ops : List Op) : DenseQ (abs (run Mem.create ops)) := by
  rw [C01_refines]; exact denseQ_specRun [] _ (fun i f hf => by simp at hf)

/-- **C06 (predictable).**  `next_frame_id()` equals the number of acknowledged inserts, i.e. the id
    the next document will get — in every reachable state, with or without pending records. -/
theorem C06_next_frame_id (ops : List Op) :
    (run Mem.create ops).nextFrameId = (specRun [] (trace Mem.create ops)).length := by
  rw [← C01_refines, abs_length _ (run_create_refines ops).1]

/-- **C06 (predictable, per put).**  When a put is acknowledged, the frame that appears at index
    `next_frame_id()` (read BEFORE the put) is that put's document, and its chunks follow directly:
    chunk `j` gets id `next_frame_id() + 1 + j`, `chunk_index = j`, role chunk. -/
theorem C06_put_gets_next_id (ops : List Op) (a : PutArgs) (t : Trace)
    (hack : (step (run Mem.create ops) (.put a t)).2.isAck = true) :
    let m := run Mem.create ops
    let S' := abs (step m (.put a t)).1
    S'[m.nextFrameId]? = some (specDoc a m.nextFrameId none a.content) ∧
    S'.length = m.nextFrameId + 1 + a.chunks.length ∧
    ∀ j f, S'[m.nextFrameId + 1 + j]? = some f →
      f.id = m.nextFrameId + 1 + j ∧ f.chunkIndex = some j ∧ f.role = Role.chunk ∧
        (a.chunks[j]?).map (·.content) = some f.content := by
  intro m S'
  have hi := (run_create_refines ops).1
  have hS : S' = specPut (abs m) a := by
    have := core_sim m (.put a t) hi
    rw [hack] at this
    simpa [specStep] using this
  have hn : m.nextFrameId = (abs m).length := (abs_length m hi).symm
  rw [hS, hn]
  unfold specPut
  refine ⟨by simp, by simp [specChunks_length]; omega, ?_⟩
  intro j f hf
  rw [List.getElem?_append_right (by omega)] at hf
  have hidx : (abs m).length + 1 + j - (abs m).length = j + 1 := by omega
  rw [hidx, List.getElem?_cons_succ] at hf
  obtain ⟨h1, h2, h3, _, h5⟩ := specChunks_get a (abs m).length _ _ 0 j f hf
  exact ⟨by omega, by simpa using h2, h3, h5⟩

/-! ### Stability -/

theorem specStep_ident (S : Spec) (op : Op) (hne : op ≠ Op.create) (i : Nat) (hi : i < S.length) :
    ((specStep S op)[i]?).map SFrame.ident = (S[i]?).map SFrame.ident := by
  cases op with
  | create => exact absurd rfl hne
  | put a t => simp only [specStep, specPut]; rw [List.getElem?_append_left hi]
  | update id u t =>
    simp only [specStep, specUpdate]
    split
    · rfl
    · rw [List.getElem?_append_left (by simpa using hi)]
      exact getElem?_modify_ident S id i _ (markSup_ident _)
  | delete id t => exact getElem?_modify_ident S id i _ markDel_ident
  | commit _ => rfl
  | reopen _ _ => rfl
  | crash _ => rfl
  | beginBatch _ _ => rfl
  | endBatch => rfl
  | commitSkipIndexes => rfl
  | finalizeIndexes _ => rfl
  | vacuum _ _ => rfl
  | doctor _ _ _ _ _ _ _ _ => rfl
  | ticket _ _ _ _ => rfl

theorem specStep_length_le (S : Spec) (op : Op) (hne : op ≠ Op.create) : S.length ≤ (specStep S op).length := by
  cases op with
  | create => exact absurd rfl hne
  | put a t => simp only [specStep, specPut, List.length_append, List.length_cons]; omega
  | update id u t =>
    simp only [specStep, specUpdate]
    split
    · exact Nat.le_refl _
    · simp only [List.length_append, List.length_cons, List.length_modify]; omega
  | delete id t => simp [specStep, specDelete]
  | commit _ => exact Nat.le_refl _
  | reopen _ _ => exact Nat.le_refl _
  | crash _ => exact Nat.le_refl _
  | beginBatch _ _ => exact Nat.le_refl _
  | endBatch => exact Nat.le_refl _
  | commitSkipIndexes => exact Nat.le_refl _
  | finalizeIndexes _ => exact Nat.le_refl _
  | vacuum _ _ => exact Nat.le_refl _
  | doctor _ _ _ _ _ _ _ _ => exact Nat.le_refl _
  | ticket _ _ _ _ => exact Nat.le_refl _

/-- one operation never changes the identity of an id that is already assigned (acknowledged) -/
theorem step_ident (m : Mem) (op : Op) (hinv : Inv m) (hne : op ≠ Op.create) (i : Nat) (hi : i < (abs m).length) :
    ((abs (step m op).1)[i]?).map SFrame.ident = ((abs m)[i]?).map SFrame.ident ∧
      (abs m).length ≤ (abs (step m op).1).length := by
  rw [core_sim m op hinv]
  split
  · exact ⟨specStep_ident _ op hne i hi, specStep_length_le _ op hne⟩
  · exact ⟨rfl, Nat.le_refl _⟩

/-- **C06 (stable).**  An id, once assigned — i.e. from the moment the insert is acknowledged, even
    before it is committed — names the same frame (same URI, content, timestamp, kind, track, tags,
    labels, role, supersedes, chunk position) after any further operations: commits, reopen, crash
    recovery, delete, update, vacuum, doctor … (only `status` / `superseded_by` may change). -/
theorem C06_id_stable (m : Mem) (more : List Op) (hinv : Inv m) (hne : ∀ op ∈ more, op ≠ Op.create)
    (i : Nat) (hi : i < (abs m).length) :
    ((abs (run m more))[i]?).map SFrame.ident = ((abs m)[i]?).map SFrame.ident := by
  induction more generalizing m with
  | nil => rfl
  | cons op rest ih =>
    obtain ⟨h1, h2⟩ := step_ident m op hinv (hne op (by simp)) i hi
    show ((abs (run (step m op).1 rest))[i]?).map SFrame.ident = _
    rw [ih (step m op).1 (inv_step m op hinv) (fun o ho => hne o (by simp [ho])) (Nat.lt_of_lt_of_le hi h2), h1]

/-- **C06 (stable, committed frames).**  If id `i` is a committed frame both before and after a
    sequence of operations, it is the same frame. -/
theorem C06_committed_id_stable (ops more : List Op) (hne : ∀ op ∈ more, op ≠ Op.create) (i : Nat)
    (h1 : i < (run Mem.create ops).frames.length) (h2 : i < (run (run Mem.create ops) more).frames.length) :
    (((run (run Mem.create ops) more).frames.map view)[i]?).map SFrame.ident =
      (((run Mem.create ops).frames.map view)[i]?).map SFrame.ident := by
  have hinv := (run_create_refines ops).1
  rw [committed_prefix _ i h1, committed_prefix _ i h2]
  apply C06_id_stable _ more hinv hne i
  rw [abs_length _ hinv]
  exact Nat.lt_of_lt_of_le h1 (Nat.le_add_right _ _)

/-! ### Non-vacuity -/

example : (run Mem.create exHistory).nextFrameId = 7 ∧ (run Mem.create exHistory).frames.length = 6 := by decide
example : (step (run Mem.create exHistory) (.put exDoc {})).2.isAck = true := by decide
example : ((abs (step (run Mem.create exHistory) (.put exDoc {})).1).map (fun f => (f.id, f.role, f.chunkIndex))).drop 7
    = [(7, .document, none), (8, .chunk, some 0), (9, .chunk, some 1)] := by decide
example : ∀ op ∈ [Op.vacuum 90 95, Op.doctor true true false true 95 96 97 98, Op.delete 4 {}, Op.reopen 99 99],
    op ≠ Op.create := by
  intro op h
  simp only [List.mem_cons, List.not_mem_nil, or_false] at h
  rcases h with rfl | rfl | rfl | rfl <;> (intro h; cases h)

end Mv.Core
